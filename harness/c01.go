package main

import (
	"fmt"
	"math/rand"
	"strings"

	casbin "github.com/casbin/casbin/v2"
	"github.com/casbin/casbin/v2/model"
)

// ---------------------------------------------------------------------------------------
// C01: Enforce / EnforceEx / EnforceWithMatcher / BatchEnforce of the real enforcer against
// the extracted Coq model (coq/Enforce.v) on identical cases, plus the property's own
// predicate on the implementation alone: the decision of every error-free case equals the
// one of the independent reference evaluator (c01_ref.go).
// ---------------------------------------------------------------------------------------

var c01Effects = map[string]string{
	"ao": "some(where (p.eft == allow))",
	"do": "!some(where (p.eft == deny))",
	"ad": "some(where (p.eft == allow)) && !some(where (p.eft == deny))",
	"pr": "priority(p.eft) || deny",
	"sp": "subjectPriority(p.eft) || deny",
	"un": "some(where (p.eft == allow)) || deny",
}
var c01EffectTags = []string{"ao", "do", "ad", "pr", "sp"}

type c01RDef struct{ key, val string }
type c01PDef struct {
	key, val string
	rules    [][]string
}
type c01EDef struct{ key, tag string }
type c01MDef struct {
	key string
	ast *c01E
	st  c01Style
	raw string // when set, the literal text handed to AddDef (otherwise printed from ast)
}
type c01GRules struct {
	key   string
	count int
	rules [][]string
}
type c01Req struct {
	ctx  []string // nil or the four names r p e m
	vals []c01V
}
type c01ParseEnt struct {
	text string
	ast  *c01E
}

type c01Case struct {
	id       string
	fam      string
	disabled bool
	r        []c01RDef
	p        []c01PDef
	e        []c01EDef
	m        []c01MDef
	g        []c01GRules
	extra    []c01ParseEnt // eval sub-rules: compiled text -> AST
	wm       string        // text handed to EnforceWithMatcher
	wmAst    *c01E         // its AST (nil: it does not parse)
	reqs     []c01Req
	nontriv  bool
	mode     string // how the real enforcer is brought to the case's rules: "" = seq | load | inter | batch | mixed (c01_build.go)
}

func c01Tokens(key, val string) []string {
	parts := strings.Split(val, ",")
	for i := range parts {
		parts[i] = key + "_" + strings.TrimSpace(parts[i])
	}
	return parts
}

func c01UnderscoreStyle(st c01Style) c01Style {
	st.dot = false
	st.br = false
	return st
}

func (cs *c01Case) mText(md c01MDef) string {
	if md.raw != "" {
		return md.raw
	}
	return c01Print(md.ast, md.st)
}

// the text that the enforcer compiles for matcher definition md (what Model.AddDef stores)
func (cs *c01Case) mStored(md c01MDef) string {
	if md.raw != "" {
		s := c01Prep(md.raw)
		if strings.Contains(s, "in") {
			s = strings.NewReplacer("[", "(", "]", ")").Replace(s)
		}
		return s
	}
	return c01Print(md.ast, c01UnderscoreStyle(md.st))
}

// RemoveComments(EscapeAssertion(text)), written independently of casbin
func c01Prep(text string) string {
	s := c01EscapeRef(text)
	if i := strings.Index(s, "#"); i >= 0 {
		s = strings.TrimSpace(s[:i])
	}
	return s
}

func c01ReqSexp(rq c01Req) string {
	items := []string{"-"}
	if rq.ctx != nil {
		items[0] = QL(rq.ctx)
	}
	for _, v := range rq.vals {
		items = append(items, v.sexp())
	}
	return L(items...)
}

func (rq c01Req) goArgs() []interface{} {
	var out []interface{}
	if rq.ctx != nil {
		out = append(out, casbin.EnforceContext{RType: rq.ctx[0], PType: rq.ctx[1], EType: rq.ctx[2], MType: rq.ctx[3]})
	}
	for _, v := range rq.vals {
		out = append(out, v.toGo())
	}
	return out
}

func c01FindRule(rules [][]string, ex []string) int {
	if len(ex) == 0 {
		return -1
	}
	for i, r := range rules {
		if len(r) == len(ex) {
			same := true
			for j := range r {
				if r[j] != ex[j] {
					same = false
				}
			}
			if same {
				return i
			}
		}
	}
	return -2
}

func c01Run(c *Ctx, cs *c01Case) {
	// ----- build the real enforcer
	m := model.NewModel()
	for _, d := range cs.r {
		m.AddDef("r", d.key, d.val)
	}
	for _, d := range cs.p {
		m.AddDef("p", d.key, d.val)
	}
	for _, d := range cs.g {
		m.AddDef("g", d.key, strings.TrimSuffix(strings.Repeat("_, ", d.count), ", "))
	}
	for _, d := range cs.e {
		m.AddDef("e", d.key, c01Effects[d.tag])
	}
	for _, d := range cs.m {
		m.AddDef("m", d.key, cs.mText(d))
	}
	// the rules are installed in the way cs.mode says (c01_build.go); whatever the way, the
	// decisions must be those of the model, which depend on the listed order of the p rules and
	// on the SET of links only
	e := c01Construct(c, cs, m)
	for _, d := range cs.p {
		got, _ := e.GetNamedPolicy(d.key)
		if rulesKey(got) != rulesKey(d.rules) {
			c.Direct(cs.id, "stored policy order differs from insertion order (construction mode "+cs.modeName()+")", rulesKey(d.rules))
		}
	}
	for _, d := range cs.g {
		got, _ := e.GetNamedGroupingPolicy(d.key)
		if sortedRulesKey(got) != sortedRulesKey(d.rules) {
			c.Direct(cs.id, "listed grouping rules of "+d.key+" differ from the installed ones (construction mode "+cs.modeName()+")", rulesKey(d.rules))
		}
	}
	if cs.disabled {
		e.EnableEnforce(false)
	}

	// ----- reference evaluator + parse table
	rf := &c01Ref{gs: map[string]*c01RefG{}, parse: map[string]*c01E{}, oracle: map[string]string{}}
	for _, d := range cs.g {
		g := &c01RefG{count: d.count, edges: map[string]map[string][]string{}}
		for _, r := range d.rules {
			dom := ""
			if d.count > 2 {
				dom = r[2]
			}
			if g.edges[dom] == nil {
				g.edges[dom] = map[string][]string{}
			}
			g.edges[dom][r[0]] = append(g.edges[dom][r[0]], r[1])
		}
		rf.gs[d.key] = g
	}
	var parseItems []string
	addParse := func(text string, ast *c01E) {
		if _, ok := rf.parse[text]; ok || ast == nil {
			return
		}
		rf.parse[text] = ast
		parseItems = append(parseItems, L(Q(text), c01Sexp(ast)))
	}
	for _, d := range cs.m {
		addParse(cs.mStored(d), d.ast)
	}
	for _, pe := range cs.extra {
		addParse(pe.text, pe.ast)
	}
	if cs.wmAst != nil {
		addParse(c01Prep(cs.wm), cs.wmAst)
	}

	// ----- run the implementation
	type obs struct{ step, val string }
	var out []obs
	rdef := func(key string) []string {
		for _, d := range cs.r {
			if d.key == key {
				return c01Tokens(d.key, d.val)
			}
		}
		return nil
	}
	pdef := func(key string) *c01PDef {
		for i := range cs.p {
			if cs.p[i].key == key {
				return &cs.p[i]
			}
		}
		return nil
	}
	mdef := func(key string) *c01MDef {
		for i := range cs.m {
			if cs.m[i].key == key {
				return &cs.m[i]
			}
		}
		return nil
	}
	etag := func(key string) string {
		for _, d := range cs.e {
			if d.key == key {
				return d.tag
			}
		}
		return ""
	}
	var batch [][]interface{}
	for k, rq := range cs.reqs {
		args := rq.goArgs()
		batch = append(batch, rq.goArgs())
		d1, err1 := e.Enforce(args...)
		d2, ex, err2 := e.EnforceEx(rq.goArgs()...)
		d3, err3 := e.EnforceWithMatcher(cs.wm, rq.goArgs()...)
		pk := "p"
		if rq.ctx != nil {
			pk = rq.ctx[1]
		}
		exi := -1
		if pd := pdef(pk); pd != nil {
			exi = c01FindRule(pd.rules, ex)
		} else if len(ex) > 0 {
			exi = -2
		}
		out = append(out, obs{fmt.Sprintf("%d.enf", k), fmt.Sprintf("dec=%s err=%s", B(d1), B(err1 != nil))})
		out = append(out, obs{fmt.Sprintf("%d.ex", k), fmt.Sprintf("dec=%s err=%s ex=%d", B(d2), B(err2 != nil), exi)})
		out = append(out, obs{fmt.Sprintf("%d.wm", k), fmt.Sprintf("dec=%s err=%s", B(d3), B(err3 != nil))})
		if err1 != nil && d1 {
			c.Direct(cs.id, "Enforce returned true together with an error", c01ReqSexp(rq))
		}
		// the property's own predicate: error-free cases decide as the reference evaluator does
		if !cs.disabled {
			ctx := []string{"r", "p", "e", "m"}
			if rq.ctx != nil {
				ctx = rq.ctx
			}
			rt, pd, md, et := rdef(ctx[0]), pdef(ctx[1]), mdef(ctx[3]), etag(ctx[2])
			if rt != nil && pd != nil && md != nil && md.ast != nil && et != "" {
				rf.rtoks, rf.ptoks = rt, c01Tokens(pd.key, pd.val)
				stored := cs.mStored(*md)
				rf.hasEval = strings.Contains(stored, "eval(")
				usesP := strings.Contains(stored, pd.key+"_")
				eftIdx := c01TokIndex(pd.key+"_eft", rf.ptoks)
				if dec, ok := rf.decide(md.ast, usesP, et, eftIdx, pd.rules, rq.vals); ok {
					if err1 != nil || d1 != dec {
						c.Direct(cs.id, fmt.Sprintf("Enforce=(%v,err=%v) but the reference PERM evaluation gives %v", d1, err1 != nil, dec), c01ReqSexp(rq))
					}
					if err2 != nil || d2 != dec {
						c.Direct(cs.id, fmt.Sprintf("EnforceEx=(%v,err=%v) but the reference PERM evaluation gives %v", d2, err2 != nil, dec), c01ReqSexp(rq))
					}
					if dec {
						cs.nontriv = true
					}
					c.Count("errorfree")
				} else {
					c.Count("not-errorfree")
				}
				// the custom matcher may evaluate other oracle calls
				if cs.wmAst != nil && cs.wmAst != md.ast {
					s := c01Prep(cs.wm)
					save := rf.hasEval
					rf.hasEval = strings.Contains(s, "eval(")
					rf.decide(cs.wmAst, strings.Contains(s, pd.key+"_"), et, eftIdx, pd.rules, rq.vals)
					rf.hasEval = save
				}
			}
		}
	}
	br, berr := e.BatchEnforce(batch)
	bs := make([]byte, len(br))
	for i, b := range br {
		bs[i] = '0'
		if b {
			bs[i] = '1'
		}
	}
	out = append(out, obs{"batch", fmt.Sprintf("res=%s err=%s", string(bs), B(berr != nil))})

	// ----- the case for the model
	var rs, ps, es, ms, gs, os, qs []string
	for _, d := range cs.r {
		rs = append(rs, L(Q(d.key), Q(d.val)))
	}
	for _, d := range cs.p {
		ps = append(ps, L(Q(d.key), Q(d.val), QLL(d.rules)))
	}
	for _, d := range cs.e {
		es = append(es, L(Q(d.key), Q(c01Effects[d.tag])))
	}
	for _, d := range cs.m {
		ms = append(ms, L(Q(d.key), Q(cs.mText(d))))
	}
	for _, d := range cs.g {
		gs = append(gs, L(Q(d.key), I(d.count), QLL(d.rules)))
	}
	for _, k := range rf.oracleOrder {
		os = append(os, L(k, rf.oracle[k]))
	}
	for _, rq := range cs.reqs {
		qs = append(qs, c01ReqSexp(rq))
	}
	c.Case(cs.id, strings.Join([]string{
		B(!cs.disabled), L(rs...), L(ps...), L(es...), L(ms...), L(gs...),
		L(parseItems...), L(os...), Q(cs.wm), L(qs...)}, " "))
	for _, o := range out {
		c.Obs(cs.id, o.step, o.val)
	}
	c.Count("fam=" + cs.fam)
	c.Count("construction=" + cs.modeName())
	c.Count(fmt.Sprintf("requests=%d", 10*(len(cs.reqs)/10)))
	if cs.nontriv {
		c.NonTrivial(cs.id)
	}
}

// ---------- universes ----------
var (
	c01Subs = []string{"alice", "bob", "admin", "user"}
	c01Objs = []string{"data1", "data2"}
	c01Acts = []string{"read", "write"}
	c01Doms = []string{"d1", "d2"}
)

func c01StrVals(ss ...string) []c01V {
	out := make([]c01V, len(ss))
	for i, s := range ss {
		out[i] = c01S(s)
	}
	return out
}

// every request over the per-position universes, plus wrong arity and non-string values
func c01AllReqs(r *rand.Rand, ctx []string, pos [][]c01V, extras bool) []c01Req {
	var out []c01Req
	idx := make([]int, len(pos))
	for {
		vals := make([]c01V, len(pos))
		for i := range pos {
			vals[i] = pos[i][idx[i]]
		}
		out = append(out, c01Req{ctx, vals})
		i := len(pos) - 1
		for i >= 0 {
			idx[i]++
			if idx[i] < len(pos[i]) {
				break
			}
			idx[i] = 0
			i--
		}
		if i < 0 {
			break
		}
	}
	if extras && len(pos) > 0 {
		base := out[r.Intn(len(out))].vals
		cp := func() []c01V { return append([]c01V{}, base...) }
		out = append(out, c01Req{ctx, cp()[:len(base)-1]})
		out = append(out, c01Req{ctx, append(cp(), c01S("extra"))})
		odd := []c01V{c01N(5), c01B(true), {k: 'z'}, c01Map(c01F{"Name", c01S("alice")}, c01F{"Age", c01N(30)}),
			c01UserV("alice", 30, "bob"), c01N(0), c01S("")}
		for n := 0; n < 3; n++ {
			v := cp()
			v[r.Intn(len(v))] = odd[r.Intn(len(odd))]
			out = append(out, c01Req{ctx, v})
		}
	}
	return out
}

func c01RandRules(r *rand.Rand, n int, cols [][]string) [][]string {
	seen := map[string]bool{}
	var out [][]string
	for tries := 0; len(out) < n && tries < 20*n+20; tries++ {
		rule := make([]string, len(cols))
		for i, c := range cols {
			rule[i] = c[r.Intn(len(c))]
		}
		k := strings.Join(rule, "\x00")
		if !seen[k] {
			seen[k] = true
			out = append(out, rule)
		}
	}
	return out
}

func c01RandStyle(r *rand.Rand) c01Style {
	return c01Style{dot: r.Intn(4) > 0, full: r.Intn(3) == 0, sq: r.Intn(3) == 0, br: r.Intn(3) == 0}
}

// ---------- model families ----------
type c01Family struct {
	name    string
	rval    string
	pval    string
	gs      []c01GDef
	base    func() *c01E                    // the family's documented matcher
	cols    func(r *rand.Rand) [][]string    // per-column universe of the policy
	gcols   map[string][][]string            // per role definition: universe of the grouping rules
	pos     func(r *rand.Rand) [][]c01V      // per-position universe of the requests
	vocab   c01Vocab
	effects []string                         // effect tags to cross with ("" = allow-override only)
	subRules bool
}

func c01V_(n string) *c01E { return c01Var(n) }

var c01RoleNames = []string{"alice", "bob", "admin", "user", "root"}

func c01Families() []*c01Family {
	strs := []string{"alice", "bob", "admin", "user", "data1", "data2", "read", "write", "d1", "d2", "root", ""}
	spos := func(u ...[]string) func(*rand.Rand) [][]c01V {
		return func(*rand.Rand) [][]c01V {
			out := make([][]c01V, len(u))
			for i := range u {
				out[i] = c01StrVals(u[i]...)
			}
			return out
		}
	}
	fixed := func(u ...[]string) func(*rand.Rand) [][]string {
		return func(*rand.Rand) [][]string { return u }
	}
	efts := []string{"allow", "deny", "allow", "deny", "other", ""}
	aclM := func() *c01E {
		return c01And(c01Eq(c01V_("r_sub"), c01V_("p_sub")), c01Eq(c01V_("r_obj"), c01V_("p_obj")), c01Eq(c01V_("r_act"), c01V_("p_act")))
	}
	fns := []string{"keyMatch", "keyMatch2", "regexMatch", "keyMatch", "globMatch", "keyMatch3"}
	fams := []*c01Family{
		{name: "acl", rval: "sub, obj, act", pval: "sub, obj, act", base: aclM,
			cols: fixed(c01Subs, c01Objs, c01Acts), pos: spos(c01Subs, c01Objs, c01Acts),
			vocab: c01Vocab{strVars: []string{"r_sub", "r_obj", "r_act", "p_sub", "p_obj", "p_act"}, strs: strs, fns: fns}},
		{name: "superuser", rval: "sub, obj, act", pval: "sub, obj, act",
			base: func() *c01E { return c01Bin("||", aclM(), c01Eq(c01V_("r_sub"), c01Str("root"))) },
			cols: fixed(c01Subs, c01Objs, c01Acts), pos: spos(append([]string{"root"}, c01Subs...), c01Objs, c01Acts),
			vocab: c01Vocab{strVars: []string{"r_sub", "r_obj", "r_act", "p_sub", "p_obj", "p_act"}, strs: strs, fns: fns}},
		{name: "acl-no-users", rval: "obj, act", pval: "obj, act",
			base: func() *c01E {
				return c01And(c01Eq(c01V_("r_obj"), c01V_("p_obj")), c01Eq(c01V_("r_act"), c01V_("p_act")))
			},
			cols: fixed(c01Objs, c01Acts), pos: spos(c01Objs, c01Acts),
			vocab: c01Vocab{strVars: []string{"r_obj", "r_act", "p_obj", "p_act"}, strs: strs, fns: fns}},
		{name: "acl-no-resources", rval: "sub, act", pval: "sub, act",
			base: func() *c01E {
				return c01And(c01Eq(c01V_("r_sub"), c01V_("p_sub")), c01Eq(c01V_("r_act"), c01V_("p_act")))
			},
			cols: fixed(c01Subs, c01Acts), pos: spos(c01Subs, c01Acts),
			vocab: c01Vocab{strVars: []string{"r_sub", "r_act", "p_sub", "p_act"}, strs: strs, fns: fns}},
		{name: "rbac", rval: "sub, obj, act", pval: "sub, obj, act", gs: []c01GDef{{"g", 2}},
			base: func() *c01E {
				return c01And(c01Call("g", c01V_("r_sub"), c01V_("p_sub")), c01Eq(c01V_("r_obj"), c01V_("p_obj")), c01Eq(c01V_("r_act"), c01V_("p_act")))
			},
			cols: fixed(c01RoleNames, c01Objs, c01Acts), pos: spos(c01Subs, c01Objs, c01Acts),
			gcols: map[string][][]string{"g": {c01RoleNames, c01RoleNames}},
			vocab: c01Vocab{strVars: []string{"r_sub", "r_obj", "r_act", "p_sub", "p_obj", "p_act"}, strs: strs, fns: fns}},
		{name: "rbac-resource-roles", rval: "sub, obj, act", pval: "sub, obj, act", gs: []c01GDef{{"g", 2}, {"g2", 2}},
			base: func() *c01E {
				return c01And(c01Call("g", c01V_("r_sub"), c01V_("p_sub")), c01Call("g2", c01V_("r_obj"), c01V_("p_obj")), c01Eq(c01V_("r_act"), c01V_("p_act")))
			},
			cols: fixed(c01RoleNames, []string{"data1", "data2", "grp", "grp2"}, c01Acts), pos: spos(c01Subs, c01Objs, c01Acts),
			gcols: map[string][][]string{"g": {c01RoleNames, c01RoleNames}, "g2": {{"data1", "data2", "grp", "grp2"}, {"grp", "grp2", "data1"}}},
			vocab: c01Vocab{strVars: []string{"r_sub", "r_obj", "r_act", "p_sub", "p_obj", "p_act"}, strs: append([]string{"grp"}, strs...), fns: fns}},
		{name: "rbac-domains", rval: "sub, dom, obj, act", pval: "sub, dom, obj, act", gs: []c01GDef{{"g", 3}},
			base: func() *c01E {
				return c01And(c01Call("g", c01V_("r_sub"), c01V_("p_sub"), c01V_("r_dom")), c01Eq(c01V_("r_dom"), c01V_("p_dom")),
					c01Eq(c01V_("r_obj"), c01V_("p_obj")), c01Eq(c01V_("r_act"), c01V_("p_act")))
			},
			cols: fixed(c01RoleNames, c01Doms, c01Objs, c01Acts), pos: spos(c01Subs[:3], c01Doms, c01Objs, c01Acts),
			gcols: map[string][][]string{"g": {c01RoleNames, c01RoleNames, append([]string{"", "d1"}, c01Doms...)}},
			vocab: c01Vocab{strVars: []string{"r_sub", "r_dom", "r_obj", "r_act", "p_sub", "p_dom", "p_obj", "p_act"}, strs: strs, fns: fns}},
		{name: "deny", rval: "sub, obj, act", pval: "sub, obj, act, eft", base: aclM,
			cols: fixed(c01Subs[:2], c01Objs, c01Acts[:1], efts), pos: spos(c01Subs[:3], c01Objs, c01Acts),
			effects: []string{"do", "ad", "ao", "pr", "sp", "un"},
			vocab:   c01Vocab{strVars: []string{"r_sub", "r_obj", "r_act", "p_sub", "p_obj", "p_act", "p_eft"}, strs: append([]string{"allow", "deny"}, strs...), fns: fns}},
		{name: "priority", rval: "sub, obj, act", pval: "sub, obj, act, eft", gs: []c01GDef{{"g", 2}},
			base: func() *c01E {
				return c01And(c01Call("g", c01V_("r_sub"), c01V_("p_sub")), c01Eq(c01V_("r_obj"), c01V_("p_obj")), c01Eq(c01V_("r_act"), c01V_("p_act")))
			},
			cols: fixed(c01RoleNames[:3], c01Objs, c01Acts[:1], efts), pos: spos(c01Subs[:3], c01Objs, c01Acts),
			gcols:   map[string][][]string{"g": {c01RoleNames[:4], c01RoleNames[:4]}},
			effects: []string{"pr", "sp", "ad", "do"},
			vocab:   c01Vocab{strVars: []string{"r_sub", "r_obj", "r_act", "p_sub", "p_obj", "p_act", "p_eft"}, strs: strs, fns: fns}},
		{name: "keymatch", rval: "sub, obj, act", pval: "sub, obj, act",
			base: func() *c01E {
				return c01And(c01Eq(c01V_("r_sub"), c01V_("p_sub")), c01Call("keyMatch", c01V_("r_obj"), c01V_("p_obj")), c01Call("regexMatch", c01V_("r_act"), c01V_("p_act")))
			},
			cols: fixed(c01Subs[:2], []string{"/data/*", "/data/1", "/x*", "*", "/data/:id"}, []string{"read", "(read|write)", "^w.*$", "("}),
			pos:  spos(c01Subs[:2], []string{"/data/1", "/data/2", "/x", ""}, c01Acts),
			vocab: c01Vocab{strVars: []string{"r_sub", "r_obj", "r_act", "p_sub", "p_obj", "p_act"}, strs: []string{"alice", "/data/1", "/data/*", "read", "*", ""},
				fns: []string{"keyMatch", "keyMatch2", "keyMatch3", "keyMatch4", "keyMatch5", "regexMatch", "globMatch", "ipMatch", "keyGet"}}},
	}
	// ABAC: requests carry maps / structs
	abacPos := func(r *rand.Rand) [][]c01V {
		subs := []c01V{
			c01Map(c01F{"Name", c01S("alice")}, c01F{"Age", c01N(30)}),
			c01Map(c01F{"Name", c01S("bob")}, c01F{"Age", c01N(17)}),
			c01UserV("alice", 18, "alice"), c01UserV("bob", 65, "alice"),
			c01S("alice"),
		}
		objs := []c01V{
			c01Map(c01F{"Name", c01S("data1")}, c01F{"Owner", c01S("alice")}),
			c01Map(c01F{"Name", c01S("data2")}, c01F{"Owner", c01S("bob")}, c01F{"Age", c01N(18)}),
			c01ResV("data1", "bob", 18), c01UserV("alice", 18, "alice"),
			c01Map(c01F{"Name", c01S("alice")}, c01F{"Age", c01N(30)}),
			c01Map(c01F{"Owner", c01Map(c01F{"Name", c01S("alice")})}),
		}
		return [][]c01V{subs, objs, c01StrVals(c01Acts...)}
	}
	fams = append(fams,
		&c01Family{name: "abac", rval: "sub, obj, act", pval: "sub, obj, act",
			base: func() *c01E {
				return c01And(c01Bin(">", c01Acc("r_sub", "Age"), c01Num(17)), c01Eq(c01Acc("r_obj", "Owner"), c01Acc("r_sub", "Name")))
			},
			cols: fixed(c01Subs[:2], c01Objs, c01Acts), pos: abacPos,
			vocab: c01Vocab{strVars: []string{"r_act", "p_sub", "p_obj", "p_act"}, objVars: []string{"r_sub", "r_obj"}, strs: strs, fns: fns[:2]}},
		&c01Family{name: "abac-policy", rval: "sub, obj, act", pval: "sub, obj, act",
			base: func() *c01E {
				return c01And(c01Bin(">=", c01Acc("r_sub", "Age"), c01Num(18)), c01Eq(c01Acc("r_obj", "Owner"), c01V_("p_sub")), c01Eq(c01V_("r_act"), c01V_("p_act")))
			},
			cols: fixed(c01Subs[:2], c01Objs, c01Acts), pos: abacPos,
			vocab: c01Vocab{strVars: []string{"r_act", "p_sub", "p_obj", "p_act"}, objVars: []string{"r_sub", "r_obj"}, strs: strs, fns: fns[:2]}},
		&c01Family{name: "in-list", rval: "sub, obj, act", pval: "sub, obj, act",
			base: func() *c01E {
				return c01And(c01In(c01V_("r_sub"), c01Str("alice"), c01Str("bob"), c01V_("p_sub")), c01Eq(c01V_("r_obj"), c01V_("p_obj")),
					c01In(c01V_("r_act"), c01Str("read")))
			},
			cols: fixed(c01Subs, c01Objs, c01Acts), pos: spos(c01Subs, c01Objs, c01Acts),
			vocab: c01Vocab{strVars: []string{"r_sub", "r_obj", "r_act", "p_sub", "p_obj", "p_act"}, strs: strs, fns: fns[:1]}},
		&c01Family{name: "eval", rval: "sub, obj, act", pval: "sub_rule, obj, act", subRules: true,
			base: func() *c01E {
				return c01And(c01Call("eval", c01V_("p_sub_rule")), c01Eq(c01Acc("r_obj", "Name"), c01V_("p_obj")), c01Eq(c01V_("r_act"), c01V_("p_act")))
			},
			cols: nil, pos: abacPos,
			vocab: c01Vocab{strVars: []string{"r_act", "p_obj", "p_act"}, objVars: []string{"r_sub", "r_obj"}, strs: strs, fns: fns[:1], evalTok: "p_sub_rule"}},
		// eval() sub-rules that call g() while the matcher itself does not mention g: the role
		// functions have to be available to every expression evaluated for the request
		&c01Family{name: "eval-rbac", rval: "sub, obj, act", pval: "sub_rule, obj, act", subRules: true, gs: []c01GDef{{"g", 2}},
			base: func() *c01E {
				return c01And(c01Call("eval", c01V_("p_sub_rule")), c01Eq(c01V_("r_obj"), c01V_("p_obj")), c01Eq(c01V_("r_act"), c01V_("p_act")))
			},
			cols: nil, pos: spos(c01Subs, c01Objs, c01Acts),
			gcols: map[string][][]string{"g": {c01RoleNames, c01RoleNames}},
			vocab: c01Vocab{strVars: []string{"r_sub", "r_obj", "r_act", "p_obj", "p_act"}, strs: strs, fns: fns[:1], evalTok: "p_sub_rule"}},
	)
	return fams
}

// sub-rule ASTs for the eval family: (policy text, compiled text, AST)
func c01SubRules(r *rand.Rand, vc *c01Vocab, n int) (texts []string, ents []c01ParseEnt) {
	add := func(text, compiled string, ast *c01E) {
		texts = append(texts, text)
		ents = append(ents, c01ParseEnt{compiled, ast})
	}
	for len(texts) < n {
		switch r.Intn(12) {
		case 0: // the rule that evaluates itself (F29, repaired): nesting bound -> error
			add("eval(p.sub_rule)", "eval(p_sub_rule)", c01Call("eval", c01V_("p_sub_rule")))
		case 1: // nested eval of a quoted sub-rule (the quoted text is escaped with the outer one)
			inner := vc.genBool(r, 1)
			st := c01Style{dot: true}
			iu := c01Print(inner, c01Style{})
			outerD := c01Print(c01Call("eval", c01Str(c01Print(inner, st))), c01Style{sq: true})
			outerU := c01Print(c01Call("eval", c01Str(iu)), c01Style{sq: true})
			add(outerD, outerU, c01Call("eval", c01Str(iu)))
			ents = append(ents, c01ParseEnt{iu, inner})
		case 2:
			add("r.sub.Age >", "", nil) // does not parse
		case 3:
			add("", "", nil)
		case 4:
			add("r.sub.Age", "r_sub.Age", c01Acc("r_sub", "Age")) // a number: matched when non-zero
		case 6, 7, 8:
			if len(vc.gs) > 0 { // a sub-rule that calls a role function
				ast := c01Bin("||", vc.genG(r, 1), c01Eq(c01V_("r_sub"), c01Str(c01Pick(r, c01Subs))))
				if r.Intn(2) == 0 {
					ast = vc.genG(r, 1)
				}
				st := c01Style{dot: r.Intn(4) > 0, full: r.Intn(3) == 0, sq: r.Intn(2) == 0}
				add(c01Print(ast, st), c01Print(ast, c01UnderscoreStyle(st)), ast)
				continue
			}
			ast := vc.genBool(r, 1+r.Intn(2))
			st := c01Style{dot: r.Intn(4) > 0, full: r.Intn(3) == 0, sq: r.Intn(2) == 0}
			add(c01Print(ast, st), c01Print(ast, c01UnderscoreStyle(st)), ast)
		case 5:
			add("r.sub.Name", "r_sub.Name", c01Acc("r_sub", "Name")) // a string: result type error
		default:
			ast := vc.genBool(r, 1+r.Intn(2))
			st := c01Style{dot: r.Intn(4) > 0, full: r.Intn(3) == 0, sq: r.Intn(2) == 0}
			add(c01Print(ast, st), c01Print(ast, c01UnderscoreStyle(st)), ast)
		}
	}
	return
}

func c01NoDomMatch(s string) bool { return !strings.Contains(s, "keyMatch(r_dom, p_dom)") }

// one case of a family: matcher (nil = the family's own), effect, policy size
func c01Build(r *rand.Rand, id string, f *c01Family, matcher *c01E, effect string, nrules, nlinks int) *c01Case {
	cs := &c01Case{id: id, fam: f.name}
	cs.r = []c01RDef{{"r", f.rval}}
	if effect == "" {
		effect = "ao"
	}
	cs.e = []c01EDef{{"e", effect}}
	if matcher == nil {
		matcher = f.base()
	}
	st := c01RandStyle(r)
	for !c01NoDomMatch(c01Print(matcher, c01UnderscoreStyle(st))) {
		st.full = true
	}
	cs.m = []c01MDef{{key: "m", ast: matcher, st: st}}
	var rules [][]string
	if f.subRules {
		texts, ents := c01SubRules(r, &f.vocab, nrules)
		cs.extra = ents
		for i, t := range texts {
			dup := false
			for _, t2 := range texts[:i] {
				if t2 == t {
					dup = true
				}
			}
			if dup {
				continue
			}
			rules = append(rules, []string{t, c01Pick(r, c01Objs), c01Pick(r, c01Acts[:1])})
		}
	} else {
		rules = c01RandRules(r, nrules, f.cols(r))
	}
	cs.p = []c01PDef{{"p", f.pval, rules}}
	for _, g := range f.gs {
		cs.g = append(cs.g, c01GRules{g.name, g.count, c01RandRules(r, nlinks, f.gcols[g.name])})
	}
	cs.reqs = c01AllReqs(r, nil, f.pos(r), true)
	// EnforceWithMatcher gets the model's own matcher: as stored, or in the dotted source form
	wst := cs.m[0].st
	wst.br = false
	if r.Intn(2) == 0 {
		wst.dot = false
	}
	cs.wm = c01Print(matcher, wst)
	cs.wmAst = matcher
	return cs
}

func c01Chain(n int, dom string) [][]string {
	var out [][]string
	for i := 0; i < n; i++ {
		rule := []string{fmt.Sprintf("n%d", i), fmt.Sprintf("n%d", i+1)}
		if dom != "" {
			rule = append(rule, dom)
		}
		out = append(out, rule)
	}
	return out
}

func init() {
	register("C01", func(c *Ctx) {
		r := c.Rng
		fams := append(c01Families(), c01OverlapFamily())
		byName := map[string]*c01Family{}
		for _, f := range fams {
			byName[f.name] = f
		}
		seq := 0
		next := func(tag string) string { seq++; return fmt.Sprintf("c01.%s.%d", tag, seq) }
		nBase, nRand := 14, 26
		if c.Thorough() {
			nBase, nRand = 400, 1100
		}
		c.Rule = "model families (ACL, superuser, ACL without users / resources, RBAC, resource roles, RBAC with domains, deny / priority effects, keyMatch/regexMatch, ABAC on maps and structs, in-lists, eval() sub-rules, EnforceContext, disabled enforcer, broken matchers) x their own matcher and random matcher ASTs of depth <= 3 (printed with minimal or full parentheses, dotted or escaped, either quote, [ ] or ( ) lists) x random policies / role links over the small universe x EVERY request over the universe plus wrong-arity and non-string requests; bounded-exhaustive part: every policy of <= 2 rules x every link set over 3 names for the three RBAC families; role chains of 9..12 links and cyclic graphs always included; CONSTRUCTION MODES: every case is installed on the real enforcer in a seeded way — seq (AddNamedPolicy then AddNamedGroupingPolicy one by one), load (adapter + LoadPolicy), inter (single calls of all policy types and role definitions randomly interleaved, Enforce calls in between), batch (AddNamedPolicies / AddNamedGroupingPolicies in random chunks), mixed (part loaded, the rest by interleaved single calls, plus links outside the case added to a role definition and removed again) — and the listing is checked afterwards (p: exact order, g: same set); a family with two role definitions g, g2 over ONE name universe (rbac-two-graphs) and cases with two policy types p, p2 whose second matcher uses g2 on subjects and g on objects (two-types) exercise the routing of incremental rules to the right policy type / role graph; non-trivial = some error-free request is allowed; observables: Enforce, EnforceEx (+ explained rule), EnforceWithMatcher(own matcher), BatchEnforce"

		c01Json(c)
		// ---- 1. every family with its own matcher and with random matchers
		for _, f := range fams {
			effs := f.effects
			if effs == nil {
				effs = []string{"ao"}
			}
			for i := 0; i < nBase; i++ {
				cs := c01Build(r, next(f.name), f, nil, effs[i%len(effs)], r.Intn(6), r.Intn(7))
				c01RunMode(c, cs)
			}
			for i := 0; i < nRand; i++ {
				f.vocab.illTyped = 60
				f.vocab.gs = f.gs
				m := f.vocab.genBool(r, 1+r.Intn(3))
				if i%5 == 0 && len(f.gs) > 0 {
					m = c01Bin(c01Pick(r, []string{"&&", "||"}), f.base(), m)
				}
				eff := effs[r.Intn(len(effs))]
				if r.Intn(4) == 0 {
					eff = c01EffectTags[r.Intn(len(c01EffectTags))]
				}
				cs := c01Build(r, next(f.name+".rnd"), f, m, eff, r.Intn(5), r.Intn(6))
				c01RunMode(c, cs)
			}
		}

		// ---- 2'. detours: the target role is reached over a path of exactly the maximal depth AND
		//          over short paths (a depth-first walk with a shared visited set loses it, depending
		//          on the iteration order of the role maps: several detours, several enforcers)
		ndet := 30
		if c.Thorough() {
			ndet = 150
		}
		for i := 0; i < ndet; i++ {
			cs := c01Build(r, next("rbac.detour"), byName["rbac"], nil, "ao", 0, 0)
			long := 8 + i%3 // the long path has 8..10 links
			var rules [][]string
			for d := 0; d < 3; d++ { // three long detours from n0 to T, disjoint inner names
				prev := "n0"
				for k := 1; k < long; k++ {
					nm := fmt.Sprintf("d%dk%d", d, k)
					rules = append(rules, []string{prev, nm})
					prev = nm
				}
				rules = append(rules, []string{prev, "T"})
			}
			rules = append(rules, []string{"n0", "s"}, []string{"s", "T"}, []string{"T", "top"})
			r.Shuffle(len(rules), func(a, b int) { rules[a], rules[b] = rules[b], rules[a] })
			cs.g[0].rules = rules
			cs.p[0].rules = [][]string{{"T", "data1", "read"}, {"top", "data2", "read"}}
			cs.reqs = c01AllReqs(r, nil, [][]c01V{c01StrVals("n0", "s", "d0k1", "d1k5", "T"), c01StrVals("data1", "data2"), c01StrVals("read")}, false)
			c01RunMode(c, cs)
		}
		// names whose concatenations coincide, with and without a separator byte between them
		for i, sep := range []string{"", ":", ";", "|", "/", " ", "-", "_", ".", "$"} { // no comma: F07
			cs := c01Build(r, next("rbac.collide"), byName["rbac"], nil, "ao", 0, 0)
			yz, xy := "y"+sep+"z", "x"+sep+"y"
			cs.p[0].rules = [][]string{{"z", "data1", "read"}, {yz, "data1", "read"}}
			if i%2 == 0 {
				cs.g[0].rules = [][]string{{"x", yz}}
				cs.reqs = []c01Req{{nil, c01StrVals("x", "data1", "read")}, {nil, c01StrVals(xy, "data1", "read")}, {nil, c01StrVals("x", "data1", "read")}}
			} else {
				cs.g[0].rules = [][]string{{xy, "z"}}
				cs.reqs = []c01Req{{nil, c01StrVals(xy, "data1", "read")}, {nil, c01StrVals("x", "data1", "read")}, {nil, c01StrVals(xy, "data1", "read")}}
			}
			c01RunMode(c, cs)
			// and across the domain argument: g(x, y, s+z... ) - (x, y+s, z) in domains
			cd := c01Build(r, next("rbac-domains.collide"), byName["rbac-domains"], nil, "ao", 0, 0)
			cd.p[0].rules = [][]string{{"y", "z", "data1", "read"}, {"y" + sep + "q", "z", "data1", "read"}, {"y", "q" + sep + "z", "data1", "read"}}
			cd.g[0].rules = [][]string{{"x", "y", "q" + sep + "z"}}
			cd.reqs = []c01Req{{nil, c01StrVals("x", "q"+sep+"z", "data1", "read")}, {nil, c01StrVals("x", "z", "data1", "read")}, {nil, c01StrVals("x", "q"+sep+"z", "data1", "read")}}
			c01RunMode(c, cd)
		}

		// ---- 2. hierarchy boundary: chains of 9, 10, 11, 12 links, cycles
		for _, fn := range []string{"rbac", "rbac-resource-roles", "rbac-domains", "priority"} {
			f := byName[fn]
			for _, n := range []int{9, 10, 11, 12} {
				cs := c01Build(r, next(fn+".chain"), f, nil, "ao", 0, 0)
				last := fmt.Sprintf("n%d", n)
				switch fn {
				case "rbac", "priority":
					cs.g[0].rules = c01Chain(n, "")
					cs.p[0].rules = [][]string{{last, "data1", "read"}}
					if fn == "priority" {
						cs.p[0].rules = [][]string{{last, "data1", "read", "allow"}}
						cs.e[0].tag = "pr"
					}
					cs.reqs = c01AllReqs(r, nil, [][]c01V{c01StrVals("n0", "n1", "n2", "n3", last), c01StrVals("data1"), c01StrVals("read")}, false)
				case "rbac-resource-roles":
					cs.g[0].rules = c01Chain(n, "")
					cs.g[1].rules = c01Chain(n, "")
					cs.p[0].rules = [][]string{{last, last, "read"}}
					cs.reqs = c01AllReqs(r, nil, [][]c01V{c01StrVals("n0", "n1", "n2", last), c01StrVals("n0", "n1", "n3", last), c01StrVals("read")}, false)
				case "rbac-domains":
					cs.g[0].rules = c01Chain(n, "d1")
					cs.p[0].rules = [][]string{{last, "d1", "data1", "read"}, {last, "d2", "data1", "read"}}
					cs.reqs = c01AllReqs(r, nil, [][]c01V{c01StrVals("n0", "n1", "n2", "n3", last), c01StrVals("d1", "d2"), c01StrVals("data1"), c01StrVals("read")}, false)
				}
				c01RunMode(c, cs)
			}
			// cycles
			cs := c01Build(r, next(fn+".cycle"), f, nil, "ao", 4, 0)
			for gi := range cs.g {
				rules := [][]string{{"alice", "admin"}, {"admin", "user"}, {"user", "alice"}, {"bob", "bob"}, {"user", "root"}}
				if cs.g[gi].count == 3 {
					for i := range rules {
						rules[i] = append(rules[i], c01Doms[i%2])
					}
					rules = append(rules, []string{"alice", "admin", "d2"}, []string{"admin", "user", "d1"})
				}
				cs.g[gi].rules = rules
			}
			c01RunMode(c, cs)
		}

		// ---- 3. bounded-exhaustive: every policy of <= 2 rules x every link set over 3 names
		c01Exhaustive(c, byName, next)

		// ---- 4. special cases
		c01Specials(c, byName, next)

		// ---- 5. two role definitions over one name universe x two policy types x construction modes
		c01TwoTypes(c, next)
	})
}

func c01Exhaustive(c *Ctx, byName map[string]*c01Family, next func(string) string) {
	r := c.Rng
	names := []string{"alice", "bob", "admin"}
	type fam struct {
		name  string
		edges [][]string
		rules [][]string
		pos   [][]c01V
		g2    [][][]string
	}
	var plain, withSelf [][]string
	for _, a := range names {
		for _, b := range names {
			withSelf = append(withSelf, []string{a, b})
			if a != b {
				plain = append(plain, []string{a, b})
			}
		}
	}
	edges := plain
	if c.Thorough() {
		edges = withSelf
	}
	var domEdges [][]string
	for _, e := range plain {
		domEdges = append(domEdges, []string{e[0], e[1], "d1"})
	}
	domEdges = append(domEdges, []string{"alice", "admin", "d2"}, []string{"admin", "bob", "d2"})
	if !c.Thorough() {
		domEdges = append(domEdges[:4], domEdges[6:]...)
	}
	fs := []fam{
		{"rbac", edges, [][]string{{"alice", "data1", "read"}, {"admin", "data1", "read"}, {"admin", "data2", "read"}, {"bob", "data2", "read"}},
			[][]c01V{c01StrVals(names...), c01StrVals(c01Objs...), c01StrVals("read")}, nil},
		{"rbac-domains", domEdges, [][]string{{"admin", "d1", "data1", "read"}, {"admin", "d2", "data1", "read"}, {"bob", "d1", "data1", "read"}, {"alice", "d2", "data1", "read"}},
			[][]c01V{c01StrVals(names...), c01StrVals(c01Doms...), c01StrVals("data1"), c01StrVals("read")}, nil},
		{"rbac-resource-roles", plain, [][]string{{"admin", "grp", "read"}, {"alice", "data1", "read"}, {"bob", "grp", "read"}, {"admin", "data2", "read"}},
			[][]c01V{c01StrVals(names...), c01StrVals(c01Objs...), c01StrVals("read")},
			[][][]string{{}, {{"data1", "grp"}}, {{"data2", "grp"}}, {{"data1", "grp"}, {"data2", "grp"}}}},
	}
	for _, f := range fs {
		fm := byName[f.name]
		// policies of <= 2 rules (ordered, distinct)
		pols := [][][]string{{}}
		for i := range f.rules {
			pols = append(pols, [][]string{f.rules[i]})
		}
		for i := range f.rules {
			for j := range f.rules {
				if i != j {
					pols = append(pols, [][]string{f.rules[i], f.rules[j]})
				}
			}
		}
		g2s := f.g2
		if g2s == nil {
			g2s = [][][]string{nil}
		}
		if f.g2 != nil && !c.Thorough() {
			f.edges = f.edges[:4]
		}
		reqs := c01AllReqs(r, nil, f.pos, false)
		for mask := 0; mask < 1<<uint(len(f.edges)); mask++ {
			var links [][]string
			for i, e := range f.edges {
				if mask&(1<<uint(i)) != 0 {
					links = append(links, e)
				}
			}
			for _, g2 := range g2s {
				for _, pol := range pols {
					cs := c01Build(r, next(f.name+".exh"), fm, nil, "ao", 0, 0)
					cs.p[0].rules = pol
					cs.g[0].rules = links
					if g2 != nil {
						cs.g[1].rules = g2
					}
					cs.reqs = reqs
					c01RunMode(c, cs)
				}
			}
		}
	}
}

func c01Specials(c *Ctx, byName map[string]*c01Family, next func(string) string) {
	r := c.Rng
	acl := byName["acl"]
	rounds := 3
	if c.Thorough() {
		rounds = 60
	}
	for round := 0; round < rounds; round++ {
		// disabled enforcer: everything is allowed, even broken requests
		cs := c01Build(r, next("disabled"), acl, nil, "ao", 3, 0)
		cs.disabled = true
		c01RunMode(c, cs)

		// EnforceContext: two request / policy / effect / matcher definitions, unknown names
		cs = c01Build(r, next("context"), byName["rbac"], nil, "ao", 4, 4)
		cs.r = append(cs.r, c01RDef{"r2", "sub, obj"})
		cs.p = append(cs.p, c01PDef{"p2", "sub, obj, eft", c01RandRules(r, r.Intn(4), [][]string{c01RoleNames, c01Objs, {"allow", "deny", "x"}})})
		cs.e = append(cs.e, c01EDef{"e2", c01Pick(r, []string{"ao", "do", "ad", "pr"})})
		m2 := c01And(c01Call("g", c01V_("r2_sub"), c01V_("p2_sub")), c01Eq(c01V_("r2_obj"), c01V_("p2_obj")))
		cs.m = append(cs.m, c01MDef{key: "m2", ast: m2, st: c01RandStyle(r)})
		ctx2 := []string{"r2", "p2", "e2", "m2"}
		cs.reqs = append(cs.reqs, c01AllReqs(r, ctx2, [][]c01V{c01StrVals(c01Subs...), c01StrVals(c01Objs...)}, true)...)
		for _, bad := range [][]string{{"r3", "p2", "e2", "m2"}, {"r2", "p3", "e2", "m2"}, {"r2", "p2", "e3", "m2"}, {"r2", "p2", "e2", "m3"},
			{"r2", "p", "e", "m"}, {"r", "p2", "e", "m"}, {"r", "p", "e2", "m"}, {"r2", "p2", "e", "m2"}, {"r", "p", "e", "m"}} {
			cs.reqs = append(cs.reqs, c01Req{bad, c01StrVals("alice", "data1")}, c01Req{bad, c01StrVals("alice", "data1", "read")})
		}
		c01RunMode(c, cs)

		// eval() sub-rules that call g() while the matcher does not: a fixed case (the random ones
		// are in the eval-rbac family)
		if er := byName["eval-rbac"]; er != nil {
			cs = c01Build(r, next("eval-g"), er, nil, c01Pick(r, []string{"ao", "do", "ad"}), 0, 0)
			gAdmin := c01Call("g", c01V_("r_sub"), c01Str("admin"))
			gRoot := c01Bin("&&", c01Call("g", c01V_("r_sub"), c01Str("root")), c01Bin("!=", c01V_("r_sub"), c01Str("bob")))
			cs.p[0].rules = [][]string{{"g(r.sub, \"admin\")", "data1", "read"}, {"g(r.sub, \"root\") && r.sub != \"bob\"", "data2", "read"}}
			cs.extra = []c01ParseEnt{{"g(r_sub, \"admin\")", gAdmin}, {"g(r_sub, \"root\") && r_sub != \"bob\"", gRoot}}
			cs.g = []c01GRules{{"g", 2, [][]string{{"alice", "admin"}, {"admin", "root"}, {"bob", "root"}}}}
			cs.reqs = c01AllReqs(r, nil, [][]c01V{c01StrVals("alice", "bob", "admin", "carol"), c01StrVals("data1", "data2"), c01StrVals("read")}, false)
			c01RunMode(c, cs)
			// several rows share ONE sub-rule text that mentions policy fields: it has to be
			// evaluated against each row's own fields
			cs = c01Build(r, next("eval-shared"), er, nil, c01Pick(r, []string{"ao", "do", "ad"}), 0, 0)
			shared := c01Bin("&&", c01Eq(c01V_("r_obj"), c01V_("p_obj")), c01Bin("!=", c01V_("r_sub"), c01Str("bob")))
			cs.p[0].rules = [][]string{{"r.obj == p.obj && r.sub != \"bob\"", "data1", "read"}, {"r.obj == p.obj && r.sub != \"bob\"", "data2", "read"},
				{"r.obj == p.obj && r.sub != \"bob\"", "data3", "read"}}
			cs.extra = []c01ParseEnt{{"r_obj == p_obj && r_sub != \"bob\"", shared}}
			cs.g = []c01GRules{{"g", 2, nil}}
			cs.reqs = c01AllReqs(r, nil, [][]c01V{c01StrVals("alice", "bob"), c01StrVals("data3", "data2", "data1", "data4"), c01StrVals("read")}, false)
			c01RunMode(c, cs)
		}
		// unknown function: a compile error for every request
		cs = c01Build(r, next("unknown-fn"), acl, c01And(c01Call("foo", c01V_("r_sub")), c01Eq(c01V_("r_obj"), c01V_("p_obj"))), "ao", 2, 0)
		c01RunMode(c, cs)
		// eval() spelled in a matcher whose policy has no sub-rule column
		cs = c01Build(r, next("eval-plain"), acl, c01And(c01Call("eval", c01Str("r_sub == p_sub")), c01Eq(c01V_("r_obj"), c01V_("p_obj"))), "ao", 3, 0)
		cs.extra = []c01ParseEnt{{"r_sub == p_sub", c01Eq(c01V_("r_sub"), c01V_("p_sub"))}}
		cs.m[0].st.sq = false
		cs.wm = c01Print(cs.m[0].ast, c01Style{})
		c01RunMode(c, cs)
		// eval with an empty policy is an error; a policy-free eval matcher with rules present is evaluated once
		cs = c01Build(r, next("eval-empty"), acl, c01Call("eval", c01Str("r_sub == 'alice'")), "ao", round%2*2, 0)
		cs.extra = []c01ParseEnt{{"r_sub == 'alice'", c01Eq(c01V_("r_sub"), c01Str("alice"))}}
		cs.m[0].st.sq = false
		cs.wm = c01Print(cs.m[0].ast, c01Style{})
		c01RunMode(c, cs)

		// a custom matcher that differs from the model's, one that does not parse, one with a comment
		cs = c01Build(r, next("custom-matcher"), acl, nil, "ao", 4, 0)
		other := c01And(c01Eq(c01V_("r_obj"), c01V_("p_obj")), c01Eq(c01V_("r_act"), c01Str("read")))
		cs.wm = c01Print(other, c01Style{dot: true}) + "  # " + c01Pick(r, []string{"trailing comment", "p.sub", "eval(x)"})
		cs.wmAst = other
		c01RunMode(c, cs)
		cs = c01Build(r, next("custom-broken"), acl, nil, "ao", 2, 0)
		cs.wm, cs.wmAst = "r.sub == ", nil
		c01RunMode(c, cs)
		cs = c01Build(r, next("custom-policy-free"), acl, nil, "ao", 2, 0)
		pf := c01Eq(c01V_("r_sub"), c01Str("alice"))
		cs.wm, cs.wmAst = c01Print(pf, c01Style{dot: true, sq: true}), pf
		c01RunMode(c, cs)

		// rule of the wrong size in the policy: error when the loop reaches it
		for _, eff := range []string{"ao", "do"} {
			cs = c01Build(r, next("short-rule"), acl, nil, eff, 3, 0)
			short := []string{"alice", "data1"}
			at := r.Intn(len(cs.p[0].rules) + 1)
			cs.p[0].rules = append(cs.p[0].rules[:at:at], append([][]string{short}, cs.p[0].rules[at:]...)...)
			c01RunMode(c, cs)
		}

		// matchers whose result is not a bool
		for _, m := range []*c01E{c01Num(1), c01Num(0), c01Bin("+", c01Num(1), c01Num(1)), c01V_("r_sub"), c01V_("p_sub"),
			c01Bin("-", c01Num(2), c01Num(2)), c01Bin("+", c01V_("p_sub"), c01Num(1)), c01Bin("+", c01V_("r_sub"), c01Bool(true))} {
			cs = c01Build(r, next("non-bool"), acl, m, c01Pick(r, c01EffectTags), 2*(round%2)+1, 0)
			c01RunMode(c, cs)
		}

		// unsupported effect expression
		cs = c01Build(r, next("unsupported-effect"), acl, nil, "un", round%3, 0)
		c01RunMode(c, cs)

		// model text features: [ ] lists, comment, literal texts
		for _, raw := range []struct {
			text string
			ast  *c01E
		}{
			{"r.sub in ['alice', 'bob'] && r.obj == p.obj  # the rest is a comment", c01And(c01In(c01V_("r_sub"), c01Str("alice"), c01Str("bob")), c01Eq(c01V_("r_obj"), c01V_("p_obj")))},
			{"r.sub in [p.sub] && r.obj == p.obj", c01And(c01In(c01V_("r_sub"), c01V_("p_sub")), c01Eq(c01V_("r_obj"), c01V_("p_obj")))},
			{"r.sub in ['alice'] && r.obj == p.obj", c01And(c01In(c01V_("r_sub"), c01Str("alice")), c01Eq(c01V_("r_obj"), c01V_("p_obj")))},
			{"r.sub == p.sub && (r.obj == p.obj || r.obj == \"data2\") && !(r.act != p.act)", c01And(c01Eq(c01V_("r_sub"), c01V_("p_sub")),
				c01Bin("||", c01Eq(c01V_("r_obj"), c01V_("p_obj")), c01Eq(c01V_("r_obj"), c01Str("data2"))), c01Not(c01Bin("!=", c01V_("r_act"), c01V_("p_act"))))},
			{"r.sub+\"-\"+r.obj == p.sub+'-'+p.obj", c01Eq(c01Bin("+", c01Bin("+", c01V_("r_sub"), c01Str("-")), c01V_("r_obj")), c01Bin("+", c01Bin("+", c01V_("p_sub"), c01Str("-")), c01V_("p_obj")))},
			{"r.sub == \"top_secret\"", c01Eq(c01V_("r_sub"), c01Str("top_secret"))}, // mentions "p_" only inside a literal
			{"keyMatch(r.sub, \"a*\") && true", c01And(c01Call("keyMatch", c01V_("r_sub"), c01Str("a*")), c01Bool(true))},
		} {
			cs = c01Build(r, next("text"), acl, raw.ast, "ao", 3, 0)
			cs.m[0].raw = raw.text
			cs.wm, cs.wmAst = cs.mStored(cs.m[0]), raw.ast
			c01RunMode(c, cs)
		}
	}
}

var _ = rand.Int
