package main

import (
	"errors"
	"fmt"
	"strings"

	casbin "github.com/casbin/casbin/v2"
	"github.com/casbin/casbin/v2/model"
	"github.com/casbin/casbin/v2/rbac"
	defaultrolemanager "github.com/casbin/casbin/v2/rbac/default-role-manager"
)

// C15: every effective change is persisted, then announced exactly once.
// Histories of management calls (effective, no-op, failing through injected adapter errors, and
// Self* replay calls) x {Watcher, WatcherEx, UpdatableWatcher} x auto-notify / auto-save flags
// (also toggled mid-history); the recording watcher logs every notification with the state
// visible at callback time (listed rules, adapter content); every step compared with
// Machine.step on result, listed rules, watcher log delta and adapter content.  On the
// implementation alone: exactly one notification per call that reports (true, nil) while a
// watcher is set and notification is on, none otherwise; and a PEER enforcer sharing the adapter
// that reloads on every notification makes the originator's decisions after every call
// (auto-save on).

var c15PeerNo int

func c15History(c *Ctx, id string, conf machConf, wkind string, autosave, autonotify bool, n int, opts machGenOpts) {
	us := machUniverses(conf)
	m := newMach(conf, autosave, autonotify, wkind, nil)
	reqs := c10Requests(conf)
	// the peer shares the adapter and reloads whenever the watcher log grew
	pm, _ := model.NewModelFromString(conf.Text)
	peer, _ := casbin.NewEnforcer(pm)
	peer.SetAdapter(m.A)
	// every second peer is a listen-only replica: it announces nothing itself (auto-notify off)
	// but follows the announcements of the others all the same
	c15PeerNo++
	if c15PeerNo%2 == 1 {
		peer.EnableAutoNotifyWatcher(false)
	}
	// the peer has a watcher of the same kind; a notification reaches it as a call of the
	// callback registered on that watcher.  SetWatcher registers a default callback (reload)
	// for every watcher that is not a WatcherEx; for a WatcherEx the application does.
	var peerCB func(string)
	switch wkind {
	case "plain":
		pw := &recWatcherPlain{recWatcherBase{snap: func() string { return "" }}}
		_ = peer.SetWatcher(pw)
		peerCB = pw.Callback
	case "upd":
		pw := &recWatcherUpd{recWatcherBase{snap: func() string { return "" }}}
		_ = peer.SetWatcher(pw)
		peerCB = pw.Callback
	case "ex":
		pw := &recWatcherEx{recWatcherBase{snap: func() string { return "" }}}
		_ = peer.SetWatcher(pw)
		if pw.Callback != nil {
			c.Direct(id, "SetWatcher registered a generic callback on a WatcherEx", wkind)
		}
		peerCB = func(string) { _ = peer.LoadPolicy() } // the application's callback
	}
	if (wkind == "plain" || wkind == "upd") && peerCB == nil {
		c.Direct(id, "SetWatcher did not register the default reload callback on a watcher that is not a WatcherEx: its enforcer never follows announcements", wkind)
		peerCB = func(string) {}
	}
	curSave, curNotify := autosave, autonotify
	peerValid := autosave // the peer can only follow while every change is persisted
	var ops []mOp
	type rec struct{ res, listed, wlog, adcontent string }
	var recs []rec
	changed := false
	for len(ops) < n {
		op := machGenOp(c.Rng, m, us, opts)
		if op == nil {
			continue
		}
		wBefore := len(*m.WLog)
		lBefore := m.listedKey()
		failBefore := m.A.FailIn
		res := m.apply(*op)
		ops = append(ops, *op)
		grew := len(*m.WLog) - wBefore
		recs = append(recs, rec{res, m.listedKey(), m.newWatcherLog(), m.A.contentKey()})
		c.Count(op.Kind)
		if m.listedKey() != lBefore {
			changed = true
		}
		isMgmt := false
		switch op.Kind {
		case "add", "addmany", "addmanyex", "remove", "removemany", "update", "updatemany", "removefiltered", "updatefiltered":
			isMgmt = true
		case "autosave":
			curSave = op.B
			if !op.B {
				peerValid = false
			}
		case "autonotify":
			curNotify = op.B
			if !op.B {
				peerValid = false
			}
		case "clear":
			peerValid = false
		case "save":
			// SavePolicy announces whenever a watcher is set
			if res == "ok1" && wkind != "none" && grew != 1 {
				c.Direct(id, "SavePolicy did not announce exactly once", opsSx(ops))
			}
			if res == "ok1" && curSave && curNotify && wkind != "none" {
				peerValid = true
			}
		}
		if isMgmt {
			want := 0
			if res == "ok1" && !op.Self && curNotify && wkind != "none" {
				want = 1
			}
			if grew != want {
				c.Direct(id, fmt.Sprintf("the call %s returned %s and triggered %d notification(s), expected %d", op.Sx(), res, grew, want), opsSx(ops))
			}
			if m.listedKey() != lBefore && (!curSave || !curNotify || op.Self || wkind == "none") {
				peerValid = false
			}
		}
		_ = failBefore
		if grew > 0 {
			// the peer reloads on the notification
			saved := m.A.FailIn // the peer's load must not consume an injected failure
			m.A.FailIn = -1
			nlog := len(m.A.Log)
			peerCB("announcement")
			m.A.FailIn = saved
			m.A.Log = m.A.Log[:nlog] // the peer's load is not part of the originator's adapter log
			m.logSeen = len(m.A.Log)
		}
		if peerValid && curSave && wkind != "none" {
			if got, want := c10Decisions(peer, reqs), c10Decisions(m.E, reqs); got != want {
				c.Direct(id, "a peer that reloads on every notification decides differently from the originator", fmt.Sprintf("ops=%s peer=%s origin=%s", opsSx(ops), got, want))
			}
		}
	}
	c.Case(id, fmt.Sprintf("(cfg %s) (flags %s %s %s) (content) (obs res listed wlog adcontent) (ops %s)",
		strings.TrimSuffix(strings.TrimPrefix(conf.Sx(), "("), ")"), B(autosave), B(autonotify), wkind,
		strings.TrimSuffix(strings.TrimPrefix(opsSx(ops), "("), ")")))
	for k, r := range recs {
		c.Obs(id, fmt.Sprintf("%d.res", k), r.res)
		c.Obs(id, fmt.Sprintf("%d.listed", k), r.listed)
		c.Obs(id, fmt.Sprintf("%d.wlog", k), r.wlog)
		c.Obs(id, fmt.Sprintf("%d.adcontent", k), r.adcontent)
	}
	if changed {
		c.NonTrivial(id)
	}
}

// a role manager whose AddLink fails
type c15FailingRM struct {
	rbac.RoleManager
}

func (f *c15FailingRM) AddLink(n1, n2 string, d ...string) error {
	return errors.New("injected role manager failure")
}

// calls that report an error announce nothing: single-rule grouping adds whose rule is stored
// but whose role link cannot be built (a failing role manager; a rule shorter than the role
// definition) return an error -- for every watcher kind nothing may reach the bus.
func c15ErrorsAnnounceNothing(c *Ctx) {
	for _, wk := range []string{"plain", "ex", "upd"} {
		for _, how := range []string{"failing-rm", "short-rule", "failing-rm-role-api"} {
			m := newMach(machRBAC, true, true, wk, nil)
			_, _ = m.E.AddPolicy("admin", "data1", "read")
			base := len(*m.WLog)
			var ok bool
			var err error
			switch how {
			case "failing-rm":
				m.E.SetRoleManager(&c15FailingRM{RoleManager: defaultrolemanager.NewRoleManagerImpl(10)})
				ok, err = m.E.AddGroupingPolicy("alice", "admin")
			case "failing-rm-role-api":
				m.E.SetRoleManager(&c15FailingRM{RoleManager: defaultrolemanager.NewRoleManagerImpl(10)})
				ok, err = m.E.AddRoleForUser("alice", "admin")
			case "short-rule":
				ok, err = m.E.AddGroupingPolicy("carol")
			}
			announced := (*m.WLog)[base:]
			if (err != nil || !ok) && len(announced) != 0 {
				c.Direct(fmt.Sprintf("c15.error-announces.%s.%s", wk, how), fmt.Sprintf("a management call that reported (%v, %v) was announced all the same: %v", ok, err, announced), how)
			}
			if len(announced) != 0 {
				// whatever was announced: a peer that reloads from the shared adapter must reach
				// the originator's decisions
				pm, _ := model.NewModelFromString(machRBAC.Text)
				peer, perr := casbin.NewEnforcer(pm, m.A)
				for _, u := range []string{"alice", "carol", "admin"} {
					a, _ := m.E.Enforce(u, "data1", "read")
					var b bool
					if perr == nil {
						b, _ = peer.Enforce(u, "data1", "read")
					}
					if perr != nil || a != b {
						c.Direct(fmt.Sprintf("c15.error-announces.%s.%s", wk, how), fmt.Sprintf("the call reported (%v, %v) and announced %v, but a peer reloading from the shared adapter does not reach the originator's decisions: Enforce(%s,data1,read) originator=%v peer=%v (peer load error: %v)", ok, err, announced, u, a, b, perr), how)
					}
				}
			}
			c.Count("error-announces-nothing")
		}
	}
}

func init() {
	register("C15", func(c *Ctx) {
		c15ErrorsAnnounceNothing(c)
		c.Rule = "seeded histories (length 8..26) of management calls incl. no-op, failing (injected adapter errors) and Self* calls, SavePolicy, LoadPolicy, flag toggles, on three models x watcher kinds {plain, ex, upd, none} x the four auto-save/auto-notify settings; every step compared with the model on result, listed rules, notifications with their callback-time snapshots, adapter content. Distinct = history; non-trivial = the history changes the listed rules. Additions: every Self* entry point incl. update / filtered removal, UpdateFilteredPolicies, one-rule batches; the peer follows announcements through the callback SetWatcher registered on its own watcher (default reload callback required for every watcher that is not a WatcherEx)."
		nh := 6000
		if c.Thorough() {
			nh = 20000
		}
		confs := []machConf{machRBAC, machDomain, machPriority}
		wkinds := []string{"plain", "ex", "upd", "none"}
		for h := 0; h < nh; h++ {
			conf := confs[h%len(confs)]
			wk := wkinds[(h/3)%len(wkinds)]
			autosave := (h/12)%2 == 0
			autonotify := (h/24)%2 == 0
			opts := machGenOpts{Clear: h%11 == 0, Load: h%4 == 0, Save: true, Flags: h%5 == 0, Self: true, Fail: h%3 == 0, UpdateFiltered: true}
			c15History(c, fmt.Sprintf("c15.h%d", h), conf, wk, autosave, autonotify, 8+c.Rng.Intn(19), opts)
		}
	})
}
