package main

import (
	"fmt"
	"strings"

	casbin "github.com/casbin/casbin/v2"
	"github.com/casbin/casbin/v2/model"
	"github.com/casbin/casbin/v2/util"
)

// C16: RBAC introspection APIs agree with enforcement.
// Real enforcers for the two RBAC model texts (examples/rbac_model.conf and
// examples/rbac_with_domains_model.conf), in-memory policy through AddPolicy / AddGroupingPolicy.
// For every case: GetImplicitRolesForUser, GetImplicitUsersForRole, GetRolesForUser,
// GetUsersForRole, GetImplicitPermissionsForUser, GetPermissionsForUser for every name (and
// domain), GetImplicitUsersForPermission for every permission, Enforce for every
// (subject, permission) — compared with the Coq model Rbac.v; and the property's own predicate on
// the implementation alone (c.Direct), inside the theorem guards.

const c16PlainText = `[request_definition]
r = sub, obj, act

[policy_definition]
p = sub, obj, act

[role_definition]
g = _, _

[policy_effect]
e = some(where (p.eft == allow))

[matchers]
m = g(r.sub, p.sub) && r.obj == p.obj && r.act == p.act
`

const c16DomText = `[request_definition]
r = sub, dom, obj, act

[policy_definition]
p = sub, dom, obj, act

[role_definition]
g = _, _, _

[policy_effect]
e = some(where (p.eft == allow))

[matchers]
m = g(r.sub, p.sub, r.dom) && r.dom == p.dom && r.obj == p.obj && r.act == p.act
`

const c16MaxLevel = 10

type c16Case struct {
	kind    string      // "plain" | "dom"
	links   [][3]string // user, role, domain ("" for plain)
	policy  [][]string
	names   []string
	domains []string // [""] for plain
	perms   [][]string
	hist    []string // history mode: the rbac_api calls that led to this state (replay only)
}

func c16Enforcer(kind string) *casbin.Enforcer {
	text := c16PlainText
	if kind == "dom" {
		text = c16DomText
	}
	m, err := model.NewModelFromString(text)
	if err != nil {
		panic(err)
	}
	e, err := casbin.NewEnforcer(m)
	if err != nil {
		panic(err)
	}
	return e
}

func c16Build(cs *c16Case) *casbin.Enforcer {
	e := c16Enforcer(cs.kind)
	for _, l := range cs.links {
		var ok bool
		var err error
		if cs.kind == "plain" {
			ok, err = e.AddGroupingPolicy(l[0], l[1])
		} else {
			ok, err = e.AddGroupingPolicy(l[0], l[1], l[2])
		}
		if !ok || err != nil {
			panic(fmt.Sprint("AddGroupingPolicy ", l, ok, err))
		}
	}
	for _, r := range cs.policy {
		if ok, err := e.AddPolicy(toIfaceC16(r)...); !ok || err != nil {
			panic(fmt.Sprint("AddPolicy ", r, ok, err))
		}
	}
	return e
}

func toIfaceC16(r []string) []interface{} {
	out := make([]interface{}, len(r))
	for i, s := range r {
		out[i] = s
	}
	return out
}

func (cs *c16Case) dom(d string) []string {
	if cs.kind == "plain" {
		return nil
	}
	return []string{d}
}

// c16Dist: BFS distances from u in the role graph of domain d (harness' own reference)
func (cs *c16Case) dist(u, d string) map[string]int {
	dist := map[string]int{u: 0}
	fr := []string{u}
	for len(fr) > 0 {
		var nx []string
		for _, x := range fr {
			for _, l := range cs.links {
				if l[0] == x && l[2] == d {
					if _, ok := dist[l[1]]; !ok {
						dist[l[1]] = dist[x] + 1
						nx = append(nx, l[1])
					}
				}
			}
		}
		fr = nx
	}
	return dist
}

// the guard of the theorems: everything u reaches, it reaches within maxHierarchyLevel edges
func (cs *c16Case) depthOK(u, d string) bool {
	for _, k := range cs.dist(u, d) {
		if k > c16MaxLevel {
			return false
		}
	}
	return true
}

func (cs *c16Case) allNames() []string {
	seen := map[string]bool{}
	var out []string
	add := func(s string) {
		if !seen[s] {
			seen[s] = true
			out = append(out, s)
		}
	}
	for _, n := range cs.names {
		add(n)
	}
	for _, l := range cs.links {
		add(l[0])
		add(l[1])
	}
	for _, r := range cs.policy {
		add(r[0])
	}
	return out
}

func c16Strs(ss []string, err error) string {
	if err != nil {
		return "err"
	}
	return QL(ss)
}

func c16Sorted(ss []string, err error) string {
	if err != nil {
		return "err"
	}
	return QL(sortedStrings(ss))
}

func c16Rules(rs [][]string, err error) string {
	if err != nil {
		return "err"
	}
	return rulesKey(rs)
}

func c16SameSet(a, b []string) bool {
	x, y := sortedStrings(a), sortedStrings(b)
	if len(x) != len(y) {
		return false
	}
	for i := range x {
		if x[i] != y[i] {
			return false
		}
	}
	return true
}

func c16Eq(a, b []string) bool {
	if len(a) != len(b) {
		return false
	}
	for i := range a {
		if a[i] != b[i] {
			return false
		}
	}
	return true
}

func (cs *c16Case) body() string {
	ls := make([]string, len(cs.links))
	for i, l := range cs.links {
		ls[i] = QL(l[:])
	}
	ps := make([]string, len(cs.perms))
	for i, p := range cs.perms {
		ps[i] = QL(p)
	}
	pol := make([]string, len(cs.policy))
	for i, p := range cs.policy {
		pol[i] = QL(p)
	}
	s := fmt.Sprintf("%s (links %s) (policy %s) (names %s) (domains %s) (perms %s)", cs.kind,
		strings.Join(ls, " "), strings.Join(pol, " "), strings.Join(c16MapQ(cs.names), " "),
		strings.Join(c16MapQ(cs.domains), " "), strings.Join(ps, " "))
	if len(cs.hist) > 0 {
		// the model is a function of the listed rules; the history is carried for the replay only
		s += " (hist " + strings.Join(c16MapQ(cs.hist), " ") + ")"
	}
	return s
}

func c16MapQ(ss []string) []string {
	out := make([]string, len(ss))
	for i, s := range ss {
		out[i] = Q(s)
	}
	return out
}

// c16Run: one case on a freshly built enforcer.
func c16Run(c *Ctx, id string, gen string, cs *c16Case) {
	c16Observe(c, id, gen, cs, c16Build(cs))
}

// c16Observe: observables + the property's own predicate on the enforcer e, whose listed
// grouping rules / policy rules are cs.links / cs.policy (however e reached that state).
func c16Observe(c *Ctx, id string, gen string, cs *c16Case, e *casbin.Enforcer) {
	c.Case(id, cs.body())
	c.Count(gen)
	rm := e.GetRoleManager()
	replay := cs.body()
	perUD := func(f func(u, d string) string) string {
		var items []string
		for _, d := range cs.domains {
			for _, u := range cs.names {
				items = append(items, u+"@"+d+"="+f(u, d))
			}
		}
		return strings.Join(items, ";")
	}
	iroles := map[string][]string{}
	hasRoles := false
	c.Obs(id, "iroles", perUD(func(u, d string) string {
		r, err := e.GetImplicitRolesForUser(u, cs.dom(d)...)
		iroles[u+"\x00"+d] = r
		if len(r) > 0 {
			hasRoles = true
		}
		return c16Sorted(r, err)
	}))
	iusers := map[string][]string{}
	c.Obs(id, "iusers", perUD(func(u, d string) string {
		r, err := e.GetImplicitUsersForRole(u, cs.dom(d)...)
		iusers[u+"\x00"+d] = r
		return c16Sorted(r, err)
	}))
	c.Obs(id, "roles", perUD(func(u, d string) string { return c16Sorted(e.GetRolesForUser(u, cs.dom(d)...)) }))
	c.Obs(id, "users", perUD(func(u, d string) string { return c16Sorted(e.GetUsersForRole(u, cs.dom(d)...)) }))
	c.Obs(id, "depth", perUD(func(u, d string) string { return B(cs.depthOK(u, d)) }))
	iperms := map[string][][]string{}
	c.Obs(id, "iperms", perUD(func(u, d string) string {
		r, err := e.GetImplicitPermissionsForUser(u, cs.dom(d)...)
		iperms[u+"\x00"+d] = r
		return c16Rules(r, err)
	}))
	c.Obs(id, "perms", perUD(func(u, d string) string { return c16Rules(e.GetPermissionsForUser(u, cs.dom(d)...)) }))
	if cs.kind == "dom" {
		var a, b []string
		for _, u := range cs.names {
			a = append(a, u+"="+c16Rules(e.GetImplicitPermissionsForUser(u)))
			b = append(b, u+"="+c16Rules(e.GetPermissionsForUser(u)))
		}
		c.Obs(id, "iperms0", strings.Join(a, ";"))
		c.Obs(id, "perms0", strings.Join(b, ";"))
	}
	var up, en []string
	iup := make([][]string, len(cs.perms))
	allowed := map[string]bool{}
	anyAllowedViaRole := false
	for i, p := range cs.perms {
		r, err := e.GetImplicitUsersForPermission(p...)
		iup[i] = r
		up = append(up, QL(p)+"="+c16Strs(r, err))
		var bits strings.Builder
		for _, u := range cs.names {
			ok, err := e.Enforce(append([]interface{}{u}, toIfaceC16(p)...)...)
			if err != nil {
				bits.WriteString("E")
				continue
			}
			bits.WriteString(B(ok))
			allowed[u+"\x00"+strings.Join(p, "\x00")] = ok
		}
		en = append(en, QL(p)+"="+bits.String())
	}
	c.Obs(id, "iusers_perm", strings.Join(up, ";"))
	c.Obs(id, "enforce", strings.Join(en, ";"))

	// ---------- the property's own predicate, on the implementation alone ----------
	all := cs.allNames()
	for _, d := range cs.domains {
		allDepthOK := true
		for _, u := range all {
			if !cs.depthOK(u, d) {
				allDepthOK = false
			}
		}
		for _, u := range cs.names {
			// (1) implicit roles = { r != u | HasLink(u, r[, d]) }
			if cs.depthOK(u, d) {
				var want []string
				for _, r := range all {
					if r == u {
						continue
					}
					if ok, _ := rm.HasLink(u, r, cs.dom(d)...); ok {
						want = append(want, r)
					}
				}
				if !c16Eq(sortedStrings(want), sortedStrings(iroles[u+"\x00"+d])) {
					c.Direct(id, fmt.Sprintf("GetImplicitRolesForUser(%s,%s)=%v but {r!=u | HasLink}=%v", u, d, iroles[u+"\x00"+d], want), replay)
				}
			}
			// (4) implicit users of a role = { x != r | HasLink(x, r[, d]) }
			if allDepthOK {
				var want []string
				for _, x := range all {
					if x == u {
						continue
					}
					if ok, _ := rm.HasLink(x, u, cs.dom(d)...); ok {
						want = append(want, x)
					}
				}
				if !c16Eq(sortedStrings(want), sortedStrings(iusers[u+"\x00"+d])) {
					c.Direct(id, fmt.Sprintf("GetImplicitUsersForRole(%s,%s)=%v but {x!=r | HasLink}=%v", u, d, iusers[u+"\x00"+d], want), replay)
				}
			}
		}
	}
	// candidate subjects, computed from the harness' own input
	isRole := map[string]bool{}
	for _, l := range cs.links {
		isRole[l[1]] = true
	}
	var cand []string
	seen := map[string]bool{}
	for _, r := range cs.policy {
		if !seen[r[0]] {
			seen[r[0]] = true
			cand = append(cand, r[0])
		}
	}
	for _, l := range cs.links {
		if !seen[l[0]] {
			seen[l[0]] = true
			cand = append(cand, l[0])
		}
	}
	for i, p := range cs.perms {
		d := ""
		if cs.kind == "dom" {
			d = p[0]
		}
		vacuous := len(cs.policy) == 0 && strings.Join(p, "") == ""
		// (2) allowed iff a listed implicit permission grants it
		for _, u := range cs.names {
			if !cs.depthOK(u, d) || vacuous {
				continue
			}
			listed, okd := iperms[u+"\x00"+d]
			if !okd { // a permission of a domain that is not in cs.domains
				listed, _ = e.GetImplicitPermissionsForUser(u, cs.dom(d)...)
			}
			granted := false
			for _, r := range listed {
				if len(r) > 0 && c16Eq(r[1:], p) {
					granted = true
				}
			}
			al := allowed[u+"\x00"+strings.Join(p, "\x00")]
			if al != granted {
				c.Direct(id, fmt.Sprintf("Enforce(%s,%v)=%v but granted by a listed implicit permission=%v (%v)", u, p, al, granted, listed), replay)
			}
			if al {
				for _, r := range listed {
					if len(r) > 0 && c16Eq(r[1:], p) && r[0] != u {
						anyAllowedViaRole = true
					}
				}
			}
		}
		// (3) implicit users of the permission = non-role subjects with Enforce true
		var want []string
		for _, s := range cand {
			if isRole[s] {
				continue
			}
			ok, err := e.Enforce(append([]interface{}{s}, toIfaceC16(p)...)...)
			if err == nil && ok {
				want = append(want, s)
			}
		}
		if !c16Eq(sortedStrings(want), sortedStrings(iup[i])) {
			c.Direct(id, fmt.Sprintf("GetImplicitUsersForPermission(%v)=%v but non-role subjects with Enforce true=%v", p, iup[i], want), replay)
		}
	}
	if hasRoles && anyAllowedViaRole {
		c.NonTrivial(id)
	}
}

// ---------- generators ----------

func c16Perms(kind string, domains, objs, acts []string) [][]string {
	var out [][]string
	if kind == "plain" {
		for _, o := range objs {
			for _, a := range acts {
				out = append(out, []string{o, a})
			}
		}
		return out
	}
	for _, d := range domains {
		for _, o := range objs {
			for _, a := range acts {
				out = append(out, []string{d, o, a})
			}
		}
	}
	return out
}

func c16Edges(names, domains []string, self bool) [][3]string {
	var out [][3]string
	for _, d := range domains {
		for _, u := range names {
			for _, r := range names {
				if u == r && !self {
					continue
				}
				out = append(out, [3]string{u, r, d})
			}
		}
	}
	return out
}

func c16RuleUniverse(kind string, subs []string, perms [][]string) [][]string {
	var out [][]string
	for _, s := range subs {
		for _, p := range perms {
			out = append(out, append([]string{s}, p...))
		}
	}
	return out
}

// all index sets of size <= k out of n, in increasing order
func c16Subsets(n, k int) [][]int {
	out := [][]int{{}}
	var rec func(start int, cur []int)
	rec = func(start int, cur []int) {
		if len(cur) == k {
			return
		}
		for i := start; i < n; i++ {
			nx := append(append([]int(nil), cur...), i)
			out = append(out, nx)
			rec(i+1, nx)
		}
	}
	rec(0, nil)
	return out
}

func c16Pick(rules [][]string, idx []int) [][]string {
	out := make([][]string, len(idx))
	for i, j := range idx {
		out[i] = rules[j]
	}
	return out
}

func c16Mask(edges [][3]string, mask int) [][3]string {
	var out [][3]string
	for i, e := range edges {
		if mask&(1<<uint(i)) != 0 {
			out = append(out, e)
		}
	}
	return out
}

func c16Tag(idx []int) string {
	if len(idx) == 0 {
		return "-"
	}
	s := make([]string, len(idx))
	for i, j := range idx {
		s[i] = I(j)
	}
	return strings.Join(s, "_")
}

// every graph over the edge universe x every policy (or `sample` random policies per graph)
// sym: keep only policies that are empty or contain a rule for the first permission (every other
// policy is the image of a kept one under renaming objects / actions)
func c16Exhaustive(c *Ctx, tag, kind string, names, domains []string, self bool, objs, acts []string, maxRules int, sample int, sym bool) int {
	edges := c16Edges(names, domains, self)
	perms := c16Perms(kind, domains, objs, acts)
	rules := c16RuleUniverse(kind, names, perms)
	subsets := c16Subsets(len(rules), maxRules)
	if sym {
		var kept [][]int
		for _, idx := range subsets {
			ok := len(idx) == 0
			for _, i := range idx {
				if i%len(perms) == 0 {
					ok = true
				}
			}
			if ok {
				kept = append(kept, idx)
			}
		}
		subsets = kept
	}
	query := append(append([]string(nil), names...), "zed")
	n := 0
	for mask := 0; mask < 1<<uint(len(edges)); mask++ {
		links := c16Mask(edges, mask)
		run := func(idx []int) {
			cs := &c16Case{kind: kind, links: links, policy: c16Pick(rules, idx), names: query, domains: domains, perms: perms}
			c16Run(c, fmt.Sprintf("c16.%s.g%x.p%s", tag, mask, c16Tag(idx)), tag, cs)
			n++
		}
		if sample <= 0 {
			for _, idx := range subsets {
				run(idx)
			}
		} else {
			done := map[int]bool{}
			for k := 0; k < sample; k++ {
				j := c.Rng.Intn(len(subsets))
				if done[j] {
					continue
				}
				done[j] = true
				run(subsets[j])
			}
		}
	}
	return n
}

func c16Name(i int) string { return fmt.Sprintf("n%d", i) }

// chains n0 -> n1 -> ... -> nL (optionally closed into a cycle), policy on the far end
func c16Chains(c *Ctx) {
	for _, kind := range []string{"plain", "dom"} {
		for _, L := range []int{9, 10, 11, 12} {
			for _, cyc := range []bool{false, true} {
				d := ""
				domains := []string{""}
				if kind == "dom" {
					d = "d1"
					domains = []string{"d1", "d2"}
				}
				var links [][3]string
				var names []string
				for i := 0; i <= L; i++ {
					names = append(names, c16Name(i))
					if i < L {
						links = append(links, [3]string{c16Name(i), c16Name(i + 1), d})
					}
				}
				if cyc {
					links = append(links, [3]string{c16Name(L), c16Name(0), d})
				}
				if kind == "dom" {
					links = append(links, [3]string{"n0", "n3", "d2"}, [3]string{"n3", "n0", "d2"})
				}
				perms := c16Perms(kind, domains, []string{"data1", "data2"}, []string{"read"})
				var policy [][]string
				mk := func(s string, p []string) { policy = append(policy, append([]string{s}, p...)) }
				mk(c16Name(L), perms[0])
				mk(c16Name(L-1), perms[1])
				if kind == "dom" {
					mk("n3", perms[2])
				}
				cs := &c16Case{kind: kind, links: links, policy: policy, names: names, domains: domains, perms: perms}
				c16Run(c, fmt.Sprintf("c16.chain.%s.%d.%s", kind, L, B(cyc)), "chain", cs)
			}
		}
	}
}

// random larger graphs: a backbone chain / cycle of random length plus random extra edges
func c16Random(c *Ctx, n int) {
	for k := 0; k < n; k++ {
		kind := "plain"
		domains := []string{""}
		if k%2 == 1 {
			kind = "dom"
			domains = []string{"d1", "d2"}
		}
		nn := 4 + c.Rng.Intn(11) // 4..14 names
		var names []string
		for i := 0; i < nn; i++ {
			names = append(names, c16Name(i))
		}
		have := map[[3]string]bool{}
		var links [][3]string
		add := func(l [3]string) {
			if !have[l] {
				have[l] = true
				links = append(links, l)
			}
		}
		perm := c.Rng.Perm(nn)
		for _, d := range domains {
			shape := c.Rng.Intn(4)
			if shape >= 1 { // backbone over a random order of a random prefix
				bl := 2 + c.Rng.Intn(nn-1)
				for i := 0; i+1 < bl; i++ {
					add([3]string{names[perm[i]], names[perm[i+1]], d})
				}
				if shape == 2 {
					add([3]string{names[perm[bl-1]], names[perm[0]], d})
				}
			}
			extra := c.Rng.Intn(nn + 1)
			if shape == 3 {
				extra = c.Rng.Intn(2)
			}
			for i := 0; i < extra; i++ {
				add([3]string{names[c.Rng.Intn(nn)], names[c.Rng.Intn(nn)], d})
			}
		}
		perms := c16Perms(kind, domains, []string{"data1", "data2"}, []string{"read", "write"})
		if k%5 == 4 {
			// field values containing the separators listings might be joined with: two distinct
			// permissions whose joined texts coincide ("docs" + "public, read" / "docs, public" + "read")
			perms = c16Perms(kind, domains, []string{"docs", "docs, public"}, []string{"read", "public, read"})
		}
		nr := c.Rng.Intn(6)
		var policy [][]string
		pk := map[string]bool{}
		for i := 0; i < nr; i++ {
			r := append([]string{names[c.Rng.Intn(nn)]}, perms[c.Rng.Intn(len(perms))]...)
			if key := strings.Join(r, "\x00"); !pk[key] {
				pk[key] = true
				policy = append(policy, r)
			}
		}
		cs := &c16Case{kind: kind, links: links, policy: policy, names: names, domains: domains, perms: perms}
		c16Run(c, fmt.Sprintf("c16.rnd.%d", k), "random-"+kind, cs)
	}
}

// A second role definition that also relates SUBJECTS (the matcher accepts a role reached through
// g or through g2).  Outside the Coq model (Rbac.v has one role definition): the property's own
// predicates are evaluated on the implementation - the implicit users of a permission are exactly
// the non-role subjects Enforce allows, where subjects and roles come from EVERY role definition;
// every permission Enforce grants to a user is... (only the users-for-permission clause: implicit
// roles / permissions are per-definition calls).
const c16TwoDefText = `[request_definition]
r = sub, obj, act
[policy_definition]
p = sub, obj, act
[role_definition]
g = _, _
g2 = _, _
[policy_effect]
e = some(where (p.eft == allow))
[matchers]
m = (g(r.sub, p.sub) || g2(r.sub, p.sub)) && r.obj == p.obj && r.act == p.act
`

func sortedKeys(m map[string]bool) []string {
	var out []string
	for k := range m {
		out = append(out, k)
	}
	return sortedStrings(out)
}

func c16TwoDefs(c *Ctx, n int) {
	for k := 0; k < n; k++ {
		mm, _ := model.NewModelFromString(c16TwoDefText)
		e, _ := casbin.NewEnforcer(mm)
		nn := 4 + c.Rng.Intn(5)
		var names []string
		for i := 0; i < nn; i++ {
			names = append(names, c16Name(i))
		}
		var trace []string
		isRole := map[string]bool{}
		cand := map[string]bool{}
		parents := map[string]map[string][]string{"g": {}, "g2": {}} // definition -> role -> its direct users
		for _, gt := range []string{"g", "g2"} {
			for i := c.Rng.Intn(nn); i > 0; i-- {
				u, r := names[c.Rng.Intn(nn)], names[c.Rng.Intn(nn)]
				if ok, _ := e.AddNamedGroupingPolicy(gt, u, r); ok {
					trace = append(trace, fmt.Sprintf("%s(%s,%s)", gt, u, r))
					isRole[r] = true
					cand[u] = true
					parents[gt][r] = append(parents[gt][r], u)
				}
			}
		}
		// implicit users of a role: per role definition, everybody who reaches the role in THAT
		// definition's graph; the union over the definitions (compared as a set)
		for _, role := range names {
			want := map[string]bool{}
			for _, gt := range []string{"g", "g2"} {
				seen := map[string]bool{role: true}
				queue := []string{role}
				for len(queue) > 0 {
					x := queue[0]
					queue = queue[1:]
					for _, u := range parents[gt][x] {
						if !seen[u] {
							seen[u] = true
							want[u] = true
							queue = append(queue, u)
						}
					}
				}
			}
			got, err := e.GetImplicitUsersForRole(role)
			gs := map[string]bool{}
			for _, x := range got {
				gs[x] = true
			}
			same := err == nil && len(gs) == len(want)
			for x := range want {
				if !gs[x] {
					same = false
				}
			}
			if !same {
				c.Direct(fmt.Sprintf("c16.twodefs.%d", k), fmt.Sprintf("two role definitions: GetImplicitUsersForRole(%s)=%v but the users reaching it in g or in g2 are %v", role, got, sortedKeys(want)), strings.Join(trace, " "))
			}
		}
		perms := [][]string{{"data1", "read"}, {"data2", "read"}}
		for i := c.Rng.Intn(5); i > 0; i-- {
			s, p := names[c.Rng.Intn(nn)], perms[c.Rng.Intn(len(perms))]
			if ok, _ := e.AddPolicy(s, p[0], p[1]); ok {
				trace = append(trace, fmt.Sprintf("p(%s,%s,%s)", s, p[0], p[1]))
				cand[s] = true
			}
		}
		id := fmt.Sprintf("c16.twodefs.%d", k)
		for _, p := range perms {
			got, err := e.GetImplicitUsersForPermission(p...)
			var want []string
			for _, s := range names {
				if !cand[s] || isRole[s] {
					continue
				}
				if ok, err := e.Enforce(s, p[0], p[1]); err == nil && ok {
					want = append(want, s)
				}
			}
			if err != nil || !c16Eq(sortedStrings(want), sortedStrings(got)) {
				c.Direct(id, fmt.Sprintf("two role definitions: GetImplicitUsersForPermission(%v)=%v but non-role subjects with Enforce true=%v", p, got, want), strings.Join(trace, " "))
			}
		}
		c.Count("two-role-definitions(implementation only)")
	}
}

const c16DomPatText = `[request_definition]
r = sub, dom, obj, act
[policy_definition]
p = sub, dom, obj, act
[role_definition]
g = _, _, _
[policy_effect]
e = some(where (p.eft == allow))
[matchers]
m = g(r.sub, p.sub, r.dom) && (r.dom == p.dom || p.dom == "*") && r.obj == p.obj && r.act == p.act
`

// (the matcher does not contain the text keyMatch(r_dom, p_dom): with it casbin registers the
// domain matching function by itself when the enforcer is built)
// domain patterns (implementation only): grouping rules and permissions under the pattern domain
// "*" next to concrete domains, the domain matching function registered before the first Enforce
// or after every request has been asked once.  The property's first two clauses, per concrete
// domain (also one that has no rule of its own): a request is allowed iff a listed implicit
// permission grants it; the implicit roles are the other names for which g() holds.
func c16DomainPatterns(c *Ctx, n int) {
	names := []string{"u1", "u2", "r1", "r2", "r3"}
	gdoms := []string{"*", "d1", "d2"}
	qdoms := []string{"d1", "d2", "d3"}
	perms := [][]string{{"data1", "read"}, {"data2", "read"}}
	for k := 0; k < n; k++ {
		late := k%3 == 1
		auto := k%3 == 2
		text := c16DomPatText
		if auto {
			// the matcher text keyMatch(r.dom, p.dom) makes casbin register KeyMatch as domain
			// matching function by itself -- also for the role managers of a model installed later
			text = strings.Replace(c16DomPatText, `(r.dom == p.dom || p.dom == "*")`, "keyMatch(r.dom, p.dom)", 1)
		}
		mm, _ := model.NewModelFromString(text)
		e, _ := casbin.NewEnforcer(mm)
		var trace []string
		if auto {
			m2, _ := model.NewModelFromString(text)
			e.SetModel(m2)
			trace = append(trace, "matcher with keyMatch(r.dom, p.dom); SetModel(the same text)")
		} else if !late {
			e.AddNamedDomainMatchingFunc("g", "keyMatch", util.KeyMatch)
		}
		for i := 1 + c.Rng.Intn(5); i > 0; i-- {
			u, r, d := names[c.Rng.Intn(len(names))], names[2+c.Rng.Intn(3)], gdoms[c.Rng.Intn(len(gdoms))]
			if u == r {
				continue
			}
			if ok, _ := e.AddGroupingPolicy(u, r, d); ok {
				trace = append(trace, fmt.Sprintf("g(%s,%s,%s)", u, r, d))
			}
		}
		for i := 1 + c.Rng.Intn(4); i > 0; i-- {
			s, d, p := names[c.Rng.Intn(len(names))], gdoms[c.Rng.Intn(len(gdoms))], perms[c.Rng.Intn(len(perms))]
			if ok, _ := e.AddPolicy(s, d, p[0], p[1]); ok {
				trace = append(trace, fmt.Sprintf("p(%s,%s,%s,%s)", s, d, p[0], p[1]))
			}
		}
		if late {
			for _, u := range names {
				for _, d := range qdoms {
					for _, p := range perms {
						_, _ = e.Enforce(u, d, p[0], p[1])
					}
				}
			}
			e.AddNamedDomainMatchingFunc("g", "keyMatch", util.KeyMatch)
			trace = append(trace, "every request asked, then AddNamedDomainMatchingFunc(g, keyMatch)")
		}
		id := fmt.Sprintf("c16.dompat.%d", k)
		rm := e.GetRoleManager()
		for _, u := range names {
			for _, d := range qdoms {
				ip, err := e.GetImplicitPermissionsForUser(u, d)
				if err != nil {
					c.Direct(id, "GetImplicitPermissionsForUser failed: "+err.Error(), strings.Join(trace, " "))
					continue
				}
				for _, p := range perms {
					listed := false
					for _, r := range ip {
						if len(r) == 4 && r[2] == p[0] && r[3] == p[1] {
							listed = true
						}
					}
					ok, err := e.Enforce(u, d, p[0], p[1])
					if err != nil || ok != listed {
						c.Direct(id, fmt.Sprintf("domain patterns: Enforce(%s,%s,%s,%s)=%v (err %v) but GetImplicitPermissionsForUser(%s,%s)=%v", u, d, p[0], p[1], ok, err, u, d, ip), strings.Join(trace, " "))
					}
				}
				ir, err := e.GetImplicitRolesForUser(u, d)
				var want []string
				for _, r := range names {
					if r == u {
						continue
					}
					if hl, _ := rm.HasLink(u, r, d); hl {
						want = append(want, r)
					}
				}
				if err != nil || !c16Eq(sortedStrings(want), sortedStrings(ir)) {
					c.Direct(id, fmt.Sprintf("domain patterns: GetImplicitRolesForUser(%s,%s)=%v (err %v) but the other names for which g() holds are %v", u, d, ir, err, want), strings.Join(trace, " "))
				}
			}
		}
		c.Count("domain-patterns(implementation only)")
	}
}

// a NAMED policy type whose domain column sits elsewhere (p2 = sub, obj, act, dom), decided
// through an EnforceContext: a request is allowed iff GetNamedImplicitPermissionsForUser("p2",
// "g", user, domain) lists a permission that grants it (implementation only, random small cases).
func c16NamedTypeDomains(c *Ctx, n int) {
	text := "[request_definition]\nr = sub, dom, obj, act\nr2 = sub, dom, obj, act\n[policy_definition]\np = sub, dom, obj, act\np2 = sub, obj, act, dom\n[role_definition]\ng = _, _, _\n[policy_effect]\ne = some(where (p.eft == allow))\ne2 = some(where (p.eft == allow))\n[matchers]\nm = g(r.sub, p.sub, r.dom) && r.dom == p.dom && r.obj == p.obj && r.act == p.act\nm2 = g(r2.sub, p2.sub, r2.dom) && r2.dom == p2.dom && r2.obj == p2.obj && r2.act == p2.act\n"
	names := []string{"alice", "bob", "admin", "staff"}
	doms := []string{"d1", "d2", "read"} // "read" is also an action: a wrong column would match it
	objs := []string{"data1", "d1"}      // "d1" is also a domain
	for k := 0; k < n; k++ {
		mm, err := model.NewModelFromString(text)
		if err != nil {
			panic(err)
		}
		e, _ := casbin.NewEnforcer(mm)
		var trace []string
		for i := 1 + c.Rng.Intn(4); i > 0; i-- {
			u, r, d := names[c.Rng.Intn(2)], names[2+c.Rng.Intn(2)], doms[c.Rng.Intn(len(doms))]
			if ok, _ := e.AddGroupingPolicy(u, r, d); ok {
				trace = append(trace, fmt.Sprintf("g(%s,%s,%s)", u, r, d))
			}
		}
		for i := 1 + c.Rng.Intn(4); i > 0; i-- {
			s, o, d := names[c.Rng.Intn(len(names))], objs[c.Rng.Intn(len(objs))], doms[c.Rng.Intn(len(doms))]
			if ok, _ := e.AddNamedPolicy("p2", s, o, "read", d); ok {
				trace = append(trace, fmt.Sprintf("p2(%s,%s,read,%s)", s, o, d))
			}
		}
		ctx := casbin.EnforceContext{RType: "r2", PType: "p2", EType: "e2", MType: "m2"}
		for _, u := range names {
			for _, d := range doms {
				ip, err := e.GetNamedImplicitPermissionsForUser("p2", "g", u, d)
				if err != nil {
					c.Direct(fmt.Sprintf("c16.p2dom.%d", k), "GetNamedImplicitPermissionsForUser(p2) failed: "+err.Error(), strings.Join(trace, " "))
					continue
				}
				for _, o := range objs {
					listed := false
					for _, r := range ip {
						if len(r) == 4 && r[1] == o && r[2] == "read" && r[3] == d {
							listed = true
						}
					}
					ok, err := e.Enforce(ctx, u, d, o, "read")
					if err != nil || ok != listed {
						c.Direct(fmt.Sprintf("c16.p2dom.%d", k), fmt.Sprintf("named policy type p2 = sub, obj, act, dom: Enforce(%s,%s,%s,read)=%v (err %v) but GetNamedImplicitPermissionsForUser(p2,g,%s,%s)=%v", u, d, o, ok, err, u, d, ip), strings.Join(trace, " "))
					}
				}
			}
		}
		c.Count("named-type-domain-column(implementation only)")
	}
}

// names that are the empty string and the policy-free branch: the model follows the code there
// too (correspondence), the property's predicate is only evaluated inside its guards
func c16Corner(c *Ctx) {
	names := []string{"", "alice", "admin"}
	edges := [][3]string{{"alice", "", ""}, {"", "admin", ""}, {"alice", "admin", ""}, {"admin", "", ""}}
	perms := [][]string{{"", ""}, {"data1", ""}, {"", "read"}, {"data1", "read"}}
	rules := [][]string{{"", "", ""}, {"admin", "data1", "read"}, {"", "data1", "read"}, {"alice", "", ""}}
	for mask := 0; mask < 1<<uint(len(edges)); mask++ {
		for _, idx := range c16Subsets(len(rules), 2) {
			cs := &c16Case{kind: "plain", links: c16Mask(edges, mask), policy: c16Pick(rules, idx), names: names, domains: []string{""}, perms: perms}
			c16Run(c, fmt.Sprintf("c16.corner.g%x.p%s", mask, c16Tag(idx)), "corner-empty-names", cs)
		}
	}
	dperms := [][]string{{"", "", ""}, {"d1", "", ""}, {"d1", "data1", "read"}}
	dedges := [][3]string{{"alice", "", ""}, {"alice", "", "d1"}, {"alice", "admin", "d1"}}
	drules := [][]string{{"admin", "d1", "data1", "read"}, {"", "", "", ""}}
	for mask := 0; mask < 1<<uint(len(dedges)); mask++ {
		for _, idx := range c16Subsets(len(drules), 2) {
			cs := &c16Case{kind: "dom", links: c16Mask(dedges, mask), policy: c16Pick(drules, idx), names: names, domains: []string{"", "d1"}, perms: dperms}
			c16Run(c, fmt.Sprintf("c16.cornerd.g%x.p%s", mask, c16Tag(idx)), "corner-empty-names", cs)
		}
	}
}

// F37 (policy-free branch): with an empty policy the matcher is evaluated once on empty fields
func c16ProbeF37(c *Ctx) {
	e := c16Enforcer("plain")
	ok1, err1 := e.Enforce("", "", "")
	_, _ = e.AddGroupingPolicy("alice", "")
	ok2, err2 := e.Enforce("alice", "", "")
	perms, _ := e.GetImplicitPermissionsForUser("alice")
	users, _ := e.GetImplicitUsersForPermission("", "")
	detail := fmt.Sprintf("empty policy: Enforce(\"\",\"\",\"\")=%v; after AddGroupingPolicy(alice,\"\"): Enforce(alice,\"\",\"\")=%v, GetImplicitPermissionsForUser(alice)=%v, GetImplicitUsersForPermission(\"\",\"\")=%v", ok1, ok2, perms, users)
	if err1 == nil && err2 == nil && ok1 && ok2 && len(perms) == 0 {
		c.Known = append(c.Known, "F37\treproduced\t"+detail)
	} else {
		c.Known = append(c.Known, "F37\tgone\t"+detail)
	}
}

func init() {
	register("C16", func(c *Ctx) {
		n3 := []string{"alice", "bob", "admin"}
		n4 := []string{"alice", "bob", "admin", "root"}
		n2 := []string{"alice", "admin"}
		objs := []string{"data1", "data2"}
		rw := []string{"read", "write"}
		doms := []string{"d1", "d2"}
		var parts []string
		if !c.Thorough() {
			a := c16Exhaustive(c, "p3", "plain", n3, []string{""}, true, objs, rw, 2, 0, false)
			b := c16Exhaustive(c, "d2", "dom", n2, doms, true, objs, []string{"read"}, 2, 0, false)
			d := c16Exhaustive(c, "d3", "dom", n3, doms, false, objs, []string{"read"}, 2, 1, false)
			parts = append(parts, fmt.Sprintf("plain: all 512 graphs on 3 names (incl. self links, cycles) x all policies of <=2 rules over 3 subjects x {data1,data2} x {read,write} (%d cases)", a),
				fmt.Sprintf("domains: all 256 graphs on 2 names x 2 domains x all policies of <=2 rules over 2 subjects x 2 domains x 2 objects (%d cases); all 4096 graphs on 3 names x 2 domains without self links x 1 random policy of <=2 rules each (%d cases)", b, d))
			c16Chains(c)
			c16Random(c, 1000)
			c16TwoDefs(c, 400)
			c16DomainPatterns(c, 400)
			c16NamedTypeDomains(c, 300)
			parts = append(parts, "chains and cycles of 9,10,11,12 edges (both families); 1000 seeded random graphs on 4..14 names with policies of <=5 rules")
		} else {
			a := c16Exhaustive(c, "p3", "plain", n3, []string{""}, true, objs, rw, 3, 0, false)
			a4 := c16Exhaustive(c, "p4", "plain", n4, []string{""}, true, objs, rw, 3, 4, false)
			b := c16Exhaustive(c, "d2", "dom", n2, doms, true, objs, rw, 3, 0, false)
			d := c16Exhaustive(c, "d3", "dom", n3, doms, false, objs, []string{"read"}, 3, 8, false)
			parts = append(parts, fmt.Sprintf("plain: all 512 graphs on 3 names x all policies of <=3 rules over 12 rules (%d cases); all 65536 graphs on 4 names (incl. self links) x 4 random policies of <=3 rules over 16 rules each (%d cases)", a, a4),
				fmt.Sprintf("domains: all 256 graphs on 2 names x 2 domains x all policies of <=3 rules over 16 rules (%d cases); all 4096 graphs on 3 names x 2 domains without self links x 8 random policies of <=3 rules (%d cases)", b, d))
			c16Chains(c)
			c16Random(c, 10000)
			c16TwoDefs(c, 6000)
			c16DomainPatterns(c, 4000)
			c16NamedTypeDomains(c, 3000)
			parts = append(parts, "chains and cycles of 9,10,11,12 edges (both families); 10000 seeded random graphs on 4..14 names with policies of <=5 rules")
		}
		c16Corner(c)
		parts = append(parts, c16Histories(c))
		c16ProbeF37(c)
		c.Exhaust = false
		c.Rule = "real enforcers for examples/rbac_model.conf and rbac_with_domains_model.conf, policy via AddPolicy/AddGroupingPolicy; " + strings.Join(parts, "; ") +
			"; plus empty-string names / empty policy corner cases (correspondence only). Observables per case: GetImplicitRolesForUser, GetImplicitUsersForRole, GetRolesForUser, GetUsersForRole (sorted), GetImplicitPermissionsForUser, GetPermissionsForUser, GetImplicitUsersForPermission (Go order), Enforce for every subject x permission, and the harness' own depth guard. Non-trivial = some implicit role listed and some request allowed through an inherited role; distinct by case id (graph, policy)."
	})
}
