package main

import (
	"encoding/json"
	"fmt"

	casbin "github.com/casbin/casbin/v2"
	"github.com/casbin/casbin/v2/model"
)

// JSON requests (EnableAcceptJsonRequest): a request value that is the JSON text of an object is
// the same request as the decoded object; every other string stays the string it is.  An
// implementation-only relation: the decision for the JSON text (flag on) equals the decision for
// map[string]interface{} decoded from it (flag off), for ABAC matchers over r.sub / r.obj
// attributes, for every rule set and request of a small universe; strings that are not JSON
// objects (names, numbers, arrays, broken JSON) give the same decision with the flag on or off.
const c01JsonModel = `[request_definition]
r = sub, obj, act
[policy_definition]
p = sub, obj, act
[policy_effect]
e = some(where (p.eft == allow))
[matchers]
m = (r.sub.Name == p.sub || r.sub.Age >= 18 && p.sub == "adult") && r.obj.Owner == r.sub.Name && r.act == p.act || r.obj.Public == true && p.obj == "public" && r.act == p.act
`

const c01JsonPlainModel = `[request_definition]
r = sub, obj, act
[policy_definition]
p = sub, obj, act
[policy_effect]
e = some(where (p.eft == allow))
[matchers]
m = r.sub == p.sub && r.obj == p.obj && r.act == p.act
`

func c01Json(c *Ctx) {
	subs := []string{`{"Name":"alice","Age":30}`, `{"Name":"bob","Age":12}`, `{"Name":"carol","Age":18}`, `{"Age":44,"Name":"dave"}`}
	objs := []string{`{"Owner":"alice","Public":false}`, `{"Owner":"bob","Public":true}`, `{"Owner":"carol","Public":false}`, `{"Public":true,"Owner":"nobody"}`}
	acts := []string{"read", "write"}
	rules := [][]string{{"alice", "x", "read"}, {"adult", "x", "read"}, {"adult", "x", "write"}, {"bob", "x", "write"}, {"anyone", "public", "read"}, {"carol", "public", "write"}}
	dec := func(s string) interface{} {
		var m map[string]interface{}
		if err := json.Unmarshal([]byte(s), &m); err != nil {
			panic(err)
		}
		return m
	}
	n := 0
	for mask := 0; mask < 1<<uint(len(rules)); mask++ {
		mj, _ := model.NewModelFromString(c01JsonModel)
		ej, _ := casbin.NewEnforcer(mj)
		ej.EnableAcceptJsonRequest(true)
		mm, _ := model.NewModelFromString(c01JsonModel)
		em, _ := casbin.NewEnforcer(mm)
		for i, r := range rules {
			if mask&(1<<uint(i)) != 0 {
				_, _ = ej.AddPolicy(toIface(r)...)
				_, _ = em.AddPolicy(toIface(r)...)
			}
		}
		for _, s := range subs {
			for _, o := range objs {
				for _, a := range acts {
					dj, errj := ej.Enforce(s, o, a)
					dm, errm := em.Enforce(dec(s), dec(o), a)
					if dj != dm || (errj == nil) != (errm == nil) {
						c.Direct(fmt.Sprintf("c01.json.%d", mask), fmt.Sprintf("JSON request (%s, %s, %s) with EnableAcceptJsonRequest gives (%v, %v), the decoded objects give (%v, %v)", s, o, a, dj, errj, dm, errm), fmt.Sprintf("rules mask %b of %v", mask, rules))
					}
					n++
				}
			}
		}
	}
	// strings that are not JSON objects: the flag changes nothing.  (The text `null` is left out:
	// it decodes without error into a nil map, so a subject literally named null is a different
	// request with the flag on -- recorded as observation O5 in DESIGN.md, not claimed.)
	plain := []string{"alice", "data1", "read", "[1,2]", "12", `"alice"`, `{"Name":`, "true", `{`, ``, ` {"a":1}x`}
	for _, flag := range []bool{true} {
		m1, _ := model.NewModelFromString(c01JsonPlainModel)
		e1, _ := casbin.NewEnforcer(m1)
		e1.EnableAcceptJsonRequest(flag)
		m2, _ := model.NewModelFromString(c01JsonPlainModel)
		e2, _ := casbin.NewEnforcer(m2)
		for _, x := range plain {
			_, _ = e1.AddPolicy(x, "data1", "read")
			_, _ = e2.AddPolicy(x, "data1", "read")
		}
		for _, x := range plain {
			for _, y := range plain {
				d1, err1 := e1.Enforce(x, y, "read")
				d2, err2 := e2.Enforce(x, y, "read")
				if d1 != d2 || (err1 == nil) != (err2 == nil) {
					c.Direct("c01.json.plain", fmt.Sprintf("request (%q, %q, read): with EnableAcceptJsonRequest (%v, %v), without (%v, %v) although no value is a JSON object", x, y, d1, err1, d2, err2), "")
				}
				n++
			}
		}
	}
	c.Count(fmt.Sprintf("json-requests=%d", n))
}
