package main

import (
	"fmt"
	"strings"

	casbin "github.com/casbin/casbin/v2"
	"github.com/casbin/casbin/v2/model"
	"github.com/casbin/casbin/v2/util"
)

// C05: role inheritance always mirrors the currently listed grouping rules.
// State-space enumeration over a small universe of grouping rules (incl. a cycle) for the plain
// manager (g, g2) and the domain manager, with every grouping-policy call (single, batch, Ex,
// filtered, update, batch update, ClearPolicy, LoadPolicy, SavePolicy, DeleteUser, DeleteRole);
// after every call: listed rules, HasLink over names x names (x domains), GetRoles, GetUsers,
// compared with the Coq model (Machine.step + Roles.v); and, on the implementation alone, with a
// FRESH real enforcer rebuilt from GetGroupingPolicy (the property's own predicate).

type c05Target struct {
	conf    machConf
	pt      string
	rules   [][]string
	other   string // another role definition / policy type to check isolation
	otherR  [][]string
	names   []string
	domains []string
	onames  []string // names over which the links of the OTHER role definition are observed
}

func (t c05Target) namesFor(pt string) []string {
	if pt != t.pt && len(t.onames) > 0 {
		return t.onames
	}
	return t.names
}

func c05Observe(c *Ctx, id string, k int, m *mach, t c05Target, res string, nores bool) {
	if !nores {
		c.Obs(id, fmt.Sprintf("%d.res", k), res)
	}
	c.Obs(id, fmt.Sprintf("%d.listed", k), m.listedKey())
	for _, d := range m.Conf.Defs {
		if d.IsG {
			c.Obs(id, fmt.Sprintf("%d.links.%s", k, d.Pt), m.linksKey(d.Pt, t.namesFor(d.Pt), t.domains))
		}
	}
}

func c05ObsSpec(t c05Target) string {
	items := []string{"res", "listed"}
	for _, d := range t.conf.Defs {
		if d.IsG {
			items = append(items, L("links", Q(d.Pt), QL(t.namesFor(d.Pt)), QL(t.domains)))
		}
	}
	return strings.Join(items, " ")
}

// fresh enforcer from the listed grouping rules only
func c05FreshLinks(m *mach, t c05Target) map[string]string {
	mm, _ := model.NewModelFromString(m.Conf.Text)
	e, _ := casbin.NewEnforcer(mm)
	out := map[string]string{}
	for _, d := range m.Conf.Defs {
		if !d.IsG {
			continue
		}
		rules, _ := m.E.GetNamedGroupingPolicy(d.Pt)
		for _, r := range rules {
			_, _ = e.AddNamedGroupingPolicy(d.Pt, toIface(r)...)
		}
	}
	f := &mach{Conf: m.Conf, E: e}
	for _, d := range m.Conf.Defs {
		if d.IsG {
			out[d.Pt] = f.linksKey(d.Pt, t.namesFor(d.Pt), t.domains)
		}
	}
	return out
}

func c05Run(c *Ctx, id string, t c05Target, content []prule, autosave bool, ops []mOp, direct bool) string {
	var cs []string
	for _, x := range content {
		cs = append(cs, L(Q(x.Pt), QL(x.Rule)))
	}
	c.Case(id, fmt.Sprintf("(cfg %s) (flags %s 0 none) (content %s) (obs %s) (ops %s)",
		strings.TrimSuffix(strings.TrimPrefix(t.conf.Sx(), "("), ")"), B(autosave), strings.Join(cs, " "), c05ObsSpec(t),
		strings.TrimSuffix(strings.TrimPrefix(opsSx(ops), "("), ")")))
	m := newMach(t.conf, autosave, false, "none", content)
	for k := 0; k < len(ops); k++ {
		o := ops[k]
		if o.Quiet {
			// composite API call: find its last part
			j := k
			for ops[j].Quiet {
				j++
			}
			var res string
			switch ops[k].Kind {
			case "removefiltered":
				if j-k == 1 { // DeleteUser = g filtered(0,u) ; p filtered(0,u)
					res = resStr(m.E.DeleteUser(ops[k].Fvs[0]))
				} else { // DeleteRole = g filtered(0,r) ; g filtered(1,r) ; p filtered(0,r)
					res = resStr(m.E.DeleteRole(ops[k].Fvs[0]))
				}
			}
			k = j
			c.Count("composite")
			c05Observe(c, id, k, m, t, res, true)
			continue
		}
		res := m.apply(o)
		c.Count(o.Kind)
		c05Observe(c, id, k, m, t, res, o.NoRes)
	}
	if direct {
		fresh := c05FreshLinks(m, t)
		for _, d := range m.Conf.Defs {
			if d.IsG {
				if got := m.linksKey(d.Pt, t.namesFor(d.Pt), t.domains); got != fresh[d.Pt] {
					c.Direct(id, "the incrementally maintained role graph of "+d.Pt+" answers differently from one rebuilt from GetGroupingPolicy", fmt.Sprintf("ops=%s incremental=%s rebuilt=%s", opsSx(ops), got, fresh[d.Pt]))
				}
			}
		}
	}
	return m.listedKey()
}

func c05Alphabet(t c05Target) []([]mOp) {
	R := t.rules
	pt := t.pt
	var al [][]mOp
	one := func(o mOp) { al = append(al, []mOp{o}) }
	for i := range R {
		one(mOp{Kind: "add", Pt: pt, R1: [][]string{R[i]}})
		one(mOp{Kind: "remove", Pt: pt, R1: [][]string{R[i]}})
	}
	one(mOp{Kind: "addmany", Pt: pt, R1: [][]string{R[0], R[1]}})
	one(mOp{Kind: "addmany", Pt: pt, R1: [][]string{R[2], R[3]}})
	one(mOp{Kind: "addmanyex", Pt: pt, R1: [][]string{R[1], R[2], R[3]}})
	one(mOp{Kind: "addmanyex", Pt: pt, R1: [][]string{R[0], R[0]}})
	one(mOp{Kind: "removemany", Pt: pt, R1: [][]string{R[0], R[2]}})
	one(mOp{Kind: "removemany", Pt: pt, R1: [][]string{R[1], R[3]}})
	one(mOp{Kind: "update", Pt: pt, R1: [][]string{R[0]}, R2: [][]string{R[1]}})
	one(mOp{Kind: "update", Pt: pt, R1: [][]string{R[2]}, R2: [][]string{R[3]}})
	one(mOp{Kind: "update", Pt: pt, R1: [][]string{R[3]}, R2: [][]string{R[0]}})
	one(mOp{Kind: "updatemany", Pt: pt, R1: [][]string{R[0], R[1]}, R2: [][]string{R[2], R[3]}})
	one(mOp{Kind: "updatemany", Pt: pt, R1: [][]string{R[2], R[3]}, R2: [][]string{R[1], R[0]}})
	// identity and overlapping updates: old and new rules resolve to the same links, so the order
	// "remove the old links, then add the new ones" is observable (outside the F08 guard when the
	// rules are listed: correspondence and link predicate only, successors not explored)
	one(mOp{Kind: "update", Pt: pt, R1: [][]string{R[1]}, R2: [][]string{R[1]}})
	one(mOp{Kind: "updatemany", Pt: pt, R1: [][]string{R[0], R[1]}, R2: [][]string{R[1], R[2]}})
	one(mOp{Kind: "updatemany", Pt: pt, R1: [][]string{R[2], R[0]}, R2: [][]string{R[2], R[3]}})
	one(mOp{Kind: "removefiltered", Pt: pt, Fi: 0, Fvs: []string{R[0][0]}})
	one(mOp{Kind: "removefiltered", Pt: pt, Fi: 1, Fvs: []string{R[0][1]}})
	if len(R[0]) == 3 {
		one(mOp{Kind: "removefiltered", Pt: pt, Fi: 2, Fvs: []string{R[0][2]}})
		one(mOp{Kind: "removefiltered", Pt: pt, Fi: 0, Fvs: []string{"", "", R[1][2]}})
	}
	// a filter that is WIDER than the rules, its surplus values empty (DeleteRolesForUser(user, "")
	// style calls): the surplus is a wildcard, the rules are selected by the leading values
	wide := append(append([]string{R[0][0]}, make([]string, len(R[0])-1)...), "")
	one(mOp{Kind: "removefiltered", Pt: pt, Fi: 0, Fvs: wide})
	one(mOp{Kind: "removefiltered", Pt: pt, Fi: 1, Fvs: append(append([]string{R[0][1]}, make([]string, len(R[0])-2)...), "", "")})
	one(mOp{Kind: "clear"})
	one(mOp{Kind: "load"})
	al = append(al, []mOp{{Kind: "save"}, {Kind: "load"}})
	// rules that exist in memory only (auto-save off) and a reload from the store, which does not
	// have them: their links must go with them, also when the store has NO rule of the definition
	al = append(al, []mOp{{Kind: "autosave", B: false}, {Kind: "add", Pt: pt, R1: [][]string{R[0]}}, {Kind: "add", Pt: pt, R1: [][]string{R[2]}}, {Kind: "load"}, {Kind: "autosave", B: true}})
	al = append(al, []mOp{{Kind: "autosave", B: false}, {Kind: "addmany", Pt: pt, R1: [][]string{R[1], R[3]}}, {Kind: "add", Pt: t.other, R1: [][]string{t.otherR[0]}}, {Kind: "load"}, {Kind: "autosave", B: true}})
	// the other definition / type: must not disturb this one
	one(mOp{Kind: "add", Pt: t.other, R1: [][]string{t.otherR[0]}})
	one(mOp{Kind: "remove", Pt: t.other, R1: [][]string{t.otherR[0]}})
	if t.conf.Name == "rbac" && pt == "g" {
		// DeleteUser / DeleteRole (rbac_api.go) as composites of filtered removals
		u := R[0][0]
		al = append(al, []mOp{{Kind: "removefiltered", Pt: "g", Fi: 0, Fvs: []string{u}, Quiet: true},
			{Kind: "removefiltered", Pt: "p", Fi: 0, Fvs: []string{u}, NoRes: true}})
		r := R[0][1]
		al = append(al, []mOp{{Kind: "removefiltered", Pt: "g", Fi: 0, Fvs: []string{r}, Quiet: true},
			{Kind: "removefiltered", Pt: "g", Fi: 1, Fvs: []string{r}, Quiet: true},
			{Kind: "removefiltered", Pt: "p", Fi: 0, Fvs: []string{r}, NoRes: true}})
	}
	return al
}

func c05Guard(cur [][]string, ops []mOp, pt string) bool {
	for _, o := range ops {
		if o.Pt != pt {
			continue
		}
		if o.Kind == "update" && (containsRule(cur, o.R2[0])) {
			return false
		}
		if o.Kind == "updatemany" {
			for _, n := range o.R2 {
				if containsRule(cur, n) || containsRule(o.R1, n) {
					return false
				}
			}
		}
	}
	return true
}

func init() {
	register("C05", func(c *Ctx) {
		c.Rule = "state-space enumeration: every reachable ordered list of grouping rules over a 4-rule universe (with a cycle) x an alphabet of ~30 calls (single/batch/Ex add, remove, update, batch update, filtered removal, ClearPolicy, LoadPolicy, Save+Load, DeleteUser, DeleteRole, calls on the other definition), for g and g2 of an RBAC model (plain manager) and g of a domain model (domain manager), auto-save on; thorough adds depth-2 continuations from every state. Distinct = (target, state, call); non-trivial = the state or the call involves at least one grouping rule. Additions: g2 links observed over the union of both name sets; identity / chain updates compared with the model outside the F08 guard (no fresh-enforcer predicate there); memory-only rules (auto-save off) followed by a reload from a store that lacks them."
		targets := []c05Target{
			{conf: machRBAC, pt: "g", rules: [][]string{{"alice", "admin"}, {"bob", "admin"}, {"admin", "root"}, {"root", "alice"}},
				other: "g2", otherR: [][]string{{"data1", "grp"}}, names: []string{"alice", "bob", "admin", "root"}, onames: []string{"data1", "grp"}},
			{conf: machRBAC, pt: "g2", rules: [][]string{{"data1", "grp"}, {"data2", "grp"}, {"grp", "all"}, {"grp", "data1"}},
				other: "g", otherR: [][]string{{"alice", "admin"}}, names: []string{"data1", "data2", "grp", "all"}, onames: []string{"alice", "admin"}},
			{conf: machDomain, pt: "g", rules: [][]string{{"alice", "admin", "d1"}, {"alice", "admin", "d2"}, {"bob", "admin", "d1"}, {"admin", "root", "d1"}},
				other: "p", otherR: [][]string{{"admin", "d1", "data1", "read"}}, names: []string{"alice", "bob", "admin", "root"}, domains: []string{"d1", "d2"}},
		}
		c05Detours(c)
		c05FailedReloads(c)
		c05PatternComposites(c)
		for ti, t := range targets {
			al := c05Alphabet(t)
			type node struct{ path []mOp }
			// initial content: one policy rule so that DeleteUser/DeleteRole have something to do
			var content []prule
			if t.conf.Name == "rbac" {
				content = []prule{{"p", []string{"alice", "data1", "read"}}, {"p", []string{"admin", "data1", "write"}}}
			}
			seen := map[string]bool{}
			start := []mOp{{Kind: "load"}}
			queue := []node{{path: start}}
			nstates := 0
			for len(queue) > 0 {
				n := queue[0]
				queue = queue[1:]
				nstates++
				m0 := newMach(t.conf, true, false, "none", content)
				for _, o := range n.path {
					if o.Quiet || o.NoRes {
						oo := o
						oo.Quiet, oo.NoRes = false, false
						m0.apply(oo)
					} else {
						m0.apply(o)
					}
				}
				cur, _ := m0.E.GetNamedGroupingPolicy(t.pt)
				cur = append([][]string(nil), cur...)
				if nstates == 1 {
					seen[m0.listedKey()] = true
				}
				for ai, a := range al {
					inGuard := c05Guard(cur, a, t.pt)
					ops := append(append([]mOp(nil), n.path...), a...)
					id := fmt.Sprintf("c05.%d.s%d.o%d", ti, nstates, ai)
					key := c05Run(c, id, t, content, true, ops, inGuard)
					c.NonTrivial(fmt.Sprintf("%d|%s|%d", ti, rulesKey(cur), ai))
					if !inGuard {
						// update onto a listed rule (F08 territory of C06: the listing may hold a rule
						// twice or lose one afterwards, and the links follow the call's arguments, not
						// the listing).  The model follows the code there, so the call is compared with
						// the model (correspondence only, no fresh-enforcer predicate); the resulting
						// state is not explored further.
						c.Count("outside-F08-guard(compared, successors not explored)")
						continue
					}
					if !seen[key] {
						seen[key] = true
						queue = append(queue, node{path: ops})
					}
					if c.Thorough() && ai%3 == 0 {
						// depth-2 continuation with a seeded second call
						b := al[c.Rng.Intn(len(al))]
						mid, _ := func() ([][]string, error) {
							mm := newMach(t.conf, true, false, "none", content)
							for _, o := range ops {
								oo := o
								oo.Quiet, oo.NoRes = false, false
								mm.apply(oo)
							}
							return mm.E.GetNamedGroupingPolicy(t.pt)
						}()
						if c05Guard(mid, b, t.pt) {
							c05Run(c, id+".x", t, content, true, append(append([]mOp(nil), ops...), b...), true)
						}
					}
				}
			}
			c.Count(fmt.Sprintf("states.%d=%d", ti, nstates))
		}
		c.Exhaust = true
		c05Probes(c)
	})
}

// transitive detours: every ordered way of adding (and removing again) the three links a->b,
// b->c and the shortcut a->c, so that each link is at some point redundant when it is added and
// the only path later.  Every sequence of up to 5 single calls over the 6 add/remove calls.
func c05Detours(c *Ctx) {
	t := c05Target{conf: machRBAC, pt: "g", names: []string{"a", "b", "c"}, onames: []string{"a"}}
	rules := [][]string{{"a", "b"}, {"b", "c"}, {"a", "c"}}
	var al []mOp
	for _, r := range rules {
		al = append(al, mOp{Kind: "add", Pt: "g", R1: [][]string{r}}, mOp{Kind: "remove", Pt: "g", R1: [][]string{r}})
	}
	depth := 4
	if c.Thorough() {
		depth = 6
	}
	n := 0
	var rec func(seq []mOp)
	rec = func(seq []mOp) {
		if len(seq) == depth {
			n++
			c05Run(c, fmt.Sprintf("c05.detour.%d", n), t, nil, true, append([]mOp{{Kind: "load"}}, seq...), true)
			return
		}
		for _, o := range al {
			// skip no-ops: adding a listed rule, removing an unlisted one
			listed := false
			for _, x := range seq {
				if sameRule(x.R1[0], o.R1[0]) {
					listed = x.Kind == "add"
				}
			}
			if (o.Kind == "add") == listed {
				continue
			}
			rec(append(append([]mOp(nil), seq...), o))
		}
	}
	rec(nil)
	c.Count(fmt.Sprintf("detour-sequences=%d", n))
}

const c05CondModel = `[request_definition]
r = sub, obj, act
[policy_definition]
p = sub, obj, act
[role_definition]
g = _, _, (_, _)
[policy_effect]
e = some(where (p.eft == allow))
[matchers]
m = g(r.sub, p.sub) && r.obj == p.obj && r.act == p.act
`

// reloads rejected while the links are rebuilt: afterwards the role graph still mirrors the
// (unchanged or changed, whatever is listed) grouping rules
func c05FailedReloads(c *Ctx) {
	machFailedReloads(c, "c05", func(id string, m *mach, conf machConf) {
		t := c05Target{conf: conf, pt: "g", names: []string{"alice", "bob", "carol", "dave", "admin", "staff"}, domains: []string{"d1", "d2"}}
		if conf.Text == machRBAC.Text {
			t.domains = nil
		}
		fresh := c05FreshLinks(m, t)
		if got := m.linksKey("g", t.names, t.domains); got != fresh["g"] {
			c.Direct(id, "after a reload that was rejected while the role links were rebuilt, the role graph answers differently from one rebuilt from GetGroupingPolicy", fmt.Sprintf("content=%v listed=%s live=%s rebuilt=%s", m.A.Content, m.listedKey(), got, fresh["g"]))
		}
	})
}

// the composite role APIs under domain patterns (implementation only): roles held through a rule
// of the pattern domain "*" next to roles of the concrete domain; DeleteRolesForUser /
// DeleteRoleForUser(InDomain) / DeleteUser remove listed rules only, and afterwards the role graph
// answers like one rebuilt from GetGroupingPolicy with the same matching function.  (The same
// (user, role) pair is never listed both under "*" and under a concrete domain: F05.)
func c05PatternComposites(c *Ctx) {
	names := []string{"alice", "bob", "admin", "auditor", "staff"}
	doms := []string{"d1", "d2"}
	base := [][]string{{"alice", "auditor", "*"}, {"alice", "admin", "d1"}, {"bob", "staff", "*"}, {"bob", "admin", "d2"}, {"alice", "staff", "d2"}}
	build := func(rules [][]string) *casbin.Enforcer {
		mm, _ := model.NewModelFromString(machDomain.Text)
		e, _ := casbin.NewEnforcer(mm)
		e.AddNamedDomainMatchingFunc("g", "keyMatch", util.KeyMatch)
		for _, r := range rules {
			_, _ = e.AddGroupingPolicy(toIface(r)...)
		}
		return e
	}
	links := func(e *casbin.Enforcer) string {
		var parts []string
		rm := e.GetRoleManager()
		for _, d := range doms {
			for _, u := range names {
				for _, r := range names {
					if hl, _ := rm.HasLink(u, r, d); hl && u != r {
						parts = append(parts, u+">"+r+"@"+d)
					}
				}
			}
		}
		return strings.Join(parts, " ")
	}
	calls := []struct {
		name string
		f    func(e *casbin.Enforcer)
	}{
		{"DeleteRolesForUser(alice,d1)", func(e *casbin.Enforcer) { _, _ = e.DeleteRolesForUser("alice", "d1") }},
		{"DeleteRolesForUser(bob,d2)", func(e *casbin.Enforcer) { _, _ = e.DeleteRolesForUser("bob", "d2") }},
		// DeleteRolesForUserInDomain is left out: it builds its batch from GetRoles, which under
		// domain patterns also returns roles held through "*", and RemoveGroupingPolicies deletes
		// the link of every rule in the batch, listed or not (F05 family, see DESIGN F05+)
		{"DeleteRoleForUserInDomain(alice,admin,d1)", func(e *casbin.Enforcer) { _, _ = e.DeleteRoleForUserInDomain("alice", "admin", "d1") }},
		{"DeleteRoleForUser(alice,staff,d2)", func(e *casbin.Enforcer) { _, _ = e.DeleteRoleForUser("alice", "staff", "d2") }},
		{"DeleteRole(admin)", func(e *casbin.Enforcer) { _, _ = e.DeleteRole("admin") }},
		{"DeleteUser(bob)", func(e *casbin.Enforcer) { _, _ = e.DeleteUser("bob") }},
		{"DeleteAllUsersByDomain(d2)", func(e *casbin.Enforcer) { _, _ = e.DeleteAllUsersByDomain("d2") }},
		{"DeleteDomains(d1)", func(e *casbin.Enforcer) { _, _ = e.DeleteDomains("d1") }},
	}
	for _, cl := range calls {
		e := build(base)
		before, _ := e.GetGroupingPolicy()
		cl.f(e)
		listed, _ := e.GetGroupingPolicy()
		// only listed rules may disappear (set inclusion)
		for _, r := range listed {
			found := false
			for _, b := range before {
				if sameRule(r, b) {
					found = true
				}
			}
			if !found {
				c.Direct("c05.patcomp."+cl.name, "a rule appeared", fmt.Sprintf("%v", r))
			}
		}
		if got, want := links(e), links(build(listed)); got != want {
			c.Direct("c05.patcomp."+cl.name, "domain patterns: after "+cl.name+" the role graph answers differently from one rebuilt from GetGroupingPolicy", fmt.Sprintf("listed=%v live=[%s] rebuilt=[%s]", listed, got, want))
		}
		c.Count("pattern-composite")
	}
}

func c05Probes(c *Ctx) {
	mk := func(text string) *casbin.Enforcer {
		m, _ := model.NewModelFromString(text)
		e, _ := casbin.NewEnforcer(m)
		return e
	}
	{ // F03: g rules longer than the definition alias one link
		e := mk(machRBAC.Text)
		_, _ = e.AddGroupingPolicy("alice", "admin", "x")
		_, _ = e.AddGroupingPolicy("alice", "admin", "y")
		_, _ = e.RemoveGroupingPolicy("alice", "admin", "x")
		gp, _ := e.GetGroupingPolicy()
		hl, _ := e.GetRoleManager().HasLink("alice", "admin")
		if len(gp) == 1 && !hl {
			c.Known = append(c.Known, "F03\treproduced\tg = _, _ with rules [alice admin x],[alice admin y]: removing the first drops the link although the second is listed")
		} else {
			c.Known = append(c.Known, "F03\tgone\t")
		}
	}
	{ // F04: conditional role definition, single add builds no link
		e := mk(c05CondModel)
		_, _ = e.AddPolicy("admin", "data1", "read")
		_, _ = e.AddGroupingPolicy("alice", "admin", "_", "_")
		r1, _ := e.Enforce("alice", "data1", "read")
		e2 := mk(c05CondModel)
		_, _ = e2.AddPolicy("admin", "data1", "read")
		_, _ = e2.AddGroupingPolicies([][]string{{"alice", "admin", "_", "_"}})
		r2, _ := e2.Enforce("alice", "data1", "read")
		_, _ = e2.RemoveGroupingPolicy("alice", "admin", "_", "_")
		r3, _ := e2.Enforce("alice", "data1", "read")
		if !r1 && r2 || r3 {
			c.Known = append(c.Known, fmt.Sprintf("F04\treproduced\tconditional role definition: single AddGroupingPolicy => Enforce %v, batch => %v, after RemoveGroupingPolicy still %v", r1, r2, r3))
		} else {
			c.Known = append(c.Known, "F04\tgone\t")
		}
	}
	{ // F05: overlapping pattern domains
		e := mk(machDomain.Text)
		e.AddNamedDomainMatchingFunc("g", "km", util.KeyMatch)
		_, _ = e.AddPolicy("admin", "d1", "data1", "read")
		_, _ = e.AddGroupingPolicy("alice", "admin", "*")
		_, _ = e.AddGroupingPolicy("alice", "admin", "d1")
		_, _ = e.RemoveGroupingPolicy("alice", "admin", "*")
		r2, _ := e.Enforce("alice", "d1", "data1", "read")
		if !r2 {
			c.Known = append(c.Known, "F05\treproduced\tdomain pattern *: rules [alice admin *],[alice admin d1]; removing the first deletes the link in d1 although the second is listed")
		} else {
			c.Known = append(c.Known, "F05\tgone\t")
		}
	}
	{ // F06: lingering names under role patterns
		build := func(linger bool) bool {
			e := mk(machRBAC.Text)
			e.AddNamedMatchingFunc("g", "km", util.RegexMatch)
			_, _ = e.AddPolicy("admin", "data1", "read")
			_, _ = e.AddGroupingPolicy("u", "^/a/.*$")
			_, _ = e.AddGroupingPolicy("^.*1$", "admin")
			if linger {
				_, _ = e.AddGroupingPolicy("x", "/a/b1")
				_, _ = e.RemoveGroupingPolicy("x", "/a/b1")
			}
			r, _ := e.Enforce("u", "data1", "read")
			return r
		}
		if build(false) != build(true) {
			c.Known = append(c.Known, "F06\treproduced\trole pattern RegexMatch: adding and removing [x /a/b1] (listing unchanged) changes Enforce(u,data1,read): names created by getRole linger and take part in matching")
		} else {
			c.Known = append(c.Known, "F06\tgone\t")
		}
	}
}
