package main

import (
	"fmt"
	"math/rand"
	"sort"
	"strconv"
	"strings"
)

// ---------------------------------------------------------------------------------------
// C01: matcher ASTs (the grammar of coq/Expr.v), typed request values, printers.
// ---------------------------------------------------------------------------------------

// expression kinds: v var, a accessor, s string, n number, b bool, o binary operator,
// ! not, i in, c call
type c01E struct {
	k    byte
	name string   // v: token (r_sub), a: base token, c: function name, o: operator
	path []string // a
	s    string
	n    int
	b    bool
	x, y *c01E
	l    []*c01E // i: list elements, c: arguments
}

func c01Var(n string) *c01E            { return &c01E{k: 'v', name: n} }
func c01Acc(b string, p ...string) *c01E { return &c01E{k: 'a', name: b, path: p} }
func c01Str(s string) *c01E            { return &c01E{k: 's', s: s} }
func c01Num(n int) *c01E               { return &c01E{k: 'n', n: n} }
func c01Bool(b bool) *c01E             { return &c01E{k: 'b', b: b} }
func c01Bin(op string, x, y *c01E) *c01E { return &c01E{k: 'o', name: op, x: x, y: y} }
func c01Not(x *c01E) *c01E             { return &c01E{k: '!', x: x} }
func c01In(x *c01E, l ...*c01E) *c01E  { return &c01E{k: 'i', x: x, l: l} }
func c01Call(f string, a ...*c01E) *c01E { return &c01E{k: 'c', name: f, l: a} }
func c01And(es ...*c01E) *c01E {
	r := es[0]
	for _, e := range es[1:] {
		r = c01Bin("&&", r, e)
	}
	return r
}
func c01Eq(x, y *c01E) *c01E { return c01Bin("==", x, y) }

// printing style of a matcher text
type c01Style struct {
	dot  bool // r.sub instead of r_sub (what model files contain; EscapeAssertion rewrites it)
	full bool // every compound sub-expression parenthesised
	sq   bool // 'single' instead of "double" quotes
	br   bool // in-lists with [ ] (rewritten to ( ) by Model.AddDef only)
}

func c01Prec(e *c01E) int {
	switch e.k {
	case 'o':
		switch e.name {
		case "||":
			return 1
		case "&&":
			return 2
		case "+", "-":
			return 4
		default:
			return 3
		}
	case 'i':
		return 3
	}
	return 9
}

func c01Tok(name string, st c01Style) string {
	if st.dot {
		if i := strings.Index(name, "_"); i > 0 {
			return name[:i] + "." + name[i+1:]
		}
	}
	return name
}

func c01Print(e *c01E, st c01Style) string {
	wrap := func(c *c01E, need bool) string {
		s := c01Print(c, st)
		if c01Prec(c) < 9 && (st.full || need) {
			return "(" + s + ")"
		}
		return s
	}
	switch e.k {
	case 'v':
		return c01Tok(e.name, st)
	case 'a':
		return c01Tok(e.name, st) + "." + strings.Join(e.path, ".")
	case 's':
		// govaluate ends a string literal at either quote character; a backslash escapes anything
		body := strings.NewReplacer("\\", "\\\\", "'", "\\'", "\"", "\\\"").Replace(e.s)
		if st.sq {
			return "'" + body + "'"
		}
		return "\"" + body + "\""
	case 'n':
		return strconv.Itoa(e.n)
	case 'b':
		if e.b {
			return "true"
		}
		return "false"
	case 'o':
		p := c01Prec(e)
		return wrap(e.x, c01Prec(e.x) < p) + " " + e.name + " " + wrap(e.y, c01Prec(e.y) <= p)
	case '!':
		// govaluate's tokenizer refuses a string literal directly behind the prefix (`!"x"`: "cannot
		// transition token types from PREFIX to STRING"); in parentheses it parses and is a type
		// error only when it is evaluated, which is what the AST handed to the model says
		if c01Prec(e.x) == 9 && e.x.k != '!' && e.x.k != 's' && !st.full {
			return "!" + c01Print(e.x, st)
		}
		return "!(" + c01Print(e.x, st) + ")"
	case 'i':
		items := make([]string, len(e.l))
		for i, x := range e.l {
			items[i] = wrap(x, false)
		}
		o, c := "(", ")"
		if st.br {
			o, c = "[", "]"
		}
		return wrap(e.x, c01Prec(e.x) <= 3) + " in " + o + strings.Join(items, ", ") + c
	case 'c':
		items := make([]string, len(e.l))
		for i, x := range e.l {
			items[i] = wrap(x, false)
		}
		return e.name + "(" + strings.Join(items, ", ") + ")"
	}
	panic("c01Print")
}

// S-expression of an AST for the model driver
func c01Sexp(e *c01E) string {
	switch e.k {
	case 'v':
		return L("v", Q(e.name))
	case 'a':
		return L("a", Q(e.name), QL(e.path))
	case 's':
		return L("s", Q(e.s))
	case 'n':
		return L("n", I(e.n))
	case 'b':
		return L("b", B(e.b))
	case 'o':
		return L("o", Q(e.name), c01Sexp(e.x), c01Sexp(e.y))
	case '!':
		return L("not", c01Sexp(e.x))
	case 'i':
		items := make([]string, len(e.l))
		for i, x := range e.l {
			items[i] = c01Sexp(x)
		}
		return L("in", c01Sexp(e.x), L(items...))
	case 'c':
		items := make([]string, len(e.l))
		for i, x := range e.l {
			items[i] = c01Sexp(x)
		}
		return L("c", Q(e.name), L(items...))
	}
	panic("c01Sexp")
}

// ---------- typed request values ----------
// kinds: z nil, s string, n int, b bool, m map[string]interface{}, u c01User, w c01Res, l list
type c01V struct {
	k byte
	s string
	n int
	b bool
	f []c01F
	l []c01V
}
type c01F struct {
	k string
	v c01V
}

// the struct types handed to Enforce as request values
type c01User struct {
	Name  string
	Age   int
	Owner string
}
type c01Res struct {
	Name  string
	Owner string
	age   int
}

func c01S(s string) c01V { return c01V{k: 's', s: s} }
func c01N(n int) c01V    { return c01V{k: 'n', n: n} }
func c01B(b bool) c01V   { return c01V{k: 'b', b: b} }
func c01Map(f ...c01F) c01V {
	sort.Slice(f, func(i, j int) bool { return f[i].k < f[j].k })
	return c01V{k: 'm', f: f}
}
func c01UserV(name string, age int, owner string) c01V {
	return c01V{k: 'u', f: []c01F{{"Name", c01S(name)}, {"Age", c01N(age)}, {"Owner", c01S(owner)}}}
}
func c01ResV(name, owner string, age int) c01V {
	return c01V{k: 'w', f: []c01F{{"Name", c01S(name)}, {"Owner", c01S(owner)}, {"age", c01N(age)}}}
}

func (v c01V) toGo() interface{} {
	switch v.k {
	case 'z':
		return nil
	case 's':
		return v.s
	case 'n':
		return v.n
	case 'b':
		return v.b
	case 'm':
		m := map[string]interface{}{}
		for _, f := range v.f {
			m[f.k] = f.v.toGo()
		}
		return m
	case 'u':
		return c01User{Name: v.f[0].v.s, Age: v.f[1].v.n, Owner: v.f[2].v.s}
	case 'w':
		return c01Res{Name: v.f[0].v.s, Owner: v.f[1].v.s, age: v.f[2].v.n}
	}
	panic("toGo")
}

func (v c01V) sexp() string {
	switch v.k {
	case 'z':
		return "nil"
	case 's':
		return L("s", Q(v.s))
	case 'n':
		return L("n", I(v.n))
	case 'b':
		return L("b", B(v.b))
	case 'm', 'u', 'w':
		items := []string{"m"}
		if v.k != 'm' {
			items[0] = "st"
		}
		for _, f := range v.f {
			items = append(items, L(Q(f.k), f.v.sexp()))
		}
		return L(items...)
	case 'l':
		items := []string{"l"}
		for _, x := range v.l {
			items = append(items, x.sexp())
		}
		return L(items...)
	}
	panic("sexp")
}

// ---------- random matcher ASTs ----------
type c01Vocab struct {
	strVars  []string   // tokens holding strings (r_* and p_*)
	objVars  []string   // request tokens that may hold maps / structs
	strs     []string   // literal universe
	gs       []c01GDef  // role definitions
	evalTok  string     // p token holding sub-rules ("" if the family has no eval)
	fns      []string   // two-string built-ins that may be called
	illTyped int        // per-mille probability of an arbitrary sub-expression
}

type c01GDef struct {
	name  string
	count int
}

func c01Pick(r *rand.Rand, ss []string) string { return ss[r.Intn(len(ss))] }

func (vc *c01Vocab) genStr(r *rand.Rand, d int) *c01E {
	if r.Intn(1000) < vc.illTyped {
		return vc.genAny(r, d)
	}
	n := r.Intn(10)
	switch {
	case d > 0 && n == 0:
		return c01Bin("+", vc.genStr(r, d-1), vc.genStr(r, d-1))
	case n <= 5 && len(vc.strVars) > 0:
		return c01Var(c01Pick(r, vc.strVars))
	case n == 6 && len(vc.objVars) > 0:
		return c01Acc(c01Pick(r, vc.objVars), c01Pick(r, []string{"Name", "Owner", "Name", "Owner", "name", "Missing"}))
	default:
		return c01Str(c01Pick(r, vc.strs))
	}
}

func (vc *c01Vocab) genNum(r *rand.Rand, d int) *c01E {
	if r.Intn(1000) < vc.illTyped {
		return vc.genAny(r, d)
	}
	n := r.Intn(10)
	switch {
	case d > 0 && n <= 1:
		return c01Bin(c01Pick(r, []string{"+", "-"}), vc.genNum(r, d-1), vc.genNum(r, d-1))
	case n <= 5 && len(vc.objVars) > 0:
		return c01Acc(c01Pick(r, vc.objVars), c01Pick(r, []string{"Age", "Age", "Age", "age"}))
	default:
		return c01Num([]int{0, 1, 17, 18, 19, 30, 65}[r.Intn(7)])
	}
}

func (vc *c01Vocab) genAny(r *rand.Rand, d int) *c01E {
	save := vc.illTyped
	vc.illTyped = 0
	defer func() { vc.illTyped = save }()
	switch r.Intn(3) {
	case 0:
		return vc.genStr(r, d)
	case 1:
		return vc.genNum(r, d)
	default:
		return vc.genBool(r, d)
	}
}

func (vc *c01Vocab) genList(r *rand.Rand, d int) []*c01E {
	n := 1 + r.Intn(3)
	if r.Intn(4) > 0 && n == 1 {
		n = 2
	}
	l := make([]*c01E, n)
	for i := range l {
		if r.Intn(6) == 0 {
			l[i] = vc.genStr(r, 0)
		} else {
			l[i] = c01Str(c01Pick(r, vc.strs))
		}
	}
	return l
}

func (vc *c01Vocab) genBool(r *rand.Rand, d int) *c01E {
	if r.Intn(1000) < vc.illTyped {
		return vc.genAny(r, d)
	}
	if d <= 0 {
		switch r.Intn(8) {
		case 0:
			return c01Bool(r.Intn(2) == 0)
		case 1:
			if len(vc.gs) > 0 {
				return vc.genG(r, 0)
			}
		case 2:
			return c01In(vc.genStr(r, 0), vc.genList(r, 0)...)
		case 3:
			if len(vc.objVars) > 0 {
				return c01Bin(c01Pick(r, []string{"<", "<=", ">", ">="}), vc.genNum(r, 0), vc.genNum(r, 0))
			}
		}
		return c01Bin(c01Pick(r, []string{"==", "==", "==", "!="}), vc.genStr(r, 0), vc.genStr(r, 0))
	}
	switch r.Intn(14) {
	case 0, 1, 2:
		return c01Bin("&&", vc.genBool(r, d-1), vc.genBool(r, d-1))
	case 3, 4:
		return c01Bin("||", vc.genBool(r, d-1), vc.genBool(r, d-1))
	case 5:
		return c01Not(vc.genBool(r, d-1))
	case 6:
		return c01Bin(c01Pick(r, []string{"<", "<=", ">", ">="}), vc.genNum(r, d-1), vc.genNum(r, d-1))
	case 7:
		return c01Bin(c01Pick(r, []string{"<", "<=", ">", ">="}), vc.genStr(r, d-1), vc.genStr(r, d-1))
	case 8:
		return c01In(vc.genStr(r, d-1), vc.genList(r, d-1)...)
	case 9:
		if len(vc.gs) > 0 {
			return vc.genG(r, d-1)
		}
	case 10:
		if len(vc.fns) > 0 {
			return c01Call(c01Pick(r, vc.fns), vc.genStr(r, d-1), vc.genStr(r, d-1))
		}
	case 11:
		if vc.evalTok != "" {
			return c01Call("eval", c01Var(vc.evalTok))
		}
	case 12:
		return c01Bin(c01Pick(r, []string{"==", "!="}), vc.genNum(r, d-1), vc.genNum(r, d-1))
	}
	return c01Bin(c01Pick(r, []string{"==", "==", "!="}), vc.genStr(r, d-1), vc.genStr(r, d-1))
}

func (vc *c01Vocab) genG(r *rand.Rand, d int) *c01E {
	g := vc.gs[r.Intn(len(vc.gs))]
	n := g.count
	switch r.Intn(12) {
	case 0:
		n = 2
	case 1:
		n = 3
	case 2:
		n = 1 + r.Intn(4)
	}
	args := make([]*c01E, n)
	for i := range args {
		args[i] = vc.genStr(r, d)
	}
	return c01Call(g.name, args...)
}

func c01Depth(e *c01E) int {
	if e == nil {
		return 0
	}
	d := 0
	for _, c := range append([]*c01E{e.x, e.y}, e.l...) {
		if x := c01Depth(c); x > d {
			d = x
		}
	}
	return d + 1
}

func c01HasCall(e *c01E, f string) bool {
	if e == nil {
		return false
	}
	if e.k == 'c' && e.name == f {
		return true
	}
	for _, c := range append([]*c01E{e.x, e.y}, e.l...) {
		if c01HasCall(c, f) {
			return true
		}
	}
	return false
}

var _ = fmt.Sprint
