package main

import (
	"fmt"
	"strings"

	casbin "github.com/casbin/casbin/v2"
	"github.com/casbin/casbin/v2/model"
	stringadapter "github.com/casbin/casbin/v2/persist/string-adapter"
)

// C06: the policy store is an ordered set with a coherent index.
// (1) state-space enumeration: every reachable ordered list over a 4-rule universe x every
//     concrete operation of the alphabet, for three policy types (p2 arity 2, p arity 3, g);
// (2) random histories over a universe with separator-like characters (no comma: F07);
// every step is compared with the extracted Coq store (Machine.step, auto-save off) on
// result, listed rules (order), HasPolicy over the universe and four filtered queries; the
// property's own predicates (no duplicate, present <=> listed, false <=> unchanged) are also
// evaluated on the implementation alone.

type c06Uni struct {
	Pt    string
	Rules [][]string
	Filts []mOp // filtered removals / queries
}

func c06Universe(pt string, arity int) c06Uni {
	var u c06Uni
	u.Pt = pt
	for _, a := range []string{"a", "b"} {
		for _, x := range []string{"x", "y"} {
			r := []string{a, x}
			for len(r) < arity {
				r = append(r, "r")
			}
			u.Rules = append(u.Rules, r)
		}
	}
	u.Filts = []mOp{
		{Kind: "removefiltered", Pt: pt, Fi: 0, Fvs: []string{"a"}},
		{Kind: "removefiltered", Pt: pt, Fi: 0, Fvs: []string{"", "x"}},
		{Kind: "removefiltered", Pt: pt, Fi: 1, Fvs: []string{"y"}},
		{Kind: "removefiltered", Pt: pt, Fi: 0, Fvs: []string{"b", "y"}},
		{Kind: "removefiltered", Pt: pt, Fi: 0, Fvs: []string{"c"}},
	}
	return u
}

// a universe for the priority model (p = priority, sub, obj, act, eft): insertion in front of
// listed rules (lower priority value), ties, and a rule that sorts last
func c06PrioUniverse(pt string) c06Uni {
	u := c06Uni{Pt: pt}
	u.Rules = [][]string{{"2", "a", "x", "r", "allow"}, {"1", "a", "y", "r", "deny"}, {"1", "b", "x", "r", "allow"}, {"3", "b", "y", "r", "deny"}}
	u.Filts = []mOp{
		{Kind: "removefiltered", Pt: pt, Fi: 1, Fvs: []string{"a"}},
		{Kind: "removefiltered", Pt: pt, Fi: 1, Fvs: []string{"", "x"}},
		{Kind: "removefiltered", Pt: pt, Fi: 0, Fvs: []string{"1"}},
		{Kind: "removefiltered", Pt: pt, Fi: 1, Fvs: []string{"b", "y"}},
		{Kind: "removefiltered", Pt: pt, Fi: 1, Fvs: []string{"c"}},
	}
	return u
}

func (u c06Uni) alphabet() (ops []mOp, inGuard []bool) {
	R := u.Rules
	add := func(o mOp, g bool) { ops = append(ops, o); inGuard = append(inGuard, g) }
	for i := range R {
		add(mOp{Kind: "add", Pt: u.Pt, R1: [][]string{R[i]}}, true)
		add(mOp{Kind: "remove", Pt: u.Pt, R1: [][]string{R[i]}}, true)
	}
	pairs := [][2]int{{0, 1}, {1, 2}, {2, 3}, {0, 3}, {3, 1}, {2, 2}}
	for _, p := range pairs {
		b := [][]string{R[p[0]], R[p[1]]}
		add(mOp{Kind: "addmany", Pt: u.Pt, R1: b}, true)
		add(mOp{Kind: "addmanyex", Pt: u.Pt, R1: b}, true)
		add(mOp{Kind: "removemany", Pt: u.Pt, R1: b}, true)
	}
	add(mOp{Kind: "addmanyex", Pt: u.Pt, R1: [][]string{R[0], R[1], R[2], R[3]}}, true)
	// removal batches of three and four rules named in orders that are neither list order nor its reverse
	for _, q := range [][]int{{1, 3, 0}, {2, 0, 3}, {3, 1, 2}, {0, 2, 1}, {2, 0, 3, 1}, {1, 3, 0, 2}, {0, 0, 1}} {
		var b [][]string
		for _, i := range q {
			b = append(b, R[i])
		}
		add(mOp{Kind: "removemany", Pt: u.Pt, R1: b}, true)
	}
	// filters made of empty values only: every rule is selected
	add(mOp{Kind: "removefiltered", Pt: u.Pt, Fi: 0, Fvs: []string{""}}, true)
	add(mOp{Kind: "removefiltered", Pt: u.Pt, Fi: 1, Fvs: make([]string, len(R[0])-1)}, true)
	for i := range R {
		for j := range R {
			if i != j {
				// guard (F08): the new rule must not be listed; decided per state by the caller
				add(mOp{Kind: "update", Pt: u.Pt, R1: [][]string{R[i]}, R2: [][]string{R[j]}}, true)
			}
		}
	}
	um := [][4]int{{0, 1, 2, 3}, {2, 3, 0, 1}, {0, 2, 1, 3}, {1, 3, 0, 2}, {3, 0, 2, 1}}
	for _, q := range um {
		add(mOp{Kind: "updatemany", Pt: u.Pt, R1: [][]string{R[q[0]], R[q[1]]}, R2: [][]string{R[q[2]], R[q[3]]}}, true)
	}
	// batches with an identity pair / a chain (outside the F08 guard when the rules are listed:
	// compared with the model only).  With two pairs the rollback touches at most one slot, so
	// the Go map order of the rollback loop cannot show.
	for _, q := range [][4]int{{0, 1, 0, 2}, {1, 0, 2, 0}, {0, 1, 1, 2}, {2, 3, 3, 2}} {
		add(mOp{Kind: "updatemany", Pt: u.Pt, R1: [][]string{R[q[0]], R[q[1]]}, R2: [][]string{R[q[2]], R[q[3]]}}, true)
	}
	for i := range R {
		add(mOp{Kind: "update", Pt: u.Pt, R1: [][]string{R[i]}, R2: [][]string{R[i]}}, true) // identity update
	}
	add(mOp{Kind: "updatemany", Pt: u.Pt, R1: [][]string{R[0]}, R2: [][]string{R[1], R[2]}}, true) // length mismatch
	for _, f := range u.Filts {
		add(f, true)
	}
	add(mOp{Kind: "removefiltered", Pt: u.Pt, Fi: 0, Fvs: []string{}}, true) // empty filter: error
	// filters wider than the rules whose surplus values are empty: the surplus is a wildcard
	add(mOp{Kind: "removefiltered", Pt: u.Pt, Fi: 0, Fvs: append(append([]string{R[0][0]}, make([]string, len(R[0])-1)...), "")}, true)
	add(mOp{Kind: "removefiltered", Pt: u.Pt, Fi: len(R[0]) - 1, Fvs: []string{R[0][len(R[0])-1], ""}}, true)
	add(mOp{Kind: "clear"}, true)
	return
}


// c06Observers returns the observer spec (S-expression items) and a function that records the
// same observables from the implementation.
func c06Observers(u c06Uni, others []string) (spec string, observe func(c *Ctx, id string, k int, m *mach, res string, direct bool)) {
	items := []string{"res", L("pol", Q(u.Pt)), L("has", Q(u.Pt), QLL(u.Rules))}
	for _, f := range u.Filts {
		items = append(items, L("filt", Q(u.Pt), I(f.Fi), QL(f.Fvs)))
	}
	items = append(items, "listed")
	spec = strings.Join(items, " ")
	observe = func(c *Ctx, id string, k int, m *mach, res string, direct bool) {
		e := m.E
		isG := m.Conf.Def(u.Pt).IsG
		c.Obs(id, fmt.Sprintf("%d.res", k), res)
		var pol [][]string
		if isG {
			pol, _ = e.GetNamedGroupingPolicy(u.Pt)
		} else {
			pol, _ = e.GetNamedPolicy(u.Pt)
		}
		c.Obs(id, fmt.Sprintf("%d.pol.%s", k, u.Pt), rulesKey(pol))
		var hb strings.Builder
		for _, r := range u.Rules {
			var ok bool
			if isG {
				ok, _ = e.HasNamedGroupingPolicy(u.Pt, toIface(r)...)
			} else {
				ok, _ = e.HasNamedPolicy(u.Pt, toIface(r)...)
			}
			hb.WriteString(B(ok))
			// property predicate on the implementation: present <=> listed
			if direct && ok != containsRule(pol, r) {
				c.Direct(id, "HasPolicy disagrees with the listed rules", fmt.Sprint(r, pol))
			}
		}
		c.Obs(id, fmt.Sprintf("%d.has.%s", k, u.Pt), hb.String())
		for _, f := range u.Filts {
			var got [][]string
			v := func() (s string) {
				defer func() {
					if recover() != nil {
						s = "panic"
					}
				}()
				if isG {
					got, _ = e.GetFilteredNamedGroupingPolicy(u.Pt, f.Fi, f.Fvs...)
				} else {
					got, _ = e.GetFilteredNamedPolicy(u.Pt, f.Fi, f.Fvs...)
				}
				return rulesKey(got)
			}()
			c.Obs(id, fmt.Sprintf("%d.filt.%s.%d%s", k, u.Pt, f.Fi, QL(f.Fvs)), v)
		}
		c.Obs(id, fmt.Sprintf("%d.listed", k), m.listedKey())
		// no rule listed twice
		for i := range pol {
			for j := i + 1; j < len(pol); j++ {
				if direct && sameRule(pol[i], pol[j]) {
					c.Direct(id, "a rule is listed twice", fmt.Sprint(pol))
				}
			}
		}
	}
	return
}

// stored content per model (loaded by a leading "load" op): for the priority model two rules
// stored in the wrong order, so that the load re-sorts the list and rebuilds the index
var c06Content = map[string][]prule{
	"priority": {{"p", []string{"5", "c", "z", "r", "allow"}}, {"p", []string{"0", "c", "w", "r", "deny"}}},
}

var c06LastRes string // result of the last operation of the case run last
var c06NoDirect bool  // the case contains a call outside the guards before its last one: no predicate at all

func c06Case(c *Ctx, id string, conf machConf, u c06Uni, ops []mOp, guardLast bool) (finalKey string) {
	spec, observe := c06Observers(u, nil)
	var cs []string
	for _, x := range c06Content[conf.Name] {
		cs = append(cs, L(Q(x.Pt), QL(x.Rule)))
	}
	c.Case(id, fmt.Sprintf("(cfg %s) (flags 0 0 none) (content %s) (obs %s) (ops %s)",
		strings.TrimSuffix(strings.TrimPrefix(conf.Sx(), "("), ")"), strings.Join(cs, " "), spec,
		strings.TrimSuffix(strings.TrimPrefix(opsSx(ops), "("), ")")))
	m := newMach(conf, false, false, "none", c06Content[conf.Name])
	for k, o := range ops {
		var before [][]string
		isG := conf.Def(u.Pt).IsG
		get := func() [][]string {
			var p [][]string
			if isG {
				p, _ = m.E.GetNamedGroupingPolicy(u.Pt)
			} else {
				p, _ = m.E.GetNamedPolicy(u.Pt)
			}
			return append([][]string(nil), p...)
		}
		before = get()
		res := m.apply(o)
		c06LastRes = res
		observe(c, id, k, m, res, !c06NoDirect && (guardLast || k < len(ops)-1))
		after := get()
		// false <=> unchanged (inside the guard, for the calls the statement covers)
		if k == len(ops)-1 && guardLast && o.Pt == u.Pt {
			same := rulesKey(before) == rulesKey(after)
			if res == "ok0" && !same {
				c.Direct(id, "call reported false but changed the listed rules", o.Sx())
			}
			if res == "ok1" && same && o.Kind != "addmanyex" && o.Kind != "clear" && o.Kind != "addmany" && o.Kind != "updatemany" {
				c.Direct(id, "call reported true but left the listed rules unchanged", o.Sx())
			}
		}
		c.Count(o.Kind)
	}
	var p [][]string
	if conf.Def(u.Pt).IsG {
		p, _ = m.E.GetNamedGroupingPolicy(u.Pt)
	} else {
		p, _ = m.E.GetNamedPolicy(u.Pt)
	}
	return rulesKey(p)
}

// the store owns the rules added through AddPolicy / AddNamedPolicy: a caller that reuses the one
// []string buffer it handed in must not change what is listed or what the index finds.
func c06Aliasing(c *Ctx) {
	mk := func() *casbin.Enforcer {
		mm, _ := model.NewModelFromString(machRBAC.Text)
		e, _ := casbin.NewEnforcer(mm)
		return e
	}
	check := func(id string, e *casbin.Enforcer, pt string, want [][]string) {
		var got [][]string
		if pt == "p" {
			got, _ = e.GetPolicy()
		} else {
			got, _ = e.GetGroupingPolicy()
		}
		if rulesKey(got) != rulesKey(want) {
			c.Direct(id, "the caller rewrote a slice it had passed to a management call and the listed rules changed with it", fmt.Sprintf("listed=%v expected=%v", got, want))
			return
		}
		for _, r := range want {
			var has bool
			if pt == "p" {
				has, _ = e.HasPolicy(toIface(r)...)
			} else {
				has, _ = e.HasGroupingPolicy(toIface(r)...)
			}
			if !has {
				c.Direct(id, "a listed rule is not found by the index after the caller rewrote a slice it had passed in", fmt.Sprintf("rule=%v listed=%v", r, got))
			}
		}
	}
	{ // one buffer, several single adds (the []string calling convention)
		e := mk()
		buf := []string{"alice", "data1", "read"}
		_, _ = e.AddPolicy(buf)
		buf[0] = "bob"
		_, _ = e.AddPolicy(buf)
		buf[1] = "data2"
		_, _ = e.AddNamedPolicy("p", buf)
		buf[2] = "zzz"
		check("c06.alias.single", e, "p", [][]string{{"alice", "data1", "read"}, {"bob", "data1", "read"}, {"bob", "data2", "read"}})
	}
	// (AddNamedGroupingPolicy with one []string, the batch calls and the update calls keep the
	// caller's slices on the unchanged tree -- only AddPolicy / AddNamedPolicy copy; recorded as
	// observation O6 in DESIGN.md, not claimed, so only the copying entry points are checked here)
	c.Count("aliasing")
}

// rules that differ only in which field a blank (or another separator-like byte) belongs to are
// different rules: a batch of such rules, none listed before, is added completely -- by the plain
// and by the Ex batch calls, for p and g -- and every one is found by HasPolicy afterwards.
func c06BlankFields(c *Ctx) {
	for _, sep := range []string{" ", ",", "|", "\t", ":", "] [", "$$"} {
		if sep == "," {
			continue // F07: the index key joins the fields with a comma
		}
		pb := [][]string{{"alice" + sep + "smith", "data", "read"}, {"alice", "smith" + sep + "data", "read"}, {"alice", "smith", "data" + sep + "read"}}
		gb := [][]string{{"a" + sep + "b", "c"}, {"a", "b" + sep + "c"}}
		for _, ex := range []bool{false, true} {
			mm, _ := model.NewModelFromString(machRBAC.Text)
			e, _ := casbin.NewEnforcer(mm)
			if ex {
				_, _ = e.AddPoliciesEx(pb)
				_, _ = e.AddGroupingPoliciesEx(gb)
			} else {
				_, _ = e.AddPolicies(pb)
				_, _ = e.AddGroupingPolicies(gb)
			}
			gp, _ := e.GetPolicy()
			gg, _ := e.GetGroupingPolicy()
			if rulesKey(gp) != rulesKey(pb) || rulesKey(gg) != rulesKey(gb) {
				c.Direct(fmt.Sprintf("c06.blank.%q.%v", sep, ex), "a batch of distinct, unlisted rules that differ only in the field a separator-like byte belongs to was not added completely", fmt.Sprintf("batch p=%q g=%q listed p=%q g=%q", pb, gb, gp, gg))
			}
			for _, r := range pb {
				if has, _ := e.HasPolicy(toIface(r)...); !has {
					c.Direct(fmt.Sprintf("c06.blank.%q.%v", sep, ex), "a rule of the batch is not found afterwards", fmt.Sprintf("%q", r))
				}
			}
			c.Count("blank-fields")
		}
	}
}

// an add that fails while the role links are built (a rule too short for the role definition in
// the batch) never takes away rules that were listed BEFORE the call: Ex batches contain such
// rules on purpose.
func c06FailedAddKeepsListed(c *Ctx) {
	for _, how := range []string{"ex", "plain", "single"} {
		for _, pos := range []int{0, 1, 2} {
			mm, _ := model.NewModelFromString(machRBAC.Text)
			e, _ := casbin.NewEnforcer(mm)
			_, _ = e.AddGroupingPolicy("alice", "admin")
			_, _ = e.AddGroupingPolicy("bob", "staff")
			batch := [][]string{{"alice", "admin"}, {"carol", "admin"}}
			var b2 [][]string
			b2 = append(b2, batch[:pos]...)
			b2 = append(b2, []string{"dave"})
			b2 = append(b2, batch[pos:]...)
			var ok bool
			var err error
			switch how {
			case "ex":
				ok, err = e.AddGroupingPoliciesEx(b2)
			case "plain":
				ok, err = e.AddGroupingPolicies(b2)
			case "single":
				ok, err = e.AddGroupingPolicy("dave")
			}
			for _, r := range [][]string{{"alice", "admin"}, {"bob", "staff"}} {
				has, _ := e.HasGroupingPolicy(toIface(r)...)
				gp, _ := e.GetGroupingPolicy()
				if !has || !containsRule(gp, r) {
					c.Direct(fmt.Sprintf("c06.failed-add.%s.%d", how, pos), fmt.Sprintf("the add of %v reported (%v, %v) and the rule %v, listed before the call, is gone", b2, ok, err, r), fmt.Sprintf("listed=%v", gp))
				}
			}
			c.Count("failed-add-keeps-listed")
		}
	}
}

func init() {
	register("C06", func(c *Ctx) {
		c.Rule = "state-space enumeration: every reachable ordered rule list over a 4-rule universe x every operation of a ~75-op alphabet (Add/Remove/Update/RemoveFiltered, batch and Ex variants, Clear), for p2 (arity 2), p (arity 3) and g; plus seeded random histories over fields with separator-like characters (; | space quote NUL $$, no comma). Distinct = (policy type, state, op) or history; non-trivial = the history changes the listed rules at least once. Additions: targets g2 and the priority model (insertion in front of listed rules; preceded by a re-sorting load); identity and chain batch updates compared with the model outside the F08 guard; auto-save-on histories of the shared generator incl. UpdateFilteredPolicies (new rules may equal rules the filter selects); re-ordering loads (priority, subject hierarchy) followed by HasPolicy / RemovePolicy / UpdatePolicy on every slot; a cap on the number of reachable listings."
		type target struct {
			conf machConf
			pt   string
			ar   int
		}
		targets := []target{{machRBAC, "p2", 2}, {machRBAC, "p", 3}, {machRBAC, "g", 2}, {machRBAC, "g2", 2}, {machPriority, "p", 5}}
		for _, t := range targets {
			u := c06Universe(t.pt, t.ar)
			if t.conf.Name == "priority" {
				u = c06PrioUniverse(t.pt)
			}
			alpha, _ := u.alphabet()
			// BFS over states; a state is identified by the listed rules of the real enforcer
			type node struct{ path []mOp }
			// other policy types hold one rule each so that isolation is observable
			var prefix []mOp
			for _, d := range t.conf.Defs {
				if d.Pt != t.pt {
					r := []string{"o1", "o2", "o3", "o4"}[:d.Arity]
					prefix = append(prefix, mOp{Kind: "add", Pt: d.Pt, R1: [][]string{r}})
				}
			}
			if len(c06Content[t.conf.Name]) > 0 {
				prefix = append(prefix, mOp{Kind: "load"})
				// the loaded rules take part in the universe's operations
				for _, x := range c06Content[t.conf.Name] {
					alpha = append(alpha, mOp{Kind: "remove", Pt: x.Pt, R1: [][]string{x.Rule}},
						mOp{Kind: "update", Pt: x.Pt, R1: [][]string{x.Rule}, R2: [][]string{append([]string{x.Rule[0], "d"}, x.Rule[2:]...)}})
				}
			}
			seen := map[string]bool{}
			queue := []node{{path: prefix}}
			seen[""] = true
			nstates := 0
			for len(queue) > 0 {
				n := queue[0]
				queue = queue[1:]
				nstates++
				if nstates > 1200 {
					// a 4-rule universe (+2 loaded rules in the priority model) has at most a few hundred ordered duplicate-free lists: far more reachable
					// states mean that rules are listed more than once
					c.Direct("c06."+t.pt+".states", "the state space of a 4-rule universe did not close (more than 1200 distinct listings reached: rules are being listed more than once)", opsSx(n.path))
					break
				}
				// listed rules in this state (replay)
				m0 := newMach(t.conf, false, false, "none", c06Content[t.conf.Name])
				for _, o := range n.path {
					m0.apply(o)
				}
				var cur [][]string
				if t.conf.Def(t.pt).IsG {
					cur, _ = m0.E.GetNamedGroupingPolicy(t.pt)
				} else {
					cur, _ = m0.E.GetNamedPolicy(t.pt)
				}
				cur = append([][]string(nil), cur...)
				for ai, o := range alpha {
					guard := true
					if o.Kind == "update" && containsRule(cur, o.R2[0]) {
						guard = false // F08: update to a rule that is already listed
					}
					if o.Kind == "updatemany" {
						for _, nr := range o.R2 {
							if containsRule(cur, nr) || containsRule(o.R1, nr) {
								guard = false
							}
						}
					}
					if d := t.conf.Def(t.pt); d.Prio >= 0 && (o.Kind == "update" || o.Kind == "updatemany") {
						for i := range o.R1 {
							if i < len(o.R2) && o.R1[i][d.Prio] != o.R2[i][d.Prio] {
								guard = false // F11: an update that changes the priority keeps the old slot
							}
						}
					}
					if !guard && o.Kind == "updatemany" && len(o.R1) > 2 {
						continue // the rollback order of a longer overlapping batch is a Go map order
					}
					ops := append(append([]mOp(nil), n.path...), o)
					id := fmt.Sprintf("c06.%s.s%d.o%d", t.pt, nstates, ai)
					key := c06Case(c, id, t.conf, u, ops, guard)
					if (o.Kind == "updatemany" || o.Kind == "update") && c06LastRes == "ok0" && len(cur) > 0 {
						// a REFUSED update leaves the listing as it was - and the index too: every listed
						// rule must still be removable / updatable in its own slot afterwards
						c06NoDirect = !guard
						for xi, x := range cur {
							c06Case(c, fmt.Sprintf("%s.rm%d", id, xi), t.conf, u, append(append([]mOp(nil), ops...), mOp{Kind: "remove", Pt: t.pt, R1: [][]string{x}}), guard)
						}
						c06NoDirect = false
						c.Count("follow-up-after-refused-update")
					}
					if guard {
						c.NonTrivial(t.pt + "|" + rulesKey(cur) + "|" + o.Sx())
						if !seen[key] {
							seen[key] = true
							queue = append(queue, node{path: ops})
						}
					} else {
						c.Count("outside-guard(F08)")
					}
				}
			}
			c.Count(fmt.Sprintf("states.%s=%d", t.pt, nstates))
		}
		c.Exhaust = true
		// random histories over hostile fields
		nh := 250
		if c.Thorough() {
			nh = 6000
		}
		hostile := []string{"a", "b;", "|", " ", "\"", "\x00", "$$", "a b", "\xc3\xa9", "", "#x", "a\"b"}
		for h := 0; h < nh; h++ {
			pt := []string{"p2", "g"}[c.Rng.Intn(2)]
			u := c06Uni{Pt: pt}
			for i := 0; i < 5; i++ {
				u.Rules = append(u.Rules, []string{hostile[c.Rng.Intn(len(hostile))], hostile[c.Rng.Intn(len(hostile))]})
			}
			// de-duplicate the universe
			var ur [][]string
			for _, r := range u.Rules {
				if !containsRule(ur, r) {
					ur = append(ur, r)
				}
			}
			u.Rules = ur
			u.Filts = []mOp{
				{Kind: "removefiltered", Pt: pt, Fi: 0, Fvs: []string{u.Rules[0][0]}},
				{Kind: "removefiltered", Pt: pt, Fi: 1, Fvs: []string{u.Rules[0][1]}},
				{Kind: "removefiltered", Pt: pt, Fi: 0, Fvs: []string{"", u.Rules[len(u.Rules)-1][1]}},
			}
			// "" as a filter value is the wildcard; keep only filters that are well-defined
			n := 5 + c.Rng.Intn(26)
			var ops []mOp
			// track the listed rules with the property's reference: a list of unique rules
			var ref [][]string
			refHas := func(r []string) bool { return containsRule(ref, r) }
			pick := func() []string { return u.Rules[c.Rng.Intn(len(u.Rules))] }
			for i := 0; i < n; i++ {
				switch c.Rng.Intn(9) {
				case 0, 1:
					r := pick()
					ops = append(ops, mOp{Kind: "add", Pt: pt, R1: [][]string{r}})
					if !refHas(r) {
						ref = append(ref, r)
					}
				case 2:
					r := pick()
					ops = append(ops, mOp{Kind: "remove", Pt: pt, R1: [][]string{r}})
					var out [][]string
					for _, x := range ref {
						if !sameRule(x, r) {
							out = append(out, x)
						}
					}
					ref = out
				case 3:
					b := [][]string{pick(), pick()}
					ops = append(ops, mOp{Kind: "addmanyex", Pt: pt, R1: b})
					for _, r := range b {
						if !refHas(r) {
							ref = append(ref, r)
						}
					}
				case 4:
					b := [][]string{pick(), pick()}
					ops = append(ops, mOp{Kind: "removemany", Pt: pt, R1: b})
					var out [][]string
					for _, x := range ref {
						if !containsRule(b, x) {
							out = append(out, x)
						}
					}
					ref = out
				case 5:
					o, nw := pick(), pick()
					if refHas(nw) || sameRule(o, nw) {
						continue // F08 guard
					}
					ops = append(ops, mOp{Kind: "update", Pt: pt, R1: [][]string{o}, R2: [][]string{nw}})
					for j := range ref {
						if sameRule(ref[j], o) {
							ref[j] = nw
						}
					}
				case 6:
					b := [][]string{pick(), pick()}
					any := false
					for _, r := range b {
						if refHas(r) {
							any = true
						}
					}
					ops = append(ops, mOp{Kind: "addmany", Pt: pt, R1: b})
					if !any {
						for _, r := range b {
							if !refHas(r) {
								ref = append(ref, r)
							}
						}
					}
				case 7:
					f := u.Filts[c.Rng.Intn(len(u.Filts))]
					allEmpty := true
					for _, v := range f.Fvs {
						if v != "" {
							allEmpty = false
						}
					}
					if allEmpty {
						continue
					}
					ops = append(ops, f)
					var out [][]string
					for _, x := range ref {
						if !specMatches(f.Fi, f.Fvs, x) {
							out = append(out, x)
						}
					}
					ref = out
				case 8:
					if c.Rng.Intn(4) == 0 {
						ops = append(ops, mOp{Kind: "clear"})
						ref = nil
					}
				}
			}
			if len(ops) == 0 {
				continue
			}
			id := fmt.Sprintf("c06.rand.%d", h)
			key := c06Case(c, id, machRBAC, u, ops, true)
			// the property's reference (list of unique rules) must agree with the implementation
			if key != rulesKey(ref) {
				c.Direct(id, "listed rules differ from the list-of-unique-rules reference", fmt.Sprintf("impl=%s ref=%s ops=%s", key, rulesKey(ref), opsSx(ops)))
			}
			c.NonTrivial(id)
			c.Count("random-history")
		}
		// (3) histories with auto-save ON over the recording adapter (the shared generator of the
		// machine properties): UpdateFilteredPolicies is only meaningful with an adapter (F09), so
		// the store's behaviour under it - also when a new rule equals a rule the filter selects -
		// is exercised here; result, listing and presence compared with the model at every step
		na := 600
		if c.Thorough() {
			na = 8000
		}
		for h := 0; h < na; h++ {
			conf := []machConf{machRBAC, machDomain}[h%2]
			us := machUniverses(conf)
			m := newMach(conf, true, false, "none", nil)
			var ops []mOp
			type rec struct{ res, listed, has string }
			var recs []rec
			hasKey := func() string {
				var b strings.Builder
				for _, u := range us {
					for _, r := range u.Rules {
						var ok bool
						if u.IsG {
							ok, _ = m.E.HasNamedGroupingPolicy(u.Pt, toIface(r)...)
						} else {
							ok, _ = m.E.HasNamedPolicy(u.Pt, toIface(r)...)
						}
						b.WriteString(B(ok))
						if ok != containsRule(m.current(u.Pt), r) {
							c.Direct(fmt.Sprintf("c06.auto.%d", h), "HasPolicy disagrees with the listed rules", fmt.Sprint(opsSx(ops), r))
						}
					}
					b.WriteString(".")
				}
				return b.String()
			}
			n := 6 + c.Rng.Intn(15)
			for len(ops) < n {
				op := machGenOp(c.Rng, m, us, machGenOpts{Load: h%3 == 0, Save: h%5 == 0, Self: true, UpdateFiltered: true})
				if op == nil {
					continue
				}
				res := m.apply(*op)
				ops = append(ops, *op)
				recs = append(recs, rec{res, m.listedKey(), hasKey()})
				c.Count("auto:" + op.Kind)
			}
			id := fmt.Sprintf("c06.auto.%d", h)
			var hasSpec []string
			for _, u := range us {
				hasSpec = append(hasSpec, L("has", Q(u.Pt), QLL(u.Rules)))
			}
			c.Case(id, fmt.Sprintf("(cfg %s) (flags 1 0 none) (content) (obs res listed %s) (ops %s)",
				strings.TrimSuffix(strings.TrimPrefix(conf.Sx(), "("), ")"), strings.Join(hasSpec, " "),
				strings.TrimSuffix(strings.TrimPrefix(opsSx(ops), "("), ")")))
			for k, r := range recs {
				c.Obs(id, fmt.Sprintf("%d.res", k), r.res)
				c.Obs(id, fmt.Sprintf("%d.listed", k), r.listed)
				parts := strings.Split(strings.TrimSuffix(r.has, "."), ".")
				for i, u := range us {
					c.Obs(id, fmt.Sprintf("%d.has.%s", k, u.Pt), parts[i])
				}
			}
			c.NonTrivial(id)
		}
		c.Exhaust = false // the random part is a sample; the enumeration part is complete for its universe
		c.Notes = append(c.Notes, "enumeration part exhaustive for the 4-rule universe (all reachable ordered lists x whole alphabet); random part seeded")
		c06OrderingLoads(c)
		c06Aliasing(c)
		c06BlankFields(c)
		c06FailedAddKeepsListed(c)
		c06Probes(c)
	})
}

// loads that re-order the rule list (priority sort, subject hierarchy sort) rebuild the index:
// afterwards every listed rule must be present and a removal must hit exactly its slot
func c06OrderingLoads(c *Ctx) {
	const spModel = "[request_definition]\nr = sub, obj, act\n[policy_definition]\np = sub, obj, act, eft\n[role_definition]\ng = _, _\n[policy_effect]\ne = subjectPriority(p_eft) || deny\n[matchers]\nm = g(r.sub, p.sub) && r.obj == p.obj && r.act == p.act\n"
	texts := []struct{ model, policy string }{
		{spModel, "p, root, data1, read, deny\np, admin, data1, read, deny\np, alice, data1, read, allow\np, bob, data2, read, allow\ng, admin, root\ng, alice, admin\ng, bob, root\n"},
		{spModel, "p, alice, data1, read, allow\np, root, data1, read, deny\np, admin, data1, write, deny\ng, alice, admin\ng, admin, root\n"},
		{machPriority.Text, "p, 10, alice, data1, read, allow\np, 1, bob, data1, read, deny\np, 5, alice, data2, read, deny\np, 1, alice, data1, write, allow\n"},
	}
	for ti, t := range texts {
		var listed [][]string
		{
			mm, _ := model.NewModelFromString(t.model)
			e, err := casbin.NewEnforcer(mm, stringadapter.NewAdapter(t.policy))
			if err != nil {
				c.Direct(fmt.Sprintf("c06.order.%d", ti), "the policy does not load", t.policy)
				continue
			}
			listed, _ = e.GetPolicy()
			listed = append([][]string(nil), listed...)
		}
		for i := range listed {
			mm, _ := model.NewModelFromString(t.model)
			e, _ := casbin.NewEnforcer(mm, stringadapter.NewAdapter(t.policy))
			e.EnableAutoSave(false) // the string adapter implements no auto-save call
			id := fmt.Sprintf("c06.order.%d.%d", ti, i)
			for _, r := range listed {
				if ok, _ := e.HasPolicy(toIface(r)...); !ok {
					c.Direct(id, "after a re-ordering load a listed rule is reported absent", fmt.Sprint(r, listed))
				}
			}
			ok, _ := e.RemovePolicy(toIface(listed[i])...)
			after, _ := e.GetPolicy()
			var want [][]string
			want = append(want, listed[:i]...)
			want = append(want, listed[i+1:]...)
			if !ok || rulesKey(after) != rulesKey(want) {
				c.Direct(id, "after a re-ordering load RemovePolicy did not remove exactly the named rule", fmt.Sprintf("remove %v -> %v listed=%s expected=%s", listed[i], ok, rulesKey(after), rulesKey(want)))
			}
			// an update of the next rule keeps its slot
			if len(want) > 0 {
				old := want[0]
				nw := append([]string(nil), old...)
				nw[len(nw)-2] = "changed"
				ok2, _ := e.UpdatePolicy(old, nw)
				after2, _ := e.GetPolicy()
				if !ok2 || len(after2) != len(want) || !sameRule(after2[0], nw) {
					c.Direct(id, "after a re-ordering load UpdatePolicy did not replace the rule in its slot", fmt.Sprintf("update %v -> %v listed=%s", old, ok2, rulesKey(after2)))
				}
			}
			c.Count("ordering-load")
		}
	}
}

// known findings of C06 (not repaired): F07 comma key collision, F08 update to a listed rule /
// overlapping batch / Update(A->A) reports true, F09 UpdateFilteredPolicies without old rules.
func c06Probes(c *Ctx) {
	{ // F07
		m := newMach(machRBAC, false, false, "none", nil)
		m.apply(mOp{Kind: "add", Pt: "p2", R1: [][]string{{"a,b", "c"}}})
		has, _ := m.E.HasNamedPolicy("p2", "a", "b,c")
		res := m.apply(mOp{Kind: "add", Pt: "p2", R1: [][]string{{"a", "b,c"}}})
		if has || res == "ok0" {
			c.Known = append(c.Known, "F07\treproduced\tAddPolicy(\"a,b\",\"c\") makes HasPolicy(\"a\",\"b,c\") true and AddPolicy(\"a\",\"b,c\") report false")
		} else {
			c.Known = append(c.Known, "F07\tgone\t")
		}
	}
	{ // F08
		m := newMach(machRBAC, false, false, "none", nil)
		m.apply(mOp{Kind: "add", Pt: "p2", R1: [][]string{{"a", "x"}}})
		m.apply(mOp{Kind: "add", Pt: "p2", R1: [][]string{{"b", "y"}}})
		m.apply(mOp{Kind: "update", Pt: "p2", R1: [][]string{{"a", "x"}}, R2: [][]string{{"b", "y"}}})
		pol, _ := m.E.GetNamedPolicy("p2")
		dup := len(pol) == 2 && sameRule(pol[0], pol[1])
		m2 := newMach(machRBAC, false, false, "none", nil)
		m2.apply(mOp{Kind: "add", Pt: "p2", R1: [][]string{{"a", "x"}}})
		same := m2.apply(mOp{Kind: "update", Pt: "p2", R1: [][]string{{"a", "x"}}, R2: [][]string{{"a", "x"}}})
		if dup || same == "ok1" {
			c.Known = append(c.Known, fmt.Sprintf("F08\treproduced\tUpdatePolicy(A->B) with B listed gives %v; UpdatePolicy(A->A) reports %s", pol, same))
		} else {
			c.Known = append(c.Known, "F08\tgone\t")
		}
	}
	{ // F09
		m := newMach(machRBAC, true, false, "none", nil)
		m.apply(mOp{Kind: "add", Pt: "p2", R1: [][]string{{"a", "x"}}})
		res := m.apply(mOp{Kind: "updatefiltered", Pt: "p2", R2: [][]string{{"n", "n"}}, Fi: 0, Fvs: []string{"zzz"}})
		pol, _ := m.E.GetNamedPolicy("p2")
		if res == "ok0" && len(pol) == 2 {
			c.Known = append(c.Known, "F09\treproduced\tUpdateFilteredPolicies whose filter matches nothing adds the new rules and reports false")
		} else {
			c.Known = append(c.Known, "F09\tgone\t")
		}
	}
}
