package main

// Linearizability search for C13 (WGL-style: Wing & Gong / Lowe), written for this harness.
//
// Sequential specification = the real single-threaded casbin.Enforcer built from the same model
// text over a fresh adapter with the same initial content.  A candidate order is grown by DFS: at
// each step any not yet linearized call that is minimal in the real-time order (no other
// unlinearized call returned before it was invoked) may come next; it is applied to the reference
// and its result compared with the recorded one.  The reference cannot be cloned, so backtracking
// is done by REPLAY: the chosen prefix of state-changing calls is kept and a fresh reference is
// rebuilt from it when needed.  Two prunings, both complete:
//   * a minimal pure reader (Enforce/GetPolicy/HasPolicy) whose recorded result matches the current
//     reference state is linearized at once (it does not change the state, so any valid order of
//     the rest stays valid with the reader moved to the front);
//   * (set of linearized calls, canonical reference state) pairs already explored are not
//     explored again.
// When all calls are placed the reference's final policy, grouping policy and adapter content
// (all order-sensitive) must equal the real object's; otherwise the search continues.

import (
	"fmt"
	"sort"

	casbin "github.com/casbin/casbin/v2"
)

type c13LinInput struct {
	spec  *c13Spec
	init  [][]string
	drift [][]string
	calls []*c13Call
	finP  [][]string
	finG  [][]string
	finAd [][]string
}

type c13LinResult struct {
	ok         bool
	exhausted  bool
	nodes      int
	rebuilds   int
	backtracks int
	orders     int // 1 + number of abandoned branches: >1 means the outcome depended on the order
	order      []int
}

type c13Ref struct {
	e *casbin.Enforcer
	a *c13Adapter
}

func (r *c13Ref) key() string {
	p, _ := r.e.GetPolicy()
	g, _ := r.e.GetGroupingPolicy()
	return rulesKey(p) + "#" + rulesKey(g) + "#" + rulesKey(r.a.snapshot())
}

type c13Search struct {
	in      *c13LinInput
	calls   []*c13Call // sorted by invocation stamp
	n       int
	full    uint32
	prefix  []int // linearized calls, in order
	wprefix []int // the state-changing ones among them (what a rebuild replays)
	ref     *c13Ref
	visited map[string]struct{}
	res     c13LinResult
	budget  int
	finKey  string
}

func (s *c13Search) ensure() *c13Ref {
	if s.ref == nil {
		e, a := c13NewPlain(s.in.spec, s.in.init)
		if s.in.drift != nil {
			a.setContent(s.in.drift)
		}
		s.ref = &c13Ref{e: e, a: a}
		for _, i := range s.wprefix {
			c13Apply(e, s.calls[i].op)
		}
		s.res.rebuilds++
	}
	return s.ref
}

func (s *c13Search) minimal(done uint32, i int) bool {
	ci := s.calls[i]
	for j, cj := range s.calls {
		if j != i && done&(1<<uint(j)) == 0 && cj.ret < ci.inv {
			return false
		}
	}
	return true
}

func (s *c13Search) dfs(done uint32) bool {
	s.res.nodes++
	if s.res.nodes > s.budget {
		s.res.exhausted = true
		return false
	}
	base := len(s.prefix)
	ref := s.ensure()
	// absorb matching minimal readers
	for changed := true; changed; {
		changed = false
		for i, c := range s.calls {
			if done&(1<<uint(i)) != 0 || !c13Pure(c.op.kind) || !s.minimal(done, i) {
				continue
			}
			if c13Apply(ref.e, c.op) == c.res {
				done |= 1 << uint(i)
				s.prefix = append(s.prefix, i)
				changed = true
			}
		}
	}
	if done == s.full {
		if ref.key() == s.finKey {
			s.res.order = append([]int(nil), s.prefix...)
			return true
		}
		s.prefix = s.prefix[:base]
		return false
	}
	key0 := ref.key()
	mk := fmt.Sprintf("%x|%s", done, key0)
	if _, seen := s.visited[mk]; seen {
		s.prefix = s.prefix[:base]
		return false
	}
	s.visited[mk] = struct{}{}
	for i, c := range s.calls {
		if done&(1<<uint(i)) != 0 || c13Pure(c.op.kind) || !s.minimal(done, i) {
			continue
		}
		ref = s.ensure()
		r := c13Apply(ref.e, c.op)
		if r == c.res {
			s.prefix = append(s.prefix, i)
			s.wprefix = append(s.wprefix, i)
			if s.dfs(done | 1<<uint(i)) {
				return true
			}
			s.prefix = s.prefix[:len(s.prefix)-1]
			s.wprefix = s.wprefix[:len(s.wprefix)-1]
			s.ref = nil
			s.res.backtracks++
		} else if ref.key() != key0 {
			s.ref = nil // the rejected call changed the reference
			s.res.backtracks++
		} else {
			s.res.backtracks++
		}
		if s.res.exhausted {
			break
		}
	}
	s.prefix = s.prefix[:base]
	return false
}

func c13Linearize(in *c13LinInput) c13LinResult {
	calls := append([]*c13Call(nil), in.calls...)
	sort.SliceStable(calls, func(i, j int) bool { return calls[i].inv < calls[j].inv })
	if len(calls) > 30 {
		panic("c13: history too long for the bitmask")
	}
	s := &c13Search{in: in, calls: calls, n: len(calls), full: uint32(1)<<uint(len(calls)) - 1,
		visited: map[string]struct{}{}, budget: 200000}
	s.finKey = rulesKey(in.finP) + "#" + rulesKey(in.finG) + "#" + rulesKey(in.finAd)
	s.res.ok = s.dfs(0)
	s.res.orders = 1 + s.res.backtracks
	return s.res
}

// c13OrderString renders a linearization found by the search (debugging aid for notes).
func c13OrderString(in *c13LinInput, res c13LinResult) string {
	calls := append([]*c13Call(nil), in.calls...)
	sort.SliceStable(calls, func(i, j int) bool { return calls[i].inv < calls[j].inv })
	s := ""
	for _, i := range res.order {
		s += fmt.Sprintf("g%d.%d ", calls[i].g, calls[i].k)
	}
	return s
}
