package main

import (
	"fmt"
	"math/rand"
	"os"
	"regexp"
	"strings"

	casbin "github.com/casbin/casbin/v2"
	"github.com/casbin/casbin/v2/constant"
	"github.com/casbin/casbin/v2/model"
	"github.com/casbin/casbin/v2/util"
)

// ---------------------------------------------------------------------------------------
// C17, part 2: correspondence "real decision = enforce loop over the per-rule vector in stored
// order" and the metamorphic runs on the implementation.
// ---------------------------------------------------------------------------------------

// decisions: 'T' = (true, nil), 'F' = (false, nil), 'E' = error
func c17Decide(e *casbin.Enforcer, reqs [][]interface{}) []byte {
	out := make([]byte, len(reqs))
	for i, r := range reqs {
		d, err := e.Enforce(r...)
		switch {
		case err != nil:
			out[i] = 'E'
		case d:
			out[i] = 'T'
		default:
			out[i] = 'F'
		}
	}
	return out
}

func c17GKey(s *c17Spec, g map[string][][]string) string {
	var b strings.Builder
	for _, gt := range s.gTypes {
		b.WriteString(gt)
		b.WriteByte('=')
		b.WriteString(rulesKey(g[gt]))
		b.WriteByte(';')
	}
	return b.String()
}

// one per-rule probe: an enforcer with the same model text, the same grouping rules in the
// same order, the same registered functions, and ONLY rule i in p.  Its effect expression is
// chosen by the rule's own effect so that "matched" is observable without touching the rule:
//
//	eft allow (or no eft column): allow-override   -> matched  <=> decision true
//	eft deny:                     deny-override    -> matched  <=> decision false
//	any other eft:                allow-override   -> only "evaluation fails" is observable; the
//	                              slot is reported unmatched, which is the same for all five
//	                              effects (an indeterminate rule never takes part in a decision)
type c17Probe struct {
	e      *casbin.Enforcer
	letter byte // a d i
}

type c17Prober struct {
	s     *c17Spec
	cache map[string]*c17Probe
	blank map[string]*casbin.Enforcer
}

func c17NewProber(s *c17Spec) *c17Prober {
	return &c17Prober{s: s, cache: map[string]*c17Probe{}, blank: map[string]*casbin.Enforcer{}}
}

func (pb *c17Prober) probe(rule []string, g map[string][][]string, gkey string) *c17Probe {
	key := rulesKey([][]string{rule}) + "#" + gkey
	if p, ok := pb.cache[key]; ok {
		return p
	}
	if len(pb.cache) > 4000 {
		pb.cache = map[string]*c17Probe{}
	}
	letter, effect := byte('a'), constant.AllowOverrideEffect
	if pb.s.eftIdx >= 0 && pb.s.eftIdx < len(rule) {
		switch rule[pb.s.eftIdx] {
		case "allow":
		case "deny":
			letter, effect = 'd', constant.DenyOverrideEffect
		default:
			letter = 'i'
		}
	}
	e, err := pb.s.build([][]string{rule}, g, effect)
	if err != nil {
		panic(fmt.Sprint("probe enforcer: ", err))
	}
	p := &c17Probe{e: e, letter: letter}
	pb.cache[key] = p
	return p
}

func (p *c17Probe) slot(req []interface{}) string {
	d, err := p.e.Enforce(req...)
	m := byte('0')
	switch {
	case err != nil:
		m = 'e'
	case p.letter == 'a' && d:
		m = '1'
	case p.letter == 'd' && !d:
		m = '1'
	}
	return string([]byte{m, p.letter})
}

// blankEnforcer: same model, same links, NO p rule, allow-override: its decision is the value
// of the matcher on the empty policy fields (the else-branch of enforce).
func (pb *c17Prober) blankEnforcer(g map[string][][]string, gkey string) *casbin.Enforcer {
	if e, ok := pb.blank[gkey]; ok {
		return e
	}
	if len(pb.blank) > 500 {
		pb.blank = map[string]*casbin.Enforcer{}
	}
	e, err := pb.s.build(nil, g, constant.AllowOverrideEffect)
	if err != nil {
		panic(fmt.Sprint("blank enforcer: ", err))
	}
	pb.blank[gkey] = e
	return e
}

func c17GetG(s *c17Spec, e *casbin.Enforcer) map[string][][]string {
	g := map[string][][]string{}
	for _, gt := range s.gTypes {
		rs, err := e.GetNamedGroupingPolicy(gt)
		if err != nil {
			panic(err)
		}
		g[gt] = c17Copy(rs)
	}
	return g
}

func c17GetP(e *casbin.Enforcer) [][]string {
	rs, err := e.GetPolicy()
	if err != nil {
		panic(err)
	}
	return c17Copy(rs)
}

var c17CaseNo int

// c17Correspond emits one case per request: the per-rule vector measured on single-rule
// enforcers, for the model's `decide_vec`, against the real decision on the full policy.
func c17Correspond(c *Ctx, s *c17Spec, pb *c17Prober, e *casbin.Enforcer, reqs [][]interface{}, tag string) {
	pol := c17GetP(e)
	g := c17GetG(s, e)
	gkey := c17GKey(s, g)
	probes := make([]*c17Probe, len(pol))
	for i, r := range pol {
		probes[i] = pb.probe(r, g, gkey)
	}
	be := pb.blankEnforcer(g, gkey)
	for _, req := range reqs {
		d, err := e.Enforce(req...)
		var vb strings.Builder
		matched := false
		for _, p := range probes {
			sl := p.slot(req)
			if sl[0] == '1' {
				matched = true
			}
			vb.WriteString(sl)
		}
		vec := vb.String()
		if vec == "" {
			vec = "-"
		}
		bd, berr := be.Enforce(req...)
		blank := "0"
		if berr != nil {
			blank = "e"
		} else if bd {
			blank = "1"
		}
		c17CaseNo++
		id := fmt.Sprintf("c17.%d.%s.%s", c17CaseNo, s.name, tag)
		c.Case(id, fmt.Sprintf("%s %s %s %s %s", s.ef, B(s.usesP), B(s.hasEval), blank, vec))
		c.Obs(id, "enforce", fmt.Sprintf("dec=%s err=%s", B(d && err == nil), B(err != nil)))
		c.Count("corr:ef=" + s.ef)
		c.Count(fmt.Sprintf("corr:n=%d", len(pol)))
		switch {
		case err != nil:
			c.Count("corr:error")
		case d:
			c.Count("corr:allowed")
		default:
			c.Count("corr:denied")
		}
		if matched || strings.Contains(vec, "e") {
			c.NonTrivial(s.name + "|" + s.ef + "|" + vec + "|" + blank)
		}
	}
}

// ---------------------------------------------------------------------------------------
// metamorphic runs
// ---------------------------------------------------------------------------------------

type c17Run struct {
	c         *Ctx
	s         *c17Spec
	pb        *c17Prober
	e         *casbin.Enforcer
	reqs      [][]interface{}
	D         []byte
	corrEvery int      // correspondence on one in corrEvery permuted / reloaded states
	dirty     bool     // pattern role manager after a link removal: not a function of the link set (F05/F06)
	hist      []string // operations since the last fresh build, for the replay
}

func (r *c17Run) orderFree() bool { return r.s.ef == "ao" || r.s.ef == "do" || r.s.ef == "ad" }

func (r *c17Run) fail(what string, detail string) {
	c17CaseNo++
	id := fmt.Sprintf("c17.%d.%s.meta", c17CaseNo, r.s.name)
	replay := fmt.Sprintf("model=%s base_p=%s base_g=%s ops=%s %s", Q(r.s.modelText), QLL(r.s.p), c17GKey(r.s, r.s.g), QL(r.hist), detail)
	r.c.Direct(id, what, replay)
}

func (r *c17Run) rebuild(p [][]string, g map[string][][]string) {
	e, err := r.s.build(p, g, "")
	if err != nil && r.s.ef == "sp" {
		// subjectPriority sorts the rules by the role hierarchy when loading and rejects a cyclic
		// hierarchy (links added by the run may close a cycle): go back to the base policy
		r.c.Count("sp:cyclic-hierarchy-rejected-on-load")
		p, g = r.s.p, r.s.g
		e, err = r.s.build(p, g, "")
	}
	if err != nil {
		panic(fmt.Sprint("build ", r.s.name, ": ", err))
	}
	r.e = e
	r.dirty = false
	r.hist = []string{"build p=" + rulesKey(p) + " g=" + c17GKey(r.s, g)}
	r.D = c17Decide(e, r.reqs)
}

// blank decisions of the policy-free branch (only needed when a policy is or becomes empty)
func (r *c17Run) blankDecisions() []byte {
	g := c17GetG(r.s, r.e)
	return c17Decide(r.pb.blankEnforcer(g, c17GKey(r.s, g)), r.reqs)
}

// guard of C17_allow_monotone_add_rule / remove: the smaller policy is not empty, or the matcher
// does not read the policy, or the policy-free branch does not grant the request
func (r *c17Run) guards(smallLen int) []bool {
	out := make([]bool, len(r.reqs))
	if smallLen > 0 || !r.s.usesP {
		for i := range out {
			out[i] = true
		}
		return out
	}
	b := r.blankDecisions()
	for i := range out {
		out[i] = b[i] != 'T'
		if !out[i] {
			r.c.Count("guard:empty-policy-grants")
		}
	}
	return out
}

func c17SameRules(a, b [][]string) bool { return rulesKey(a) == rulesKey(b) }

func (r *c17Run) same(D2 []byte, what string, exact bool) {
	for i := range r.D {
		if r.D[i] == D2[i] {
			continue
		}
		if !exact && (r.D[i] == 'E' || D2[i] == 'E') {
			continue
		}
		r.fail(what, fmt.Sprintf("req=%s before=%c after=%c", c17ReqStr(r.reqs[i]), r.D[i], D2[i]))
		return
	}
}

func (r *c17Run) pools(col int) []string {
	t := r.s.pTok[col]
	var pool []string
	seen := map[string]bool{}
	add := func(v string) {
		if !seen[v] {
			seen[v] = true
			pool = append(pool, v)
		}
	}
	if r.s.genKind != nil {
		for _, v := range r.s.genKind.cols[t] {
			add(v)
		}
	}
	for _, rule := range r.s.p {
		if col < len(rule) {
			add(rule[col])
		}
	}
	if col != r.s.prioIdx {
		for _, v := range r.s.extra[t] {
			add(v)
		}
	}
	if len(pool) == 0 {
		add("v1")
	}
	return pool
}

func (r *c17Run) newRule(rng *rand.Rand, pol [][]string) []string {
	have := map[string]bool{}
	for _, x := range pol {
		have[strings.Join(x, "\x00")] = true
	}
	for try := 0; try < 30; try++ {
		rule := make([]string, len(r.s.pTok))
		for i := range rule {
			switch {
			case i == r.s.eftIdx:
				switch x := rng.Intn(10); {
				case x < 5:
					rule[i] = "allow"
				case x < 9:
					rule[i] = "deny"
				default:
					rule[i] = "maybe"
				}
			default:
				pool := r.pools(i)
				rule[i] = pool[rng.Intn(len(pool))]
				if i != r.s.prioIdx && rng.Intn(12) == 0 {
					rule[i] = "zz_new"
				}
			}
		}
		if !have[strings.Join(rule, "\x00")] {
			return rule
		}
	}
	return nil
}

func (r *c17Run) newLink(rng *rand.Rand, gt string, cur [][]string) []string {
	have := map[string]bool{}
	for _, x := range cur {
		have[strings.Join(x, "\x00")] = true
	}
	ar := r.s.gArity[gt]
	var pools [][]string
	for k := 0; k < ar; k++ {
		seen := map[string]bool{}
		var pool []string
		add := func(v string) {
			if v != "" && !seen[v] {
				seen[v] = true
				pool = append(pool, v)
			}
		}
		for _, l := range r.s.g[gt] {
			if k < 2 {
				add(l[0])
				add(l[1])
			} else if k < len(l) {
				add(l[k])
			}
		}
		for _, l := range cur {
			if k < 2 {
				add(l[0])
				add(l[1])
			} else if k < len(l) {
				add(l[k])
			}
		}
		if r.s.genKind != nil {
			if k < 2 {
				names := r.s.genKind.names
				if gt == "g2" {
					names = append(append([]string(nil), r.s.genKind.cols["obj"]...), r.s.genKind.reqOnly["obj"]...)
				}
				for _, v := range names {
					add(v)
				}
			} else {
				for _, v := range r.s.genKind.doms {
					add(v)
				}
			}
		}
		// the values of the request fields and of the p columns may become role names too
		if k < 2 {
			for _, req := range r.reqs[:c17Min(len(r.reqs), 8)] {
				add(req[0].(string))
			}
			for _, rule := range r.s.p {
				add(rule[0])
			}
		} else {
			for j, f := range r.s.rTok {
				if f == "dom" {
					for _, req := range r.reqs[:c17Min(len(r.reqs), 8)] {
						add(req[j].(string))
					}
				}
			}
		}
		if len(pool) == 0 {
			add("n1")
			add("n2")
		}
		pools = append(pools, pool)
	}
	for try := 0; try < 30; try++ {
		l := make([]string, ar)
		for k := range l {
			l[k] = pools[k][rng.Intn(len(pools[k]))]
		}
		// half of the time extend a node that already has roles (fan-out, chains, cycles)
		if len(cur) > 0 && rng.Intn(2) == 0 {
			src := cur[rng.Intn(len(cur))]
			l[0] = src[rng.Intn(2)]
			if ar >= 3 && len(src) >= 3 {
				l[2] = src[2]
			}
		}
		if !have[strings.Join(l, "\x00")] {
			return l
		}
	}
	return nil
}

func c17Min(a, b int) int {
	if a < b {
		return a
	}
	return b
}

func c17Shuffle(rng *rand.Rand, rules [][]string) [][]string {
	out := c17Copy(rules)
	rng.Shuffle(len(out), func(i, j int) { out[i], out[j] = out[j], out[i] })
	return out
}

func c17Without(rules [][]string, idx int) [][]string {
	out := c17Copy(rules[:idx])
	return append(out, c17Copy(rules[idx+1:])...)
}

// one random transformation of the current state, with the checks that belong to it
func (r *c17Run) step(rng *rand.Rand) {
	s, c := r.s, r.c
	linkOK := s.ef == "ao" && s.negFree
	op := rng.Intn(100)
	if len(s.gTypes) > 0 && op < 48 && rng.Intn(3) == 0 {
		op = 48 + rng.Intn(24) // models with role definitions: a third of the rule operations become link operations
	}
	switch {
	case op < 22: // ---- add a rule (and maybe remove it again)
		pol := c17GetP(r.e)
		rule := r.newRule(rng, pol)
		if rule == nil {
			return
		}
		c.Count("op:add-rule")
		r.hist = append(r.hist, "AddPolicy"+rulesKey([][]string{rule}))
		ok, err := r.e.AddPolicy(rule)
		if !ok || err != nil {
			r.fail("AddPolicy of a rule that is not listed was refused", "rule="+QL(rule))
			return
		}
		after := c17GetP(r.e)
		if s.prioIdx < 0 {
			if !c17SameRules(after, append(c17Copy(pol), rule)) {
				r.fail("AddPolicy did not append the new rule to the list (store_add)", "rule="+QL(rule)+" after="+QLL(after))
				return
			}
		} else {
			k := -1
			for i, x := range after {
				if strings.Join(x, "\x00") == strings.Join(rule, "\x00") {
					k = i
				}
			}
			if k < 0 || !c17SameRules(c17Without(after, k), pol) {
				r.fail("AddPolicy disturbed the other rules", "rule="+QL(rule)+" after="+QLL(after))
				return
			}
		}
		D2 := c17Decide(r.e, r.reqs)
		switch {
		case s.ef == "ao":
			gd := r.guards(len(pol))
			for i := range D2 {
				if !gd[i] || r.D[i] != 'T' {
					continue
				}
				// appended: allowed stays allowed without error; inserted by priority: not denied
				if (s.prioIdx < 0 && D2[i] != 'T') || D2[i] == 'F' {
					r.fail("allow-override: adding a rule revoked an allowed request", fmt.Sprintf("rule=%s req=%s before=%c after=%c", QL(rule), c17ReqStr(r.reqs[i]), r.D[i], D2[i]))
					return
				}
			}
		case (s.ef == "do" || s.ef == "ad") && s.eftIdx >= 0 && rule[s.eftIdx] == "deny":
			c.Count("op:add-deny-rule")
			for i := range D2 {
				if r.D[i] == 'F' && D2[i] == 'T' {
					r.fail("deny-override: adding a deny rule granted a denied request", fmt.Sprintf("rule=%s req=%s", QL(rule), c17ReqStr(r.reqs[i])))
					return
				}
			}
		}
		if rng.Intn(2) == 0 {
			c.Count("op:add-remove-rule")
			r.hist = append(r.hist, "RemovePolicy"+rulesKey([][]string{rule}))
			ok, err := r.e.RemovePolicy(rule)
			if !ok || err != nil {
				r.fail("RemovePolicy of the rule just added failed", "rule="+QL(rule))
				return
			}
			if back := c17GetP(r.e); !c17SameRules(back, pol) {
				r.fail("adding and removing a new rule did not restore the rule list", "rule="+QL(rule)+" after="+QLL(back))
				return
			}
			r.same(c17Decide(r.e, r.reqs), "adding and removing a new rule changed a decision", true)
		} else {
			r.D = D2
		}
	case op < 40: // ---- remove a rule (and maybe add it back)
		pol := c17GetP(r.e)
		if len(pol) == 0 {
			return
		}
		c.Count("op:remove-rule")
		idx := rng.Intn(len(pol))
		rule := pol[idx]
		r.hist = append(r.hist, "RemovePolicy"+rulesKey([][]string{rule}))
		ok, err := r.e.RemovePolicy(rule)
		if !ok || err != nil {
			r.fail("RemovePolicy of a listed rule failed", "rule="+QL(rule))
			return
		}
		after := c17GetP(r.e)
		if !c17SameRules(after, c17Without(pol, idx)) {
			r.fail("RemovePolicy did not cut exactly the rule out of the list (store_remove)", "rule="+QL(rule)+" after="+QLL(after))
			return
		}
		D2 := c17Decide(r.e, r.reqs)
		if s.ef == "ao" {
			gd := r.guards(len(after))
			for i := range D2 {
				if gd[i] && r.D[i] == 'F' && D2[i] == 'T' {
					r.fail("allow-override: removing a rule granted a denied request", fmt.Sprintf("rule=%s req=%s", QL(rule), c17ReqStr(r.reqs[i])))
					return
				}
			}
		}
		if rng.Intn(2) == 0 {
			c.Count("op:remove-readd-rule")
			r.hist = append(r.hist, "AddPolicy"+rulesKey([][]string{rule}))
			ok, err := r.e.AddPolicy(rule)
			if !ok || err != nil {
				r.fail("AddPolicy of the rule just removed was refused", "rule="+QL(rule))
				return
			}
			D3 := c17Decide(r.e, r.reqs)
			if r.orderFree() {
				r.same(D3, "removing a rule and adding it back (it moves to the end) changed an error-free decision", false)
			}
			r.D = D3
		} else {
			r.D = D2
		}
	case op < 48: // ---- duplicates are refused
		pol := c17GetP(r.e)
		if len(pol) > 0 {
			c.Count("op:dup-rule")
			rule := pol[rng.Intn(len(pol))]
			r.hist = append(r.hist, "AddPolicy(dup)"+rulesKey([][]string{rule}))
			ok, err := r.e.AddPolicy(rule)
			if ok || err != nil {
				r.fail("AddPolicy of a listed rule was not refused", "rule="+QL(rule))
				return
			}
			if !c17SameRules(c17GetP(r.e), pol) {
				r.fail("a refused duplicate changed the rule list", "rule="+QL(rule))
				return
			}
		}
		for _, gt := range s.gTypes {
			cur, _ := r.e.GetNamedGroupingPolicy(gt)
			if len(cur) == 0 {
				continue
			}
			c.Count("op:dup-link")
			l := append([]string(nil), cur[rng.Intn(len(cur))]...)
			r.hist = append(r.hist, "AddNamedGroupingPolicy(dup)"+gt+rulesKey([][]string{l}))
			ok, err := r.e.AddNamedGroupingPolicy(gt, l)
			if ok || err != nil {
				r.fail("AddNamedGroupingPolicy of a listed link was not refused", "link="+QL(l))
				return
			}
		}
		r.same(c17Decide(r.e, r.reqs), "adding a duplicate changed a decision", true)
	case op < 60: // ---- add a link (and maybe remove it again)
		if len(s.gTypes) == 0 {
			return
		}
		gt := s.gTypes[rng.Intn(len(s.gTypes))]
		cur, _ := r.e.GetNamedGroupingPolicy(gt)
		l := r.newLink(rng, gt, cur)
		if l == nil {
			return
		}
		c.Count("op:add-link")
		r.hist = append(r.hist, "AddNamedGroupingPolicy"+gt+rulesKey([][]string{l}))
		ok, err := r.e.AddNamedGroupingPolicy(gt, l)
		if !ok || err != nil {
			r.fail("AddNamedGroupingPolicy of a link that is not listed was refused", "link="+QL(l))
			return
		}
		D2 := c17Decide(r.e, r.reqs)
		if linkOK {
			for i := range D2 {
				if r.D[i] == 'T' && D2[i] == 'F' {
					r.fail("allow-override, negation-free matcher: adding a role link revoked an allowed request", fmt.Sprintf("link=%s %s req=%s", gt, QL(l), c17ReqStr(r.reqs[i])))
					return
				}
			}
		}
		if rng.Intn(2) == 0 {
			c.Count("op:add-remove-link")
			r.hist = append(r.hist, "RemoveNamedGroupingPolicy"+gt+rulesKey([][]string{l}))
			ok, err := r.e.RemoveNamedGroupingPolicy(gt, l)
			if !ok || err != nil {
				r.fail("RemoveNamedGroupingPolicy of the link just added failed", "link="+QL(l))
				return
			}
			D3 := c17Decide(r.e, r.reqs)
			if !s.pattern {
				r.same(D3, "adding and removing a new role link changed a decision", true)
			} else {
				// pattern role managers keep the names of removed links (F06) / drop sibling domain
				// links (F05): only the direction "removing never grants" is checked, and the state
				// is no longer compared with a rebuilt one
				r.dirty = true
				if linkOK {
					for i := range D3 {
						if D2[i] == 'F' && D3[i] == 'T' {
							r.fail("allow-override, negation-free matcher: removing a role link granted a denied request", fmt.Sprintf("link=%s %s req=%s", gt, QL(l), c17ReqStr(r.reqs[i])))
							return
						}
					}
				}
				r.D = D3
			}
		} else {
			r.D = D2
		}
	case op < 72: // ---- remove a link (and maybe add it back)
		var cands []string
		for _, gt := range s.gTypes {
			if cur, _ := r.e.GetNamedGroupingPolicy(gt); len(cur) > 0 {
				cands = append(cands, gt)
			}
		}
		if len(cands) == 0 {
			return
		}
		gt := cands[rng.Intn(len(cands))]
		cur, _ := r.e.GetNamedGroupingPolicy(gt)
		l := append([]string(nil), cur[rng.Intn(len(cur))]...)
		c.Count("op:remove-link")
		r.hist = append(r.hist, "RemoveNamedGroupingPolicy"+gt+rulesKey([][]string{l}))
		ok, err := r.e.RemoveNamedGroupingPolicy(gt, l)
		if !ok || err != nil {
			r.fail("RemoveNamedGroupingPolicy of a listed link failed", "link="+QL(l))
			return
		}
		if s.pattern {
			r.dirty = true
		}
		D2 := c17Decide(r.e, r.reqs)
		if linkOK {
			for i := range D2 {
				if r.D[i] == 'F' && D2[i] == 'T' {
					r.fail("allow-override, negation-free matcher: removing a role link granted a denied request", fmt.Sprintf("link=%s %s req=%s", gt, QL(l), c17ReqStr(r.reqs[i])))
					return
				}
			}
		}
		if rng.Intn(2) == 0 {
			c.Count("op:remove-readd-link")
			r.hist = append(r.hist, "AddNamedGroupingPolicy"+gt+rulesKey([][]string{l}))
			ok, err := r.e.AddNamedGroupingPolicy(gt, l)
			if !ok || err != nil {
				r.fail("AddNamedGroupingPolicy of the link just removed was refused", "link="+QL(l))
				return
			}
			D3 := c17Decide(r.e, r.reqs)
			if !s.pattern {
				r.same(D3, "removing a role link and adding it back changed a decision", true)
			} else if linkOK {
				for i := range D3 {
					if D2[i] == 'T' && D3[i] == 'F' {
						r.fail("allow-override, negation-free matcher: adding a role link revoked an allowed request", fmt.Sprintf("link=%s %s req=%s", gt, QL(l), c17ReqStr(r.reqs[i])))
						return
					}
				}
			}
			r.D = D3
		} else {
			r.D = D2
		}
	case op < 84: // ---- the same rules and links in another order, fresh enforcer
		p := c17GetP(r.e)
		g := c17GetG(s, r.e)
		wasDirty := r.dirty
		old := r.D
		hist := r.hist
		if r.orderFree() {
			c.Count("op:permute-fresh")
			p = c17Shuffle(rng, p)
			for _, gt := range s.gTypes {
				g[gt] = c17Shuffle(rng, g[gt])
			}
		} else {
			c.Count("op:rebuild-priority-model")
		}
		r.rebuild(p, g)
		if r.orderFree() && !wasDirty {
			D2 := r.D
			r.D = old
			h2 := r.hist
			r.hist = append(hist, h2...)
			r.same(D2, "the same rules and links loaded in another order changed an error-free decision", false)
			r.D, r.hist = D2, h2
		}
		if rng.Intn(r.corrEvery) == 0 {
			c17Correspond(c, s, r.pb, r.e, r.reqs, "perm")
		}
	case op < 94: // ---- reload the same enforcer from an adapter that lists another order
		p := c17GetP(r.e)
		g := c17GetG(s, r.e)
		if !r.orderFree() {
			return
		}
		c.Count("op:reload-other-order")
		p = c17Shuffle(rng, p)
		for _, gt := range s.gTypes {
			g[gt] = c17Shuffle(rng, g[gt])
		}
		r.hist = append(r.hist, "LoadPolicy p="+rulesKey(p)+" g="+c17GKey(s, g))
		r.e.SetAdapter(&c17Adapter{lines: s.lines(p, g)})
		if err := r.e.LoadPolicy(); err != nil {
			r.fail("LoadPolicy failed", err.Error())
			return
		}
		if !c17SameRules(c17GetP(r.e), p) && s.prioIdx < 0 {
			r.fail("LoadPolicy did not list the rules in the adapter's order", "want="+QLL(p))
			return
		}
		D2 := c17Decide(r.e, r.reqs)
		if !r.dirty {
			r.same(D2, "reloading the same rules and links in another order changed an error-free decision", false)
		}
		r.dirty = false
		r.D = D2
		if rng.Intn(r.corrEvery) == 0 {
			c17Correspond(c, s, r.pb, r.e, r.reqs, "reload")
		}
	default: // ---- back to the shipped / generated base policy
		c.Count("op:reset")
		r.rebuild(s.p, s.g)
	}
}

func c17RunSpec(c *Ctx, s *c17Spec, steps int, maxReq int) {
	pb := c17NewProber(s)
	r := &c17Run{c: c, s: s, pb: pb, corrEvery: 3}
	if c.Thorough() {
		r.corrEvery = 12
	}
	// requests are fixed for the whole run: values of the base policy and links, the spec's
	// own values, and a value that occurs nowhere
	r.reqs = s.requests(c.Rng, s.p, s.g, maxReq)
	s.preAsk = r.reqs
	r.rebuild(s.p, s.g)
	c17Correspond(c, s, pb, r.e, r.reqs, "base")
	for _, d := range r.D {
		c.Count("base:" + s.ef + ":" + string(d))
	}
	for i := 0; i < steps; i++ {
		func() {
			// a panic escaping a management call of the implementation is a violation with the
			// operation history as replay, not a crash of the harness
			defer func() {
				if x := recover(); x != nil {
					msg := fmt.Sprint(x)
					if strings.HasPrefix(msg, "build ") || strings.HasPrefix(msg, "probe ") || strings.HasPrefix(msg, "blank ") {
						panic(x)
					}
					r.fail("the implementation panicked during a policy operation", "panic="+Q(msg))
					r.rebuild(s.p, s.g)
				}
			}()
			r.step(c.Rng)
		}()
		if len(r.hist) > 40 { // keep replays short
			r.rebuild(c17GetP(r.e), c17GetG(s, r.e))
		}
	}
	// the final state once more against the model
	if !r.dirty {
		c17Correspond(c, s, pb, r.e, r.reqs, "final")
	}
}

// c17KnownID looks for `known: property=C17 <id> <text matching pat>` in known_findings.txt (read
// only) and returns the id, "" when there is none.
func c17KnownID(pat string) string {
	root := os.Getenv("VERIF_ROOT")
	if root == "" {
		root = "/verif"
	}
	data, err := os.ReadFile(root + "/known_findings.txt")
	if err != nil {
		return ""
	}
	re := regexp.MustCompile(`^known:\s+property=C17\s+(\S+)\s+(.*)$`)
	want := regexp.MustCompile(pat)
	for _, line := range strings.Split(string(data), "\n") {
		if m := re.FindStringSubmatch(strings.TrimSpace(line)); m != nil && want.MatchString(m[2]) {
			return m[1]
		}
	}
	return ""
}

// c17EmptyPolicyWitness replays the refuted lemma C17_add_to_empty_refuted on the real code.
// It is reported in the notes only (no finding id is assigned to it).
func c17EmptyPolicyWitness(c *Ctx) {
	m, err := model.NewModelFromString("[request_definition]\nr = sub, obj, act\n[policy_definition]\np = sub, obj, act\n[policy_effect]\ne = some(where (p.eft == allow))\n[matchers]\nm = r.sub == p.sub && r.obj == p.obj && r.act == p.act\n")
	if err != nil {
		panic(err)
	}
	e, _ := casbin.NewEnforcer(m)
	d0, _ := e.Enforce("", "", "")
	_, _ = e.AddPolicy("alice", "data1", "read")
	d1, _ := e.Enforce("", "", "")
	m2, _ := model.NewModelFromString("[request_definition]\nr = act\n[policy_definition]\np = act\n[policy_effect]\ne = some(where (p.eft == allow))\n[matchers]\nm = regexMatch(r.act, p.act)\n")
	e2, _ := casbin.NewEnforcer(m2)
	_, _ = e2.AddPolicy("^a$")
	x0, _ := e2.Enforce("^a$")
	_, _ = e2.RemovePolicy("^a$")
	x1, _ := e2.Enforce("^a$")
	// if the orchestrator's list names this behaviour as a known finding of C17 (a `known:` line
	// mentioning the empty policy / policy-free branch), report it under that id
	if id := c17KnownID(`(?i)empty[- ]policy|policy-free`); id != "" {
		status := "gone"
		if (d0 && !d1) || (!x0 && x1) {
			status = "reproduced"
		}
		c.Known = append(c.Known, fmt.Sprintf("%s\t%s\tempty policy: Enforce(\"\",\"\",\"\")=%v, after AddPolicy=%v; regexMatch model: Enforce(^a$)=%v, after RemovePolicy of the only rule=%v", id, status, d0, d1, x0, x1))
	}
	c.Notes = append(c.Notes, fmt.Sprintf("guard witness (C17_add_to_empty_refuted) on the real code: basic model, EMPTY policy: Enforce(\"\",\"\",\"\")=%v; after AddPolicy(alice,data1,read): %v.  m = regexMatch(r.act, p.act), policy [^a$]: Enforce(\"^a$\")=%v; after RemovePolicy (empty policy): %v.  The main stream applies the theorem's guard (the smaller policy is non-empty or the policy-free branch does not grant).", d0, d1, x0, x1))
}

// c17PatternNeutralityWitness shows why add+remove neutrality of LINKS is not claimed (and not in
// the stream) for pattern role managers: the witness of F06 (a finding of C05/C04) also breaks
// it.  Notes only.
func c17PatternNeutralityWitness(c *Ctx) {
	m, err := model.NewModelFromString("[request_definition]\nr = sub, obj, act\n[policy_definition]\np = sub, obj, act\n[role_definition]\ng = _, _\n[policy_effect]\ne = some(where (p.eft == allow))\n[matchers]\nm = g(r.sub, p.sub) && r.obj == p.obj && r.act == p.act\n")
	if err != nil {
		panic(err)
	}
	e, _ := casbin.NewEnforcer(m)
	e.AddNamedMatchingFunc("g", "RegexMatch", util.RegexMatch)
	_, _ = e.AddPolicy("admin", "data1", "read")
	_, _ = e.AddGroupingPolicy("u", "^/a/.*$")
	_, _ = e.AddGroupingPolicy("^.*1$", "admin")
	d0, _ := e.Enforce("u", "data1", "read")
	_, _ = e.AddGroupingPolicy("x", "/a/b1")
	_, _ = e.RemoveGroupingPolicy("x", "/a/b1")
	d1, _ := e.Enforce("u", "data1", "read")
	c.Notes = append(c.Notes, fmt.Sprintf("pattern role manager (RegexMatch), links [u ^/a/.*$] [^.*1$ admin]: Enforce(u,data1,read)=%v; after AddGroupingPolicy(x,/a/b1) + RemoveGroupingPolicy(x,/a/b1) (listing unchanged): %v.  This is F06 (C05/C04): names of removed links stay in the role manager and take part in matching; hence add+remove neutrality of links is claimed for role managers without matching functions only.", d0, d1))
}

func init() {
	register("C17", func(c *Ctx) {
		steps, genN, genSteps, maxReq := 60, 200, 24, 48
		setEx, setGen := 4, 2
		if c.Thorough() {
			steps, genN, genSteps, maxReq = 1000, 2500, 80, 120
			setEx, setGen = 80, 12
		}
		c.Rule = fmt.Sprintf("Specs: every examples/*_model.conf that has a policy file and string requests (%d pairs, skipped ones in the notes) and %d generated models (ACL, RBAC, RBAC with domains / resource roles / pattern role managers, keyMatch, keyMatch2, regexMatch, ipMatch with unparsable addresses, globMatch with a bad pattern, negated matchers, a matcher without policy fields; allow-override with and without eft column, deny-override, allow-and-deny, priority; 0-6 rules, 0-5 links per role definition). Requests: cross product (sampled down to %d) of, per request field, the values of the same-named policy column, the names in the role links when the field is an argument of g(), the example's test values, and one value occurring nowhere. CORRESPONDENCE: for the base state, for a third (thorough: a twelfth) of the permuted / reloaded states and for the final state, every request is enforced on the real enforcer and, independently, on one single-rule probe enforcer per stored rule (same model text, same links, only rule i; allow-override probe for allow rules, deny-override probe for deny rules, indeterminate rules count as unmatched) and on a rule-free probe (policy-free branch); the extracted Meta.decide_vec folds the measured vector (stored order, lazy evaluation, errors) and must print the real decision and error flag. METAMORPHIC: %d random transformations per example (%d per generated model) of the current state: add rule (+remove), remove rule (+add back), refused duplicates, add link (+remove), remove link (+add back), same rules and links in another order through a fresh enforcer, LoadPolicy from an adapter listing another order, reset; after each one all decisions are compared under the relation the theorems give (allow-override: never revoke / never grant under the empty-policy guard, also for links when the matcher is negation-free; deny-override and allow-and-deny: a deny rule never grants; non-priority effects: permutation / reload / remove+add-back keep error-free decisions; add+remove and duplicates keep every outcome and the exact rule list; AddPolicy appends, RemovePolicy cuts out). Priority and subjectPriority models take part in correspondence, add/remove neutrality and duplicates only (order matters there by design). SET LAW (C17_links_only_set / C17_history_independent): %d (%d per generated model) histories per spec without pattern role manager / subjectPriority: an EMPTY real enforcer is driven to a drawn final rule set by Add/Remove calls (single and batch) in a random order, with detours (rules and links outside the final set added and removed again, final links removed and re-added) and transitive detours (for a final link x->z first x->y and y->z, so that x->z is redundant when it is added, the link y->z removed later), all requests enforced at random points in between; at random intermediate points and at the end every decision (errors included) and every GetNamedImplicitRolesForUser / GetImplicitUsersForRole answer is compared with a fresh enforcer loaded with the listed rules (links shuffled), the listing with the expected set, and every second final state goes through the correspondence. Non-trivial = a vector with a matched or failing slot; distinct by (spec, effect, vector, blank).", len(c17Examples), genN, maxReq, steps, genSteps, setEx, setGen)
		var qualifying, negated []string
		for _, ex := range c17Examples {
			s, err := c17LoadExample(ex)
			if err != nil {
				c.Notes = append(c.Notes, "example not driven: "+ex.model+" + "+ex.policy+": "+err.Error())
				continue
			}
			switch {
			case s.ef == "ao" && s.negFree:
				qualifying = append(qualifying, s.name)
			case s.ef == "ao":
				negated = append(negated, s.name)
			}
			c17RunSpec(c, s, steps, maxReq)
			c17RunSetLaw(c, s, setEx, maxReq)
		}
		for i := 0; i < genN; i++ {
			s := c17Generate(c.Rng, i)
			c.Count("gen:" + s.genKind.name)
			c17RunSpec(c, s, genSteps, maxReq)
			c17RunSetLaw(c, s, setGen, maxReq)
		}
		c17EmptyPolicyWitness(c)
		c17PatternNeutralityWitness(c)
		c.Notes = append(c.Notes, "allow-override examples with a negation-free matcher (rule AND link monotonicity checked): "+strings.Join(qualifying, ", "))
		c.Notes = append(c.Notes, "allow-override examples whose matcher text contains '!', '?', '-' or false (rule monotonicity only): "+strings.Join(negated, ", "))
		c.Notes = append(c.Notes, "priority / subjectPriority examples are excluded from permutation and reload-in-another-order (the effect is order-sensitive by design, C17_priority_perm_refuted)")
		c.Notes = append(c.Notes, "pattern role managers (rbac_with_pattern, rbac_with_all_pattern, rbac_with_domain_pattern, keymatch_with_rbac_in_domain, generated rbacpat): monotonicity of links is checked; add+remove neutrality of links and comparison with a rebuilt state after a link removal are NOT in the stream (F05, F06: the incremental state is not a function of the listed links)")
		for _, sk := range c17Skipped {
			c.Notes = append(c.Notes, "skipped: "+sk)
		}
	})
}
