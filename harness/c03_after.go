package main

import (
	"fmt"
	"strings"
	"time"

	casbin "github.com/casbin/casbin/v2"
	"github.com/casbin/casbin/v2/model"
)

// C03, "an error must not poison later calls".
//
// Totality is a property of every call of a history, not only of the first one: a call that ends
// in an error (or in a panic the implementation recovers) must leave the process in a state in
// which later calls still return.  After EVERY error seen in the structured and in the hostile
// stream the harness therefore issues follow-up calls under a short watchdog:
//   * the same request on the same enforcer (same outcome class as before), where the caller has
//     one at hand;
//   * the sentinels: small independent enforcers, one per built-in operator family that keeps
//     process-wide or enforcer-wide state (keyMatch4 / keyGet2 / keyGet3 share the regexp cache,
//     keyMatch2/3/5 and regexMatch compile on the fly, globMatch, ipMatch, g() with its memo,
//     eval() with the compiled-matcher cache), each with one request that must be allowed and
//     one that must be denied, on patterns that are cached by now and on a pattern never seen.

type c03Sentinel struct {
	name  string
	e     *casbin.Enforcer
	allow []interface{}
	deny  []interface{}
	// fresh returns a rule with a never-seen pattern and a request it must allow (nil: none)
	fresh func(n int) (rule []string, req []interface{})
}

var (
	c03Sentinels []*c03Sentinel
	c03SentSeq   int
	c03SentRuns  int
)

const c03AfterLimit = 20 * time.Second

func c03OpModel(expr string) string {
	return "[request_definition]\nr = sub, obj, act\n[policy_definition]\np = sub, obj, act\n[policy_effect]\ne = some(where (p.eft == allow))\n[matchers]\nm = r.sub == p.sub && " + expr + "\n"
}

func c03NewEnforcer(text string, rules [][]string, links [][]string) *casbin.Enforcer {
	m, err := model.NewModelFromString(text)
	if err != nil {
		panic(err)
	}
	e, err := casbin.NewEnforcer(m)
	if err != nil {
		panic(err)
	}
	for _, r := range rules {
		if _, err := e.AddPolicy(toIface(r)...); err != nil {
			panic(err)
		}
	}
	for _, l := range links {
		if _, err := e.AddGroupingPolicy(toIface(l)...); err != nil {
			panic(err)
		}
	}
	return e
}

func c03BuildSentinels() {
	if c03Sentinels != nil {
		return
	}
	rq := func(s ...string) []interface{} { return toIface(s) }
	add := func(name, expr string, rule []string, allow, deny []interface{}, fresh func(n int) ([]string, []interface{})) {
		c03Sentinels = append(c03Sentinels, &c03Sentinel{name: name, e: c03NewEnforcer(c03OpModel(expr), [][]string{rule}, nil), allow: allow, deny: deny, fresh: fresh})
	}
	add("keyMatch4", "keyMatch4(r.obj, p.obj)", []string{"alice", "/p/{id}/c/{id}", "read"}, rq("alice", "/p/1/c/1", "read"), rq("alice", "/p/1/c/2", "read"),
		func(n int) ([]string, []interface{}) {
			return []string{"alice", fmt.Sprintf("/f%d/{a}/{a}", n), "read"}, rq("alice", fmt.Sprintf("/f%d/7/7", n), "read")
		})
	add("keyGet2", "keyGet2(r.obj, p.obj, 'id') == r.act", []string{"alice", "/p/:id", "x"}, rq("alice", "/p/7", "7"), rq("alice", "/p/7", "8"),
		func(n int) ([]string, []interface{}) {
			return []string{"alice", fmt.Sprintf("/f%d/:id", n), "x"}, rq("alice", fmt.Sprintf("/f%d/9", n), "9")
		})
	add("keyGet3", "keyGet3(r.obj, p.obj, 'id') == r.act", []string{"alice", "/p/{id}/z", "x"}, rq("alice", "/p/7/z", "7"), rq("alice", "/p/7/y", "7"),
		func(n int) ([]string, []interface{}) {
			return []string{"alice", fmt.Sprintf("/f%d/{id}/*", n), "x"}, rq("alice", fmt.Sprintf("/f%d/9/t", n), "9")
		})
	add("keyMatch2", "keyMatch2(r.obj, p.obj)", []string{"alice", "/p/:id", "read"}, rq("alice", "/p/7", "read"), rq("alice", "/p/7/x", "read"), nil)
	add("keyMatch3", "keyMatch3(r.obj, p.obj)", []string{"alice", "/p/{id}", "read"}, rq("alice", "/p/7", "read"), rq("alice", "/q/7", "read"), nil)
	add("keyMatch5", "keyMatch5(r.obj, p.obj)", []string{"alice", "/p/{id}", "read"}, rq("alice", "/p/7?x=1", "read"), rq("alice", "/p?x=1/7", "read"), nil)
	add("keyMatch", "keyMatch(r.obj, p.obj)", []string{"alice", "/p/*", "read"}, rq("alice", "/p/7", "read"), rq("alice", "/q/7", "read"), nil)
	add("regexMatch", "regexMatch(r.obj, p.obj)", []string{"alice", "^/d/[0-9]+$", "read"}, rq("alice", "/d/42", "read"), rq("alice", "/d/x", "read"),
		func(n int) ([]string, []interface{}) {
			return []string{"alice", fmt.Sprintf("^/f%d/[a-z]+$", n), "read"}, rq("alice", fmt.Sprintf("/f%d/q", n), "read")
		})
	add("globMatch", "globMatch(r.obj, p.obj)", []string{"alice", "/d/*", "read"}, rq("alice", "/d/42", "read"), rq("alice", "/e/42", "read"), nil)
	add("ipMatch", "ipMatch(r.obj, p.obj)", []string{"alice", "10.0.0.0/8", "read"}, rq("alice", "10.1.2.3", "read"), rq("alice", "11.1.2.3", "read"), nil)
	c03Sentinels = append(c03Sentinels, &c03Sentinel{name: "rbac",
		e: c03NewEnforcer("[request_definition]\nr = sub, dom, obj, act\n[policy_definition]\np = sub, dom, obj, act\n[role_definition]\ng = _, _, _\n[policy_effect]\ne = some(where (p.eft == allow))\n[matchers]\nm = g(r.sub, p.sub, r.dom) && r.dom == p.dom && r.obj == p.obj && r.act == p.act\n",
			[][]string{{"admin", "d1", "data1", "read"}}, [][]string{{"alice", "admin", "d1"}}),
		allow: rq("alice", "d1", "data1", "read"), deny: rq("alice", "d2", "data1", "read")})
	c03Sentinels = append(c03Sentinels, &c03Sentinel{name: "eval",
		e: c03NewEnforcer("[request_definition]\nr = sub, obj, act\n[policy_definition]\np = sub_rule, obj, act\n[policy_effect]\ne = some(where (p.eft == allow))\n[matchers]\nm = eval(p.sub_rule) && r.obj == p.obj && r.act == p.act\n",
			[][]string{{"r.sub == 'alice'", "data1", "read"}}, nil),
		allow: rq("alice", "data1", "read"), deny: rq("bob", "data1", "read")})
}

// c03GuardedT is c03Guarded with its own limit.
func c03GuardedT(limit time.Duration, f func()) string {
	done := make(chan string, 1)
	go func() {
		defer func() {
			if r := recover(); r != nil {
				done <- "panic: " + fmt.Sprint(r)
			}
		}()
		f()
		done <- ""
	}()
	select {
	case s := <-done:
		return s
	case <-time.After(limit):
		return "hang"
	}
}

// c03AfterError runs the sentinels after a call that ended in an error.  what = the failed call
// (the replay input).  Returns false when a sentinel hung (the process is poisoned: the caller
// stops generating).
func c03AfterError(c *Ctx, id, what string) bool {
	c03BuildSentinels()
	c03SentRuns++
	ok := true
	for _, s := range c03Sentinels {
		s := s
		var bad string
		res := c03GuardedT(c03AfterLimit, func() {
			a, err := s.e.Enforce(s.allow...)
			if err != nil || !a {
				bad = fmt.Sprintf("Enforce(%v) = (%v, %v), want (true, nil)", s.allow, a, err)
				return
			}
			d, err := s.e.Enforce(s.deny...)
			if err != nil || d {
				bad = fmt.Sprintf("Enforce(%v) = (%v, %v), want (false, nil)", s.deny, d, err)
				return
			}
			if s.fresh != nil {
				c03SentSeq++
				rule, req := s.fresh(c03SentSeq)
				if _, err := s.e.AddPolicy(toIface(rule)...); err != nil {
					bad = fmt.Sprintf("AddPolicy(%v): %v", rule, err)
					return
				}
				f, err := s.e.Enforce(req...)
				if err != nil || !f {
					bad = fmt.Sprintf("Enforce(%v) with the fresh rule %v = (%v, %v), want (true, nil)", req, rule, f, err)
				}
				if _, err := s.e.RemovePolicy(toIface(rule)...); err != nil {
					bad = fmt.Sprintf("RemovePolicy(%v): %v", rule, err)
				}
			}
		})
		if res == "" && bad == "" {
			continue
		}
		if res == "hang" {
			bad = fmt.Sprintf("did not return within %s", c03AfterLimit)
			ok = false
		} else if res != "" {
			bad = res
		}
		if len(what) > 1500 {
			what = what[:1500] + "..."
		}
		c.Direct(id, "an earlier error poisons later calls: after the failed call, the independent "+s.name+" enforcer: "+bad, strings.Replace(what, "\n", "\\n", -1))
		if !ok {
			c03Stop = true
			return false
		}
	}
	return ok
}
