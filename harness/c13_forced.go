package main

// Forced schedules of C13: interleavings pinned deterministically through the library's own
// callbacks -- the adapter (called inside write sections, and inside phase 1 of LoadPolicy), a
// matcher function registered with AddFunction (called inside Enforce, under the read lock) and a
// log.Logger (LogEnforce at the end of Enforce, LogPolicy in the middle of LoadPolicy's write
// section).  One call is parked inside its callback, other calls are started, stamp assertions say
// who must have waited for whom (or who must NOT have waited), then everything is released and the
// recorded history goes through the same linearizability search and post-quiescence checks as the
// random stream.  All schedules stay inside the guards (no LoadPolicy together with writers, no
// matching function).

import (
	"fmt"
	"runtime"
	"strings"
	"sync"
	"sync/atomic"
	"time"

	casbin "github.com/casbin/casbin/v2"
)

type c13Script struct {
	e        *casbin.SyncedEnforcer
	ad       *c13Adapter
	calls    []*c13Call
	wg       sync.WaitGroup
	started  int32
	nextG    int
	problems []string
}

func (s *c13Script) bad(format string, args ...interface{}) {
	s.problems = append(s.problems, fmt.Sprintf(format, args...))
}

// spawn starts op in a goroutine of its own.
func (s *c13Script) spawn(op c13Op) *c13Call {
	call := &c13Call{g: s.nextG, op: op}
	s.nextG++
	s.calls = append(s.calls, call)
	s.wg.Add(1)
	go func() {
		defer s.wg.Done()
		call.inv = c13Tick()
		atomic.AddInt32(&s.started, 1)
		call.res = c13ApplyHold(s.e, call.op, &call.held)
		call.ret = c13Tick()
		atomic.StoreInt32(&call.done, 1)
	}()
	return call
}

// seq performs op synchronously (a goroutine of its own in the history, no overlap).
func (s *c13Script) seq(op c13Op) *c13Call {
	call := s.spawn(op)
	s.waitDone(call, 20*time.Second)
	return call
}

func (s *c13Script) isDone(c *c13Call) bool { return atomic.LoadInt32(&c.done) != 0 }

func (s *c13Script) waitDone(c *c13Call, d time.Duration) bool {
	deadline := time.Now().Add(d)
	for !s.isDone(c) {
		if time.Now().After(deadline) {
			return false
		}
		runtime.Gosched()
	}
	return true
}

func (s *c13Script) waitStarted(n int) {
	deadline := time.Now().Add(10 * time.Second)
	for int(atomic.LoadInt32(&s.started)) < n && time.Now().Before(deadline) {
		runtime.Gosched()
	}
}

// settle gives calls that are (wrongly) not blocked the time to return.
func (s *c13Script) settle() { time.Sleep(4 * time.Millisecond) }

// waitWriterQueued returns once the RWMutex shows a waiting writer (TryRLock fails).  Only
// meaningful while a READER holds the lock.
func (s *c13Script) waitWriterQueued() bool {
	mu := s.e.GetLock()
	deadline := time.Now().Add(20 * time.Second)
	for time.Now().Before(deadline) {
		if mu.TryRLock() {
			mu.RUnlock()
			runtime.Gosched()
			continue
		}
		return true
	}
	return false
}

// mustBeBlocked asserts that none of the calls has returned yet.
func (s *c13Script) mustBeBlocked(why string, calls ...*c13Call) {
	for _, c := range calls {
		if s.isDone(c) {
			s.bad("%s returned (%s) %s", c.op.String(), c.res, why)
		}
	}
}

func (s *c13Script) mustReturnAfter(rel int64, why string, calls ...*c13Call) {
	for _, c := range calls {
		if c.ret <= rel {
			s.bad("%s returned at stamp %d, before the release stamp %d: %s", c.op.String(), c.ret, rel, why)
		}
	}
}

func (s *c13Script) mustEqual(c *c13Call, want string, why string) {
	if c.res != want {
		s.bad("%s = %s, expected %s: %s", c.op.String(), c.res, want, why)
	}
}

// gate is a one-shot parking place inside a callback.
type c13Gate struct {
	armed   int32
	inside  chan struct{}
	resume  chan struct{}
	relOnce sync.Once
}

func c13NewGate() *c13Gate {
	return &c13Gate{armed: 1, inside: make(chan struct{}), resume: make(chan struct{})}
}

// park is called from the callback: the first caller parks until release (at most 10 s).
func (g *c13Gate) park() {
	if atomic.CompareAndSwapInt32(&g.armed, 1, 0) {
		close(g.inside)
		select {
		case <-g.resume:
		case <-time.After(10 * time.Second):
		}
	}
}

func (g *c13Gate) waitInside() bool {
	select {
	case <-g.inside:
		return true
	case <-time.After(10 * time.Second):
		return false
	}
}

func (g *c13Gate) release() int64 {
	t := c13Tick()
	g.relOnce.Do(func() { close(g.resume) })
	return t
}

// ---------- a blocking logger ----------

type c13Logger struct {
	enabled   int32
	onEnforce func(request []interface{})
	onPolicy  func()
}

func (l *c13Logger) EnableLog(b bool) {
	if b {
		atomic.StoreInt32(&l.enabled, 1)
	} else {
		atomic.StoreInt32(&l.enabled, 0)
	}
}
func (l *c13Logger) IsEnabled() bool           { return atomic.LoadInt32(&l.enabled) != 0 }
func (l *c13Logger) LogModel(m [][]string)     {}
func (l *c13Logger) LogRole(roles []string)    {}
func (l *c13Logger) LogError(error, ...string) {}
func (l *c13Logger) LogEnforce(matcher string, request []interface{}, result bool, explains [][]string) {
	if l.onEnforce != nil {
		l.onEnforce(request)
	}
}
func (l *c13Logger) LogPolicy(policy map[string][][]string) {
	if l.onPolicy != nil {
		l.onPolicy()
	}
}

// ---------- scenarios ----------

type c13Scenario struct {
	name string
	hook bool // model with hook(r.sub) in the matcher
	run  func(sc *c13Setup)
}

// c13Setup carries what a scenario defines and produces.
type c13Setup struct {
	spec   *c13Spec
	d      string // the domain used by the scenario's rules ("" for the plain model)
	init   [][]string
	drift  [][]string
	hookFn func(args ...interface{}) (interface{}, error)
	s      *c13Script
}

func (sc *c13Setup) p(sub, obj, act string) []string { return sc.spec.P(sub, sc.d, obj, act) }
func (sc *c13Setup) g(u, r string) []string          { return sc.spec.G(u, r, sc.d) }
func (sc *c13Setup) pl(sub, obj, act string) []string {
	return append([]string{"p"}, sc.p(sub, obj, act)...)
}
func (sc *c13Setup) gl(u, r string) []string { return append([]string{"g"}, sc.g(u, r)...) }

// build constructs the enforcer under test (after init/drift/hookFn have been set).
func (sc *c13Setup) build() *c13Script {
	e, ad := c13NewSynced(sc.spec, sc.init, sc.hookFn)
	if sc.drift != nil {
		ad.setContent(sc.drift)
	}
	sc.s = &c13Script{e: e, ad: ad}
	return sc.s
}

func c13Enf(r []string) c13Op       { return c13Op{kind: c13Enforce, a: r} }
func c13Has(r []string) c13Op       { return c13Op{kind: c13HasP, a: r} }
func c13Add(r []string) c13Op       { return c13Op{kind: c13AddP, a: r} }
func c13Rem(r []string) c13Op       { return c13Op{kind: c13RemP, a: r} }
func c13Upd(o, n []string) c13Op    { return c13Op{kind: c13UpdP, a: o, b: n} }
func c13AddGr(r []string) c13Op     { return c13Op{kind: c13AddG, a: r} }
func c13RemGr(r []string) c13Op     { return c13Op{kind: c13RemG, a: r} }
func c13Kind(k int) c13Op           { return c13Op{kind: k} }
func c13SameStr(a, b []string) bool { return strings.Join(a, "\x00") == strings.Join(b, "\x00") }

const c13WhyWriter = "a call must not complete while another call's write section is parked inside the adapter"

var c13Scenarios = []c13Scenario{
	{name: "adapter.add-vs-readers", run: func(sc *c13Setup) {
		// writer parked in adapter.AddPolicy (write lock held, memory not yet changed); readers must wait
		x := sc.p("alice", "data1", "write")
		sc.init = [][]string{sc.gl("alice", "admin"), sc.pl("admin", "data1", "read")}
		s := sc.build()
		gate := c13NewGate()
		s.ad.hook = func(ev string, rule []string) {
			if ev == "add" && c13SameStr(rule, x) {
				gate.park()
			}
		}
		w := s.spawn(c13Add(x))
		if !gate.waitInside() {
			s.bad("the writer never reached the adapter callback")
		}
		r1 := s.spawn(c13Enf(x))
		r2 := s.spawn(c13Has(x))
		r3 := s.spawn(c13Kind(c13GetP))
		r4 := s.spawn(c13Enf(sc.p("alice", "data1", "read")))
		s.waitStarted(5)
		s.settle()
		s.mustBeBlocked(c13WhyWriter, r1, r2, r3, r4)
		rel := gate.release()
		s.wg.Wait()
		s.mustReturnAfter(rel, c13WhyWriter, w, r1, r2, r3, r4)
		s.mustEqual(w, "t", "the rule was new")
		s.mustEqual(r1, "t", "the reader ran after the parked writer")
		s.mustEqual(r2, "t", "the reader ran after the parked writer")
		s.mustEqual(r4, "t", "alice is admin")
		s.mustEqual(r3, rulesKey([][]string{sc.p("admin", "data1", "read"), x}), "the reader ran after the parked writer")
	}},
	{name: "adapter.add-vs-writers", run: func(sc *c13Setup) {
		// writer parked in adapter.AddPolicy; more writers (one adding the same rule) must wait
		x := sc.p("bob", "data1", "write")
		y := sc.p("admin", "data1", "read")
		z := sc.p("carol", "data1", "read")
		n := sc.p("carol", "data1", sc.spec.own)
		sc.init = [][]string{sc.pl("admin", "data1", "read"), sc.gl("alice", "admin"), sc.pl("carol", "data1", "read")}
		s := sc.build()
		gate := c13NewGate()
		s.ad.hook = func(ev string, rule []string) {
			if ev == "add" && c13SameStr(rule, x) {
				gate.park()
			}
		}
		w1 := s.spawn(c13Add(x))
		if !gate.waitInside() {
			s.bad("the writer never reached the adapter callback")
		}
		w2 := s.spawn(c13Add(x))
		w3 := s.spawn(c13Rem(y))
		w4 := s.spawn(c13Upd(z, n))
		w5 := s.spawn(c13Kind(c13Save))
		w6 := s.spawn(c13AddGr(sc.g("bob", "editor")))
		w7 := s.spawn(c13RemGr(sc.g("alice", "admin")))
		r := s.spawn(c13Has(x))
		s.waitStarted(8)
		s.settle()
		s.mustBeBlocked(c13WhyWriter, w2, w3, w4, w5, w6, w7, r)
		if atomic.LoadInt32(&s.ad.wIn) != 1 {
			s.bad("%d write callbacks inside the adapter while the first writer is parked there", atomic.LoadInt32(&s.ad.wIn))
		}
		rel := gate.release()
		s.wg.Wait()
		s.mustReturnAfter(rel, c13WhyWriter, w1, w2, w3, w4, w5, w6, w7, r)
		s.mustEqual(w1, "t", "the rule was new")
		s.mustEqual(w2, "f", "the same rule was being added by the parked writer, which holds the write lock")
		s.mustEqual(r, "t", "the reader ran after the parked writer")
	}},
	{name: "adapter.remove-vs-readers", run: func(sc *c13Setup) {
		x := sc.p("admin", "data1", "read")
		sc.init = [][]string{sc.pl("admin", "data1", "read"), sc.gl("alice", "admin"), sc.pl("bob", "data1", "read")}
		s := sc.build()
		gate := c13NewGate()
		s.ad.hook = func(ev string, rule []string) {
			if ev == "remove" && c13SameStr(rule, x) {
				gate.park()
			}
		}
		w := s.spawn(c13Rem(x))
		if !gate.waitInside() {
			s.bad("the writer never reached the adapter callback")
		}
		r1 := s.spawn(c13Enf(sc.p("alice", "data1", "read")))
		r2 := s.spawn(c13Has(x))
		r3 := s.spawn(c13Kind(c13GetP))
		w2 := s.spawn(c13Rem(x))
		s.waitStarted(5)
		s.settle()
		s.mustBeBlocked(c13WhyWriter, r1, r2, r3, w2)
		rel := gate.release()
		s.wg.Wait()
		s.mustReturnAfter(rel, c13WhyWriter, w, r1, r2, r3, w2)
		s.mustEqual(w, "t", "the rule was listed")
		s.mustEqual(w2, "f", "the parked writer removed the rule first")
		s.mustEqual(r1, "f", "the reader ran after the parked writer")
		s.mustEqual(r2, "f", "the reader ran after the parked writer")
		s.mustEqual(r3, rulesKey([][]string{sc.p("bob", "data1", "read")}), "the reader ran after the parked writer")
	}},
	{name: "adapter.update-vs-readers", run: func(sc *c13Setup) {
		o := sc.p("alice", "data1", "read")
		n := sc.p("alice", "data1", sc.spec.own)
		sc.init = [][]string{sc.pl("alice", "data1", "read"), sc.pl("bob", "data1", "write")}
		s := sc.build()
		gate := c13NewGate()
		s.ad.hook = func(ev string, rule []string) {
			if ev == "update" {
				gate.park()
			}
		}
		w := s.spawn(c13Upd(o, n))
		if !gate.waitInside() {
			s.bad("the writer never reached the adapter callback")
		}
		r1 := s.spawn(c13Enf(o))
		r2 := s.spawn(c13Enf(n))
		r3 := s.spawn(c13Has(o))
		r4 := s.spawn(c13Has(n))
		s.waitStarted(5)
		s.settle()
		s.mustBeBlocked(c13WhyWriter, r1, r2, r3, r4)
		rel := gate.release()
		s.wg.Wait()
		s.mustReturnAfter(rel, c13WhyWriter, w, r1, r2, r3, r4)
		s.mustEqual(w, "t", "the old rule was listed")
		s.mustEqual(r1, "f", "the reader ran after the parked writer")
		s.mustEqual(r2, "t", "the reader ran after the parked writer")
		s.mustEqual(r3, "f", "the reader ran after the parked writer")
		s.mustEqual(r4, "t", "the reader ran after the parked writer")
	}},
	{name: "adapter.save-vs-all", run: func(sc *c13Setup) {
		x := sc.p("bob", "data1", "read")
		sc.init = [][]string{sc.gl("alice", "admin"), sc.pl("admin", "data1", "read"), sc.gl("bob", "editor"), sc.pl("editor", "data1", "write")}
		s := sc.build()
		gate := c13NewGate()
		s.ad.hook = func(ev string, rule []string) {
			if ev == "save" {
				gate.park()
			}
		}
		w := s.spawn(c13Kind(c13Save))
		if !gate.waitInside() {
			s.bad("SavePolicy never reached the adapter callback")
		}
		w2 := s.spawn(c13Kind(c13Save))
		w3 := s.spawn(c13Add(x))
		r1 := s.spawn(c13Kind(c13GetP))
		r2 := s.spawn(c13Enf(sc.p("alice", "data1", "read")))
		s.waitStarted(5)
		s.settle()
		s.mustBeBlocked(c13WhyWriter, w2, w3, r1, r2)
		if atomic.LoadInt32(&s.ad.wIn) != 1 {
			s.bad("%d write callbacks inside the adapter while SavePolicy is parked there", atomic.LoadInt32(&s.ad.wIn))
		}
		rel := gate.release()
		s.wg.Wait()
		s.mustReturnAfter(rel, c13WhyWriter, w, w2, w3, r1, r2)
		s.mustEqual(r2, "t", "alice is admin")
	}},
	{name: "adapter.load-phase1-shares", run: func(sc *c13Setup) {
		// LoadPolicy parked in phase 1 (adapter callback, READ lock): readers are not held up and
		// still see the old state; after the release the new state is installed.
		x := sc.p("bob", "data1", "write")  // only in the drifted store
		y := sc.p("alice", "data1", "read") // only in memory
		sc.init = [][]string{sc.pl("alice", "data1", "read"), sc.gl("carol", "admin"), sc.pl("admin", "data1", "read")}
		sc.drift = [][]string{sc.pl("admin", "data1", "read"), sc.pl("bob", "data1", "write"), sc.gl("bob", "admin")}
		s := sc.build()
		gate := c13NewGate()
		s.ad.hook = func(ev string, rule []string) {
			if ev == "load" {
				gate.park()
			}
		}
		l := s.spawn(c13Kind(c13Load))
		if !gate.waitInside() {
			s.bad("LoadPolicy never reached the adapter callback")
		}
		r1 := s.spawn(c13Has(x))
		r2 := s.spawn(c13Has(y))
		r3 := s.spawn(c13Enf(sc.p("carol", "data1", "read")))
		r4 := s.spawn(c13Enf(sc.p("bob", "data1", "read")))
		for _, r := range []*c13Call{r1, r2, r3, r4} {
			if !s.waitDone(r, 10*time.Second) {
				s.bad("%s did not finish within 2 s while LoadPolicy was parked in phase 1 under the READ lock: reader blocked by reader", r.op.String())
			}
		}
		rel := gate.release()
		s.wg.Wait()
		for _, r := range []*c13Call{r1, r2, r3, r4} {
			if r.ret >= rel {
				s.bad("%s returned only after the release of phase 1", r.op.String())
			}
		}
		s.mustReturnAfter(rel, "LoadPolicy was parked", l)
		s.mustEqual(r1, "f", "phase 2 has not run")
		s.mustEqual(r2, "t", "phase 2 has not run")
		s.mustEqual(r3, "t", "phase 2 has not run")
		s.mustEqual(r4, "f", "phase 2 has not run")
		s.mustEqual(s.seq(c13Has(x)), "t", "LoadPolicy completed")
		s.mustEqual(s.seq(c13Has(y)), "f", "LoadPolicy completed")
		s.mustEqual(s.seq(c13Enf(sc.p("carol", "data1", "read"))), "f", "LoadPolicy completed")
		s.mustEqual(s.seq(c13Enf(sc.p("bob", "data1", "read"))), "t", "LoadPolicy completed")
	}},
	{name: "matcher.reader-shares", hook: true, run: func(sc *c13Setup) {
		// Enforce parked inside the matcher function (READ lock): other readers complete meanwhile
		sc.init = [][]string{sc.pl("alice", "data1", "read"), sc.pl("bob", "data1", "read"), sc.gl("carol", "admin")}
		gate := c13NewGate()
		sc.hookFn = func(args ...interface{}) (interface{}, error) {
			if len(args) == 1 && args[0] == "alice" {
				gate.park()
			}
			return true, nil
		}
		s := sc.build()
		a := s.spawn(c13Enf(sc.p("alice", "data1", "read")))
		if !gate.waitInside() {
			s.bad("Enforce never reached the matcher function")
		}
		b1 := s.spawn(c13Enf(sc.p("bob", "data1", "read")))
		b2 := s.spawn(c13Has(sc.p("bob", "data1", "read")))
		b3 := s.spawn(c13Kind(c13GetP))
		b4 := s.spawn(c13Enf(sc.p("carol", "data1", "read")))
		for _, r := range []*c13Call{b1, b2, b3, b4} {
			if !s.waitDone(r, 10*time.Second) {
				s.bad("%s did not finish within 2 s while another Enforce was parked under the READ lock: reader blocked by reader", r.op.String())
			}
		}
		rel := gate.release()
		s.wg.Wait()
		s.mustReturnAfter(rel, "it was parked", a)
		s.mustEqual(a, "t", "alice may read data1")
		s.mustEqual(b1, "t", "bob may read data1")
		s.mustEqual(b2, "t", "the rule is listed")
		s.mustEqual(b4, "f", "carol's role has no rule")
	}},
	{name: "matcher.writer-waits-for-reader", hook: true, run: func(sc *c13Setup) {
		// Enforce parked inside the matcher function; a writer that would change its answer must
		// wait (observed on the RWMutex), so the parked call still answers from the old state
		grant := sc.p("admin", "data1", "read")
		sc.init = [][]string{sc.pl("admin", "data1", "read"), sc.gl("alice", "admin"), sc.pl("bob", "data1", "read")}
		gate := c13NewGate()
		sc.hookFn = func(args ...interface{}) (interface{}, error) {
			if len(args) == 1 && args[0] == "alice" {
				gate.park()
			}
			return true, nil
		}
		s := sc.build()
		a := s.spawn(c13Enf(sc.p("alice", "data1", "read")))
		if !gate.waitInside() {
			s.bad("Enforce never reached the matcher function")
		}
		b := s.spawn(c13Enf(sc.p("bob", "data1", "read")))
		if !s.waitDone(b, 10*time.Second) {
			s.bad("reader blocked by reader")
		}
		w := s.spawn(c13Rem(grant))
		if !s.waitWriterQueued() {
			s.bad("no writer was seen waiting on the lock within 5 s")
		}
		s.settle()
		s.mustBeBlocked("while an Enforce call was parked under the read lock", w)
		rel := gate.release()
		s.wg.Wait()
		s.mustReturnAfter(rel, "the writer had to wait for the parked reader", w, a)
		s.mustEqual(a, "t", "the writer cannot have run before the parked reader finished")
		s.mustEqual(w, "t", "the rule was listed")
		s.mustEqual(s.seq(c13Enf(sc.p("alice", "data1", "read"))), "f", "the grant was removed")
	}},
	{name: "matcher.grouping-writer-waits", hook: true, run: func(sc *c13Setup) {
		link := sc.g("alice", "admin")
		sc.init = [][]string{sc.pl("admin", "data1", "read"), sc.gl("alice", "admin")}
		gate := c13NewGate()
		sc.hookFn = func(args ...interface{}) (interface{}, error) {
			if len(args) == 1 && args[0] == "alice" {
				gate.park()
			}
			return true, nil
		}
		s := sc.build()
		a := s.spawn(c13Enf(sc.p("alice", "data1", "read")))
		if !gate.waitInside() {
			s.bad("Enforce never reached the matcher function")
		}
		w := s.spawn(c13RemGr(link))
		if !s.waitWriterQueued() {
			s.bad("no writer was seen waiting on the lock within 5 s")
		}
		s.settle()
		s.mustBeBlocked("while an Enforce call was parked under the read lock", w)
		rel := gate.release()
		s.wg.Wait()
		s.mustReturnAfter(rel, "the writer had to wait for the parked reader", w, a)
		s.mustEqual(a, "t", "the role link was still there while the reader held the lock")
		s.mustEqual(w, "t", "the link was listed")
		s.mustEqual(s.seq(c13Enf(sc.p("alice", "data1", "read"))), "f", "the link was removed")
	}},
	{name: "logger.enforce-then-writer", run: func(sc *c13Setup) {
		// Enforce parked in LogEnforce (decision taken, read lock still held)
		grant := sc.p("alice", "data1", "read")
		sc.init = [][]string{sc.pl("alice", "data1", "read"), sc.pl("bob", "data1", "read")}
		s := sc.build()
		gate := c13NewGate()
		lg := &c13Logger{}
		lg.onEnforce = func(req []interface{}) {
			if len(req) > 0 && req[0] == "alice" {
				gate.park()
			}
		}
		s.e.SetLogger(lg) // before any concurrency
		s.e.EnableLog(true)
		a := s.spawn(c13Enf(grant))
		if !gate.waitInside() {
			s.bad("Enforce never reached the logger")
		}
		b := s.spawn(c13Enf(sc.p("bob", "data1", "read")))
		if !s.waitDone(b, 10*time.Second) {
			s.bad("reader blocked by reader")
		}
		w := s.spawn(c13Rem(grant))
		if !s.waitWriterQueued() {
			s.bad("no writer was seen waiting on the lock within 5 s")
		}
		s.settle()
		s.mustBeBlocked("while an Enforce call was parked under the read lock", w)
		rel := gate.release()
		s.wg.Wait()
		s.mustReturnAfter(rel, "the writer had to wait for the parked reader", w, a)
		s.mustEqual(a, "t", "decided before the writer could run")
		s.mustEqual(b, "t", "bob may read")
		s.mustEqual(s.seq(c13Enf(grant)), "f", "the grant was removed")
	}},
	{name: "logger.load-phase2-excludes", run: func(sc *c13Setup) {
		// LoadPolicy parked in LogPolicy: inside its WRITE section, role manager already cleared,
		// new model not yet installed.  Nobody may look at that intermediate state.
		sc.init = [][]string{sc.pl("admin", "data1", "read"), sc.gl("alice", "admin")}
		sc.drift = [][]string{sc.pl("admin", "data1", "read"), sc.gl("bob", "admin"), sc.pl("carol", "data1", "write")}
		s := sc.build()
		gate := c13NewGate()
		lg := &c13Logger{}
		s.e.SetLogger(lg)
		s.e.EnableLog(true)
		lg.onPolicy = func() { gate.park() }
		l := s.spawn(c13Kind(c13Load))
		if !gate.waitInside() {
			s.bad("LoadPolicy never reached LogPolicy")
		}
		r1 := s.spawn(c13Enf(sc.p("alice", "data1", "read")))
		r2 := s.spawn(c13Enf(sc.p("bob", "data1", "read")))
		r3 := s.spawn(c13Has(sc.p("carol", "data1", "write")))
		r4 := s.spawn(c13Kind(c13GetP))
		l2 := s.spawn(c13Kind(c13Load))
		s.waitStarted(6)
		s.settle()
		s.mustBeBlocked("while LoadPolicy was parked inside its write section", r1, r2, r3, r4, l2)
		rel := gate.release()
		s.wg.Wait()
		s.mustReturnAfter(rel, "LoadPolicy's write section was parked", l, r1, r2, r3, r4, l2)
		s.mustEqual(r1, "f", "the reader ran after the parked LoadPolicy")
		s.mustEqual(r2, "t", "the reader ran after the parked LoadPolicy")
		s.mustEqual(r3, "t", "the reader ran after the parked LoadPolicy")
	}},
	{name: "getters-own-their-result", run: func(sc *c13Setup) {
		// F38 (repaired): the lists returned by completed GetPolicy / GetNamedPolicy /
		// GetGroupingPolicy / GetNamedGroupingPolicy calls must not change when other goroutines'
		// later, completed calls remove or update rules (the unsynchronised getters hand out the
		// model's own slice, which RemovePolicy shifts and UpdatePolicy overwrites in place).
		a, b, cc := sc.p("alice", "data1", "read"), sc.p("bob", "data1", "read"), sc.p("carol", "data1", "read")
		n := sc.p("bob", "data1", sc.spec.own)
		ga, gb, gc := sc.g("alice", "admin"), sc.g("bob", "admin"), sc.g("carol", "editor")
		sc.init = [][]string{sc.pl("alice", "data1", "read"), sc.pl("bob", "data1", "read"), sc.pl("carol", "data1", "read"),
			sc.gl("alice", "admin"), sc.gl("bob", "admin"), sc.gl("carol", "editor")}
		s := sc.build()
		np, _ := s.e.GetNamedPolicy("p")
		gp, _ := s.e.GetGroupingPolicy()
		ngp, _ := s.e.GetNamedGroupingPolicy("g")
		wantP, wantG := rulesKey([][]string{a, b, cc}), rulesKey([][]string{ga, gb, gc})
		g1 := s.seq(c13Kind(c13GetP)) // its returned slice is re-read after quiescence by c13Finish
		s.mustEqual(g1, wantP, "initial policy")
		s.mustEqual(s.seq(c13Rem(a)), "t", "listed")
		g2 := s.seq(c13Kind(c13GetP))
		s.mustEqual(g2, rulesKey([][]string{b, cc}), "a was removed")
		s.mustEqual(s.seq(c13Upd(b, n)), "t", "listed")
		s.mustEqual(s.seq(c13RemGr(ga)), "t", "listed")
		s.mustEqual(s.seq(c13Kind(c13GetP)), rulesKey([][]string{n, cc}), "b was updated")
		for _, h := range []struct {
			what string
			got  [][]string
			want string
		}{{"GetPolicy", g1.held, wantP}, {"GetPolicy (second call)", g2.held, rulesKey([][]string{b, cc})},
			{"GetNamedPolicy(p)", np, wantP}, {"GetGroupingPolicy", gp, wantG}, {"GetNamedGroupingPolicy(g)", ngp, wantG}} {
			if rulesKey(h.got) != h.want {
				s.bad("the list returned by a completed %s read %s when it returned and reads %s after later RemovePolicy/UpdatePolicy/RemoveGroupingPolicy calls of other goroutines: the result aliases the enforcer's internal storage (F38)", h.what, h.want, rulesKey(h.got))
			}
		}
	}},
}

// c13RunForced runs every scenario on the plain and on the domain model.
func c13RunForced(c *Ctx, st *c13Stats) int {
	n := 0
	for _, scn := range c13Scenarios {
		for _, dom := range []bool{false, true} {
			spec := c13MakeSpec(dom, scn.hook)
			sc := &c13Setup{spec: spec}
			if dom {
				sc.d = "d1"
			}
			scn.run(sc)
			s := sc.s
			s.wg.Wait()
			s.ad.hook = nil
			out := &c13Outcome{calls: s.calls, e: s.e, ad: s.ad}
			c13Finish(out)
			id := "c13.f." + scn.name + "." + spec.name
			c13Judge(c, st, id, "forced", spec, sc.init, sc.drift, out, true, s.problems)
			n++
		}
	}
	return n
}
