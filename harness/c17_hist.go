package main

import (
	"fmt"
	"math/rand"
	"sort"
	"strings"

	casbin "github.com/casbin/casbin/v2"
)

// ---------------------------------------------------------------------------------------
// C17, part 3: "the decision function depends only on the SET of listed rules (p and g), not on
// the order or the way they were added and removed" (theorems C17_links_only_set,
// C17_history_independent).
//
// One real enforcer starts EMPTY and is driven to a chosen final rule set by a generated
// history of AddPolicy / RemovePolicy / AddNamedGroupingPolicy / RemoveNamedGroupingPolicy calls
// (single and batch forms):
//   * the final rules and links are added in a random order (p rules keep their relative order
//     under the order-sensitive effects),
//   * with detours: rules and links that are NOT in the final set are added and removed again;
//     final links are removed and re-added;
//   * with transitive detours: for a final link x->z a node y is chosen, x->y and y->z are added
//     BEFORE x->z (so x->z is redundant at the moment it is added) and the detour link y->z is
//     removed later — the final listing holds x->z (and x->y when it is final) only;
//   * with all requests enforced at random points in between (compiled matchers and memoised
//     g() answers of earlier states exist when the next change arrives).
// At random intermediate points and at the end the history enforcer is compared with a FRESH
// enforcer loaded with the currently listed p rules (same order) and the currently listed links
// (shuffled): every decision, error included, and every GetNamedImplicitRolesForUser /
// GetNamedImplicitUsersForRole answer must be the same; the listing itself must be the expected
// set.  The final state also goes through the per-rule correspondence with the extracted model.
// Pattern role managers (F05/F06: the incremental state is not a function of the listed links)
// and subjectPriority (LoadPolicy re-sorts the rules by the role hierarchy) are excluded.
// ---------------------------------------------------------------------------------------

type c17HOp struct {
	add   bool
	gt    string // "" = policy type p
	rule  []string
	batch bool
	mark  bool // not an operation: enforce every request (and maybe compare with a fresh enforcer)
}

func (o c17HOp) String() string {
	if o.mark {
		return "EnforceAll"
	}
	n := "Remove"
	if o.add {
		n = "Add"
	}
	t := "Policy"
	if o.gt != "" {
		t = "NamedGroupingPolicy[" + o.gt + "]"
	}
	if o.batch {
		t += "(batch)"
	}
	return n + t + rulesKey([][]string{o.rule})
}

func c17RuleKey(r []string) string { return strings.Join(r, "\x00") }

type c17SetLaw struct {
	c    *Ctx
	s    *c17Spec
	pb   *c17Prober
	reqs [][]interface{}
	r    *c17Run // for newRule / newLink
}

// names used in the links of gt (fields 0 and 1), plus the generator's names
func (h *c17SetLaw) namePool(gt string, links [][]string) []string {
	seen := map[string]bool{}
	var out []string
	add := func(v string) {
		if v != "" && !seen[v] {
			seen[v] = true
			out = append(out, v)
		}
	}
	for _, l := range links {
		add(l[0])
		add(l[1])
	}
	for _, l := range h.s.g[gt] {
		add(l[0])
		add(l[1])
	}
	if h.s.genKind != nil {
		names := h.s.genKind.names
		if gt == "g2" {
			names = h.s.genKind.cols["obj"]
		}
		for _, v := range names {
			add(v)
		}
	}
	sort.Strings(out)
	return out
}

// plan draws the final sets and a history that reaches them from the empty enforcer.
func (h *c17SetLaw) plan(rng *rand.Rand) (ops []c17HOp, finalP [][]string, finalG map[string][][]string) {
	s := h.s
	orderFree := s.ef == "ao" || s.ef == "do" || s.ef == "ad"
	// ----- final p rules: a subset of the base policy plus new rules
	for _, r := range s.p {
		if rng.Intn(5) > 0 {
			finalP = append(finalP, r)
		}
	}
	for k := rng.Intn(3); k > 0; k-- {
		if r := h.r.newRule(rng, finalP); r != nil {
			finalP = append(finalP, r)
		}
	}
	// p history: final rules (permuted when the effect is order-insensitive) + detour rules
	var pOps []c17HOp
	order := make([]int, len(finalP))
	for i := range order {
		order[i] = i
	}
	if orderFree && s.prioIdx < 0 {
		rng.Shuffle(len(order), func(i, j int) { order[i], order[j] = order[j], order[i] })
	}
	for _, i := range order {
		pOps = append(pOps, c17HOp{add: true, rule: finalP[i], batch: rng.Intn(5) == 0})
		if orderFree && rng.Intn(6) == 0 { // remove and re-add (the rule moves to the end)
			pOps = append(pOps, c17HOp{add: false, rule: finalP[i]}, c17HOp{add: true, rule: finalP[i]})
		}
	}
	for k := rng.Intn(3); k > 0; k-- {
		d := h.r.newRule(rng, finalP)
		if d == nil {
			continue
		}
		dup := false
		for _, o := range pOps {
			if c17RuleKey(o.rule) == c17RuleKey(d) {
				dup = true
			}
		}
		if dup {
			continue
		}
		i := rng.Intn(len(pOps) + 1)
		j := i + rng.Intn(len(pOps)-i+1)
		pOps = append(pOps[:j:j], append([]c17HOp{{add: false, rule: d, batch: rng.Intn(5) == 0}}, pOps[j:]...)...)
		pOps = append(pOps[:i:i], append([]c17HOp{{add: true, rule: d}}, pOps[i:]...)...)
	}
	// ----- links per role definition
	finalG = map[string][][]string{}
	streams := [][]c17HOp{pOps}
	for _, gt := range s.gTypes {
		var fin [][]string
		for _, l := range s.g[gt] {
			if rng.Intn(5) > 0 {
				fin = append(fin, l)
			}
		}
		for k := 1 + rng.Intn(3); k > 0; k-- {
			if l := h.r.newLink(rng, gt, fin); l != nil {
				fin = append(fin, l)
			}
		}
		finalG[gt] = fin
		inFinal := map[string]bool{}
		for _, l := range fin {
			inFinal[c17RuleKey(l)] = true
		}
		pool := h.namePool(gt, fin)
		var seq []c17HOp
		present := map[string]bool{}
		detour := map[string][]string{} // links currently present that are not final
		emitAdd := func(l []string) {
			if !present[c17RuleKey(l)] {
				present[c17RuleKey(l)] = true
				seq = append(seq, c17HOp{add: true, gt: gt, rule: l, batch: rng.Intn(5) == 0})
				if !inFinal[c17RuleKey(l)] {
					detour[c17RuleKey(l)] = l
				}
			}
		}
		dropDetours := func(all bool) {
			var keys []string
			for k := range detour {
				keys = append(keys, k)
			}
			sort.Strings(keys)
			rng.Shuffle(len(keys), func(i, j int) { keys[i], keys[j] = keys[j], keys[i] })
			for _, k := range keys {
				if all || rng.Intn(3) == 0 {
					seq = append(seq, c17HOp{add: false, gt: gt, rule: detour[k], batch: rng.Intn(5) == 0})
					delete(detour, k)
					delete(present, k)
				}
			}
		}
		perm := rng.Perm(len(fin))
		for _, i := range perm {
			l := fin[i]
			if present[c17RuleKey(l)] {
				continue
			}
			switch x := rng.Intn(10); {
			case x < 5 && len(pool) > 0 && l[0] != l[1]:
				// transitive detour: x->y, y->z first, then the (now redundant) x->z
				y := pool[rng.Intn(len(pool))]
				if y != l[0] && y != l[1] {
					a := append([]string{l[0], y}, l[2:]...)
					b := append([]string{y, l[1]}, l[2:]...)
					if rng.Intn(4) == 0 && len(pool) > 2 { // a two-step detour x->y->w->z
						w := pool[rng.Intn(len(pool))]
						if w != l[0] && w != l[1] && w != y {
							emitAdd(a)
							emitAdd(append([]string{y, w}, l[2:]...))
							b = append([]string{w, l[1]}, l[2:]...)
						}
					}
					emitAdd(a)
					emitAdd(b)
				}
				emitAdd(l)
			case x < 7:
				// plain detour: an unrelated link comes and goes
				if d := h.r.newLink(rng, gt, fin); d != nil {
					emitAdd(d)
				}
				emitAdd(l)
			case x < 8:
				// the final link itself is added, removed and added again
				emitAdd(l)
				seq = append(seq, c17HOp{add: false, gt: gt, rule: l}, c17HOp{add: true, gt: gt, rule: l})
			default:
				emitAdd(l)
			}
			dropDetours(false)
		}
		dropDetours(true)
		streams = append(streams, seq)
	}
	// ----- merge the streams (each keeps its own order), marks in between
	idx := make([]int, len(streams))
	for {
		var live []int
		for i, st := range streams {
			if idx[i] < len(st) {
				live = append(live, i)
			}
		}
		if len(live) == 0 {
			break
		}
		i := live[rng.Intn(len(live))]
		ops = append(ops, streams[i][idx[i]])
		idx[i]++
		if rng.Intn(3) == 0 {
			ops = append(ops, c17HOp{mark: true})
		}
	}
	return
}

func (h *c17SetLaw) apply(e *casbin.Enforcer, o c17HOp) (bool, error) {
	switch {
	case o.gt == "" && o.add && o.batch:
		return e.AddPolicies([][]string{o.rule})
	case o.gt == "" && o.add:
		return e.AddPolicy(o.rule)
	case o.gt == "" && o.batch:
		return e.RemovePolicies([][]string{o.rule})
	case o.gt == "":
		return e.RemovePolicy(o.rule)
	case o.add && o.batch:
		return e.AddNamedGroupingPolicies(o.gt, [][]string{o.rule})
	case o.add:
		return e.AddNamedGroupingPolicy(o.gt, o.rule)
	case o.batch:
		return e.RemoveNamedGroupingPolicies(o.gt, [][]string{o.rule})
	default:
		return e.RemoveNamedGroupingPolicy(o.gt, o.rule)
	}
}

// introspection answers that depend on the role graph only
func (h *c17SetLaw) roleAnswers(e *casbin.Enforcer, g map[string][][]string) string {
	var b strings.Builder
	for _, gt := range h.s.gTypes {
		names := h.namePool(gt, g[gt])
		doms := [][]string{nil}
		if h.s.gArity[gt] >= 3 {
			seen := map[string]bool{}
			doms = nil
			for _, l := range g[gt] {
				if !seen[l[2]] {
					seen[l[2]] = true
					doms = append(doms, []string{l[2]})
				}
			}
			sort.Slice(doms, func(i, j int) bool { return doms[i][0] < doms[j][0] })
		}
		for _, d := range doms {
			for _, n := range names {
				ir, err1 := e.GetNamedImplicitRolesForUser(gt, n, d...)
				b.WriteString(gt + ":" + n + ":" + strings.Join(d, "") + "=" + c17Sorted(ir, err1))
				if gt == "g" {
					iu, err2 := e.GetImplicitUsersForRole(n, d...)
					b.WriteString("/" + c17Sorted(iu, err2))
				}
				b.WriteString(";")
			}
		}
	}
	return b.String()
}

func c17Sorted(ss []string, err error) string {
	if err != nil {
		return "err"
	}
	return QL(sortedStrings(ss))
}

func c17SameSet(a, b [][]string) bool { return sortedRulesKey(a) == sortedRulesKey(b) }

// compare the history enforcer with a fresh one loaded with what it lists now
func (h *c17SetLaw) compareFresh(e *casbin.Enforcer, rng *rand.Rand, fail func(what, detail string), when string) bool {
	p := c17GetP(e)
	g := c17GetG(h.s, e)
	g2 := map[string][][]string{}
	for _, gt := range h.s.gTypes {
		g2[gt] = c17Shuffle(rng, g[gt])
	}
	fresh, err := h.s.build(p, g2, "")
	if err != nil {
		h.c.Count("setlaw:fresh-load-rejected")
		return true
	}
	if s := h.s; s.prioIdx >= 0 || s.ef == "pr" {
		// order-sensitive: the fresh enforcer must list the very same order for an exact comparison
		if !c17SameRules(c17GetP(fresh), p) {
			h.c.Count("setlaw:load-reordered-priority-rules")
			return true
		}
	}
	D1 := c17Decide(e, h.reqs)
	D2 := c17Decide(fresh, h.reqs)
	for i := range D1 {
		if D1[i] != D2[i] {
			fail("the decision depends on the history, not only on the listed rules and links: enforcer driven by Add/Remove calls vs fresh enforcer loaded with the same listing ("+when+")",
				fmt.Sprintf("req=%s history=%c fresh=%c listed_p=%s listed_g=%s", c17ReqStr(h.reqs[i]), D1[i], D2[i], QLL(p), c17GKey(h.s, g)))
			return false
		}
	}
	if a, b := h.roleAnswers(e, g), h.roleAnswers(fresh, g); a != b {
		fail("GetImplicitRolesForUser / GetImplicitUsersForRole depend on the history, not only on the listed links ("+when+")",
			fmt.Sprintf("history=%s fresh=%s listed_g=%s", Q(a), Q(b), c17GKey(h.s, g)))
		return false
	}
	return true
}

func (h *c17SetLaw) round(rng *rand.Rand, no int, correspond bool) {
	s, c := h.s, h.c
	ops, finalP, finalG := h.plan(rng)
	e, err := s.build(nil, map[string][][]string{}, "")
	if err != nil {
		panic(fmt.Sprint("build ", s.name, ": ", err))
	}
	var hist []string
	failed := false
	fail := func(what, detail string) {
		failed = true
		c17CaseNo++
		id := fmt.Sprintf("c17.%d.%s.setlaw", c17CaseNo, s.name)
		c.Direct(id, what, fmt.Sprintf("model=%s start=empty ops=%s %s", Q(s.modelText), QL(hist), detail))
	}
	c.Count("setlaw:histories")
	for _, o := range ops {
		if failed {
			return
		}
		hist = append(hist, o.String())
		if o.mark {
			c17Decide(e, h.reqs)
			if rng.Intn(3) == 0 {
				c.Count("setlaw:intermediate-compare")
				h.compareFresh(e, rng, fail, "intermediate state")
			}
			continue
		}
		c.Count("setlaw:op")
		ok, err := h.apply(e, o)
		if !ok || err != nil {
			fail("an Add of a rule that is not listed / a Remove of a listed rule was refused", "op="+Q(o.String()))
			return
		}
	}
	if failed {
		return
	}
	if got := c17GetP(e); !c17SameSet(got, finalP) {
		fail("the listed p rules after the history are not the expected set", "want="+QLL(finalP)+" got="+QLL(got))
		return
	}
	g := c17GetG(s, e)
	for _, gt := range s.gTypes {
		if !c17SameSet(g[gt], finalG[gt]) {
			fail("the listed grouping rules after the history are not the expected set", "gt="+gt+" want="+QLL(finalG[gt])+" got="+QLL(g[gt]))
			return
		}
	}
	if !h.compareFresh(e, rng, fail, "final state") {
		return
	}
	if correspond {
		c17Correspond(c, s, h.pb, e, h.reqs, "hist")
	}
}

// c17RunSetLaw: `rounds` histories for one spec.
func c17RunSetLaw(c *Ctx, s *c17Spec, rounds int, maxReq int) {
	if s.pattern || s.ef == "sp" || s.ef == "un" {
		c.Count("setlaw:spec-excluded(pattern-rm|subjectPriority)")
		return
	}
	h := &c17SetLaw{c: c, s: s, pb: c17NewProber(s)}
	h.reqs = s.requests(c.Rng, s.p, s.g, maxReq)
	h.r = &c17Run{c: c, s: s, pb: h.pb, reqs: h.reqs}
	for i := 0; i < rounds; i++ {
		func() {
			defer func() {
				if x := recover(); x != nil {
					msg := fmt.Sprint(x)
					if strings.HasPrefix(msg, "build ") || strings.HasPrefix(msg, "probe ") || strings.HasPrefix(msg, "blank ") {
						panic(x)
					}
					c17CaseNo++
					c.Direct(fmt.Sprintf("c17.%d.%s.setlaw", c17CaseNo, s.name), "the implementation panicked during a history of policy operations", Q(msg))
				}
			}()
			h.round(c.Rng, i, i%2 == 0)
		}()
	}
}
