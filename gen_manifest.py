#!/usr/bin/env python3
"""Regenerates MANIFEST.json from props/*.json (one file per claimed property) and
properties.jsonl.  Properties without a props file are listed under not_applicable with the
reason recorded in props/_unclaimed.json."""
import json, os
ROOT = os.path.dirname(os.path.abspath(__file__))
props = [json.loads(l) for l in open(os.path.join(ROOT, "properties.jsonl")) if l.strip()]
unclaimed = {}
p = os.path.join(ROOT, "props", "_unclaimed.json")
if os.path.exists(p):
    unclaimed = json.load(open(p))
baseline = json.load(open("/root/.vp/BASELINE.json"))["cmd"] if os.path.exists("/root/.vp/BASELINE.json") else "cd /repo && go test -vet=off -count=1 ./..."
checks, na = [], []
for pr in props:
    pid = pr["id"]
    cp = os.path.join(ROOT, "props", pid + ".json")
    if not os.path.exists(cp):
        na.append({"property_id": pid, "reason": unclaimed.get(pid, "machinery for this property is not built yet (no theorem file / harness stream); see DESIGN.md")})
        continue
    c = json.load(open(cp))
    checks.append({
        "property_id": pid,
        "quick_cmd": "./check %s quick" % pid,
        "thorough_cmd": "./check %s thorough" % pid,
        "evidence_file": "/verif/evidence/%s.json" % pid,
        "replay_cmd_template": "cat {path}",
        "engine": "coq-proof+correspondence",
        "level_claimed": {"category": c.get("level", "proof"), "text": c["level_text"], "design_ref": c.get("design_ref", "DESIGN.md §6 " + pid)},
        "level_note": c["level_note"],
        "technique": c.get("technique", "machine-checked proof in Coq 8.16.1 about an executable model + model/implementation correspondence check (extracted OCaml vs Go)"),
    })
m = {
    "version": 1,
    "setup_cmd": "./setup.sh",
    "hooks": {"guard": "verif", "enable": "go build -tags verif (no hook commits exist: every observable used is reachable through the exported API, callbacks, or by reading source)",
              "baseline_off_cmd": baseline, "source_commits": [], "add_only": True},
    "engines": [
        {"name": "coq-proof+correspondence", "path": "/verif/check", "serves_properties": [c["property_id"] for c in checks],
         "kind_free_text": "Coq 8.16.1 theorems over an executable Gallina model (coq/), model extracted with ExtrOcamlBasic to OCaml drivers (ocaml/), Go harness built against /repo via replace (harness/), Python orchestrator (check)"}],
    "checks": checks,
    "not_applicable": na,
    "notes": "See DESIGN.md. Every check rebuilds the Go harness against /repo's working tree, re-checks the property's Coq theorems (Print Assumptions recorded in the evidence) and diffs model vs implementation on generated cases.",
}
json.dump(m, open(os.path.join(ROOT, "MANIFEST.json"), "w"), indent=1)
print("claimed:", [c["property_id"] for c in checks], "unclaimed:", [n["property_id"] for n in na])
