(* C02 driver: (id EF VEC) -> the model's decision / error / explanation index *)
open Effect

let ef_of = function
  | "ao" -> AllowOverride | "do" -> DenyOverride | "ad" -> AllowAndDeny
  | "pr" -> Priority | "sp" -> SubjectPriority | _ -> Unsupported

let vec_of (s : string) =
  if s = "-" then [] else begin
    let n = Stdlib.String.length s / 2 in
    Stdlib.List.init n (fun i ->
      let m = s.[2*i] = '1' in
      let e = match s.[2*i+1] with 'a' -> Allow | 'd' -> Deny | _ -> Indet in
      (m, e))
  end

let rec int_of_nat = function Datatypes.O -> 0 | Datatypes.S n -> 1 + int_of_nat n

let () =
  Common.Sx.iter_stdin (fun c ->
    match Common.Sx.list c with
    | [id; ef; v] ->
        let id = Common.Sx.atom id and ef = ef_of (Common.Sx.atom ef) and v = vec_of (Common.Sx.atom v) in
        (* empty policy: the policy-free branch with the matcher `r.x == p.flag` on empty
           policy fields, i.e. "1" == "" = false *)
        let o = if v = [] then stream_nopolicy ef false else stream ef v in
        let ex = match o.explain with None -> -1 | Some j -> int_of_nat j in
        (* with an empty policy there is no rule to name *)
        let ex = if v = [] then -1 else ex in
        Printf.printf "%s\tenforce\tdec=%s err=%s\n" id (Common.Sx.b2s o.decision) (Common.Sx.b2s o.failed);
        Printf.printf "%s\tenforceex\tdec=%s err=%s ex=%d\n" id (Common.Sx.b2s o.decision) (Common.Sx.b2s o.failed) ex
    | _ -> failwith "bad case")
