(* C14 driver.  One case per line:
     (id V (rule ...) (probe ...) (op ...))
   V      p = CachedEnforcer, s = SyncedCachedEnforcer
   rule   (f1 f2 ...)            the text of the string adapter = initial policy
   probe  (param ...)            requests asked of the EMBEDDED enforcer after every step
   param  (s TXT) string | (c RT PT ET MT) EnforceContext | (k TXT) other CacheableParam
          | (l (f ...)) a []string | (n N) any other value
   op     (e NOW (param ...)) Enforce at clock NOW (microseconds)
          (inv) (load) (clear) (rm (param ...)) (add (param ...))
          (rms ((f ...) ...)) (adds ((f ...) ...)) (en 0|1) (ttl D)
          (pt rmn (f ...)) (pt addn (f ...)) (pt upd (f ...) (f ...)) (pt rmf IDX (v ...))
   Output, per step i:  id <TAB> i <TAB> outcome   and   id <TAB> i.u <TAB> underlying decisions *)
open Cache
module Sx = Common.Sx

let cs = Conv.cstr

(* OCaml int -> extracted Z (binary) *)
let rec pos_of_int (n : int) : BinNums.positive =
  if n <= 1 then BinNums.Coq_xH
  else if n land 1 = 1 then BinNums.Coq_xI (pos_of_int (n lsr 1))
  else BinNums.Coq_xO (pos_of_int (n lsr 1))

let z_of_int (n : int) : BinNums.coq_Z =
  if n = 0 then BinNums.Z0 else if n > 0 then BinNums.Zpos (pos_of_int n) else BinNums.Zneg (pos_of_int (-n))

let strs x = Stdlib.List.map cs (Sx.atoms x)

let param_of (x : Sx.t) : param =
  match Sx.list x with
  | [t; v] when Sx.atom t = "s" -> PStr (cs (Sx.atom v))
  | [t; a; b; c; d] when Sx.atom t = "c" ->
      PCtx (cs (Sx.atom a), cs (Sx.atom b), cs (Sx.atom c), cs (Sx.atom d))
  | [t; v] when Sx.atom t = "k" -> PKey (cs (Sx.atom v))
  | [t; v] when Sx.atom t = "l" -> PSlice (strs v)
  | [t; v] when Sx.atom t = "n" -> PNon (Conv.nat_of_int (int_of_string (Sx.atom v)))
  | _ -> failwith "bad param"

let params_of x = Stdlib.List.map param_of (Sx.list x)
let rules_of x = Stdlib.List.map strs (Sx.list x)

let op_of (x : Sx.t) : acl_op =
  match Sx.list x with
  | [t; now; ps] when Sx.atom t = "e" -> Enforce (z_of_int (int_of_string (Sx.atom now)), params_of ps)
  | [t] when Sx.atom t = "inv" -> InvalidateCache
  | [t] when Sx.atom t = "load" -> LoadPolicy
  | [t] when Sx.atom t = "clear" -> ClearPolicy
  | [t; ps] when Sx.atom t = "rm" -> RemovePolicy (params_of ps)
  | [t; ps] when Sx.atom t = "add" -> AddPolicy (params_of ps)
  | [t; rs] when Sx.atom t = "rms" -> RemovePolicies (rules_of rs)
  | [t; rs] when Sx.atom t = "adds" -> AddPolicies (rules_of rs)
  | [t; b] when Sx.atom t = "en" -> EnableCache (Sx.atom b = "1")
  | [t; d] when Sx.atom t = "ttl" -> SetExpireTime (z_of_int (int_of_string (Sx.atom d)))
  | [t; k; r] when Sx.atom t = "pt" && Sx.atom k = "rmn" -> Passthrough (MRemoveNamed (strs r))
  | [t; k; r] when Sx.atom t = "pt" && Sx.atom k = "addn" -> Passthrough (MAddNamed (strs r))
  | [t; k; a; b] when Sx.atom t = "pt" && Sx.atom k = "upd" -> Passthrough (MUpdate (strs a, strs b))
  | [t; k; i; vs] when Sx.atom t = "pt" && Sx.atom k = "rmf" ->
      Passthrough (MRemoveFiltered (Conv.nat_of_int (int_of_string (Sx.atom i)), strs vs))
  | _ -> failwith "bad op"

let out_s = function
  | ODec (b, e) -> Printf.sprintf "dec=%s err=%s" (Sx.b2s b) (Sx.b2s e)
  | ORet (ok, e) -> Printf.sprintf "ret=%s err=%s" (Sx.b2s ok) (Sx.b2s e)
  | OPanic -> "panic"

let under st probes =
  Stdlib.String.concat ""
    (Stdlib.List.map (fun p -> match acl_enforce st p with Some true -> "1" | Some false -> "0" | None -> "e") probes)

let () =
  Sx.iter_stdin (fun c ->
    match Sx.list c with
    | [id; v; rules; probes; ops] ->
        let id = Sx.atom id in
        let v = if Sx.atom v = "s" then Synced else Plain in
        let probes = Stdlib.List.map params_of (Sx.list probes) in
        let s = ref (acl_init (rules_of rules)) in
        Stdlib.List.iteri (fun i o ->
          let (s', out) = acl_run_step v !s (op_of o) in
          s := s';
          Printf.printf "%s\t%d\t%s\n" id i (out_s out);
          Printf.printf "%s\t%d.u\t%s\n" id i (under (ust !s) probes)) (Sx.list ops)
    | _ -> failwith "bad case")
