(* C14 driver.  One case per line:
     (id V (rule ...) (probe ...) (op ...))                basic ACL model (Cache.acl_ fixture)
     (id V (rule ...) (rule2 ...) (probe ...) (op ...))    model with the sections r r2 / p p2 / e e2 /
                                                           m .. m6 (Cache.cx_ fixture); V = cp | cs
   V      p = CachedEnforcer, s = SyncedCachedEnforcer
   rule   (f1 f2 ...)            the text of the string adapter = initial policy ("p"; rule2: "p2")
   probe  (param ...)            requests asked of the EMBEDDED enforcer after every step
   param  (s TXT) string | (c RT PT ET MT) EnforceContext | (k TXT) other CacheableParam
          | (l (f ...)) a []string | (n N) any other value
   op     (e NOW (param ...)) Enforce at clock NOW (microseconds)
          (inv) (load) (clear) (rm (param ...)) (add (param ...))
          (rms ((f ...) ...)) (adds ((f ...) ...)) (en 0|1) (ttl D)
          (pt rmn (f ...)) (pt addn (f ...)) (pt upd (f ...) (f ...)) (pt rmf IDX (v ...))
          second fixture only: (pt add2 (f ...)) (pt rm2 (f ...))  Add/RemoveNamedPolicy("p2", ...)
   Output, per step i:  id <TAB> i <TAB> outcome   and   id <TAB> i.u <TAB> underlying decisions *)
open Cache
module Sx = Common.Sx

let cs = Conv.cstr

(* OCaml int -> extracted Z (binary) *)
let rec pos_of_int (n : int) : BinNums.positive =
  if n <= 1 then BinNums.Coq_xH
  else if n land 1 = 1 then BinNums.Coq_xI (pos_of_int (n lsr 1))
  else BinNums.Coq_xO (pos_of_int (n lsr 1))

let z_of_int (n : int) : BinNums.coq_Z =
  if n = 0 then BinNums.Z0 else if n > 0 then BinNums.Zpos (pos_of_int n) else BinNums.Zneg (pos_of_int (-n))

let strs x = Stdlib.List.map cs (Sx.atoms x)

let param_of (x : Sx.t) : param =
  match Sx.list x with
  | [t; v] when Sx.atom t = "s" -> PStr (cs (Sx.atom v))
  | [t; a; b; c; d] when Sx.atom t = "c" ->
      PCtx (cs (Sx.atom a), cs (Sx.atom b), cs (Sx.atom c), cs (Sx.atom d))
  | [t; v] when Sx.atom t = "k" -> PKey (cs (Sx.atom v))
  | [t; v] when Sx.atom t = "l" -> PSlice (strs v)
  | [t; v] when Sx.atom t = "n" -> PNon (Conv.nat_of_int (int_of_string (Sx.atom v)))
  | _ -> failwith "bad param"

let params_of x = Stdlib.List.map param_of (Sx.list x)
let rules_of x = Stdlib.List.map strs (Sx.list x)

let acl_mut_of (l : Sx.t list) : acl_mut option =
  match l with
  | [k; r] when Sx.atom k = "rmn" -> Some (MRemoveNamed (strs r))
  | [k; r] when Sx.atom k = "addn" -> Some (MAddNamed (strs r))
  | [k; a; b] when Sx.atom k = "upd" -> Some (MUpdate (strs a, strs b))
  | [k; i; vs] when Sx.atom k = "rmf" ->
      Some (MRemoveFiltered (Conv.nat_of_int (int_of_string (Sx.atom i)), strs vs))
  | _ -> None

let acl_pt l = match acl_mut_of l with Some m -> m | None -> failwith "bad pt"

let cx_pt (l : Sx.t list) : cx_mut =
  match l with
  | [k; r] when Sx.atom k = "add2" -> CxAdd2 (strs r)
  | [k; r] when Sx.atom k = "rm2" -> CxRemove2 (strs r)
  | _ -> (match acl_mut_of l with Some m -> CxP m | None -> failwith "bad pt")

(* the operation vocabulary is the same for both fixtures up to the pass-through mutators *)
let op_of (pt : Sx.t list -> 'm) (x : Sx.t) : 'm op =
  match Sx.list x with
  | [t; now; ps] when Sx.atom t = "e" -> Enforce (z_of_int (int_of_string (Sx.atom now)), params_of ps)
  | [t] when Sx.atom t = "inv" -> InvalidateCache
  | [t] when Sx.atom t = "load" -> LoadPolicy
  | [t] when Sx.atom t = "clear" -> ClearPolicy
  | [t; ps] when Sx.atom t = "rm" -> RemovePolicy (params_of ps)
  | [t; ps] when Sx.atom t = "add" -> AddPolicy (params_of ps)
  | [t; rs] when Sx.atom t = "rms" -> RemovePolicies (rules_of rs)
  | [t; rs] when Sx.atom t = "adds" -> AddPolicies (rules_of rs)
  | [t; b] when Sx.atom t = "en" -> EnableCache (Sx.atom b = "1")
  | [t; d] when Sx.atom t = "ttl" -> SetExpireTime (z_of_int (int_of_string (Sx.atom d)))
  | t :: rest when Sx.atom t = "pt" -> Passthrough (pt rest)
  | _ -> failwith "bad op"

let out_s = function
  | ODec (b, e) -> Printf.sprintf "dec=%s err=%s" (Sx.b2s b) (Sx.b2s e)
  | ORet (ok, e) -> Printf.sprintf "ret=%s err=%s" (Sx.b2s ok) (Sx.b2s e)
  | OPanic -> "panic"

let under enforce st probes =
  Stdlib.String.concat ""
    (Stdlib.List.map (fun p -> match enforce st p with Some true -> "1" | Some false -> "0" | None -> "e") probes)

let () =
  Sx.iter_stdin (fun c ->
    match Sx.list c with
    | [id; v; rules; probes; ops] ->
        let id = Sx.atom id in
        let v = if Sx.atom v = "s" then Synced else Plain in
        let probes = Stdlib.List.map params_of (Sx.list probes) in
        let s = ref (acl_init (rules_of rules)) in
        Stdlib.List.iteri (fun i o ->
          let (s', out) = acl_run_step v !s (op_of acl_pt o) in
          s := s';
          Printf.printf "%s\t%d\t%s\n" id i (out_s out);
          Printf.printf "%s\t%d.u\t%s\n" id i (under acl_enforce (ust !s) probes)) (Sx.list ops)
    | [id; v; rules1; rules2; probes; ops] ->
        let id = Sx.atom id in
        let v = if Sx.atom v = "cs" then Synced else Plain in
        let probes = Stdlib.List.map params_of (Sx.list probes) in
        let s = ref (cx_init (rules_of rules1) (rules_of rules2)) in
        Stdlib.List.iteri (fun i o ->
          let (s', out) = cx_run_step v !s (op_of cx_pt o) in
          s := s';
          Printf.printf "%s\t%d\t%s\n" id i (out_s out);
          Printf.printf "%s\t%d.u\t%s\n" id i (under cx_enforce (ust !s) probes)) (Sx.list ops)
    | _ -> failwith "bad case")
