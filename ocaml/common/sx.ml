(* minimal S-expression reader: atoms are bare tokens or "quoted" with \xHH escapes *)
type t = A of string | L of t list

exception Parse_error of string

let parse_line (s : string) : t =
  let n = Stdlib.String.length s in
  let pos = ref 0 in
  let rec skip () = while !pos < n && (s.[!pos] = ' ' || s.[!pos] = '\t' || s.[!pos] = '\n' || s.[!pos] = '\r') do incr pos done
  and item () =
    skip ();
    if !pos >= n then raise (Parse_error "eof");
    match s.[!pos] with
    | '(' ->
        incr pos;
        let items = ref [] in
        let rec go () =
          skip ();
          if !pos >= n then raise (Parse_error "unclosed");
          if s.[!pos] = ')' then incr pos else (items := item () :: !items; go ())
        in
        go ();
        L (Stdlib.List.rev !items)
    | '"' ->
        incr pos;
        let b = Buffer.create 16 in
        let rec go () =
          if !pos >= n then raise (Parse_error "unclosed string");
          match s.[!pos] with
          | '"' -> incr pos
          | '\\' ->
              if !pos + 3 < n && s.[!pos + 1] = 'x' then begin
                Buffer.add_char b (Char.chr (int_of_string ("0x" ^ Stdlib.String.sub s (!pos + 2) 2)));
                pos := !pos + 4; go () end
              else raise (Parse_error "bad escape")
          | ch -> Buffer.add_char b ch; incr pos; go ()
        in
        go ();
        A (Buffer.contents b)
    | _ ->
        let st = !pos in
        while !pos < n && not (Stdlib.List.mem s.[!pos] [' '; '\t'; '('; ')'; '"'; '\n'; '\r']) do incr pos done;
        A (Stdlib.String.sub s st (!pos - st))
  in
  item ()

let atom = function A s -> s | L _ -> raise (Parse_error "expected atom")
let list = function L l -> l | A a -> raise (Parse_error ("expected list, got atom " ^ a))
let atoms x = Stdlib.List.map atom (list x)
let atomss x = Stdlib.List.map atoms (list x)

(* iterate over the lines of stdin *)
let iter_stdin (f : t -> unit) =
  try
    while true do
      let line = input_line stdin in
      if Stdlib.String.length line > 0 then f (parse_line line)
    done
  with End_of_file -> ()

let b2s b = if b then "1" else "0"

(* the same atom printer as harness/sx.go Q(): plain tokens bare, everything else quoted with \xHH *)
let is_plain (s : string) =
  s <> "" &&
  (let ok = ref true in
   Stdlib.String.iter (fun ch ->
     if not ((ch >= 'a' && ch <= 'z') || (ch >= 'A' && ch <= 'Z') || (ch >= '0' && ch <= '9')
             || Stdlib.List.mem ch ['_'; '-'; '.'; ':'; '/'; '*'; '+'; '='; '!'; '<'; '>'; '&'; '|'])
     then ok := false) s;
   !ok)

let q (s : string) : string =
  if is_plain s then s else begin
    let b = Buffer.create 16 in
    Buffer.add_char b '"';
    Stdlib.String.iter (fun ch ->
      let c = Char.code ch in
      if c >= 0x20 && c < 0x7f && ch <> '"' && ch <> '\\' then Buffer.add_char b ch
      else Buffer.add_string b (Printf.sprintf "\\x%02x" c)) s;
    Buffer.add_char b '"';
    Buffer.contents b
  end

(* harness/common.go rulesKey / sortedRulesKey *)
let rule_key (r : string list) : string = "[" ^ Stdlib.String.concat "|" (Stdlib.List.map q r) ^ "]"
let rules_key (rs : string list list) : string = Stdlib.String.concat "" (Stdlib.List.map rule_key rs)
let sorted_rules_key (rs : string list list) : string =
  Stdlib.String.concat "" (Stdlib.List.sort compare (Stdlib.List.map rule_key rs))
