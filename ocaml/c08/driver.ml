(* C08 driver.  Cases (one S-expression per line):
     (id T text ((sec opt) ...))        any text: parse + load through the model
     (id L text ((sec opt) ...) ldoc)   a text rendered by the harness from a laid-out document:
                                        additionally re-checks, with the extracted Coq functions,
                                        that the layout satisfies wf_ldoc, that Coq's `render`
                                        produces the very same text, and evaluates the statement
                                        of the layout theorem on it
   Output: id <TAB> step <TAB> value, the same lines harness/c08.go records from the real code. *)
open Config

(* bytes <-> the extracted `ascii` (ExtrOcamlBasic keeps it an 8-bool constructor).  The model is
   extracted without Coq's String module, so these two conversions are all the glue there is. *)
let ascii_of_char (c : char) : Ascii.ascii =
  let n = Char.code c in
  let b i = (n lsr i) land 1 = 1 in
  Ascii.Ascii (b 0, b 1, b 2, b 3, b 4, b 5, b 6, b 7)

let char_of_ascii (a : Ascii.ascii) : char =
  match a with
  | Ascii.Ascii (b0, b1, b2, b3, b4, b5, b6, b7) ->
      let v b i = if b then 1 lsl i else 0 in
      Char.chr (v b0 0 + v b1 1 + v b2 2 + v b3 3 + v b4 4 + v b5 5 + v b6 6 + v b7 7)

let of_s (s : string) : Ascii.ascii list =
  let r = ref [] in
  for i = Stdlib.String.length s - 1 downto 0 do r := ascii_of_char (Stdlib.String.get s i) :: !r done;
  !r

let to_s (l : Ascii.ascii list) : string =
  let b = Buffer.create 64 in
  Stdlib.List.iter (fun a -> Buffer.add_char b (char_of_ascii a)) l;
  Buffer.contents b

module S = Common.Sx

let skip_of x =
  match S.list x with
  | [k; pad] when S.atom k = "b" -> SBlank (of_s (S.atom pad))
  | [k; ind; semi; text] when S.atom k = "c" -> SComment (of_s (S.atom ind), S.atom semi = "1", of_s (S.atom text))
  | _ -> failwith "bad skip"

let cont_of x =
  match S.atoms x with
  | [pad; trail; ind; text] -> { c_pad = of_s pad; c_trail = of_s trail; c_ind = of_s ind; c_text = of_s text }
  | _ -> failwith "bad cont"

let ldef_of x =
  match S.list x with
  | [gap; ind; key; ws1; ws2; first; more; trail; cmt] ->
      { d_gap = Stdlib.List.map skip_of (S.list gap); d_ind = of_s (S.atom ind); d_key = of_s (S.atom key);
        d_ws1 = of_s (S.atom ws1); d_ws2 = of_s (S.atom ws2); d_first = of_s (S.atom first);
        d_more = Stdlib.List.map cont_of (S.list more); d_trail = of_s (S.atom trail);
        d_cmt = (match S.list cmt with
                 | [] -> None
                 | [semi; text] -> Some (S.atom semi = "1", of_s (S.atom text))
                 | _ -> failwith "bad remark") }
  | _ -> failwith "bad ldef"

let lsec_of x =
  match S.list x with
  | [gap; ind; name; trail; defs] ->
      { s_gap = Stdlib.List.map skip_of (S.list gap); s_ind = of_s (S.atom ind); s_name = of_s (S.atom name);
        s_trail = of_s (S.atom trail); s_defs = Stdlib.List.map ldef_of (S.list defs) }
  | _ -> failwith "bad lsec"

let ldoc_of x =
  match S.list x with
  | [secs; tail; fin] ->
      { l_secs = Stdlib.List.map lsec_of (S.list secs); l_tail = Stdlib.List.map skip_of (S.list tail);
        l_final_nl = (S.atom fin = "1") }
  | _ -> failwith "bad ldoc"

let strs l = S.rule_key (Stdlib.List.map to_s l)

let run_text id text probes =
  let t = of_s text in
  (match parse t with
   | Err _ -> Printf.printf "%s\tcfg\terr\n" id
   | Ok c ->
       Printf.printf "%s\tcfg\tok\n" id;
       Stdlib.List.iter (fun p ->
         match p with
         | [sec; opt] -> Printf.printf "%s\tget\t%s::%s=%s\n" id sec opt (S.q (to_s (get c (of_s sec) (of_s opt))))
         | _ -> failwith "bad probe") probes);
  match load_text t with
  | Err EFuel -> Printf.printf "%s\tmodel\tfuel\n" id
  | Err _ -> Printf.printf "%s\tmodel\terr\n" id
  | Ok m ->
      Printf.printf "%s\tmodel\tok\n" id;
      Stdlib.List.iter (fun asts ->
        Stdlib.List.iter (fun a ->
          Printf.printf "%s\tdef\t%s.%s V=%s T=%s P=%s\n" id (to_s a.a_sec) (to_s a.a_key)
            (S.q (to_s a.a_value)) (strs a.a_tokens) (strs a.a_params)) asts) m

let () =
  S.iter_stdin (fun c ->
    match S.list c with
    | [id; k; text; probes] when S.atom k = "T" ->
        run_text (S.atom id) (S.atom text) (S.atomss probes)
    | [id; k; text; probes; ld] when S.atom k = "L" ->
        let id = S.atom id and text = S.atom text in
        let ld = ldoc_of ld in
        Printf.printf "%s\twf\t%s\n" id (S.b2s (wf_ldoc ld));
        Printf.printf "%s\trender\t%s\n" id (if to_s (render ld) = text then "same" else "different");
        (* the statement of layout_invariant, evaluated: parse (render ld) = Ok (cfg_doc (erase ld)) *)
        let thm = match parse (of_s text) with Ok c -> c = cfg_doc (erase ld) | Err _ -> false in
        Printf.printf "%s\ttheorem\t%s\n" id (S.b2s thm);
        run_text id text (S.atomss probes)
    | _ -> failwith "bad case")
