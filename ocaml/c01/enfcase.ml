(* The enforce case handler shared by the C01 and C03 drivers (ocaml/c03/dune copies this
   file).  One case per line:
     (id ENABLED (R..) (P..) (E..) (M..) (G..) (PARSE..) (ORACLE..) WM (REQ..))
   R = (key "sub, obj, act")           request definition as handed to Model.AddDef
   P = (key "sub, obj, act" (rule..))  policy definition + the rules in stored order
   E = (key text)   M = (key text)     effect / matcher text as handed to Model.AddDef
   G = (key count (rule..))            role definition (number of "_") + grouping rules
   PARSE = (text ast)                  every text that gets compiled -> its AST
   ORACLE = (fn (args..) result)       built-ins the model does not define: what Go returned
   WM                                  the text handed to EnforceWithMatcher
   REQ = (ctx value..)                 ctx = - | (r p e m)
   Prints, per request k: k.enf, k.ex, k.wm and one batch line: what the model computes. *)
open Expr
open Enforce
module Sx = Common.Sx

let cs = Conv.cstr

let rec pos_of_int n =
  if n = 1 then BinNums.Coq_xH
  else if n land 1 = 0 then BinNums.Coq_xO (pos_of_int (n lsr 1))
  else BinNums.Coq_xI (pos_of_int (n lsr 1))
let z_of_int n =
  if n = 0 then BinNums.Z0 else if n > 0 then BinNums.Zpos (pos_of_int n) else BinNums.Zneg (pos_of_int (-n))

let rec value_of (x : Sx.t) : value =
  match x with
  | Sx.A "nil" -> VNil
  | Sx.L [Sx.A "s"; s] -> VStr (cs (Sx.atom s))
  | Sx.L [Sx.A "n"; n] -> VNum (z_of_int (int_of_string (Sx.atom n)))
  | Sx.L [Sx.A "b"; b] -> VBool (Sx.atom b = "1")
  | Sx.L (Sx.A "l" :: xs) -> VList (Stdlib.List.map value_of xs)
  | Sx.L (Sx.A "m" :: fs) -> VObj (false, Stdlib.List.map field_of fs)
  | Sx.L (Sx.A "st" :: fs) -> VObj (true, Stdlib.List.map field_of fs)
  | _ -> failwith "bad value"
and field_of = function
  | Sx.L [k; v] -> (cs (Sx.atom k), value_of v)
  | _ -> failwith "bad field"

let op_of = function
  | "==" -> OEq | "!=" -> ONe | "<" -> OLt | "<=" -> OLe | ">" -> OGt | ">=" -> OGe
  | "&&" -> OAnd | "||" -> OOr | "+" -> OAdd | "-" -> OSub
  | s -> failwith ("bad operator " ^ s)

let rec expr_of (x : Sx.t) : expr =
  match x with
  | Sx.L [Sx.A "v"; n] -> EVar (cs (Sx.atom n))
  | Sx.L [Sx.A "a"; b; p] -> EAcc (cs (Sx.atom b), Stdlib.List.map cs (Sx.atoms p))
  | Sx.L [Sx.A "s"; s] -> EStr (cs (Sx.atom s))
  | Sx.L [Sx.A "n"; n] -> ENum (z_of_int (int_of_string (Sx.atom n)))
  | Sx.L [Sx.A "b"; b] -> EBool (Sx.atom b = "1")
  | Sx.L [Sx.A "o"; op; a; b] -> EBin (op_of (Sx.atom op), expr_of a, expr_of b)
  | Sx.L [Sx.A "not"; a] -> ENot (expr_of a)
  | Sx.L [Sx.A "in"; a; l] -> EIn (expr_of a, Stdlib.List.map expr_of (Sx.list l))
  | Sx.L [Sx.A "c"; f; l] -> ECall (cs (Sx.atom f), Stdlib.List.map expr_of (Sx.list l))
  | _ -> failwith "bad expr"

let res_of (x : Sx.t) : res =
  match x with
  | Sx.A "err" -> Err
  | Sx.A "panic" -> Panic
  | v -> Ok (value_of v)

let run (items : Sx.t list) : unit =
  match items with
  | [id; en; rs; ps; es; ms; gs; parse; oracle; wm; reqs] ->
      let id = Sx.atom id in
      let rules x = Stdlib.List.map (Stdlib.List.map cs) (Sx.atomss x) in
      let r_defs = Stdlib.List.map (fun d -> match Sx.list d with
        | [k; v] -> (cs (Sx.atom k), load_tokens (cs (Sx.atom k)) (cs (Sx.atom v)))
        | _ -> failwith "bad r") (Sx.list rs) in
      let p_defs = Stdlib.List.map (fun d -> match Sx.list d with
        | [k; v; pol] -> (cs (Sx.atom k), (load_tokens (cs (Sx.atom k)) (cs (Sx.atom v)), rules pol))
        | _ -> failwith "bad p") (Sx.list ps) in
      let e_defs = Stdlib.List.map (fun d -> match Sx.list d with
        | [k; v] -> (cs (Sx.atom k), load_effect (cs (Sx.atom v)))
        | _ -> failwith "bad e") (Sx.list es) in
      let m_defs = Stdlib.List.map (fun d -> match Sx.list d with
        | [k; v] -> (cs (Sx.atom k), load_matcher (cs (Sx.atom v)))
        | _ -> failwith "bad m") (Sx.list ms) in
      let g_defs = Stdlib.List.map (fun d -> match Sx.list d with
        | [k; n; rl] ->
            let count = Conv.nat_of_int (int_of_string (Sx.atom n)) in
            let (links, ok) = Roles.rebuild count (rules rl) in
            if not ok then failwith "grouping rule shorter than the role definition";
            (cs (Sx.atom k), (count, links))
        | _ -> failwith "bad g") (Sx.list gs) in
      let ptab = Hashtbl.create 16 in
      Stdlib.List.iter (fun d -> match Sx.list d with
        | [t; a] -> Hashtbl.replace ptab (Sx.atom t) (expr_of a)
        | _ -> failwith "bad parse entry") (Sx.list parse);
      let otab = Hashtbl.create 16 in
      let okey f args = Stdlib.String.concat "\000" (f :: args) in
      Stdlib.List.iter (fun d -> match Sx.list d with
        | [f; args; r] -> Hashtbl.replace otab (okey (Sx.atom f) (Sx.atoms args)) (res_of r)
        | _ -> failwith "bad oracle entry") (Sx.list oracle);
      let parse_fn s = Hashtbl.find_opt ptab (Conv.ostr s) in
      let oracle_fn f args =
        let k = okey (Conv.ostr f) (Stdlib.List.map Conv.ostr args) in
        match Hashtbl.find_opt otab k with
        | Some r -> r
        | None -> failwith (Printf.sprintf "%s: the oracle table has no entry for %s" id (Stdlib.String.escaped k)) in
      let m = { enabled = (Sx.atom en = "1"); r_defs; p_defs; e_defs; m_defs; g_defs } in
      let wm = cs (Sx.atom wm) in
      let req_of x = match Sx.list x with
        | ctx :: vals ->
            let ctx = match ctx with
              | Sx.A _ -> None
              | Sx.L [r; p; e; mm] -> Some { c_r = cs (Sx.atom r); c_p = cs (Sx.atom p); c_e = cs (Sx.atom e); c_m = cs (Sx.atom mm) }
              | _ -> failwith "bad ctx" in
            { rq_ctx = ctx; rq_vals = Stdlib.List.map value_of vals }
        | _ -> failwith "bad request" in
      let reqs = Stdlib.List.map req_of (Sx.list reqs) in
      Stdlib.List.iteri (fun k rq ->
        let (d1, e1) = api_enforce parse_fn oracle_fn m rq in
        let ((d2, x2), e2) = api_enforce_ex parse_fn oracle_fn m rq in
        let (d3, e3) = api_enforce_with_matcher parse_fn oracle_fn m wm rq in
        let ex = match x2 with None -> -1 | Some j -> Conv.int_of_nat j in
        Printf.printf "%s\t%d.enf\tdec=%s err=%s\n" id k (Sx.b2s d1) (Sx.b2s e1);
        Printf.printf "%s\t%d.ex\tdec=%s err=%s ex=%d\n" id k (Sx.b2s d2) (Sx.b2s e2) ex;
        Printf.printf "%s\t%d.wm\tdec=%s err=%s\n" id k (Sx.b2s d3) (Sx.b2s e3)) reqs;
      let (bs, be) = api_batch_enforce parse_fn oracle_fn m reqs in
      Printf.printf "%s\tbatch\tres=%s err=%s\n" id (Stdlib.String.concat "" (Stdlib.List.map Sx.b2s bs)) (Sx.b2s be)
  | _ -> failwith "bad enforce case"
