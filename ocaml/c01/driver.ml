(* C01 driver: every line of stdin is one enforce case; the handler (case format, what is
   printed) is ocaml/c01/enfcase.ml, shared with the C03 driver. *)
module Sx = Common.Sx

let () = Sx.iter_stdin (fun c -> Enfcase.run (Sx.list c))
