(* C03 driver.  One case per line, three kinds:

   (id ENABLED (R..) .. (REQ..))          an enforce case in the C01 format: see enfcase.ml; prints
                                          k.enf / k.ex / k.wm per request and one batch line
   (id line MODEL (LINE ...))             persist.LoadPolicyLine, the lines loaded one after the
                                          other into one model (Csv.load_policy_line);
       prints  id <TAB> k <TAB> ok|err  per line and  id <TAB> end <TAB> p=.. g=.. r=.. e=.. m=..
   (id text ADAPTER MODEL TEXT)           a whole policy text through the string adapter
                                          (Total.string_load) or the file adapter (Total.file_load),
                                          then Enforcer.LoadPolicy on top (Total.enforcer_load);
       prints  id <TAB> adapter  <TAB> ok|err p=.. g=..      (the model the adapter filled, in order)
               id <TAB> enforcer <TAB> ok p=.. g=.. | err    (rules sorted: order is C07's subject)
   MODEL = flat (r, p of 3 fields, g = _, _) | dom (4 fields, g = _, _, _)
         | sp (p = sub, obj, act, eft; g = _, _; effect subjectPriority)                          *)
module Sx = Common.Sx

let cs = Conv.cstr
let os = Conv.ostr

let entry k n = { Csv.e_key = cs k; Csv.e_ntok = Conv.nat_of_int n; Csv.e_rules = [] }

(* the assertions of the harness models; e and m exist in every model and accept anything *)
let defs_of = function
  | "flat" -> [entry "r" 3; entry "p" 3; entry "g" 2; entry "e" 0; entry "m" 0]
  | "dom" -> [entry "r" 4; entry "p" 4; entry "g" 3; entry "e" 0; entry "m" 0]
  | "sp" -> [entry "r" 3; entry "p" 4; entry "g" 2; entry "e" 0; entry "m" 0]
  | m -> failwith ("unknown model " ^ m)

let rules key st = Stdlib.List.map (Stdlib.List.map os) (Csv.rules_of (cs key) st)

let () =
  Sx.iter_stdin (fun c ->
    match Sx.list c with
    | [id; Sx.A "line"; model; lines] ->
        let id = Sx.atom id in
        let st = ref (defs_of (Sx.atom model)) in
        Stdlib.List.iteri (fun i l ->
          match Csv.load_policy_line (cs l) !st with
          | Csv.Ok st' -> st := st'; Printf.printf "%s\t%d\tok\n" id i
          | Csv.Err -> Printf.printf "%s\t%d\terr\n" id i) (Sx.atoms lines);
        Printf.printf "%s\tend\tp=%s g=%s r=%s e=%s m=%s\n" id (Sx.rules_key (rules "p" !st))
          (Sx.rules_key (rules "g" !st)) (Sx.rules_key (rules "r" !st))
          (Sx.rules_key (rules "e" !st)) (Sx.rules_key (rules "m" !st))
    | [id; Sx.A "text"; adapter; model; text] ->
        let id = Sx.atom id and model = Sx.atom model in
        let text = cs (Sx.atom text) in
        let loaded = match Sx.atom adapter with
          | "str" -> Total.string_load text (defs_of model)
          | "file" -> Total.file_load text (defs_of model)
          | a -> failwith ("unknown adapter " ^ a) in
        let (st, ok) = loaded in
        Printf.printf "%s\tadapter\t%s p=%s g=%s\n" id (if ok then "ok" else "err")
          (Sx.rules_key (rules "p" st)) (Sx.rules_key (rules "g" st));
        (match Total.enforcer_load (model = "sp") loaded with
         | Some st' ->
             Printf.printf "%s\tenforcer\tok p=%s g=%s\n" id (Sx.sorted_rules_key (rules "p" st'))
               (Sx.sorted_rules_key (rules "g" st'))
         | None -> Printf.printf "%s\tenforcer\terr\n" id)
    | items -> Enfcase.run items)
