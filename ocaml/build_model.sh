#!/bin/sh
# build_model.sh <name>... : extract coq/extract/<name>.v into ocaml/<name>/gen and build
# ocaml/<name>/driver.exe.  Without arguments: every extraction file.
set -e
cd "$(dirname "$0")"
if [ $# -eq 0 ]; then set -- $(ls ../coq/extract/*.v | xargs -n1 basename | sed 's/\.v$//'); fi
for n in "$@"; do
  src=../coq/extract/$n.v
  gen=$n/gen
  mkdir -p "$gen"
  # re-extract only when a model .vo or the extraction file is newer than the stamp
  if [ ! -f "$gen/.stamp" ] || [ -n "$(find ../coq -maxdepth 2 \( -name '*.vo' -o -path "*/extract/$n.v" \) -newer "$gen/.stamp" ! -name "$n.vo" | head -1)" ]; then
    rm -f "$gen"/*.ml "$gen"/*.mli
    ( cd "$gen" && timeout 900 coqc -Q ../../../coq Casbin "../../../coq/extract/$n.v" >/dev/null )
    if [ -f "$gen/String.ml" ]; then cp common/conv.ml.in "$gen/conv.ml"; fi
    echo ok > "$gen/.stamp"
  fi
done
targets=""
for n in "$@"; do targets="$targets ./$n/driver.exe"; done
timeout 900 dune build $targets 2>&1
