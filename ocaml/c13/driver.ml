(* C13 driver.  Every case is one recorded concurrent history (or forced schedule); the
   implementation side observed "ok" when the history is linearizable w.r.t. the real
   single-threaded enforcer and the post-quiescence checks hold.  The model side answers "ok"
   iff the extracted decision procedure accepts the generated table with its exception list
   (Sync.lin_ok), i.e. iff the proved theorem C13_linearizable_except applies to this tree;
   otherwise "table-rejected".  The histories themselves are not replayed on a model: the
   sequential specification of C13's exploration is the real enforcer. *)
let verdict =
  if Sync.lin_ok SyncTable.loc_names SyncTable.exceptions SyncTable.table then "ok" else "table-rejected"

let () =
  Common.Sx.iter_stdin (fun c ->
    match Common.Sx.list c with
    | id :: _ -> Printf.printf "%s\tresult\t%s\n" (Common.Sx.atom id) verdict
    | _ -> failwith "bad case")
