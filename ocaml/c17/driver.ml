(* C17 driver: (id EF USES_P HAS_EVAL BLANK VEC) -> the model's decision / error.
   EF       ao | do | ad | pr | sp | un
   USES_P   1|0   the matcher text mentions a policy field
   HAS_EVAL 1|0   the matcher text contains eval()
   BLANK    1|0|e result of the matcher on the empty policy fields (e = it fails)
   VEC      "-" (empty policy) or two characters per rule in stored order:
            [1|0|e] matched / not matched / evaluation fails, then [a|d|i] effect column *)
open Effect
open Meta

let ef_of = function
  | "ao" -> AllowOverride | "do" -> DenyOverride | "ad" -> AllowAndDeny
  | "pr" -> Priority | "sp" -> SubjectPriority | _ -> Unsupported

let ob_of = function '1' -> Some true | '0' -> Some false | _ -> None

let vec_of (s : string) =
  if s = "-" then [] else begin
    let n = Stdlib.String.length s / 2 in
    Stdlib.List.init n (fun i ->
      let m = ob_of s.[2*i] in
      let e = match s.[2*i+1] with 'a' -> Allow | 'd' -> Deny | _ -> Indet in
      (m, e))
  end

let () =
  Common.Sx.iter_stdin (fun c ->
    match Common.Sx.list c with
    | [id; ef; up; he; bl; v] ->
        let a = Common.Sx.atom in
        let id = a id and ef = ef_of (a ef) and up = (a up = "1") and he = (a he = "1")
        and bl = ob_of (a bl).[0] and v = vec_of (a v) in
        let o = decide_vec ef up he bl v in
        Printf.printf "%s\tenforce\tdec=%s err=%s\n" id (Common.Sx.b2s o.decision) (Common.Sx.b2s o.failed)
    | _ -> failwith "bad case")
