(* Driver for the DistributedEnforcer *Self operations (coq/Dist.v on coq/Machine.v's state).
   case: (ID (cfg (pt isg arity prio)...) (kind rbac|domain|priority) (links (pt (names) (domains))...)
             (reqs (field...)...) (uni (pt (rule...))...) (wired 0|1 ...) (from K) (digest 0|1) (ops (op bit...)...))
   One model replica (Dist.replica) per persist bit; every replica starts from the empty enforcer
   over an empty adapter; a wired replica has its own dispatcher (rep_disp = Some []).  For every
   step k >= K and replica i prints, like harness/c19.go:
     ID <TAB> k.i.res | k.i.adlog | k.i.adcontent | k.i.listed | k.i.has | k.i.links.<pt> | k.i.dec
            | k.i.disp (wired replicas only) <TAB> value
   has = what the index of every type of the universe knows about the universe's rules.
   or, with (digest 1), ONE line per case: ID <TAB> all <TAB> MD5 over "k.i." and these values, newline-terminated. *)
open Common
open Machine
open Dist

let cs = Conv.cstr
let os = Conv.ostr
let crule (fs : string list) = Stdlib.List.map cs fs
let orule r = Stdlib.List.map os r
let crules x = Stdlib.List.map crule (Sx.atomss x)
let nat_of_string s = Conv.nat_of_int (int_of_string s)

let ql (l : string list) = "(" ^ Stdlib.String.concat " " (Stdlib.List.map Sx.q l) ^ ")"
let rkey r = Sx.rule_key (orule r)
let rskey rs = Stdlib.String.concat "" (Stdlib.List.map rkey rs)

let parse_cfg x =
  Stdlib.List.map (fun d ->
    match Sx.atoms d with
    | [pt; isg; ar; pr] ->
        (cs pt, { a_is_g = (isg = "1"); a_arity = nat_of_string ar;
                  a_prio = (if int_of_string pr < 0 then None else Some (nat_of_string pr)) })
    | _ -> failwith "bad cfg") x

type op = Op of dop | FailNext of int

let parse_op x : op =
  match Sx.list x with
  | [Sx.A "add"; pt; rs] -> Op (DAdd (cs (Sx.atom pt), crules rs))
  | [Sx.A "remove"; pt; rs] -> Op (DRemove (cs (Sx.atom pt), crules rs))
  | [Sx.A "removefiltered"; pt; fi; fvs] -> Op (DRemoveFiltered (cs (Sx.atom pt), nat_of_string (Sx.atom fi), crule (Sx.atoms fvs)))
  | [Sx.A "clear"] -> Op DClear
  | [Sx.A "update"; pt; o; n] -> Op (DUpdate (cs (Sx.atom pt), crule (Sx.atoms o), crule (Sx.atoms n)))
  | [Sx.A "updatemany"; pt; o; n] -> Op (DUpdateMany (cs (Sx.atom pt), crules o, crules n))
  | [Sx.A "updatefiltered"; pt; ns; fi; fvs] -> Op (DUpdateFiltered (cs (Sx.atom pt), crules ns, nat_of_string (Sx.atom fi), crule (Sx.atoms fvs)))
  | [Sx.A "failnext"; k] -> FailNext (int_of_string (Sx.atom k))
  | _ -> failwith "bad op"

let err_str e = if e then "err" else "ok"
let res_str is_clear = function
  | DRules (aff, e) -> "aff=" ^ rskey aff ^ " " ^ err_str e
  | DFlag (b, e) -> "flag=" ^ Sx.b2s b ^ " " ^ err_str e
  | DUnit e -> err_str e
  | DPanic -> "panic"

let prule_key (pt, r) = Sx.q (os pt) ^ rkey r
let content_key c = Stdlib.String.concat "" (Stdlib.List.map prule_key c)
let listed_key l =
  Stdlib.String.concat ";" (Stdlib.List.map (fun (pt, rs) -> Sx.q (os pt) ^ "=" ^ rskey rs) l)

let acall_str = function
  | AAdd (pt, r) -> "add " ^ Sx.q (os pt) ^ rkey r
  | ARemove (pt, r) -> "remove " ^ Sx.q (os pt) ^ rkey r
  | AAddMany (pt, rs) -> "addmany " ^ Sx.q (os pt) ^ rskey rs
  | ARemoveMany (pt, rs) -> "removemany " ^ Sx.q (os pt) ^ rskey rs
  | ARemoveFiltered (pt, fi, fvs) -> Printf.sprintf "removefiltered %s %d %s" (Sx.q (os pt)) (Conv.int_of_nat fi) (ql (orule fvs))
  | AUpdate (pt, o, n) -> "update " ^ Sx.q (os pt) ^ rkey o ^ rkey n
  | AUpdateMany (pt, o, n) -> "updatemany " ^ Sx.q (os pt) ^ rskey o ^ "/" ^ rskey n
  | AUpdateFiltered (pt, ns, fi, fvs) -> Printf.sprintf "updatefiltered %s %s %d %s" (Sx.q (os pt)) (rskey ns) (Conv.int_of_nat fi) (ql (orule fvs))
  | ASave all -> "save " ^ content_key all
  | ALoad -> "load"

let rec drop n l = if n <= 0 then l else match l with [] -> [] | _ :: t -> drop (n - 1) t
let sorted_names l = Stdlib.List.sort compare (Stdlib.List.map os l)

let links_key s pt names domains =
  let ls = get_links s (cs pt) in
  let b = Buffer.create 64 in
  let doms = if domains = [] then [""] else domains in
  Stdlib.List.iter (fun d ->
    Stdlib.List.iter (fun u ->
      Stdlib.List.iter (fun r ->
        Buffer.add_string b (Sx.b2s (Roles.has_link ls (cs u) (cs r) (cs d)))) names) names;
    Stdlib.List.iter (fun u ->
      Buffer.add_string b (" " ^ ql (sorted_names (Roles.get_roles ls (cs u) (cs d)))
                           ^ ql (sorted_names (Roles.get_users ls (cs u) (cs d))))) names;
    Buffer.add_string b "|") doms;
  Buffer.contents b

let decisions kind s reqs =
  Stdlib.String.concat "" (Stdlib.List.map (fun q ->
    match kind, q with
    | "rbac", [su; ob; ac] -> Sx.b2s (decide_rbac s (cs su) (cs ob) (cs ac))
    | "domain", [su; dm; ob; ac] -> Sx.b2s (decide_domain s (cs su) (cs dm) (cs ob) (cs ac))
    | "priority", [su; ob; ac] ->
        (match decide_priority s (cs su) (cs ob) (cs ac) with Some b -> Sx.b2s b | None -> "E")
    | _ -> failwith "bad request") reqs)

(* what the index of every type knows about the rules of the universe *)
let has_key s uni =
  Stdlib.String.concat "" (Stdlib.List.map (fun (pt, rules) ->
    Stdlib.String.concat "" (Stdlib.List.map (fun r -> Sx.b2s (Store.has (get_store s pt) r)) rules) ^ "|") uni)

(* the calls a replica handed to its own dispatcher, by the name of the persist.Dispatcher method *)
let disp_name = function
  | DAdd _ -> "AddPolicies" | DRemove _ -> "RemovePolicies" | DRemoveFiltered _ -> "RemoveFilteredPolicy"
  | DClear -> "ClearPolicy" | DUpdate _ -> "UpdatePolicy" | DUpdateMany _ -> "UpdatePolicies"
  | DUpdateFiltered _ -> "UpdateFilteredPolicies"
let disp_key = function
  | None -> "none"
  | Some l -> "[" ^ Stdlib.String.concat " " (Stdlib.List.map disp_name l) ^ "]"

let () =
  Sx.iter_stdin (fun c ->
    match Sx.list c with
    | [id; Sx.L (Sx.A "cfg" :: cfg); Sx.L [Sx.A "kind"; kind]; Sx.L (Sx.A "links" :: links);
       Sx.L (Sx.A "reqs" :: reqs); Sx.L (Sx.A "uni" :: uni); Sx.L (Sx.A "wired" :: wired);
       Sx.L [Sx.A "from"; from]; Sx.L [Sx.A "digest"; digest]; Sx.L (Sx.A "ops" :: ops)] ->
        let digest = Sx.atom digest = "1" in
        let id = Sx.atom id in
        let kind = Sx.atom kind in
        let cfg = parse_cfg cfg in
        let from = int_of_string (Sx.atom from) in
        let reqs = Stdlib.List.map Sx.atoms reqs in
        let links = Stdlib.List.map (fun l -> match Sx.list l with
          | [pt; names; doms] -> (Sx.atom pt, Sx.atoms names, Sx.atoms doms) | _ -> failwith "bad links") links in
        let uni = Stdlib.List.map (fun l -> match Sx.list l with
          | [pt; rules] -> (cs (Sx.atom pt), crules rules) | _ -> failwith "bad uni") uni in
        let wired = Array.of_list (Stdlib.List.map (fun w -> Sx.atom w = "1") wired) in
        let nrep = match ops with o :: _ -> Stdlib.List.length (Sx.list o) - 1 | [] -> 0 in
        if Array.length wired <> nrep then failwith "bad wired";
        let reps = Array.init nrep (fun i ->
          { rep_m = init_state cfg false false WNone []; rep_disp = (if wired.(i) then Some [] else None) }) in
        let acc = Buffer.create 1024 in
        Stdlib.List.iteri (fun k entry ->
          match Sx.list entry with
          | opx :: bits ->
              let op = parse_op opx in
              Stdlib.List.iteri (fun i bit ->
                let rp = reps.(i) in
                let s = rp.rep_m in
                let seen = Stdlib.List.length s.ad.alog in
                let (rp', res) = match op with
                  | Op o -> let (rp', r) = rstep cfg rp o (Sx.atom bit = "1") in (rp', res_str false r)
                  | FailNext n -> ({ rp with rep_m = { s with ad = { s.ad with fail_in = Some (Conv.nat_of_int n) } } }, "ok") in
                reps.(i) <- rp';
                let s' = rp'.rep_m in
                if k >= from then begin
                  let out name v = Printf.printf "%s\t%d.%d.%s\t%s\n" id k i name v in
                  let adlog = Stdlib.String.concat " ; " (Stdlib.List.map acall_str (drop seen s'.ad.alog)) in
                  let lks = Stdlib.List.map (fun (pt, names, doms) -> (pt, links_key s' pt names doms)) links in
                  if digest then
                    Buffer.add_string acc (Stdlib.String.concat "\n"
                      ([Printf.sprintf "%d.%d." k i; res; adlog; content_key s'.ad.content; listed_key (listed cfg s'); has_key s' uni]
                       @ Stdlib.List.map snd lks @ [decisions kind s' reqs; disp_key rp'.rep_disp]) ^ "\n")
                  else begin
                    out "res" res;
                    out "adlog" adlog;
                    out "adcontent" (content_key s'.ad.content);
                    out "listed" (listed_key (listed cfg s'));
                    out "has" (has_key s' uni);
                    Stdlib.List.iter (fun (pt, v) -> out ("links." ^ pt) v) lks;
                    out "dec" (decisions kind s' reqs);
                    if wired.(i) then out "disp" (disp_key rp'.rep_disp)
                  end
                end) bits
          | [] -> failwith "bad log entry") ops;
        if digest then Printf.printf "%s\tall\t%s\n" id (Digest.to_hex (Digest.string (Buffer.contents acc)))
    | _ -> failwith "bad case")
