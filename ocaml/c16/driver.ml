(* C16 driver.
   case: (ID KIND (links (u r d)...) (policy (f...)...) (names n...) (domains d...) (perms (f...)...))
   KIND = plain | dom.  For `plain` the only domain is "" and the Go calls pass no domain.
   An optional trailing (hist call...) item names the rbac_api calls that led the real enforcer to
   the listed state (history mode); the model is a function of the listed rules and ignores it.
   Prints, from the extracted model Rbac.v, exactly the lines harness/c16.go prints from the
   implementation: ID <TAB> step <TAB> value. *)
open Common

let cs = Conv.cstr
let os = Conv.ostr
let ql (l : string list) = "(" ^ Stdlib.String.concat " " (Stdlib.List.map Sx.q l) ^ ")"
let sorted (l : string list) = Stdlib.List.sort compare l
let ostrs l = Stdlib.List.map os l
let rkey r = Sx.rule_key (ostrs r)
let rskey rs = Stdlib.String.concat "" (Stdlib.List.map rkey rs)
let join = Stdlib.String.concat ";"
let map = Stdlib.List.map
let concat_map f l = Stdlib.List.concat (map f l)

let field tag x =
  match Sx.list x with
  | Sx.A t :: rest when t = tag -> rest
  | _ -> failwith ("bad field " ^ tag)

let () =
  Sx.iter_stdin (fun c ->
    match Sx.list c with
    | id :: kind :: links :: policy :: names :: domains :: perms :: ([] | [_]) ->
        let id = Sx.atom id in
        let dom = (match Sx.atom kind with "plain" -> false | "dom" -> true | _ -> failwith "bad kind") in
        let k = if dom then Rbac.WithDomains else Rbac.Plain in
        let ls = map (fun l -> match Sx.atoms l with
                               | [u; r; d] -> ((cs u, cs r), cs d)
                               | _ -> failwith "bad link") (field "links" links) in
        let policy = map (fun r -> map cs (Sx.atoms r)) (field "policy" policy) in
        let names = map Sx.atom (field "names" names) in
        let domains = map Sx.atom (field "domains" domains) in
        let perms = map Sx.atoms (field "perms" perms) in
        let out step v = Printf.printf "%s\t%s\t%s\n" id step v in
        let per_ud f = join (concat_map (fun d -> map (fun u -> u ^ "@" ^ d ^ "=" ^ f (cs u) (cs d)) names) domains) in
        let set_of = function
          | Some l -> ql (sorted (ostrs l))
          | None -> "out-of-fuel" in
        out "iroles" (per_ud (fun u d -> set_of (Rbac.implicit_roles_opt ls u d)));
        out "iusers" (per_ud (fun u d -> set_of (Rbac.implicit_users_for_role_opt ls u d)));
        out "roles" (per_ud (fun u d -> ql (sorted (ostrs (Rbac.get_roles_for_user ls u d)))));
        out "users" (per_ud (fun u d -> ql (sorted (ostrs (Rbac.get_users_for_role ls u d)))));
        out "depth" (per_ud (fun u d -> Sx.b2s (Rbac.depth_ok ls d u)));
        if dom then begin
          out "iperms" (per_ud (fun u d -> rskey (Rbac.implicit_permissions_dom ls policy u d)));
          out "perms" (per_ud (fun u d -> rskey (Rbac.get_permissions_for_user k policy u (Some d))));
          out "iperms0" (join (map (fun u -> u ^ "=" ^ rskey (Rbac.implicit_permissions ls policy (cs u))) names));
          out "perms0" (join (map (fun u -> u ^ "=" ^ rskey (Rbac.get_permissions_for_user k policy (cs u) None)) names))
        end else begin
          out "iperms" (per_ud (fun u _ -> rskey (Rbac.implicit_permissions ls policy u)));
          out "perms" (per_ud (fun u _ -> rskey (Rbac.get_permissions_for_user k policy u None)))
        end;
        out "iusers_perm" (join (map (fun p ->
          ql p ^ "=" ^ ql (ostrs (Rbac.implicit_users_for_permission k ls policy (map cs p)))) perms));
        out "enforce" (join (map (fun p ->
          ql p ^ "=" ^ Stdlib.String.concat "" (map (fun u ->
            Sx.b2s (Rbac.enforce_rbac k ls policy (cs u :: map cs p))) names)) perms))
    | _ -> failwith "bad case")
