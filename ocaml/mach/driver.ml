(* Driver for the management-API state machine (coq/Machine.v).
   case: (ID (cfg (pt isg arity prio)...) (flags autosave autonotify wkind) (content (pt (f..))...)
             (obs spec...) (ops op...))
   After every op prints one line per observer: ID <TAB> k.name <TAB> value, rendered exactly
   like harness/mach.go renders the implementation's observables. *)
open Common
open Machine

let cs = Conv.cstr
let os = Conv.ostr
let crule (fs : string list) = Stdlib.List.map cs fs
let orule r = Stdlib.List.map os r
let crules x = Stdlib.List.map crule (Sx.atomss x)
let nat_of_string s = Conv.nat_of_int (int_of_string s)

let ql (l : string list) = "(" ^ Stdlib.String.concat " " (Stdlib.List.map Sx.q l) ^ ")"
let rkey r = Sx.rule_key (orule r)
let rskey rs = Stdlib.String.concat "" (Stdlib.List.map rkey rs)

let parse_cfg x =
  Stdlib.List.map (fun d ->
    match Sx.atoms d with
    | [pt; isg; ar; pr] ->
        (cs pt, { a_is_g = (isg = "1"); a_arity = nat_of_string ar;
                  a_prio = (if int_of_string pr < 0 then None else Some (nat_of_string pr)) })
    | _ -> failwith "bad cfg") (Sx.list x)

let rec parse_op x : mop =
  match Sx.list x with
  | [Sx.A "self"; o] -> MSelf (parse_op o)
  | [Sx.A "add"; pt; r] -> MAdd (cs (Sx.atom pt), crule (Sx.atoms r))
  | [Sx.A "remove"; pt; r] -> MRemove (cs (Sx.atom pt), crule (Sx.atoms r))
  | [Sx.A "addmany"; pt; rs] -> MAddMany (cs (Sx.atom pt), crules rs)
  | [Sx.A "addmanyex"; pt; rs] -> MAddManyEx (cs (Sx.atom pt), crules rs)
  | [Sx.A "removemany"; pt; rs] -> MRemoveMany (cs (Sx.atom pt), crules rs)
  | [Sx.A "update"; pt; o; n] -> MUpdate (cs (Sx.atom pt), crule (Sx.atoms o), crule (Sx.atoms n))
  | [Sx.A "updatemany"; pt; o; n] -> MUpdateMany (cs (Sx.atom pt), crules o, crules n)
  | [Sx.A "removefiltered"; pt; fi; fvs] -> MRemoveFiltered (cs (Sx.atom pt), nat_of_string (Sx.atom fi), crule (Sx.atoms fvs))
  | [Sx.A "updatefiltered"; pt; ns; fi; fvs] -> MUpdateFiltered (cs (Sx.atom pt), crules ns, nat_of_string (Sx.atom fi), crule (Sx.atoms fvs))
  | [Sx.A "clear"] -> MClear
  | [Sx.A "load"] -> MLoad
  | [Sx.A "save"] -> MSave
  | [Sx.A "autosave"; b] -> MSetAutoSave (Sx.atom b = "1")
  | [Sx.A "autonotify"; b] -> MSetAutoNotify (Sx.atom b = "1")
  | [Sx.A "failnext"; k] -> MFailNext (nat_of_string (Sx.atom k))
  | _ -> failwith "bad op"

let res_str = function
  | ROk true -> "ok1" | ROk false -> "ok0" | RFalseErr -> "falseerr" | RTrueErr -> "trueerr" | RPanicked -> "panic"

let prule_key (pt, r) = Sx.q (os pt) ^ rkey r
let content_key c = Stdlib.String.concat "" (Stdlib.List.map prule_key c)
let listed_key l =
  Stdlib.String.concat ";" (Stdlib.List.map (fun (pt, rs) -> Sx.q (os pt) ^ "=" ^ rskey rs) l)

let acall_str = function
  | AAdd (pt, r) -> "add " ^ Sx.q (os pt) ^ rkey r
  | ARemove (pt, r) -> "remove " ^ Sx.q (os pt) ^ rkey r
  | AAddMany (pt, rs) -> "addmany " ^ Sx.q (os pt) ^ rskey rs
  | ARemoveMany (pt, rs) -> "removemany " ^ Sx.q (os pt) ^ rskey rs
  | ARemoveFiltered (pt, fi, fvs) -> Printf.sprintf "removefiltered %s %d %s" (Sx.q (os pt)) (Conv.int_of_nat fi) (ql (orule fvs))
  | AUpdate (pt, o, n) -> "update " ^ Sx.q (os pt) ^ rkey o ^ rkey n
  | AUpdateMany (pt, o, n) -> "updatemany " ^ Sx.q (os pt) ^ rskey o ^ "/" ^ rskey n
  | AUpdateFiltered (pt, ns, fi, fvs) -> Printf.sprintf "updatefiltered %s %s %d %s" (Sx.q (os pt)) (rskey ns) (Conv.int_of_nat fi) (ql (orule fvs))
  | ASave all -> "save " ^ content_key all
  | ALoad -> "load"

let notice_str = function
  | NUpdate -> "update"
  | NAdd (pt, r) -> "add " ^ Sx.q (os pt) ^ rkey r
  | NRemove (pt, r) -> "remove " ^ Sx.q (os pt) ^ rkey r
  | NAddMany (pt, rs) -> "addmany " ^ Sx.q (os pt) ^ rskey rs
  | NRemoveMany (pt, rs) -> "removemany " ^ Sx.q (os pt) ^ rskey rs
  | NRemoveFiltered (pt, fi, fvs) -> Printf.sprintf "removefiltered %s %d %s" (Sx.q (os pt)) (Conv.int_of_nat fi) (ql (orule fvs))
  | NUpdatePolicy (pt, o, n) -> "updatepolicy " ^ Sx.q (os pt) ^ rkey o ^ rkey n
  | NUpdatePolicies (pt, o, n) -> "updatepolicies " ^ Sx.q (os pt) ^ rskey o ^ "/" ^ rskey n
  | NSave -> "save"

let rec drop n l = if n <= 0 then l else match l with [] -> [] | _ :: t -> drop (n - 1) t

let sorted_names l = Stdlib.List.sort compare (Stdlib.List.map os l)

let links_key s pt names domains =
  let ls = get_links s (cs pt) in
  let b = Buffer.create 64 in
  let doms = if domains = [] then [""] else domains in
  Stdlib.List.iter (fun d ->
    Stdlib.List.iter (fun u ->
      Stdlib.List.iter (fun r ->
        Buffer.add_string b (Sx.b2s (Roles.has_link ls (cs u) (cs r) (cs d)))) names) names;
    Stdlib.List.iter (fun u ->
      Buffer.add_string b (" " ^ ql (sorted_names (Roles.get_roles ls (cs u) (cs d)))
                           ^ ql (sorted_names (Roles.get_users ls (cs u) (cs d))))) names;
    Buffer.add_string b "|") doms;
  Buffer.contents b

let () =
  Sx.iter_stdin (fun c ->
    match Sx.list c with
    | [id; Sx.L (Sx.A "cfg" :: cfg); Sx.L [Sx.A "flags"; sv; nt; wk]; Sx.L (Sx.A "content" :: content);
       Sx.L (Sx.A "obs" :: obs); Sx.L (Sx.A "ops" :: ops)] ->
        let id = Sx.atom id in
        let cfg = parse_cfg (Sx.L cfg) in
        let wk = match Sx.atom wk with "plain" -> WPlain | "ex" -> WEx | "upd" -> WUpdatable | _ -> WNone in
        let content = Stdlib.List.map (fun x -> match Sx.list x with
          | [pt; r] -> (cs (Sx.atom pt), crule (Sx.atoms r)) | _ -> failwith "bad content") content in
        let s = ref (init_state cfg (Sx.atom sv = "1") (Sx.atom nt = "1") wk content) in
        let log_seen = ref 0 and w_seen = ref 0 in
        Stdlib.List.iteri (fun k opx ->
          let (opx, quiet, nores) = match opx with
            | Sx.L [Sx.A "quiet"; o] -> (o, true, false)
            | Sx.L [Sx.A "nores"; o] -> (o, false, true)
            | o -> (o, false, false) in
          let op = parse_op opx in
          let (s', r) = step cfg !s op in
          s := s';
          let out name v = Printf.printf "%s\t%d.%s\t%s\n" id k name v in
          if not quiet then Stdlib.List.iter (fun o ->
            match o with
            | Sx.A "res" -> if not nores then out "res" (res_str r)
            | Sx.A "listed" -> out "listed" (listed_key (listed cfg !s))
            | Sx.A "adlog" ->
                let l = drop !log_seen (!s).ad.alog in
                log_seen := Stdlib.List.length (!s).ad.alog;
                out "adlog" (Stdlib.String.concat " ; " (Stdlib.List.map acall_str l))
            | Sx.A "adcontent" -> out "adcontent" (content_key (!s).ad.content)
            | Sx.A "wlog" ->
                let l = drop !w_seen (!s).wlog in
                w_seen := Stdlib.List.length (!s).wlog;
                out "wlog" (Stdlib.String.concat " ;; " (Stdlib.List.map (fun (n, (li, co)) ->
                  notice_str n ^ " @ " ^ listed_key li ^ " # " ^ content_key co) l))
            | Sx.L [Sx.A "pol"; pt] -> let pt = Sx.atom pt in out ("pol." ^ pt) (rskey ((get_store !s (cs pt)).Store.pol))
            | Sx.L [Sx.A "has"; pt; rs] ->
                let pt = Sx.atom pt in
                let st = get_store !s (cs pt) in
                out ("has." ^ pt) (Stdlib.String.concat "" (Stdlib.List.map (fun r -> Sx.b2s (Store.has st r)) (crules rs)))
            | Sx.L [Sx.A "filt"; pt; fi; fvs] ->
                let pt = Sx.atom pt in
                let st = get_store !s (cs pt) in
                let v = match Store.get_filtered (nat_of_string (Sx.atom fi)) (crule (Sx.atoms fvs)) st.Store.pol with
                  | Some l -> rskey l | None -> "panic" in
                out ("filt." ^ pt ^ "." ^ Sx.atom fi ^ ql (Sx.atoms fvs)) v
            | Sx.L [Sx.A "links"; pt; names; doms] ->
                let pt = Sx.atom pt in
                out ("links." ^ pt) (links_key !s pt (Sx.atoms names) (Sx.atoms doms))
            | _ -> failwith "bad observer") obs) ops
    | [id; Sx.A "memo"; fam; Sx.L (Sx.A "cfg" :: cfg); Sx.L (Sx.A "content" :: content); Sx.L (Sx.A "ops" :: ops)] ->
        let id = Sx.atom id in
        let cfg = parse_cfg (Sx.L cfg) in
        let fam = if Sx.atom fam = "domain" then Memo.FDomain else Memo.FRbac in
        let content = Stdlib.List.map (fun x -> match Sx.list x with
          | [pt; r] -> (cs (Sx.atom pt), crule (Sx.atoms r)) | _ -> failwith "bad content") content in
        let c = ref (Memo.cinit cfg false content) in
        Stdlib.List.iteri (fun k opx ->
          let op = match opx with
            | Sx.L [Sx.A "enf"; req] -> Memo.CEnforce (crule (Sx.atoms req))
            | o -> Memo.CMach (parse_op o) in
          let (c', r) = Memo.cstep cfg fam !c op in
          c := c';
          match r with
          | Memo.CRes r -> Printf.printf "%s\t%d.res\t%s\n" id k (res_str r)
          | Memo.CDec (Memo.EDec b) -> Printf.printf "%s\t%d.enf\t%s\n" id k (Sx.b2s b)
          | Memo.CDec Memo.EErr -> Printf.printf "%s\t%d.enf\terr\n" id k) ops
    | [id; Sx.A "hier"; gs; ps; domidx] ->
        let dom = let d = int_of_string (Sx.atom domidx) in if d < 0 then None else Some (Conv.nat_of_int d) in
        let v = match Priority.sort_by_hierarchy (crules gs) dom (crules ps) with
          | Some l -> rskey l | None -> "err" in
        Printf.printf "%s\thier\t%s\n" (Sx.atom id) v
    | _ -> failwith "bad case")
