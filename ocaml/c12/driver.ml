(* C12 driver.  Every case is one explored stress scenario (id NAME); the implementation side
   observed "ok" when the race detector, the panic hooks and the deadlock watchdog stayed
   silent.  The model side answers "ok" iff the extracted decision procedure accepts the lock
   table generated from the source (Sync.table_ok), i.e. iff the proved theorem
   C12_no_race_current applies to this tree; otherwise "table-rejected".  Nothing else of the
   model needs to run: the runtime part of C12 is exploration, not a model computation. *)
let verdict =
  match SyncTable.race_exceptions with
  | [] -> if Sync.table_ok (Sync.with_result_readers SyncTable.table) then "ok" else "table-rejected"
  | _ -> "table-rejected"

let () =
  Common.Sx.iter_stdin (fun c ->
    match Common.Sx.list c with
    | id :: _ -> Printf.printf "%s\tresult\t%s\n" (Common.Sx.atom id) verdict
    | _ -> failwith "bad case")
