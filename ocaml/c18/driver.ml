(* C18 driver.
   (id hist MODEL FILE (OP ...))   the filtered-loading state machine (Filter.step, variant Current)
       MODEL = flat | dom | flat2 ; FILE = the policy text ;
       OP = (load IO) | (lf INCR IO ARG) | (save) | (add KEY (FIELD ...))
       ARG = nil | bad | tnil | (f (P ...) (G ...) (G2 ...))
     prints after the construction (step 0) and after every op k:
       id <TAB> k <TAB> ok=.. filt=.. p=.. g=.. [g2=..] file=.. dec=..
   (id csv MODEL (LINE ...))       persist.LoadPolicyLine, the lines loaded one after the other
     prints  id <TAB> k <TAB> ok|err  per line and  id <TAB> end <TAB> p=.. g=.. r=..          *)
open Common

let cs = Conv.cstr
let os = Conv.ostr

let entry k n = { Csv.e_key = cs k; Csv.e_ntok = Conv.nat_of_int n; Csv.e_rules = [] }

(* the assertions of the harness models; e and m exist in every model and accept anything *)
let defs_of = function
  | "flat" -> [entry "r" 3; entry "p" 3; entry "g" 2; entry "e" 0; entry "m" 0]
  | "dom" -> [entry "r" 4; entry "p" 4; entry "g" 3; entry "e" 0; entry "m" 0]
  | "flat2" -> [entry "r" 3; entry "p" 3; entry "g" 2; entry "g2" 2; entry "e" 0; entry "m" 0]
  | m -> failwith ("unknown model " ^ m)

let requests = function
  | "dom" ->
      Stdlib.List.concat_map (fun s -> Stdlib.List.concat_map (fun d -> Stdlib.List.map (fun o -> [s; d; o; "read"])
        ["data1"; "data2"]) ["d1"; "d2"]) ["alice"; "bob"; "admin"]
  | _ ->
      Stdlib.List.concat_map (fun s -> Stdlib.List.concat_map (fun o -> Stdlib.List.map (fun a -> [s; o; a])
        ["read"; "write"]) ["data1"; "data2"]) ["alice"; "bob"; "admin"]

let rules key st = Stdlib.List.map (Stdlib.List.map os) (Csv.rules_of (cs key) st)

let strs x = Stdlib.List.map cs (Sx.atoms x)

let arg_of x =
  match x with
  | Sx.A "nil" -> Filter.FNil
  | Sx.A "bad" -> Filter.FBad
  | Sx.A "tnil" -> Filter.FPtr None
  | Sx.L [Sx.A "f"; p; g; g2] ->
      Filter.FPtr (Some { Filter.f_p = strs p; f_g = strs g; f_g1 = []; f_g2 = strs g2;
                          f_g3 = []; f_g4 = []; f_g5 = [] })
  | _ -> failwith "bad filter argument"

let op_of x =
  match Sx.list x with
  | [Sx.A "load"; io] -> Filter.OLoad (Sx.atom io = "1")
  | [Sx.A "lf"; incr; io; a] -> Filter.OLoadFiltered (Sx.atom incr = "1", Sx.atom io = "1", arg_of a)
  | [Sx.A "save"] -> Filter.OSave
  | [Sx.A "add"; k; r] -> Filter.OAdd (cs (Sx.atom k), strs r)
  | _ -> failwith "bad op"

let sorted_lines (t : string) =
  Stdlib.String.concat "\n" (Stdlib.List.sort compare (Stdlib.String.split_on_char '\n' t))

let show model id k ok (s : Filter.state) =
  let dom = (model = "dom") in
  let dec = Stdlib.String.concat "" (Stdlib.List.map (fun r ->
    Sx.b2s (Filter.decide dom s (Stdlib.List.map cs r))) (requests model)) in
  let file = os s.Filter.file in
  let file = if model = "flat2" then sorted_lines file else file in
  let g2 = if model = "flat2" then " g2=" ^ Sx.rules_key (rules "g2" s.Filter.mem) else "" in
  Printf.printf "%s\t%d\tok=%s filt=%s p=%s g=%s%s file=%s dec=%s\n" id k (Sx.b2s ok) (Sx.b2s s.Filter.flag)
    (Sx.rules_key (rules "p" s.Filter.mem)) (Sx.rules_key (rules "g" s.Filter.mem)) g2 (Sx.q file) dec

let () =
  Sx.iter_stdin (fun c ->
    match Sx.list c with
    | [id; Sx.A "hist"; model; file; ops] ->
        let id = Sx.atom id and model = Sx.atom model in
        let s = ref (Filter.init (defs_of model) (cs (Sx.atom file))) in
        show model id 0 true !s;
        Stdlib.List.iteri (fun i o ->
          let (s', ok) = Filter.step Filter.Current !s (op_of o) in
          s := s';
          show model id (i + 1) ok s') (Sx.list ops)
    | [id; Sx.A "csv"; model; lines] ->
        let id = Sx.atom id and model = Sx.atom model in
        let st = ref (defs_of model) in
        Stdlib.List.iteri (fun i l ->
          match Csv.load_policy_line (cs l) !st with
          | Csv.Ok st' -> st := st'; Printf.printf "%s\t%d\tok\n" id i
          | Csv.Err -> Printf.printf "%s\t%d\terr\n" id i) (Sx.atoms lines);
        Printf.printf "%s\tend\tp=%s g=%s r=%s\n" id (Sx.rules_key (rules "p" !st))
          (Sx.rules_key (rules "g" !st)) (Sx.rules_key (rules "r" !st))
    | _ -> failwith "bad case")
