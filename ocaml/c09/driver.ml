(* C09 driver: runs the extracted model of util/builtin_operators.go (KeyMatch.v, IpMatch.v) on the
   cases written by harness/c09.go and prints the same observables.

   case forms (first item = id):
     (id paths (p ...))                         defines a path set; no output
     (id km SY (seg ...) STAR (name ...) SET)   SY = plain|colon|brace, seg = (L text)|(P name)
         -> id pat <text> wf=<0|1>   and, when wf, one line per function of that syntax with the
            results over the paths of SET
     (id raw FN a b [c])                        one call
     (id func FN (arg ...))                     arg = (S text) | O ; the govaluate wrapper FN
     (id ip a b)                                IPMatch *)
module Sx = Common.Sx

let ascii_of_char (c : char) : Ascii.ascii =
  let n = Char.code c in
  let b i = (n lsr i) land 1 = 1 in
  Ascii.Ascii (b 0, b 1, b 2, b 3, b 4, b 5, b 6, b 7)

let char_of_ascii (a : Ascii.ascii) : char =
  match a with
  | Ascii.Ascii (b0, b1, b2, b3, b4, b5, b6, b7) ->
      let v b i = if b then 1 lsl i else 0 in
      Char.chr (v b0 0 + v b1 1 + v b2 2 + v b3 3 + v b4 4 + v b5 5 + v b6 6 + v b7 7)

(* OCaml string <-> byte list of the model *)
let cstr (s : string) : Ascii.ascii list =
  let r = ref [] in
  for i = Stdlib.String.length s - 1 downto 0 do
    r := ascii_of_char (Stdlib.String.get s i) :: !r
  done;
  !r

let ostr (l : Ascii.ascii list) : string =
  let b = Buffer.create 16 in
  Stdlib.List.iter (fun a -> Buffer.add_char b (char_of_ascii a)) l;
  Buffer.contents b

let bit = function Some true -> '1' | Some false -> '0' | None -> 'P'
let val_s = function Some v -> Sx.q (ostr v) | None -> "!P"

let path_sets : (string, Ascii.ascii list list) Hashtbl.t = Hashtbl.create 16

let seg_of (x : Sx.t) : KeyMatch.seg =
  match Sx.list x with
  | [k; v] when Sx.atom k = "L" -> KeyMatch.Lit (cstr (Sx.atom v))
  | [k; v] when Sx.atom k = "P" -> KeyMatch.Par (cstr (Sx.atom v))
  | _ -> failwith "bad segment"

let syntax_of = function
  | "plain" -> KeyMatch.SPlain
  | "colon" -> KeyMatch.SColon
  | "brace" -> KeyMatch.SBrace
  | s -> failwith ("bad syntax " ^ s)

let bits (f : Ascii.ascii list -> bool option) (paths : Ascii.ascii list list) : string =
  let b = Buffer.create 64 in
  Stdlib.List.iter (fun p -> Buffer.add_char b (bit (f p))) paths;
  Buffer.contents b

let vals (f : Ascii.ascii list -> Ascii.ascii list option) (paths : Ascii.ascii list list) : string =
  Stdlib.String.concat " " (Stdlib.List.map (fun p -> val_s (f p)) paths)

let run_km id sy segs star names set =
  let p = { KeyMatch.segs = segs; KeyMatch.star = star } in
  let text = KeyMatch.print sy p in
  let wf = KeyMatch.wf_pattern sy p in
  Printf.printf "%s\tpat\t%s wf=%s\n" id (Sx.q (ostr text)) (Sx.b2s wf);
  if wf then begin
    let paths = try Hashtbl.find path_sets set with Not_found -> failwith ("unknown path set " ^ set) in
    match sy with
    | KeyMatch.SPlain ->
        Printf.printf "%s\tkm\t%s\n" id (bits (fun k1 -> Some (KeyMatch.keyMatch k1 text)) paths);
        Printf.printf "%s\tkg\t%s\n" id (vals (fun k1 -> Some (KeyMatch.keyGet k1 text)) paths)
    | KeyMatch.SColon ->
        Printf.printf "%s\tkm2\t%s\n" id (bits (fun k1 -> KeyMatch.keyMatch2 k1 text) paths);
        Stdlib.List.iter (fun n ->
          Printf.printf "%s\tkg2:%s\t%s\n" id (Sx.q n)
            (vals (fun k1 -> KeyMatch.keyGet2 k1 text (cstr n)) paths)) names
    | KeyMatch.SBrace ->
        Printf.printf "%s\tkm3\t%s\n" id (bits (fun k1 -> KeyMatch.keyMatch3 k1 text) paths);
        Printf.printf "%s\tkm4\t%s\n" id (bits (fun k1 -> KeyMatch.keyMatch4 k1 text) paths);
        Printf.printf "%s\tkm5\t%s\n" id (bits (fun k1 -> KeyMatch.keyMatch5 k1 text) paths);
        Stdlib.List.iter (fun n ->
          Printf.printf "%s\tkg3:%s\t%s\n" id (Sx.q n)
            (vals (fun k1 -> KeyMatch.keyGet3 k1 text (cstr n)) paths)) names
  end

let b_s = function Some true -> "1" | Some false -> "0" | None -> "panic"
let v_s = function Some v -> "v:" ^ Sx.q (ostr v) | None -> "panic"

let run_raw id fn args =
  let a i = cstr (Stdlib.List.nth args i) in
  let r =
    match fn with
    | "km" -> b_s (Some (KeyMatch.keyMatch (a 0) (a 1)))
    | "kg" -> v_s (Some (KeyMatch.keyGet (a 0) (a 1)))
    | "km2" -> b_s (KeyMatch.keyMatch2 (a 0) (a 1))
    | "kg2" -> v_s (KeyMatch.keyGet2 (a 0) (a 1) (a 2))
    | "km3" -> b_s (KeyMatch.keyMatch3 (a 0) (a 1))
    | "kg3" -> v_s (KeyMatch.keyGet3 (a 0) (a 1) (a 2))
    | "km4" -> b_s (KeyMatch.keyMatch4 (a 0) (a 1))
    | "km5" -> b_s (KeyMatch.keyMatch5 (a 0) (a 1))
    | "ip" -> b_s (IpMatch.ipMatch (a 0) (a 1))
    | _ -> failwith ("bad function " ^ fn)
  in
  Printf.printf "%s\t%s\t%s\n" id fn r

let arg_of (x : Sx.t) : KeyMatch.arg =
  match x with
  | Sx.A _ -> KeyMatch.AOther
  | Sx.L [k; v] when Sx.atom k = "S" -> KeyMatch.AStr (cstr (Sx.atom v))
  | _ -> failwith "bad arg"

let fb = function
  | KeyMatch.FErr -> "err" | KeyMatch.FPanic -> "panic"
  | KeyMatch.FOk b -> "ok:" ^ Sx.b2s b
let fv = function
  | KeyMatch.FErr -> "err" | KeyMatch.FPanic -> "panic"
  | KeyMatch.FOk v -> "ok:" ^ Sx.q (ostr v)

let run_func id fn args =
  let r =
    match fn with
    | "km" -> fb (KeyMatch.keyMatchFunc args)
    | "kg" -> fv (KeyMatch.keyGetFunc args)
    | "km2" -> fb (KeyMatch.keyMatch2Func args)
    | "kg2" -> fv (KeyMatch.keyGet2Func args)
    | "km3" -> fb (KeyMatch.keyMatch3Func args)
    | "kg3" -> fv (KeyMatch.keyGet3Func args)
    | "km4" -> fb (KeyMatch.keyMatch4Func args)
    | "km5" -> fb (KeyMatch.keyMatch5Func args)
    | "ip" -> fb (IpMatch.ipMatchFunc args)
    | _ -> failwith ("bad function " ^ fn)
  in
  Printf.printf "%s\tfunc:%s\t%s\n" id fn r

let () =
  Sx.iter_stdin (fun c ->
    match Sx.list c with
    | id :: kind :: rest ->
        let id = Sx.atom id in
        begin match Sx.atom kind, rest with
        | "paths", [ps] -> Hashtbl.replace path_sets id (Stdlib.List.map cstr (Sx.atoms ps))
        | "km", [sy; segs; star; names; set] ->
            run_km id (syntax_of (Sx.atom sy)) (Stdlib.List.map seg_of (Sx.list segs))
              (Sx.atom star = "1") (Sx.atoms names) (Sx.atom set)
        | "raw", fn :: args -> run_raw id (Sx.atom fn) (Stdlib.List.map Sx.atom args)
        | "func", [fn; args] -> run_func id (Sx.atom fn) (Stdlib.List.map arg_of (Sx.list args))
        | "ip", [a; b] -> run_raw id "ip" [Sx.atom a; Sx.atom b]
        | k, _ -> failwith ("bad case kind " ^ k)
        end
    | _ -> failwith "bad case")
