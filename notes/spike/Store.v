From Coq Require Import List String Bool Arith Lia.
Import ListNotations.
Open Scope string_scope.

Section S.
Variable rule : Type.
Variable key : rule -> string.
Hypothesis key_inj : forall a b, key a = key b -> a = b.   (* spike: the real guard is comma-freeness *)

Definition imap := list (string * nat).
Fixpoint lookup (k : string) (m : imap) : option nat :=
  match m with [] => None | (k', v) :: t => if String.eqb k k' then Some v else lookup k t end.
Definition set (k : string) (v : nat) (m : imap) : imap := (k, v) :: m.
Definition del (k : string) (m : imap) : imap := filter (fun p => negb (String.eqb k (fst p))) m.

Lemma lookup_set_eq k v m : lookup k (set k v m) = Some v.
Proof. simpl. rewrite String.eqb_refl. reflexivity. Qed.
Lemma lookup_set_neq k k' v m : k' <> k -> lookup k' (set k v m) = lookup k' m.
Proof. intros H. simpl. apply String.eqb_neq in H. rewrite H. reflexivity. Qed.
Lemma lookup_del_eq k m : lookup k (del k m) = None.
Proof. induction m as [|[k' v] t IH]; simpl; [reflexivity|]. destruct (String.eqb k k') eqn:E; simpl; [exact IH|]. rewrite E. exact IH. Qed.
Lemma lookup_del_neq k k' m : k' <> k -> lookup k' (del k m) = lookup k' m.
Proof.
  intros H. induction m as [|[k2 v] t IH]; simpl; [reflexivity|].
  destruct (String.eqb k k2) eqn:E; simpl.
  - apply String.eqb_eq in E. subst k2. apply String.eqb_neq in H. rewrite H. exact IH.
  - rewrite IH. reflexivity.
Qed.

Record store := { pol : list rule; idx : imap }.

Definition Coh (s : store) : Prop :=
  forall r i, nth_error (pol s) i = Some r <-> lookup (key r) (idx s) = Some i.

Definition has (s : store) (r : rule) : bool :=
  match lookup (key r) (idx s) with Some _ => true | None => false end.

(* model.AddPolicy without priority: append + index *)
Definition add (s : store) (r : rule) : store :=
  {| pol := pol s ++ [r]; idx := set (key r) (List.length (pol s)) (idx s) |}.

(* re-index the tail [i, len) as RemovePolicy does *)
Fixpoint reindex (l : list rule) (i : nat) (m : imap) : imap :=
  match l with [] => m | r :: t => reindex t (S i) (set (key r) i m) end.

Definition remove (s : store) (r : rule) : store * bool :=
  match lookup (key r) (idx s) with
  | None => (s, false)
  | Some i =>
      let tail := skipn (S i) (pol s) in
      ({| pol := firstn i (pol s) ++ tail; idx := reindex tail i (del (key r) (idx s)) |}, true)
  end.

Lemma has_iff_In s r : Coh s -> (has s r = true <-> In r (pol s)).
Proof.
  intros C. unfold has. split.
  - destruct (lookup (key r) (idx s)) as [i|] eqn:E; [|discriminate]. intros _.
    apply C in E. eapply nth_error_In; eassumption.
  - intros H. apply In_nth_error in H as [i Hi]. apply C in Hi. rewrite Hi. reflexivity.
Qed.

Lemma Coh_NoDup s : Coh s -> NoDup (pol s).
Proof.
  intros C. apply NoDup_nth_error. intros i j Hi E.
  destruct (nth_error (pol s) i) as [r|] eqn:Ei; [|apply nth_error_None in Ei; lia].
  symmetry in E. apply C in Ei. apply C in E. congruence.
Qed.

Lemma add_Coh s r : Coh s -> has s r = false -> Coh (add s r).
Proof.
  intros C Hn r' i. unfold add; cbn [pol idx].
  destruct (String.eqb (key r') (key r)) eqn:E.
  - apply String.eqb_eq in E. apply key_inj in E. subst r'. rewrite lookup_set_eq. split.
    + intros H. destruct (Nat.lt_ge_cases i (List.length (pol s))) as [L|G].
      * rewrite nth_error_app1 in H by exact L. apply C in H. unfold has in Hn. rewrite H in Hn. discriminate.
      * assert (i = List.length (pol s)); [|congruence].
        assert (i < List.length (pol s ++ [r])) by (apply nth_error_Some; congruence).
        rewrite app_length in *. simpl in *. lia.
    + intros H. inversion H; subst. rewrite nth_error_app2 by lia. rewrite Nat.sub_diag. reflexivity.
  - apply String.eqb_neq in E. rewrite lookup_set_neq by exact E. rewrite <- (C r' i). split.
    + intros H. destruct (Nat.lt_ge_cases i (List.length (pol s))) as [L|G].
      * rewrite nth_error_app1 in H by exact L. exact H.
      * rewrite nth_error_app2 in H by exact G. destruct (i - List.length (pol s)) as [|n]; simpl in H.
        -- inversion H; subst. congruence.
        -- destruct n; discriminate.
    + intros H. rewrite nth_error_app1; [exact H|]. apply nth_error_Some. congruence.
Qed.

(* characterisation of reindex *)
Lemma lookup_reindex l : forall i m k,
  NoDup (map key l) ->
  lookup k (reindex l i m) =
    match find (fun p => String.eqb k (key (snd p))) (combine (seq i (List.length l)) l) with
    | Some (j, _) => Some j
    | None => lookup k m
    end.
Proof.
  induction l as [|r t IH]; intros i m k ND; simpl; [reflexivity|].
  inversion ND as [|? ? Hnin ND']; subst. rewrite IH by exact ND'.
  destruct (String.eqb k (key r)) eqn:E.
  - apply String.eqb_eq in E. subst k.
    destruct (find _ _) as [[j r']|] eqn:F.
    + exfalso. apply find_some in F as [Hin Hk]. simpl in Hk. apply String.eqb_eq in Hk.
      apply in_combine_r in Hin. apply Hnin. rewrite Hk. apply in_map. exact Hin.
    + apply lookup_set_eq.
  - destruct (find _ _) as [[j r']|]; [reflexivity|]. apply lookup_set_neq. apply String.eqb_neq. exact E.
Qed.
End S.
