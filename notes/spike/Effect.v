From Coq Require Import List Bool Arith Lia.
Import ListNotations.

Inductive eft := Allow | Indet | Deny.
Inductive effect := AllowOverride | DenyOverride | AllowAndDeny | Priority.

Definition eft_eqb (a b : eft) : bool :=
  match a, b with Allow, Allow | Indet, Indet | Deny, Deny => true | _, _ => false end.

(* arrays as Go sees them at step i: filled prefix, zero-valued rest *)
Definition entry := (bool * eft)%type.            (* (matched, effect) *)
Definition zero : entry := (false, Allow).

Definition arr (v : list entry) (i n : nat) : list entry :=
  firstn (S i) v ++ repeat zero (n - S i).

Fixpoint first_allow (a : list entry) (k : nat) : option nat :=
  match a with
  | [] => None
  | (m, e) :: t => if m && eft_eqb e Allow then Some k else first_allow t (S k)
  end.

(* reverse scan: last index (from the end) that is matched and determinate *)
Fixpoint last_det (a : list entry) (k : nat) : option (nat * eft) :=
  match a with
  | [] => None
  | (m, e) :: t =>
      match last_det t (S k) with
      | Some r => Some r
      | None => if m && negb (eft_eqb e Indet) then Some (k, e) else None
      end
  end.

Definition merge (ef : effect) (a : list entry) (i n : nat) : eft * option nat :=
  let '(m, e) := nth i a zero in
  match ef with
  | AllowOverride =>
      if m && eft_eqb e Allow then (Allow, Some i) else (Indet, None)
  | DenyOverride =>
      if m && eft_eqb e Deny then (Deny, Some i)
      else if Nat.eqb i (n - 1) then (Allow, None) else (Indet, None)
  | AllowAndDeny =>
      if m && eft_eqb e Deny then (Deny, Some i)
      else if Nat.ltb i (n - 1) then (Indet, None)
      else match first_allow a 0 with Some j => (Allow, Some j) | None => (Indet, None) end
  | Priority =>
      match last_det a 0 with
      | Some (j, e') => ((if eft_eqb e' Allow then Allow else Deny), Some j)
      | None => (Indet, None)
      end
  end.

(* the enforce loop: for i := 0..n-1 { merge; if eff != Indet break }  *)
Fixpoint loop (ef : effect) (v : list entry) (n : nat) (fuel i : nat) : eft * option nat :=
  match fuel with
  | 0 => (Indet, None)
  | S fuel' =>
      let r := merge ef (arr v i n) i n in
      match fst r with
      | Indet => if Nat.eqb (S i) n then r else loop ef v n fuel' (S i)
      | _ => r
      end
  end.

Definition stream (ef : effect) (v : list entry) : bool :=
  match fst (loop ef v (length v) (length v) 0) with Allow => true | _ => false end.

(* spec *)
Definition some_allow v := existsb (fun x : entry => fst x && eft_eqb (snd x) Allow) v.
Definition some_deny v := existsb (fun x : entry => fst x && eft_eqb (snd x) Deny) v.
Fixpoint first_det (v : list entry) : bool :=
  match v with
  | [] => false
  | (m, e) :: t => if m && negb (eft_eqb e Indet) then eft_eqb e Allow else first_det t
  end.
Definition combine (ef : effect) (v : list entry) : bool :=
  match ef with
  | AllowOverride => some_allow v
  | DenyOverride => negb (some_deny v)
  | AllowAndDeny => some_allow v && negb (some_deny v)
  | Priority => first_det v
  end.

(* sanity: exhaustive n<=4 by computation (a test, not the theorem) *)
Fixpoint vecs (n : nat) : list (list entry) :=
  match n with
  | 0 => [[]]
  | S k => flat_map (fun t => map (fun h => h :: t)
             [(true,Allow);(true,Indet);(true,Deny);(false,Allow);(false,Indet);(false,Deny)]) (vecs k)
  end.
Definition test n := forallb (fun ef => forallb (fun v => Bool.eqb (stream ef v) (combine ef v)) (vecs n))
  [AllowOverride; DenyOverride; AllowAndDeny; Priority].
Eval vm_compute in (test 1, test 2, test 3, test 4).
