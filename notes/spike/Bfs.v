From Coq Require Import List String Bool Arith Lia.
Import ListNotations.
Open Scope string_scope.

Definition link := (string * string)%type.

Section G.
Variable links : list link.

Definition succs (x : string) : list string :=
  map snd (filter (fun l => String.eqb (fst l) x) links).

Definition mem (x : string) (l : list string) : bool := existsb (String.eqb x) l.

(* hasLinkHelper(target, roles, level): level counts down from maxLevel to 0, `level < 0` stops;
   fuel = level + 1 *)
Fixpoint bfs (fuel : nat) (target : string) (frontier : list string) : bool :=
  match fuel with
  | 0 => false
  | S f =>
      match frontier with
      | [] => false
      | _ => if mem target frontier then true
             else bfs f target (flat_map succs frontier)
      end
  end.

Inductive walk : string -> string -> nat -> Prop :=
| walk0 x : walk x x 0
| walkS x y z k : In (x, y) links -> walk y z k -> walk x z (S k).

Lemma mem_In x l : mem x l = true <-> In x l.
Proof.
  unfold mem. rewrite existsb_exists. split.
  - intros [y [Hy E]]. apply String.eqb_eq in E. subst. exact Hy.
  - intros H. exists x. split; [exact H|apply String.eqb_refl].
Qed.

Lemma succs_In x y : In y (succs x) <-> In (x, y) links.
Proof.
  unfold succs. rewrite in_map_iff. split.
  - intros [[a b] [E H]]. apply filter_In in H as [H Ha]. simpl in *.
    apply String.eqb_eq in Ha. subst. exact H.
  - intros H. exists (x, y). split; [reflexivity|]. apply filter_In. split; [exact H|].
    simpl. apply String.eqb_refl.
Qed.

(* frontier after k expansions = endpoints of k-step walks from the start set *)
Lemma bfs_sound fuel t fr :
  bfs fuel t fr = true -> exists u k, In u fr /\ k < fuel /\ walk u t k.
Proof.
  revert fr. induction fuel as [|f IH]; intros fr H; simpl in H; [discriminate|].
  destruct fr as [|a fr']; [discriminate|].
  destruct (mem t (a :: fr')) eqn:M.
  - apply mem_In in M. exists t, 0. repeat split; [exact M|lia|constructor].
  - apply IH in H as [v [k [Hv [Hk W]]]].
    apply in_flat_map in Hv as [u [Hu Hs]]. apply succs_In in Hs.
    exists u, (S k). repeat split; [exact Hu|lia|]. econstructor; eassumption.
Qed.

Lemma bfs_complete fuel t fr u k :
  In u fr -> k < fuel -> walk u t k -> bfs fuel t fr = true.
Proof.
  revert fr u k. induction fuel as [|f IH]; intros fr u k Hu Hk W; [lia|].
  simpl. destruct fr as [|a fr']; [contradiction|].
  destruct (mem t (a :: fr')) eqn:M; [reflexivity|].
  inversion W as [x|x y z k' Hl W']; subst.
  - apply mem_In in Hu. congruence.
  - apply (IH _ y k'); [|lia|exact W'].
    apply in_flat_map. exists u. split; [exact Hu|apply succs_In; exact Hl].
Qed.

Theorem has_link_iff_walk n u t :
  bfs (S n) t [u] = true <-> exists k, k <= n /\ walk u t k.
Proof.
  split.
  - intros H. apply bfs_sound in H as [v [k [[Hv|[]] [Hk W]]]]. subst. exists k. split; [lia|exact W].
  - intros [k [Hk W]]. apply (bfs_complete _ _ _ u k); [left; reflexivity|lia|exact W].
Qed.
End G.
Print Assumptions has_link_iff_walk.

(* non-vacuity: chain a->b->c, level budget 1 reaches b not c; budget 2 reaches c *)
Example chain : bfs [("a","b");("b","c")] 2 "c" ["a"] = false /\ bfs [("a","b");("b","c")] 3 "c" ["a"] = true.
Proof. split; reflexivity. Qed.
