From Coq Require Import List Bool Arith Lia.
Import ListNotations.
Require Import Effect.

Lemma nth_arr v i n : i < length v -> nth i (arr v i n) zero = nth i v zero.
Proof.
  intros Hi. unfold arr. rewrite app_nth1.
  - revert i Hi. induction v as [|x v IH]; intros i Hi; simpl in *; [lia|].
    destruct i; simpl; [reflexivity|]. apply IH. lia.
  - rewrite firstn_length. lia.
Qed.

Lemma arr_last v : v <> [] -> arr v (length v - 1) (length v) = v.
Proof.
  intros Hv. unfold arr. destruct v as [|x v]; [congruence|].
  replace (S (length (x :: v) - 1)) with (length (x :: v)) by (simpl; lia).
  rewrite firstn_all, Nat.sub_diag. cbn [repeat]. apply app_nil_r.
Qed.

Definition det (x : entry) : bool := fst x && negb (eft_eqb (snd x) Indet).

(* ---------- allow override ---------- *)
Lemma loop_allow v n fuel i :
  n = length v -> i < n -> n - i <= fuel ->
  fst (loop AllowOverride v n fuel i) = if some_allow (skipn i v) then Allow else Indet.
Proof.
  intros Hn. revert i. induction fuel as [|f IH]; intros i Hi Hf; [lia|].
  cbn [loop]. unfold merge. rewrite nth_arr by lia.
  assert (Hs : skipn i v = nth i v zero :: skipn (S i) v).
  { subst n. clear - Hi. revert i Hi. induction v as [|x v IH]; intros i Hi; simpl in *; [lia|].
    destruct i; [reflexivity|]. simpl. apply IH. lia. }
  rewrite Hs. unfold some_allow. cbn [existsb]. fold (some_allow (skipn (S i) v)).
  destruct (nth i v zero) as [m e]. cbn [fst snd].
  destruct (m && eft_eqb e Allow) eqn:E; cbn [fst orb]; [reflexivity|].
  destruct (Nat.eqb (S i) n) eqn:En.
  - apply Nat.eqb_eq in En. rewrite skipn_all2 by lia. reflexivity.
  - apply Nat.eqb_neq in En. rewrite IH by lia. reflexivity.
Qed.

Theorem stream_allow v : v <> [] -> stream AllowOverride v = combine AllowOverride v.
Proof.
  intros Hv. unfold stream, combine.
  assert (Hl : 0 < length v) by (destruct v; simpl; [congruence|lia]).
  rewrite (loop_allow v (length v) (length v) 0); [|reflexivity|lia|lia].
  cbn [skipn]. destruct (some_allow v); reflexivity.
Qed.
Print Assumptions stream_allow.
