From Coq Require Import List String Ascii Bool Arith Lia.
Import ListNotations.
Open Scope string_scope.

Definition comma : ascii := ","%char.

Fixpoint join (l : list string) : string :=
  match l with
  | [] => ""
  | [x] => x
  | x :: xs => x ++ String comma (join xs)
  end.

Fixpoint has_comma (s : string) : bool :=
  match s with
  | EmptyString => false
  | String c t => Ascii.eqb c comma || has_comma t
  end.

(* split at every comma: always returns a non-empty list *)
Fixpoint split (s : string) : list string :=
  match s with
  | EmptyString => [""]
  | String c t =>
      if Ascii.eqb c comma then "" :: split t
      else match split t with
           | [] => [String c ""]
           | h :: r => String c h :: r
           end
  end.

Lemma split_nonempty s : split s <> [].
Proof. induction s as [|c t IH]; simpl; [discriminate|]. destruct (Ascii.eqb c comma); [discriminate|]. destruct (split t); discriminate. Qed.

Lemma split_app_comma f rest :
  has_comma f = false -> split (f ++ String comma rest) = f :: split rest.
Proof.
  induction f as [|c t IH]; intros H; simpl in *.
  - reflexivity.
  - apply orb_false_iff in H as [Hc Ht]. rewrite Hc, (IH Ht). reflexivity.
Qed.

Lemma split_field f : has_comma f = false -> split f = [f].
Proof.
  induction f as [|c t IH]; intros H; simpl in *; [reflexivity|].
  apply orb_false_iff in H as [Hc Ht]. rewrite Hc, (IH Ht). reflexivity.
Qed.

Lemma split_join l : l <> [] -> forallb (fun f => negb (has_comma f)) l = true -> split (join l) = l.
Proof.
  induction l as [|x xs IH]; intros Hne Hall; [congruence|].
  simpl in Hall. apply andb_true_iff in Hall as [Hx Hxs]. apply negb_true_iff in Hx.
  destruct xs as [|y ys].
  - simpl. apply split_field; assumption.
  - change (join (x :: y :: ys)) with (x ++ String comma (join (y :: ys))).
    rewrite split_app_comma by assumption. rewrite IH; [reflexivity|discriminate|assumption].
Qed.

Theorem join_injective l1 l2 :
  l1 <> [] -> l2 <> [] ->
  forallb (fun f => negb (has_comma f)) l1 = true ->
  forallb (fun f => negb (has_comma f)) l2 = true ->
  join l1 = join l2 -> l1 = l2.
Proof.
  intros N1 N2 C1 C2 E. rewrite <- (split_join l1 N1 C1), <- (split_join l2 N2 C2), E. reflexivity.
Qed.

Example collision : join ["a,b"; "c"] = join ["a"; "b,c"] /\ ["a,b"; "c"] <> ["a"; "b,c"].
Proof. split; [reflexivity|discriminate]. Qed.
Print Assumptions join_injective.
