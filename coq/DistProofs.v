(* DistProofs.v — the DistributedEnforcer *Self operations (Dist.v): every call is "at most one
   adapter call, then a function of memory alone"; hence the adapter is touched only when asked,
   replicas with different persist predicates agree, the machine invariant of C05 is kept, the
   reported lists are exactly the rules added / removed, and a replayed call is a no-op. *)
From Coq Require Import List String Bool Arith Lia Permutation.
Import ListNotations.
From Casbin Require Import Base BaseProofs Store StoreProofs Roles RolesProofs Machine MachineProofs Dist.
From Casbin Require Import PriorityProofs.

(* ================= 1. every call = one optional adapter call + a memory function ================= *)

(* the adapter call a persisting replica makes (None: the call fails before reaching the adapter) *)
Definition self_call (cfg : mconf) (s : mstate) (op : dop) : option acall :=
  match op with
  | DAdd pt rs =>
      match def_of cfg pt, rs with
      | None, _ :: _ => None
      | _, _ => Some (AAddMany pt (filter (fun r => negb (has (get_store s pt) r)) rs))
      end
  | DRemove pt rs => Some (ARemoveMany pt rs)
  | DRemoveFiltered pt fi fvs => Some (ARemoveFiltered pt fi fvs)
  | DClear => Some (ASave [])
  | DUpdate pt o n => Some (AUpdate pt o n)
  | DUpdateMany pt os ns => Some (AUpdateMany pt os ns)
  | DUpdateFiltered pt ns fi fvs => Some (AUpdateFiltered pt ns fi fvs)
  end.

(* what is returned when that adapter call fails *)
Definition self_fail (op : dop) : dres :=
  match op with
  | DAdd _ _ | DRemove _ _ | DRemoveFiltered _ _ _ => DRules [] true
  | DClear => DUnit true
  | DUpdate _ _ _ | DUpdateMany _ _ _ | DUpdateFiltered _ _ _ _ => DFlag false true
  end.

(* the rest of the call; `old` = the rules the adapter returned (UpdateFilteredPoliciesSelf only) *)
Definition self_mem (cfg : mconf) (s : mstate) (op : dop) (old : list rule) : mstate * dres :=
  match op with
  | DAdd pt rs => match def_of cfg pt with None => (s, DRules [] true) | Some d => add_mem d s pt rs end
  | DRemove pt rs => match def_of cfg pt with None => (s, DRules [] true) | Some d => remove_mem d s pt rs end
  | DRemoveFiltered pt fi fvs =>
      match def_of cfg pt with None => (s, DRules [] true) | Some d => remove_filtered_mem d s pt fi fvs end
  | DClear => (fst (clear_policy cfg s), DUnit false)
  | DUpdate pt o n => match def_of cfg pt with None => (s, DFlag false true) | Some d => update_mem d s pt o n end
  | DUpdateMany pt os ns =>
      match def_of cfg pt with None => (s, DFlag false true) | Some d => update_many_mem d s pt os ns end
  | DUpdateFiltered pt ns fi fvs =>
      match def_of cfg pt with None => (s, DFlag false true) | Some d => update_filtered_mem d s pt old ns end
  end.

Theorem dstep_factor cfg s op p :
  dstep cfg s op p =
  match (if p then self_call cfg s op else None) with
  | None => self_mem cfg s op []
  | Some c => let '(a, ok, old) := adapter_call (ad s) c in
              if ok then self_mem cfg (with_ad s a) op old else (with_ad s a, self_fail op)
  end.
Proof.
  destruct op as [pt rs|pt rs|pt fi fvs| |pt o n|pt os ns|pt ns fi fvs];
    cbn [dstep self_call self_mem self_fail];
    unfold add_policies_self, remove_policies_self, remove_filtered_policy_self, clear_policy_self,
      update_policy_self, update_policies_self, update_filtered_policies_self, dpersist.
  - destruct (def_of cfg pt) as [d|].
    + destruct p; [|reflexivity].
      destruct (adapter_call (ad s) _) as [[a ok] old]. destruct ok; reflexivity.
    + destruct rs as [|r t]; [|destruct p; reflexivity]. destruct p; [|reflexivity].
      cbn [filter]. destruct (adapter_call (ad s) (AAddMany pt [])) as [[a ok] old]. destruct ok; reflexivity.
  - destruct p; [|cbn [negb]; destruct (def_of cfg pt); reflexivity].
    destruct (adapter_call (ad s) _) as [[a ok] old]. destruct ok; cbn [negb]; [|reflexivity]. destruct (def_of cfg pt); reflexivity.
  - destruct p; [|cbn [negb]; destruct (def_of cfg pt); reflexivity].
    destruct (adapter_call (ad s) _) as [[a ok] old]. destruct ok; cbn [negb]; [|reflexivity]. destruct (def_of cfg pt); reflexivity.
  - destruct p; [|reflexivity].
    destruct (adapter_call (ad s) _) as [[a ok] old]. destruct ok; reflexivity.
  - destruct p; [|cbn [negb]; destruct (def_of cfg pt); reflexivity].
    destruct (adapter_call (ad s) _) as [[a ok] old]. destruct ok; cbn [negb]; [|reflexivity]. destruct (def_of cfg pt); reflexivity.
  - destruct p; [|cbn [negb]; destruct (def_of cfg pt); reflexivity].
    destruct (adapter_call (ad s) _) as [[a ok] old]. destruct ok; cbn [negb]; [|reflexivity]. destruct (def_of cfg pt); reflexivity.
  - destruct p; [|cbn [negb]; destruct (def_of cfg pt); reflexivity].
    destruct (adapter_call (ad s) _) as [[a ok] old]. destruct ok; cbn [negb]; [|reflexivity]. destruct (def_of cfg pt); reflexivity.
Qed.

(* ================= 2. the memory functions leave the adapter alone ================= *)
Lemma links_update_ad d s pt b rs : ad (fst (links_update d s pt b rs)) = ad s.
Proof. unfold links_update. destruct (build_incremental _ _ _ _). reflexivity. Qed.

Lemma add_mem_ad d s pt rs : ad (fst (add_mem d s pt rs)) = ad s.
Proof.
  unfold add_mem. destruct (add_many _ _ _) as [st' aff]. destruct (a_is_g d); [|reflexivity].
  pose proof (links_update_ad d (with_store s pt st') pt true aff) as H.
  destruct (links_update _ _ _ _ _) as [s3 lok]. exact H.
Qed.
Lemma remove_mem_ad d s pt rs : ad (fst (remove_mem d s pt rs)) = ad s.
Proof.
  unfold remove_mem. destruct (remove_many _ _) as [st' aff]. destruct (a_is_g d); [|reflexivity].
  pose proof (links_update_ad d (with_store s pt st') pt false aff) as H.
  destruct (links_update _ _ _ _ _) as [s3 lok]. exact H.
Qed.
Lemma remove_filtered_mem_ad d s pt fi fvs : ad (fst (remove_filtered_mem d s pt fi fvs)) = ad s.
Proof.
  unfold remove_filtered_mem. destruct (remove_filtered _ _ _) as [[[st' b] eff]|]; [|reflexivity].
  destruct (a_is_g d); [|reflexivity].
  pose proof (links_update_ad d (with_store s pt st') pt false eff) as H.
  destruct (links_update _ _ _ _ _) as [s3 lok]. exact H.
Qed.
Lemma two_links_ad d s pt R A :
  ad (fst (let '(s3, lok1) := links_update d s pt false R in
           if negb lok1 then (s3, DFlag true true)
           else let '(s4, lok2) := links_update d s3 pt true A in (s4, DFlag true (negb lok2)))) = ad s.
Proof.
  pose proof (links_update_ad d s pt false R) as H1.
  destruct (links_update d s pt false R) as [s3 lok1]. cbn [fst] in H1. destruct lok1; cbn [negb]; [|exact H1].
  pose proof (links_update_ad d s3 pt true A) as H2.
  destruct (links_update d s3 pt true A) as [s4 lok2]. cbn [fst] in *. congruence.
Qed.
Lemma update_mem_ad d s pt o n : ad (fst (update_mem d s pt o n)) = ad s.
Proof.
  unfold update_mem. destruct (update _ _ _) as [st' u]. destruct u; cbn [negb]; [|reflexivity].
  destruct (a_is_g d); [|reflexivity]. apply (two_links_ad d (with_store s pt st') pt [o] [n]).
Qed.
Lemma update_many_mem_ad d s pt os ns : ad (fst (update_many_mem d s pt os ns)) = ad s.
Proof.
  unfold update_many_mem. destruct (update_many _ _ _) as [st' u]. destruct u; cbn [negb]; [|reflexivity].
  destruct (Nat.ltb _ _); [reflexivity|].
  destruct (a_is_g d); [|reflexivity]. apply (two_links_ad d (with_store s pt st') pt os ns).
Qed.
Lemma update_filtered_mem_ad d s pt old ns : ad (fst (update_filtered_mem d s pt old ns)) = ad s.
Proof.
  unfold update_filtered_mem. destruct (remove_many _ _) as [st1 aff]. destruct (add_many _ _ _) as [st2 x].
  destruct (negb _); [reflexivity|].
  destruct (a_is_g d); [|reflexivity]. apply (two_links_ad d (with_store s pt st2) pt old ns).
Qed.

Lemma self_mem_ad cfg s op old : ad (fst (self_mem cfg s op old)) = ad s.
Proof.
  destruct op as [pt rs|pt rs|pt fi fvs| |pt o n|pt os ns|pt ns fi fvs]; cbn [self_mem];
    try (destruct (def_of cfg pt) as [d|]; [|reflexivity]).
  - apply add_mem_ad.
  - apply remove_mem_ad.
  - apply remove_filtered_mem_ad.
  - reflexivity.
  - apply update_mem_ad.
  - apply update_many_mem_ad.
  - apply update_filtered_mem_ad.
Qed.

(* ================= 3. persist_only_if_asked ================= *)
(* persist = false: the adapter (stored content, call log, pending failure) is untouched *)
Theorem not_asked_adapter_untouched cfg s op : ad (fst (dstep cfg s op false)) = ad s.
Proof. rewrite dstep_factor. apply self_mem_ad. Qed.

(* persist = true: exactly the documented call reaches the adapter — one call, computed from the
   state BEFORE the call *)
Theorem asked_exactly_one_call cfg s op :
  ad (fst (dstep cfg s op true)) =
  match self_call cfg s op with
  | None => ad s
  | Some c => fst (fst (adapter_call (ad s) c))
  end.
Proof.
  rewrite dstep_factor. destruct (self_call cfg s op) as [c|]; [|apply self_mem_ad].
  destruct (adapter_call (ad s) c) as [[a ok] old]. destruct ok; [|reflexivity].
  rewrite self_mem_ad. reflexivity.
Qed.

Lemma adapter_call_log a c : alog (fst (fst (adapter_call a c))) = alog a ++ [c].
Proof.
  unfold adapter_call. destruct (fail_in a) as [[|k]|]; [reflexivity| |];
    destruct (content_after c (content a)); reflexivity.
Qed.

Theorem asked_call_log cfg s op :
  alog (ad (fst (dstep cfg s op true))) =
  alog (ad s) ++ match self_call cfg s op with Some c => [c] | None => [] end.
Proof.
  rewrite asked_exactly_one_call. destruct (self_call cfg s op); [apply adapter_call_log|rewrite app_nil_r; reflexivity].
Qed.

(* ... and it is made before memory changes: when it fails, memory is exactly as before and
   the call reports the error *)
Theorem failed_persist_memory_unchanged cfg s op c :
  self_call cfg s op = Some c -> snd (fst (adapter_call (ad s) c)) = false ->
  same_mem s (fst (dstep cfg s op true)) /\ snd (dstep cfg s op true) = self_fail op.
Proof.
  intros Hc Hf. rewrite dstep_factor, Hc. destruct (adapter_call (ad s) c) as [[a ok] old].
  cbn [fst snd] in Hf. subst ok. cbn [fst snd]. split; [split; reflexivity|reflexivity].
Qed.

(* the adapter call succeeds unless a failure is pending *)
Definition call_ok (s : mstate) (p : bool) : Prop := p = true -> fail_in (ad s) <> Some 0.

Lemma adapter_call_ok a c : fail_in a <> Some 0 -> snd (fst (adapter_call a c)) = true.
Proof.
  unfold adapter_call. destruct (fail_in a) as [[|k]|]; [congruence| |];
    destruct (content_after c (content a)); reflexivity.
Qed.

(* a call whose persist step does not fail is a memory function applied to the same memory *)
Lemma dstep_mem cfg s op p : call_ok s p ->
  exists s1 old, same_mem s s1 /\ dstep cfg s op p = self_mem cfg s1 op old /\
    (forall pt ns fi fvs, op = DUpdateFiltered pt ns fi fvs -> p = false -> old = []).
Proof.
  intros Hok. rewrite dstep_factor. destruct p.
  - destruct (self_call cfg s op) as [c|].
    + pose proof (adapter_call_ok (ad s) c (Hok eq_refl)) as H.
      destruct (adapter_call (ad s) c) as [[a ok] old]. cbn [fst snd] in H. subst ok.
      exists (with_ad s a), old. split; [split; reflexivity|]. split; [reflexivity|]. intros; discriminate.
    + exists s, []. split; [apply same_mem_refl|]. split; [reflexivity|]. reflexivity.
  - exists s, []. split; [apply same_mem_refl|]. split; [reflexivity|]. reflexivity.
Qed.

(* ================= 4. the memory functions depend on memory alone ================= *)
Lemma with_store_cong s1 s2 pt st : same_mem s1 s2 -> same_mem (with_store s1 pt st) (with_store s2 pt st).
Proof.
  intros [S L]. split; intros pt'.
  - rewrite !get_store_with_store. destruct (String.eqb pt' pt); [reflexivity|apply S].
  - rewrite !get_links_with_store. apply L.
Qed.

Lemma links_update_cong d s1 s2 pt b rs : same_mem s1 s2 ->
  same_mem (fst (links_update d s1 pt b rs)) (fst (links_update d s2 pt b rs)) /\
  snd (links_update d s1 pt b rs) = snd (links_update d s2 pt b rs).
Proof.
  intros [S L]. destruct (links_update_mem d s1 pt b rs) as [[S1 L1] R1].
  destruct (links_update_mem d s2 pt b rs) as [[S2 L2] R2]. rewrite R1, R2, (L pt). split; [|reflexivity].
  split; intros pt'.
  - rewrite S1, S2, !S. reflexivity.
  - rewrite L1, L2, !L. reflexivity.
Qed.

Definition res_cong (f g : mstate * dres) : Prop := same_mem (fst f) (fst g) /\ snd f = snd g.

Lemma two_links_cong d s1 s2 pt R A : same_mem s1 s2 ->
  res_cong
    (let '(s3, lok1) := links_update d s1 pt false R in
     if negb lok1 then (s3, DFlag true true)
     else let '(s4, lok2) := links_update d s3 pt true A in (s4, DFlag true (negb lok2)))
    (let '(s3, lok1) := links_update d s2 pt false R in
     if negb lok1 then (s3, DFlag true true)
     else let '(s4, lok2) := links_update d s3 pt true A in (s4, DFlag true (negb lok2))).
Proof.
  intros H. destruct (links_update_cong d s1 s2 pt false R H) as [H3 E3].
  destruct (links_update d s1 pt false R) as [s3 lok1]. destruct (links_update d s2 pt false R) as [s3' lok1'].
  cbn [fst snd] in *. subst lok1'. destruct lok1; cbn [negb]; [|split; [exact H3|reflexivity]].
  destruct (links_update_cong d s3 s3' pt true A H3) as [H4 E4].
  destruct (links_update d s3 pt true A) as [s4 lok2]. destruct (links_update d s3' pt true A) as [s4' lok2'].
  cbn [fst snd] in *. subst lok2'. split; [exact H4|reflexivity].
Qed.

Lemma one_link_cong d s1 s2 pt b rs (k : bool -> dres) : same_mem s1 s2 ->
  res_cong (let '(s3, lok) := links_update d s1 pt b rs in (s3, k lok))
           (let '(s3, lok) := links_update d s2 pt b rs in (s3, k lok)).
Proof.
  intros H. destruct (links_update_cong d s1 s2 pt b rs H) as [H3 E3].
  destruct (links_update d s1 pt b rs) as [s3 lok]. destruct (links_update d s2 pt b rs) as [s3' lok'].
  cbn [fst snd] in *. subst lok'. split; [exact H3|reflexivity].
Qed.

Lemma add_mem_cong d s1 s2 pt rs : same_mem s1 s2 -> res_cong (add_mem d s1 pt rs) (add_mem d s2 pt rs).
Proof.
  intros H. unfold add_mem. rewrite (proj1 H pt). destruct (add_many _ _ _) as [st' aff].
  destruct (a_is_g d).
  - apply (one_link_cong d _ _ pt true aff (fun lok => DRules aff (negb lok))). apply with_store_cong, H.
  - split; [apply with_store_cong, H|reflexivity].
Qed.
Lemma remove_mem_cong d s1 s2 pt rs : same_mem s1 s2 -> res_cong (remove_mem d s1 pt rs) (remove_mem d s2 pt rs).
Proof.
  intros H. unfold remove_mem. rewrite (proj1 H pt). destruct (remove_many _ _) as [st' aff].
  destruct (a_is_g d).
  - apply (one_link_cong d _ _ pt false aff (fun lok => DRules aff (negb lok))). apply with_store_cong, H.
  - split; [apply with_store_cong, H|reflexivity].
Qed.
Lemma remove_filtered_mem_cong d s1 s2 pt fi fvs : same_mem s1 s2 ->
  res_cong (remove_filtered_mem d s1 pt fi fvs) (remove_filtered_mem d s2 pt fi fvs).
Proof.
  intros H. unfold remove_filtered_mem. rewrite (proj1 H pt).
  destruct (remove_filtered _ _ _) as [[[st' b] eff]|]; [|split; [exact H|reflexivity]].
  destruct (a_is_g d).
  - apply (one_link_cong d _ _ pt false eff (fun lok => DRules eff (negb lok))). apply with_store_cong, H.
  - split; [apply with_store_cong, H|reflexivity].
Qed.
Lemma update_mem_cong d s1 s2 pt o n : same_mem s1 s2 -> res_cong (update_mem d s1 pt o n) (update_mem d s2 pt o n).
Proof.
  intros H. unfold update_mem. rewrite (proj1 H pt). destruct (update _ _ _) as [st' u].
  destruct u; cbn [negb]; [|split; [exact H|reflexivity]].
  destruct (a_is_g d).
  - apply two_links_cong. apply with_store_cong, H.
  - split; [apply with_store_cong, H|reflexivity].
Qed.
Lemma update_many_mem_cong d s1 s2 pt os ns : same_mem s1 s2 ->
  res_cong (update_many_mem d s1 pt os ns) (update_many_mem d s2 pt os ns).
Proof.
  intros H. unfold update_many_mem. rewrite (proj1 H pt). destruct (update_many _ _ _) as [st' u].
  destruct u; cbn [negb]; [|split; [apply with_store_cong, H|reflexivity]].
  destruct (Nat.ltb _ _); [split; [apply with_store_cong, H|reflexivity]|].
  destruct (a_is_g d).
  - apply two_links_cong. apply with_store_cong, H.
  - split; [apply with_store_cong, H|reflexivity].
Qed.
Lemma update_filtered_mem_cong d s1 s2 pt old ns : same_mem s1 s2 ->
  res_cong (update_filtered_mem d s1 pt old ns) (update_filtered_mem d s2 pt old ns).
Proof.
  intros H. unfold update_filtered_mem. rewrite (proj1 H pt). destruct (remove_many _ _) as [st1 aff].
  destruct (add_many _ _ _) as [st2 x].
  destruct (negb _); [split; [apply with_store_cong, H|reflexivity]|].
  destruct (a_is_g d).
  - apply two_links_cong. apply with_store_cong, H.
  - split; [apply with_store_cong, H|reflexivity].
Qed.

Lemma clear_policy_cong cfg s1 s2 : same_mem (fst (clear_policy cfg s1)) (fst (clear_policy cfg s2)).
Proof.
  assert (L : forall pt (m : list (string * list link)),
             match lookup pt (map (fun e => (fst e, @nil link)) m) with Some l => l | None => [] end = []).
  { intros pt m. induction m as [|[k v] t IH]; cbn [map lookup fst]; [reflexivity|]. destruct (String.eqb pt k); [reflexivity|exact IH]. }
  unfold clear_policy. cbn [fst]. split; intros pt.
  - reflexivity.
  - unfold get_links. cbn [rlinks]. rewrite !L. reflexivity.
Qed.

Theorem self_mem_cong cfg s1 s2 op old : same_mem s1 s2 ->
  res_cong (self_mem cfg s1 op old) (self_mem cfg s2 op old).
Proof.
  intros H. destruct op as [pt rs|pt rs|pt fi fvs| |pt o n|pt os ns|pt ns fi fvs]; cbn [self_mem];
    try (destruct (def_of cfg pt) as [d|]; [|split; [exact H|reflexivity]]).
  - apply add_mem_cong, H.
  - apply remove_mem_cong, H.
  - apply remove_filtered_mem_cong, H.
  - split; [apply clear_policy_cong|reflexivity].
  - apply update_mem_cong, H.
  - apply update_many_mem_cong, H.
  - apply update_filtered_mem_cong, H.
Qed.

(* ================= 5. replicas_agree ================= *)
Definition not_filtered (op : dop) : Prop :=
  match op with DUpdateFiltered _ _ _ _ => False | _ => True end.

Lemma self_mem_old cfg s op old old' : not_filtered op -> self_mem cfg s op old = self_mem cfg s op old'.
Proof. destruct op; cbn [not_filtered self_mem]; intros H; [reflexivity..|contradiction]. Qed.

Lemma same_mem_sym a b : same_mem a b -> same_mem b a.
Proof. intros [S L]. split; intros pt; [rewrite S|rewrite L]; reflexivity. Qed.

(* one step: two replicas with the same memory, ANY two persist decisions, adapter calls that do
   not fail: same result, same memory afterwards (stores incl. their index, and links, are equal) *)
Theorem replicas_agree_step cfg s1 s2 op p1 p2 : not_filtered op ->
  same_mem s1 s2 -> call_ok s1 p1 -> call_ok s2 p2 ->
  same_mem (fst (dstep cfg s1 op p1)) (fst (dstep cfg s2 op p2)) /\
  snd (dstep cfg s1 op p1) = snd (dstep cfg s2 op p2).
Proof.
  intros Hn H O1 O2.
  destruct (dstep_mem cfg s1 op p1 O1) as (t1 & old1 & M1 & E1 & _).
  destruct (dstep_mem cfg s2 op p2 O2) as (t2 & old2 & M2 & E2 & _).
  rewrite E1, E2, (self_mem_old cfg t2 op old2 old1 Hn).
  apply self_mem_cong. eapply same_mem_trans; [apply same_mem_sym; exact M1|].
  eapply same_mem_trans; [exact H|exact M2].
Qed.

(* the form of the property statement: persisting vs not persisting, from one state *)
Corollary persist_bit_irrelevant cfg s op : not_filtered op -> fail_in (ad s) <> Some 0 ->
  same_mem (fst (dstep cfg s op true)) (fst (dstep cfg s op false)) /\
  snd (dstep cfg s op true) = snd (dstep cfg s op false).
Proof.
  intros Hn Hf. apply replicas_agree_step; [exact Hn|apply same_mem_refl|intros _; exact Hf|intros H; discriminate].
Qed.

(* no failure pending stays "no failure pending" *)
Lemma adapter_call_nofail a c : fail_in a = None -> fail_in (fst (fst (adapter_call a c))) = None.
Proof. intros H. unfold adapter_call. rewrite H. destruct (content_after c (content a)). reflexivity. Qed.

Lemma dstep_nofail cfg s op p : fail_in (ad s) = None -> fail_in (ad (fst (dstep cfg s op p))) = None.
Proof.
  intros H. destruct p; [rewrite asked_exactly_one_call|rewrite not_asked_adapter_untouched; exact H].
  destruct (self_call cfg s op); [apply adapter_call_nofail|]; exact H.
Qed.

Fixpoint no_filtered (ops : list dop) : Prop :=
  match ops with [] => True | op :: t => not_filtered op /\ no_filtered t end.

(* whole logs: same operations, arbitrary persist decisions on each side *)
Theorem replicas_agree_log cfg : forall log1 log2 s1 s2,
  map fst log1 = map fst log2 -> no_filtered (map fst log1) ->
  same_mem s1 s2 -> fail_in (ad s1) = None -> fail_in (ad s2) = None ->
  same_mem (fst (drun cfg s1 log1)) (fst (drun cfg s2 log2)) /\
  snd (drun cfg s1 log1) = snd (drun cfg s2 log2).
Proof.
  induction log1 as [|[op p1] t1 IH]; intros [|[op2 p2] t2] s1 s2 Hm Hn H F1 F2; cbn [map fst] in Hm; try discriminate.
  - cbn [drun fst snd]. split; [exact H|reflexivity].
  - inversion Hm as [[Hop Ht]]. subst op2. cbn [map fst no_filtered] in Hn. destruct Hn as [Hn1 Hn2].
    cbn [drun].
    destruct (replicas_agree_step cfg s1 s2 op p1 p2 Hn1 H) as [H' R'];
      [intros _; rewrite F1; discriminate|intros _; rewrite F2; discriminate|].
    pose proof (dstep_nofail cfg s1 op p1 F1) as F1'. pose proof (dstep_nofail cfg s2 op p2 F2) as F2'.
    destruct (dstep cfg s1 op p1) as [s1' r1]. destruct (dstep cfg s2 op p2) as [s2' r2]. cbn [fst snd] in *.
    destruct (IH t2 s1' s2' Ht Hn2 H' F1' F2') as [H'' R''].
    destruct (drun cfg s1' t1) as [u1 rs1]. destruct (drun cfg s2' t2) as [u2 rs2]. cbn [fst snd] in *.
    split; [exact H''|congruence].
Qed.

(* equal memory: equal listed rules, equal HasLink answers, equal decisions *)
Lemma same_mem_listed cfg s1 s2 : same_mem s1 s2 -> listed cfg s2 = listed cfg s1.
Proof. intros [S _]. unfold listed. apply map_ext. intros d. rewrite S. reflexivity. Qed.

Lemma same_mem_has_link s1 s2 pt u r d : same_mem s1 s2 ->
  has_link (get_links s2 pt) u r d = has_link (get_links s1 pt) u r d.
Proof. intros [_ L]. rewrite L. reflexivity. Qed.

Lemma same_mem_decide_rbac s1 s2 sub obj act : same_mem s1 s2 ->
  decide_rbac s2 sub obj act = decide_rbac s1 sub obj act.
Proof. intros [S L]. unfold decide_rbac. rewrite S, !L. reflexivity. Qed.
Lemma same_mem_decide_domain s1 s2 sub dom obj act : same_mem s1 s2 ->
  decide_domain s2 sub dom obj act = decide_domain s1 sub dom obj act.
Proof. intros [S L]. unfold decide_domain. rewrite S, !L. reflexivity. Qed.

(* decisions only need the listed rules and the link SETS (RolesProofs.has_link_equiv) *)
Definition mem_equiv (s1 s2 : mstate) : Prop :=
  (forall pt, pol (get_store s2 pt) = pol (get_store s1 pt)) /\
  (forall pt, links_equiv (get_links s2 pt) (get_links s1 pt)).

Lemma same_mem_equiv s1 s2 : same_mem s1 s2 -> mem_equiv s1 s2.
Proof. intros [S L]. split; intros pt; [rewrite S; reflexivity|rewrite L; apply links_equiv_refl]. Qed.

Lemma existsb_ext {A} (f g : A -> bool) l : (forall x, f x = g x) -> existsb f l = existsb g l.
Proof. intros H. induction l as [|x t IH]; cbn [existsb]; [reflexivity|]. rewrite H, IH. reflexivity. Qed.

Lemma decide_priority_rules_equiv ls1 ls2 sub obj act l : links_equiv ls2 ls1 ->
  decide_priority_rules ls2 sub obj act l = decide_priority_rules ls1 sub obj act l.
Proof.
  intros E. induction l as [|r t IH]; [reflexivity|].
  destruct r as [|pr [|ps [|po [|pa [|eft [|x y]]]]]]; try reflexivity.
  cbn [decide_priority_rules]. unfold has_link. rewrite (has_link_equiv _ _ _ sub ps ""%string E), IH. reflexivity.
Qed.

Theorem decisions_from_rules_and_links s1 s2 : mem_equiv s1 s2 ->
  (forall sub obj act, decide_rbac s2 sub obj act = decide_rbac s1 sub obj act) /\
  (forall sub dom obj act, decide_domain s2 sub dom obj act = decide_domain s1 sub dom obj act) /\
  (forall pt u r d, has_link (get_links s2 pt) u r d = has_link (get_links s1 pt) u r d) /\
  (forall sub obj act, decide_priority s2 sub obj act = decide_priority s1 sub obj act).
Proof.
  intros [S L]. split; [|split; [|split]]; [| | |intros sub obj act; unfold decide_priority; rewrite S;
    apply decide_priority_rules_equiv, L].
  - intros sub obj act. unfold decide_rbac. rewrite S. apply existsb_ext. intros r.
    destruct r as [|ps [|po [|pa [|x t]]]]; try reflexivity.
    unfold has_link. rewrite (has_link_equiv _ _ _ sub ps ""%string (L "g"%string)),
      (has_link_equiv _ _ _ obj po ""%string (L "g2"%string)). reflexivity.
  - intros sub dom obj act. unfold decide_domain. rewrite S. apply existsb_ext. intros r.
    destruct r as [|ps [|pd [|po [|pa [|x t]]]]]; try reflexivity.
    unfold has_link. rewrite (has_link_equiv _ _ _ sub ps dom (L "g"%string)). reflexivity.
  - intros pt u r d. apply has_link_equiv, L.
Qed.

(* ================= 6. the reported lists: `added` and `removed` ================= *)
Lemma mem_rule_ext r l1 l2 : (forall x, In x l1 <-> In x l2) -> mem_rule r l1 = mem_rule r l2.
Proof.
  intros H. destruct (mem_rule r l1) eqn:M1; destruct (mem_rule r l2) eqn:M2; try reflexivity.
  - apply mem_rule_In, H, mem_rule_In in M1. congruence.
  - apply mem_rule_In, H, mem_rule_In in M2. congruence.
Qed.

Lemma mem_rule_false r l : mem_rule r l = false <-> ~ In r l.
Proof.
  split; [intros H Hin; apply mem_rule_In in Hin; congruence|].
  intros H. destruct (mem_rule r l) eqn:M; [apply mem_rule_In in M; contradiction|reflexivity].
Qed.

Lemma rule_eq_dec (a b : rule) : a = b \/ a <> b.
Proof. destruct (rule_eqb a b) eqn:E; [left; apply rule_eqb_eq; exact E|right; apply rule_eqb_neq; exact E]. Qed.

Lemma added_ext rs : forall l1 l2, (forall x, In x l1 <-> In x l2) -> added l1 rs = added l2 rs.
Proof.
  induction rs as [|r t IH]; intros l1 l2 H; cbn [added]; [reflexivity|].
  rewrite (mem_rule_ext r l1 l2 H). destruct (mem_rule r l2); [apply IH, H|].
  f_equal. apply IH. intros x. cbn [In]. rewrite H. tauto.
Qed.

(* the reported list = the rules of the batch that were not listed, each once *)
Theorem added_In rs : forall l x, In x (added l rs) <-> In x rs /\ ~ In x l.
Proof.
  induction rs as [|r t IH]; intros l x; cbn [added In]; [tauto|].
  destruct (mem_rule r l) eqn:M.
  - apply mem_rule_In in M. rewrite IH. split; [tauto|]. intros [[<-|H1] H2]; [contradiction|auto].
  - apply mem_rule_false in M. cbn [In]. rewrite IH. cbn [In]. split.
    + intros [<-|[H1 H2]]; [auto|]. split; [auto|]. intros H. apply H2. auto.
    + intros [[<-|H1] H2]; [auto|]. destruct (rule_eq_dec r x) as [E|E]; [auto|].
      right. split; [exact H1|]. intros [E'|H]; [contradiction|contradiction].
Qed.

Theorem added_NoDup rs : forall l, NoDup (added l rs).
Proof.
  induction rs as [|r t IH]; intros l; cbn [added]; [constructor|].
  destruct (mem_rule r l); [apply IH|]. constructor; [|apply IH].
  intros H. apply added_In in H as [_ H]. apply H. left. reflexivity.
Qed.

Lemma added_all_listed rs : forall l, (forall r, In r rs -> In r l) -> added l rs = [].
Proof.
  induction rs as [|r t IH]; intros l H; cbn [added]; [reflexivity|].
  assert (M : mem_rule r l = true) by (apply mem_rule_In, H; left; reflexivity).
  rewrite M. apply IH. intros x Hx. apply H. right. exact Hx.
Qed.

Lemma spec_add_many_aff prio rs : forall l1 l2, (forall x, In x l1 <-> In x l2) ->
  snd (spec_add_many prio l1 rs) = added l2 rs.
Proof.
  induction rs as [|r t IH]; intros l1 l2 H; cbn [spec_add_many added snd]; [reflexivity|].
  rewrite (mem_rule_ext r l1 l2 H). destruct (mem_rule r l2); [apply IH, H|].
  specialize (IH (spec_insert prio l1 r) (r :: l2)).
  destruct (spec_add_many prio (spec_insert prio l1 r) t) as [l' aff]. cbn [snd] in *. f_equal. apply IH.
  intros x. rewrite spec_insert_In. cbn [In]. rewrite H. split; intros [E|E]; auto.
Qed.

Lemma spec_add_many_perm prio rs : forall l, Permutation (fst (spec_add_many prio l rs)) (l ++ added l rs).
Proof.
  induction rs as [|r t IH]; intros l; cbn [spec_add_many added fst]; [rewrite app_nil_r; apply Permutation_refl|].
  destruct (mem_rule r l); [apply IH|].
  specialize (IH (spec_insert prio l r)). destruct (spec_add_many prio (spec_insert prio l r) t) as [l' aff]. cbn [fst] in *.
  rewrite (added_ext t (spec_insert prio l r) (r :: l)) in IH by (intros x; rewrite spec_insert_In; cbn [In]; split; intros [E|E]; auto).
  eapply Permutation_trans; [exact IH|]. eapply Permutation_trans; [apply Permutation_app_tail, spec_insert_perm|].
  cbn [app]. apply Permutation_middle.
Qed.

Lemma spec_add_many_append rs : forall l, fst (spec_add_many None l rs) = l ++ added l rs.
Proof.
  induction rs as [|r t IH]; intros l; cbn [spec_add_many added fst]; [rewrite app_nil_r; reflexivity|].
  destruct (mem_rule r l); [apply IH|].
  specialize (IH (spec_insert None l r)). destruct (spec_add_many None (spec_insert None l r) t) as [l' aff]. cbn [fst] in *.
  rewrite IH. cbn [spec_insert]. rewrite <- app_assoc. cbn [app]. f_equal. f_equal.
  apply added_ext. intros x. rewrite in_app_iff. cbn [In]. tauto.
Qed.

Lemma spec_add_many_all_listed prio rs : forall l, (forall r, In r rs -> In r l) -> fst (spec_add_many prio l rs) = l.
Proof.
  induction rs as [|r t IH]; intros l H; cbn [spec_add_many fst]; [reflexivity|].
  assert (M : mem_rule r l = true) by (apply mem_rule_In, H; left; reflexivity).
  rewrite M. apply IH. intros x Hx. apply H. right. exact Hx.
Qed.

Lemma spec_remove_many_aff rs : forall l, snd (spec_remove_many l rs) = removed l rs.
Proof.
  induction rs as [|r t IH]; intros l; cbn [spec_remove_many removed]; [reflexivity|].
  destruct (mem_rule r l) eqn:M.
  - specialize (IH (remove_first r l)). destruct (spec_remove_many (remove_first r l) t) as [l' aff]. cbn [snd] in *. congruence.
  - apply mem_rule_false in M. rewrite (remove_first_notin r l M). specialize (IH l).
    destruct (spec_remove_many l t) as [l' aff]. exact IH.
Qed.

(* the reported list = the rules of the batch that were listed, each once *)
Theorem removed_In rs : forall l x, NoDup l -> (In x (removed l rs) <-> In x rs /\ In x l).
Proof.
  induction rs as [|r t IH]; intros l x ND; cbn [removed In]; [tauto|].
  destruct (mem_rule r l) eqn:M.
  - apply mem_rule_In in M. cbn [In]. rewrite (IH _ _ (remove_first_NoDup r l ND)), (remove_first_In r l x ND). split.
    + intros [<-|[H1 [H2 H3]]]; auto.
    + intros [[<-|H1] H2]; [auto|]. destruct (rule_eq_dec r x) as [E|E]; [auto|]. right. split; [exact H1|]. split; [exact H2|congruence].
  - apply mem_rule_false in M. rewrite (IH _ _ ND). split; [tauto|]. intros [[<-|H1] H2]; [contradiction|auto].
Qed.

Theorem removed_NoDup rs : forall l, NoDup l -> NoDup (removed l rs).
Proof.
  induction rs as [|r t IH]; intros l ND; cbn [removed]; [constructor|].
  destruct (mem_rule r l); [|apply IH, ND]. constructor; [|apply IH, remove_first_NoDup, ND].
  intros H. apply (removed_In t _ r (remove_first_NoDup r l ND)) in H as [_ H].
  apply (remove_first_In r l r ND) in H as [_ H]. congruence.
Qed.

Lemma removed_none_listed rs : forall l, (forall r, In r rs -> ~ In r l) -> removed l rs = [].
Proof.
  induction rs as [|r t IH]; intros l H; cbn [removed]; [reflexivity|].
  assert (M : mem_rule r l = false) by (apply mem_rule_false, H; left; reflexivity).
  rewrite M. apply IH. intros x Hx. apply H. right. exact Hx.
Qed.

Lemma rule_eqb_sym a b : rule_eqb a b = rule_eqb b a.
Proof.
  destruct (rule_eqb a b) eqn:E1; destruct (rule_eqb b a) eqn:E2; try reflexivity.
  - apply rule_eqb_eq in E1. subst. rewrite rule_eqb_refl in E2. discriminate.
  - apply rule_eqb_eq in E2. subst. rewrite rule_eqb_refl in E1. discriminate.
Qed.

Lemma filter_filter {A} (f g : A -> bool) l : filter f (filter g l) = filter (fun x => g x && f x) l.
Proof.
  induction l as [|x t IH]; cbn [filter]; [reflexivity|]. destruct (g x); cbn [filter andb]; [|exact IH].
  destruct (f x); rewrite IH; reflexivity.
Qed.

(* what stays listed after a batch removal: the rules outside the batch, in their old order *)
Theorem spec_remove_many_filter rs : forall l, NoDup l ->
  fst (spec_remove_many l rs) = filter (fun x => negb (mem_rule x rs)) l.
Proof.
  induction rs as [|r t IH]; intros l ND; cbn [spec_remove_many fst].
  - symmetry. apply filter_all. apply forallb_forall. reflexivity.
  - specialize (IH (remove_first r l) (remove_first_NoDup r l ND)).
    destruct (spec_remove_many (remove_first r l) t) as [l' aff]. cbn [fst] in *. rewrite IH.
    rewrite (remove_first_filter r l ND), filter_filter. apply filter_ext. intros x.
    cbn [mem_rule existsb]. fold (mem_rule x t). rewrite (rule_eqb_sym x r), negb_orb. reflexivity.
Qed.

Lemma spec_remove_many_none_listed rs : forall l, (forall r, In r rs -> ~ In r l) -> fst (spec_remove_many l rs) = l.
Proof.
  induction rs as [|r t IH]; intros l H; cbn [spec_remove_many fst]; [reflexivity|].
  rewrite (remove_first_notin r l (H r (or_introl eq_refl))).
  specialize (IH l (fun x Hx => H x (or_intror Hx))). destruct (spec_remove_many l t) as [l' aff]. exact IH.
Qed.

(* ================= 7. what each memory function does, inside the guards ================= *)
Lemma links_update_ok d s pt b rs : good_g d -> exact_arity (a_arity d) rs -> snd (links_update d s pt b rs) = true.
Proof.
  intros Hg Ha. rewrite (proj2 (links_update_mem d s pt b rs)). destruct b.
  - destruct (build_incremental_add (a_arity d) rs (get_links s pt) Hg Ha) as [ls' [B _]]. rewrite B. reflexivity.
  - destruct (build_incremental_del (a_arity d) rs (get_links s pt) Hg Ha) as [ls' [B _]]. rewrite B. reflexivity.
Qed.

Lemma one_link_eq d s pt b rs (k : bool -> dres) : good_g d -> exact_arity (a_arity d) rs ->
  (let '(s3, lok) := links_update d s pt b rs in (s3, k lok)) = (fst (links_update d s pt b rs), k true).
Proof.
  intros Hg Ha. pose proof (links_update_ok d s pt b rs Hg Ha) as H.
  destruct (links_update d s pt b rs) as [s3 lok]. cbn [fst snd] in *. subst lok. reflexivity.
Qed.

Lemma two_links_eq d s pt R A : good_g d -> exact_arity (a_arity d) R -> exact_arity (a_arity d) A ->
  (let '(s3, lok1) := links_update d s pt false R in
   if negb lok1 then (s3, DFlag true true)
   else let '(s4, lok2) := links_update d s3 pt true A in (s4, DFlag true (negb lok2)))
  = (fst (links_update d (fst (links_update d s pt false R)) pt true A), DFlag true false).
Proof.
  intros Hg HR HA. pose proof (links_update_ok d s pt false R Hg HR) as H1.
  destruct (links_update d s pt false R) as [s3 lok1]. cbn [fst snd] in *. subst lok1. cbn [negb].
  pose proof (links_update_ok d s3 pt true A Hg HA) as H2.
  destruct (links_update d s3 pt true A) as [s4 lok2]. cbn [fst snd] in *. subst lok2. reflexivity.
Qed.

Definition links_after (d : adef) (R A : list rule) (ls : list link) : list link :=
  if a_is_g d then fst (build_incremental (a_arity d) true A (fst (build_incremental (a_arity d) false R ls))) else ls.

Lemma with_store_same s pt : same_mem s (with_store s pt (get_store s pt)).
Proof.
  split; intros pt'; [|reflexivity]. rewrite get_store_with_store.
  destruct (String.eqb pt' pt) eqn:E; [apply String.eqb_eq in E; subst; reflexivity|reflexivity].
Qed.

(* AddPoliciesSelf, memory part *)
Lemma add_mem_spec cfg s pt d rs : MInv cfg s -> def_of cfg pt = Some d -> rules_ok d rs ->
  exists st', Inv st' /\ pol st' = fst (spec_add_many (a_prio d) (pol (get_store s pt)) rs) /\
    snd (add_mem d s pt rs) = DRules (added (pol (get_store s pt)) rs) false /\
    mem_change s (fst (add_mem d s pt rs)) pt st' (links_after d [] (added (pol (get_store s pt)) rs) (get_links s pt)).
Proof.
  intros M Hd [W Ha]. pose proof (proj1 M pt) as Ist.
  destruct (add_many_spec (a_prio d) rs (get_store s pt) Ist W) as [Ist' [Pp Pa]].
  rewrite (spec_add_many_aff (a_prio d) rs _ _ (fun x => iff_refl _)) in Pa.
  unfold add_mem, links_after. destruct (add_many (a_prio d) (get_store s pt) rs) as [st' aff]. cbn [fst snd] in *. subst aff.
  exists st'. split; [exact Ist'|]. split; [exact Pp|]. destruct (a_is_g d) eqn:Hg.
  - assert (Hex : exact_arity (a_arity d) (added (pol (get_store s pt)) rs)).
    { intros x Hx. apply added_In in Hx as [Hx _]. apply (Ha eq_refl), Hx. }
    rewrite (one_link_eq d _ pt true _ (fun lok => DRules _ (negb lok)) (gdef_good cfg s pt d M Hd Hg) Hex).
    cbn [fst snd negb]. split; [reflexivity|]. cbn [build_incremental fst].
    apply (store_then_links d s s pt st' true _ (same_mem_refl s)).
  - cbn [fst snd]. split; [reflexivity|]. apply store_only, same_mem_refl.
Qed.

(* RemovePoliciesSelf, memory part *)
Lemma remove_mem_spec cfg s pt d rs : MInv cfg s -> def_of cfg pt = Some d -> WF rs ->
  exists st', Inv st' /\ pol st' = fst (spec_remove_many (pol (get_store s pt)) rs) /\
    snd (remove_mem d s pt rs) = DRules (removed (pol (get_store s pt)) rs) false /\
    mem_change s (fst (remove_mem d s pt rs)) pt st' (links_after d (removed (pol (get_store s pt)) rs) [] (get_links s pt)).
Proof.
  intros M Hd W. pose proof (proj1 M pt) as Ist.
  destruct (remove_many_spec rs (get_store s pt) Ist W) as [Ist' [Pp Pa]]. rewrite spec_remove_many_aff in Pa.
  unfold remove_mem, links_after. destruct (remove_many (get_store s pt) rs) as [st' aff]. cbn [fst snd] in *. subst aff.
  exists st'. split; [exact Ist'|]. split; [exact Pp|]. destruct (a_is_g d) eqn:Hg.
  - destruct (proj2 M pt d Hd Hg) as [Gg [Ex _]].
    assert (Hex : exact_arity (a_arity d) (removed (pol (get_store s pt)) rs)).
    { intros x Hx. apply (removed_In rs _ x (Inv_NoDup _ Ist)) in Hx as [_ Hx]. apply Ex, Hx. }
    rewrite (one_link_eq d _ pt false _ (fun lok => DRules _ (negb lok)) Gg Hex).
    cbn [fst snd negb]. split; [reflexivity|]. cbn [build_incremental fst].
    apply (store_then_links d s s pt st' false _ (same_mem_refl s)).
  - cbn [fst snd]. split; [reflexivity|]. apply store_only, same_mem_refl.
Qed.

(* RemoveFilteredPolicySelf, memory part *)
Lemma remove_filtered_mem_spec cfg s pt d fi fvs : MInv cfg s -> def_of cfg pt = Some d ->
  in_range fi fvs (pol (get_store s pt)) ->
  exists st', Inv st' /\ pol st' = filter (fun r => negb (matches_spec fi fvs r)) (pol (get_store s pt)) /\
    snd (remove_filtered_mem d s pt fi fvs) = DRules (filter (matches_spec fi fvs) (pol (get_store s pt))) false /\
    mem_change s (fst (remove_filtered_mem d s pt fi fvs)) pt st'
      (links_after d (filter (matches_spec fi fvs) (pol (get_store s pt))) [] (get_links s pt)).
Proof.
  intros M Hd Hr. pose proof (proj1 M pt) as Ist.
  destruct (remove_filtered_spec (get_store s pt) fi fvs Ist Hr) as (st' & res & eff & Er & Ist' & Pp & Pe & _).
  unfold remove_filtered_mem, links_after. rewrite Er. subst eff.
  exists st'. split; [exact Ist'|]. split; [exact Pp|]. destruct (a_is_g d) eqn:Hg.
  - destruct (proj2 M pt d Hd Hg) as [Gg [Ex _]].
    assert (Hex : exact_arity (a_arity d) (filter (matches_spec fi fvs) (pol (get_store s pt)))).
    { intros x Hx. apply filter_In in Hx as [Hx _]. apply Ex, Hx. }
    rewrite (one_link_eq d _ pt false _ (fun lok => DRules _ (negb lok)) Gg Hex).
    cbn [fst snd negb]. split; [reflexivity|]. cbn [build_incremental fst].
    apply (store_then_links d s s pt st' false _ (same_mem_refl s)).
  - cbn [fst snd]. split; [reflexivity|]. apply store_only, same_mem_refl.
Qed.

(* UpdatePolicySelf, memory part: the old rule is not listed — nothing happens at all *)
Lemma update_missing st o n : Inv st -> wf_rule o = true -> ~ In o (pol st) -> update st o n = (st, false).
Proof.
  intros I W H. pose proof (has_mem_rule st o I W) as Hm. rewrite (proj2 (mem_rule_false o (pol st)) H) in Hm.
  unfold has in Hm. unfold update. destruct (lookup (key o) (idx st)); [discriminate|reflexivity].
Qed.

Lemma update_mem_missing cfg s pt d o n : MInv cfg s -> wf_rule o = true -> ~ In o (pol (get_store s pt)) ->
  update_mem d s pt o n = (s, DFlag false false).
Proof. intros M W H. unfold update_mem. rewrite (update_missing _ o n (proj1 M pt) W H). reflexivity. Qed.

(* ... the old rule is listed and the new one is not (F08 guard): replaced in place *)
Lemma update_mem_spec cfg s pt d o n : MInv cfg s -> def_of cfg pt = Some d -> rules_ok d [o; n] ->
  In o (pol (get_store s pt)) -> ~ In n (pol (get_store s pt)) ->
  exists st', Inv st' /\ pol st' = replace_first o n (pol (get_store s pt)) /\
    snd (update_mem d s pt o n) = DFlag true false /\
    mem_change s (fst (update_mem d s pt o n)) pt st' (links_after d [o] [n] (get_links s pt)).
Proof.
  intros M Hd [W Ha] Ho Nn. pose proof (proj1 M pt) as Ist.
  inversion W as [|? ? Wo W']; subst. inversion W' as [|? ? Wn _]; subst.
  destruct (update_spec (get_store s pt) o n Ist Wo Wn Nn) as [Ist' [Pp Pb]].
  rewrite (proj2 (mem_rule_In o _) Ho) in Pb.
  unfold update_mem, links_after. destruct (update (get_store s pt) o n) as [st' u]. cbn [fst snd] in *. subst u. cbn [negb].
  exists st'. split; [exact Ist'|]. split; [exact Pp|]. destruct (a_is_g d) eqn:Hg.
  - assert (HR : exact_arity (a_arity d) [o]) by (intros x [<-|[]]; apply (Ha eq_refl); left; reflexivity).
    assert (HA : exact_arity (a_arity d) [n]) by (intros x [<-|[]]; apply (Ha eq_refl); right; left; reflexivity).
    rewrite (two_links_eq d _ pt [o] [n] (gdef_good cfg s pt d M Hd Hg) HR HA). cbn [fst snd].
    split; [reflexivity|]. apply (store_then_two_links d s s pt st' [o] [n] (same_mem_refl s)).
  - cbn [fst snd]. split; [reflexivity|]. apply store_only, same_mem_refl.
Qed.

(* UpdatePoliciesSelf, memory part: the first old rule is not listed — refused at once *)
Lemma update_many_missing st o os n ns : Inv st -> wf_rule o = true -> ~ In o (pol st) ->
  update_many st (o :: os) (n :: ns) = (st, false).
Proof.
  intros I W H. pose proof (has_mem_rule st o I W) as Hm. rewrite (proj2 (mem_rule_false o (pol st)) H) in Hm.
  unfold has in Hm. unfold update_many. cbn [update_many_loop]. destruct (lookup (key o) (idx st)); [discriminate|reflexivity].
Qed.

Lemma update_many_mem_missing cfg s pt d o os n ns : MInv cfg s -> wf_rule o = true ->
  ~ In o (pol (get_store s pt)) ->
  update_many_mem d s pt (o :: os) (n :: ns) = (with_store s pt (get_store s pt), DFlag false false).
Proof. intros M W H. unfold update_many_mem. rewrite (update_many_missing _ o os n ns (proj1 M pt) W H). reflexivity. Qed.

(* ... the F08 guard holds: all old rules listed => replaced pairwise; otherwise rolled back *)
Lemma update_many_mem_spec cfg s pt d os ns : MInv cfg s -> def_of cfg pt = Some d ->
  rules_ok d os -> rules_ok d ns -> List.length os = List.length ns -> NoDup ns ->
  (forall n, In n ns -> ~ In n (pol (get_store s pt))) -> (forall n, In n ns -> ~ In n os) ->
  exists st', Inv st' /\
    match spec_update_many (pol (get_store s pt)) os ns with
    | Some l' => pol st' = l' /\ snd (update_many_mem d s pt os ns) = DFlag true false /\
                 mem_change s (fst (update_many_mem d s pt os ns)) pt st' (links_after d os ns (get_links s pt))
    | None => pol st' = pol (get_store s pt) /\ snd (update_many_mem d s pt os ns) = DFlag false false /\
              mem_change s (fst (update_many_mem d s pt os ns)) pt st' (get_links s pt)
    end.
Proof.
  intros M Hd [Wo Hao] [Wn Han] El NDn Hf Hdj. pose proof (proj1 M pt) as Ist.
  destruct (update_many_spec (get_store s pt) os ns Ist Wo Wn NDn Hf Hdj) as [Ist' Hs].
  unfold update_many_mem, links_after. destruct (update_many (get_store s pt) os ns) as [st' u]. cbn [fst snd] in *.
  exists st'. split; [exact Ist'|].
  destruct (spec_update_many (pol (get_store s pt)) os ns) as [l'|]; destruct Hs as [Hb Hp]; subst u; cbn [negb].
  - split; [exact Hp|]. assert (Hlt : Nat.ltb (List.length ns) (List.length os) = false) by (apply Nat.ltb_ge; lia).
    rewrite Hlt. destruct (a_is_g d) eqn:Hg.
    + rewrite (two_links_eq d _ pt os ns (gdef_good cfg s pt d M Hd Hg) (Hao eq_refl) (Han eq_refl)). cbn [fst snd].
      split; [reflexivity|]. apply (store_then_two_links d s s pt st' os ns (same_mem_refl s)).
    + cbn [fst snd]. split; [reflexivity|]. apply store_only, same_mem_refl.
  - split; [exact Hp|]. cbn [fst snd]. split; [reflexivity|]. apply store_only, same_mem_refl.
Qed.

(* ================= 8. guards; the machine invariant of C05 is kept by every call ================= *)
(* F03: grouping rules of exact arity; F07: well-formed rules; F08: an update that would take
   place (old rule listed) has new rules that are not listed, pairwise distinct and different
   from the old rules of the call; filtered removals stay within the rule length *)
Definition dop_ok (cfg : mconf) (s : mstate) (op : dop) : Prop :=
  match op with
  | DAdd pt rs => forall d, def_of cfg pt = Some d -> rules_ok d rs
  | DRemove pt rs => WF rs
  | DRemoveFiltered pt fi fvs => in_range fi fvs (pol (get_store s pt))
  | DClear => True
  | DUpdate pt o n => forall d, def_of cfg pt = Some d ->
      rules_ok d [o; n] /\ (~ In o (pol (get_store s pt)) \/ ~ In n (pol (get_store s pt)))
  | DUpdateMany pt os ns => forall d, def_of cfg pt = Some d ->
      rules_ok d os /\ rules_ok d ns /\ List.length os = List.length ns /\
      ((exists o os', os = o :: os' /\ ~ In o (pol (get_store s pt))) \/
       (NoDup ns /\ (forall n, In n ns -> ~ In n (pol (get_store s pt))) /\ (forall n, In n ns -> ~ In n os)))
  | DUpdateFiltered _ _ _ _ => False
  end.

Lemma dop_ok_same_mem cfg s s' op : same_mem s s' -> dop_ok cfg s op -> dop_ok cfg s' op.
Proof. intros [S _]. destruct op; cbn [dop_ok]; rewrite ?S; auto. Qed.

Lemma mem_change_MInv_g cfg s s' pt d st' R A :
  MInv cfg s -> def_of cfg pt = Some d -> Inv st' ->
  (a_is_g d = true -> exact_arity (a_arity d) R /\ exact_arity (a_arity d) A) ->
  (forall x, In x (pol st') <-> (In x (pol (get_store s pt)) /\ ~ In x R) \/ In x A) ->
  mem_change s s' pt st' (links_after d R A (get_links s pt)) -> MInv cfg s'.
Proof.
  intros M Hd Ist Hex Hset Mc. unfold links_after in Mc. destruct (a_is_g d) eqn:Hg.
  - destruct (Hex eq_refl) as [HR HA]. apply (g_finish cfg s s' pt d st' R A M Hd Hg Ist HR HA Hset Mc).
  - apply (p_finish cfg s s' pt d st' M Hd Hg Ist Mc).
Qed.

Lemma in_dec_rule (x : rule) l : In x l \/ ~ In x l.
Proof. destruct (mem_rule x l) eqn:E; [left; apply mem_rule_In; exact E|right; apply mem_rule_false; exact E]. Qed.

Theorem self_mem_MInv cfg s op old : MInv cfg s -> dop_ok cfg s op -> MInv cfg (fst (self_mem cfg s op old)).
Proof.
  intros M G. pose proof (fun pt => Inv_NoDup _ (proj1 M pt)) as ND.
  destruct op as [pt rs|pt rs|pt fi fvs| |pt o n|pt os ns|pt ns fi fvs]; cbn [self_mem dop_ok] in *;
    try (destruct (def_of cfg pt) as [d|] eqn:Hd; [|exact M]).
  - destruct (add_mem_spec cfg s pt d rs M Hd (G d eq_refl)) as (st' & Ist' & Pp & _ & Mc).
    eapply (mem_change_MInv_g cfg s _ pt d st' [] _ M Hd Ist'); [| |exact Mc].
    + intros Hg. split; [apply exact_nil|]. intros x Hx. apply added_In in Hx as [Hx _]. apply (proj2 (G d eq_refl) Hg), Hx.
    + intros x. rewrite Pp, spec_add_many_In, added_In. cbn [In].
      destruct (in_dec_rule x (pol (get_store s pt))); tauto.
  - destruct (remove_mem_spec cfg s pt d rs M Hd G) as (st' & Ist' & Pp & _ & Mc).
    eapply (mem_change_MInv_g cfg s _ pt d st' _ [] M Hd Ist'); [| |exact Mc].
    + intros Hg. split; [|apply exact_nil]. intros x Hx. apply (removed_In rs _ x (ND pt)) in Hx as [_ Hx].
      apply (proj2 M pt d Hd Hg), Hx.
    + intros x. rewrite Pp, (spec_remove_many_In rs _ x (ND pt)), (removed_In rs _ x (ND pt)). cbn [In]. tauto.
  - destruct (remove_filtered_mem_spec cfg s pt d fi fvs M Hd G) as (st' & Ist' & Pp & _ & Mc).
    eapply (mem_change_MInv_g cfg s _ pt d st' _ [] M Hd Ist'); [| |exact Mc].
    + intros Hg. split; [|apply exact_nil]. intros x Hx. apply filter_In in Hx as [Hx _]. apply (proj2 M pt d Hd Hg), Hx.
    + intros x. rewrite Pp, !filter_In, negb_true_iff. cbn [In].
      destruct (matches_spec fi fvs x); intuition congruence.
  - apply clear_policy_MInv, M.
  - destruct (G d eq_refl) as [Rk Hn]. destruct (in_dec_rule o (pol (get_store s pt))) as [Ho|Ho].
    + assert (Nn : ~ In n (pol (get_store s pt))) by (destruct Hn; [contradiction|assumption]).
      destruct (update_mem_spec cfg s pt d o n M Hd Rk Ho Nn) as (st' & Ist' & Pp & _ & Mc).
      eapply (mem_change_MInv_g cfg s _ pt d st' [o] [n] M Hd Ist'); [| |exact Mc].
      * intros Hg. split; intros x [<-|[]]; apply (proj2 Rk Hg); cbn [In]; auto.
      * intros x. rewrite Pp, (replace_first_In_iff o n _ x (ND pt) Ho Nn). cbn [In]. intuition.
    + destruct Rk as [W _]. inversion W; subst. rewrite (update_mem_missing cfg s pt d o n M); assumption.
  - destruct (G d eq_refl) as (Ro & Rn & El & Hc). destruct Hc as [(o & os' & -> & Ho)|(NDn & Hf & Hdj)].
    + destruct ns as [|n ns']; [discriminate|]. destruct Ro as [W _]. inversion W; subst.
      rewrite (update_many_mem_missing cfg s pt d o os' n ns' M); [|assumption|assumption].
      cbn [fst]. eapply MInv_same_mem; [apply with_store_same|exact M].
    + destruct (update_many_mem_spec cfg s pt d os ns M Hd Ro Rn El NDn Hf Hdj) as (st' & Ist' & Hs).
      destruct (spec_update_many (pol (get_store s pt)) os ns) as [l'|] eqn:Esp; destruct Hs as (Pp & _ & Mc).
      * eapply (mem_change_MInv_g cfg s _ pt d st' os ns M Hd Ist'); [| |exact Mc].
        -- intros Hg. split; [apply (proj2 Ro Hg)|apply (proj2 Rn Hg)].
        -- intros x. rewrite Pp. apply (spec_update_many_In os ns _ l' x (ND pt) NDn Hf Hdj Esp El).
      * eapply (MInv_change cfg s _ pt d); [exact M|exact Hd|exact Mc|exact Ist'|].
        intros Hg. rewrite Pp. destruct (proj2 M pt d Hd Hg) as [_ [Ex Le]]. split; assumption.
  - contradiction.
Qed.

Theorem dstep_MInv cfg s op p : MInv cfg s -> dop_ok cfg s op -> MInv cfg (fst (dstep cfg s op p)).
Proof.
  intros M G. rewrite dstep_factor. destruct (if p then self_call cfg s op else None) as [c|].
  - destruct (adapter_call (ad s) c) as [[a ok] old].
    assert (Sm : same_mem s (with_ad s a)) by (split; reflexivity).
    destruct ok; [|exact (MInv_same_mem cfg _ _ Sm M)].
    apply self_mem_MInv; [exact (MInv_same_mem cfg _ _ Sm M)|exact (dop_ok_same_mem cfg _ _ op Sm G)].
  - apply self_mem_MInv; assumption.
Qed.

Fixpoint dguards (cfg : mconf) (s : mstate) (log : list (dop * bool)) : Prop :=
  match log with
  | [] => True
  | (op, p) :: t => dop_ok cfg s op /\ dguards cfg (fst (dstep cfg s op p)) t
  end.

Theorem drun_MInv cfg : forall log s, MInv cfg s -> dguards cfg s log -> MInv cfg (fst (drun cfg s log)).
Proof.
  induction log as [|[op p] t IH]; intros s M G; cbn [drun fst]; [exact M|]. destruct G as [G1 G2].
  pose proof (dstep_MInv cfg s op p M G1) as M1. destruct (dstep cfg s op p) as [s1 r1]. cbn [fst] in *.
  specialize (IH s1 M1 G2). destruct (drun cfg s1 t). exact IH.
Qed.

(* ================= 9. affected_exact ================= *)
Definition others_untouched (s s' : mstate) (pt : string) : Prop :=
  forall pt', pt' <> pt -> get_store s' pt' = get_store s pt' /\ get_links s' pt' = get_links s pt'.

Lemma mem_change_at s s' pt st ls : mem_change s s' pt st ls ->
  get_store s' pt = st /\ get_links s' pt = ls /\ others_untouched s s' pt.
Proof.
  intros [S L]. split; [rewrite S, String.eqb_refl; reflexivity|]. split; [rewrite L, String.eqb_refl; reflexivity|].
  intros pt' H. apply String.eqb_neq in H. rewrite S, L, H. auto.
Qed.

Lemma others_untouched_pre a b c pt : same_mem a b -> others_untouched b c pt -> others_untouched a c pt.
Proof. intros [S L] H pt' Hne. destruct (H pt' Hne) as [H1 H2]. rewrite H1, H2, S, L. auto. Qed.

(* AddPoliciesSelf reports exactly the rules that were not listed (batch order, each once), and
   exactly those are listed in addition afterwards (appended in that order when the type has no
   priority column) *)
Theorem add_self_exact cfg s p pt d rs : MInv cfg s -> def_of cfg pt = Some d -> rules_ok d rs -> call_ok s p ->
  let l := pol (get_store s pt) in
  let r := dstep cfg s (DAdd pt rs) p in
  snd r = DRules (added l rs) false /\
  Permutation (pol (get_store (fst r) pt)) (l ++ added l rs) /\
  (a_prio d = None -> pol (get_store (fst r) pt) = l ++ added l rs) /\
  NoDup (pol (get_store (fst r) pt)) /\
  others_untouched s (fst r) pt.
Proof.
  intros M Hd Rk Hok l r. subst l r.
  destruct (dstep_mem cfg s (DAdd pt rs) p Hok) as (s1 & old & Sm & E & _). rewrite E. cbn [self_mem]. rewrite Hd.
  pose proof (MInv_same_mem cfg s s1 Sm M) as M1.
  destruct (add_mem_spec cfg s1 pt d rs M1 Hd Rk) as (st' & Ist' & Pp & Pr & Mc).
  destruct (mem_change_at _ _ _ _ _ Mc) as (Es & _ & Ot). rewrite (proj1 Sm pt) in *. rewrite Es, Pr, Pp.
  split; [reflexivity|]. split; [apply spec_add_many_perm|]. split; [intros ->; apply spec_add_many_append|].
  split; [rewrite <- Pp; apply Inv_NoDup, Ist'|]. apply (others_untouched_pre s s1 _ pt Sm Ot).
Qed.

(* RemovePoliciesSelf reports exactly the rules that were listed (batch order, each once); what
   stays listed are the other rules, in their old order *)
Theorem remove_self_exact cfg s p pt d rs : MInv cfg s -> def_of cfg pt = Some d -> WF rs -> call_ok s p ->
  let l := pol (get_store s pt) in
  let r := dstep cfg s (DRemove pt rs) p in
  snd r = DRules (removed l rs) false /\
  pol (get_store (fst r) pt) = filter (fun x => negb (mem_rule x rs)) l /\
  (forall x, In x (pol (get_store (fst r) pt)) <-> In x l /\ ~ In x (removed l rs)) /\
  others_untouched s (fst r) pt.
Proof.
  intros M Hd W Hok l r. subst l r.
  destruct (dstep_mem cfg s (DRemove pt rs) p Hok) as (s1 & old & Sm & E & _). rewrite E. cbn [self_mem]. rewrite Hd.
  pose proof (MInv_same_mem cfg s s1 Sm M) as M1.
  destruct (remove_mem_spec cfg s1 pt d rs M1 Hd W) as (st' & Ist' & Pp & Pr & Mc).
  destruct (mem_change_at _ _ _ _ _ Mc) as (Es & _ & Ot). rewrite (proj1 Sm pt) in *. rewrite Es, Pr, Pp.
  pose proof (Inv_NoDup _ (proj1 M pt)) as ND.
  split; [reflexivity|]. split; [apply spec_remove_many_filter, ND|]. split; [|apply (others_untouched_pre s s1 _ pt Sm Ot)].
  intros x. rewrite (spec_remove_many_In rs _ x ND), (removed_In rs _ x ND). tauto.
Qed.

(* RemoveFilteredPolicySelf reports exactly the listed rules that match the filter; the others stay *)
Theorem remove_filtered_self_exact cfg s p pt d fi fvs : MInv cfg s -> def_of cfg pt = Some d ->
  in_range fi fvs (pol (get_store s pt)) -> call_ok s p ->
  let l := pol (get_store s pt) in
  let r := dstep cfg s (DRemoveFiltered pt fi fvs) p in
  snd r = DRules (filter (matches_spec fi fvs) l) false /\
  pol (get_store (fst r) pt) = filter (fun x => negb (matches_spec fi fvs x)) l /\
  others_untouched s (fst r) pt.
Proof.
  intros M Hd Hr Hok l r. subst l r.
  destruct (dstep_mem cfg s (DRemoveFiltered pt fi fvs) p Hok) as (s1 & old & Sm & E & _). rewrite E. cbn [self_mem]. rewrite Hd.
  pose proof (MInv_same_mem cfg s s1 Sm M) as M1. rewrite <- (proj1 Sm pt) in Hr.
  destruct (remove_filtered_mem_spec cfg s1 pt d fi fvs M1 Hd Hr) as (st' & Ist' & Pp & Pr & Mc).
  destruct (mem_change_at _ _ _ _ _ Mc) as (Es & _ & Ot). rewrite (proj1 Sm pt) in *. rewrite Es, Pr, Pp.
  split; [reflexivity|]. split; [reflexivity|]. apply (others_untouched_pre s s1 _ pt Sm Ot).
Qed.

(* UpdatePolicySelf reports true iff the old rule was listed, and then it was replaced in place *)
Theorem update_self_exact cfg s p pt d o n : MInv cfg s -> def_of cfg pt = Some d -> rules_ok d [o; n] ->
  (~ In o (pol (get_store s pt)) \/ ~ In n (pol (get_store s pt))) -> call_ok s p ->
  let l := pol (get_store s pt) in
  let r := dstep cfg s (DUpdate pt o n) p in
  snd r = DFlag (mem_rule o l) false /\
  pol (get_store (fst r) pt) = replace_first o n l /\
  (In o l -> forall x, In x (pol (get_store (fst r) pt)) <-> (In x l /\ x <> o) \/ x = n) /\
  (~ In o l -> pol (get_store (fst r) pt) = l) /\
  others_untouched s (fst r) pt.
Proof.
  intros M Hd Rk Hn Hok l r. subst l r.
  destruct (dstep_mem cfg s (DUpdate pt o n) p Hok) as (s1 & old & Sm & E & _). rewrite E. cbn [self_mem]. rewrite Hd.
  pose proof (MInv_same_mem cfg s s1 Sm M) as M1. pose proof (Inv_NoDup _ (proj1 M pt)) as ND.
  destruct (in_dec_rule o (pol (get_store s pt))) as [Ho|Ho].
  - assert (Nn : ~ In n (pol (get_store s pt))) by (destruct Hn; [contradiction|assumption]).
    rewrite <- (proj1 Sm pt) in Ho, Nn.
    destruct (update_mem_spec cfg s1 pt d o n M1 Hd Rk Ho Nn) as (st' & Ist' & Pp & Pr & Mc).
    destruct (mem_change_at _ _ _ _ _ Mc) as (Es & _ & Ot). rewrite (proj1 Sm pt) in *. rewrite Es, Pr, Pp.
    rewrite (proj2 (mem_rule_In o _) Ho). split; [reflexivity|]. split; [reflexivity|].
    split; [intros _ x; apply (replace_first_In_iff o n _ x ND Ho Nn)|]. split; [intros H; contradiction|].
    apply (others_untouched_pre s s1 _ pt Sm Ot).
  - destruct Rk as [W _]. inversion W; subst.
    rewrite (update_mem_missing cfg s1 pt d o n M1) by (rewrite ?(proj1 Sm pt); assumption). cbn [fst snd].
    rewrite (proj1 Sm pt), (proj2 (mem_rule_false o _) Ho), (replace_first_notin o n _ Ho).
    split; [reflexivity|]. split; [reflexivity|]. split; [intros H; contradiction|]. split; [reflexivity|].
    intros pt' _. split; [apply Sm|apply Sm].
Qed.

(* UpdatePoliciesSelf reports true iff every old rule was listed (pairwise, in order), and then
   exactly the old rules went and the new ones came; otherwise nothing changed *)
Theorem update_many_self_exact cfg s p pt d os ns : MInv cfg s -> def_of cfg pt = Some d ->
  rules_ok d os -> rules_ok d ns -> List.length os = List.length ns -> NoDup ns ->
  (forall n, In n ns -> ~ In n (pol (get_store s pt))) -> (forall n, In n ns -> ~ In n os) -> call_ok s p ->
  let l := pol (get_store s pt) in
  let r := dstep cfg s (DUpdateMany pt os ns) p in
  match spec_update_many l os ns with
  | Some l' => snd r = DFlag true false /\ pol (get_store (fst r) pt) = l' /\
               (forall x, In x l' <-> (In x l /\ ~ In x os) \/ In x ns)
  | None => snd r = DFlag false false /\ pol (get_store (fst r) pt) = l
  end /\ others_untouched s (fst r) pt.
Proof.
  intros M Hd Ro Rn El NDn Hf Hdj Hok l r. subst l r.
  destruct (dstep_mem cfg s (DUpdateMany pt os ns) p Hok) as (s1 & old & Sm & E & _). rewrite E. cbn [self_mem]. rewrite Hd.
  pose proof (MInv_same_mem cfg s s1 Sm M) as M1. pose proof (Inv_NoDup _ (proj1 M pt)) as ND.
  rewrite <- (proj1 Sm pt) in Hf.
  destruct (update_many_mem_spec cfg s1 pt d os ns M1 Hd Ro Rn El NDn Hf Hdj) as (st' & Ist' & Hs).
  rewrite (proj1 Sm pt) in *.
  destruct (spec_update_many (pol (get_store s pt)) os ns) as [l'|] eqn:Esp; destruct Hs as (Pp & Pr & Mc);
    destruct (mem_change_at _ _ _ _ _ Mc) as (Es & _ & Ot); rewrite Es, Pr, Pp.
  - split; [|apply (others_untouched_pre s s1 _ pt Sm Ot)]. split; [reflexivity|]. split; [reflexivity|].
    intros x. apply (spec_update_many_In os ns _ l' x ND NDn Hf Hdj Esp El).
  - split; [|apply (others_untouched_pre s s1 _ pt Sm Ot)]. split; reflexivity.
Qed.

(* ================= 10. clear_self (F02) ================= *)
Lemma clear_policy_empty cfg s pt : get_store (fst (clear_policy cfg s)) pt = empty_store /\ get_links (fst (clear_policy cfg s)) pt = [].
Proof.
  unfold clear_policy. cbn [fst]. split; [reflexivity|]. unfold get_links. cbn [rlinks].
  induction (rlinks (invalidate s)) as [|[k v] t IH]; cbn [map lookup fst]; [reflexivity|].
  destruct (String.eqb pt k); [reflexivity|exact IH].
Qed.

Theorem clear_self cfg s p : call_ok s p ->
  snd (dstep cfg s DClear p) = DUnit false /\
  forall pt, pol (get_store (fst (dstep cfg s DClear p)) pt) = [] /\ get_links (fst (dstep cfg s DClear p)) pt = [] /\
             forall u r d, has_link (get_links (fst (dstep cfg s DClear p)) pt) u r d = String.eqb u r.
Proof.
  intros Hok. destruct (dstep_mem cfg s DClear p Hok) as (s1 & old & _ & E & _). rewrite E. cbn [self_mem fst snd].
  split; [reflexivity|]. intros pt. destruct (clear_policy_empty cfg s1 pt) as [E1 E2]. rewrite E1, E2.
  split; [reflexivity|]. split; [reflexivity|]. intros u r d. unfold has_link, has_link_n.
  destruct (String.eqb u r) eqn:E0; [reflexivity|]. unfold max_level. cbn [bfs mem_str existsb].
  rewrite (String.eqb_sym r u), E0. reflexivity.
Qed.

(* ================= 11. idempotent: a replayed call reports nothing and changes nothing ================= *)
Definition nothing (op : dop) : dres :=
  match op with
  | DAdd _ _ | DRemove _ _ | DRemoveFiltered _ _ _ => DRules [] false
  | DClear => DUnit false
  | DUpdate _ _ _ | DUpdateMany _ _ _ | DUpdateFiltered _ _ _ _ => DFlag false false
  end.

(* listed rules of every type and links of every role definition are the same *)
Definition unchanged (s s' : mstate) : Prop :=
  (forall pt, pol (get_store s' pt) = pol (get_store s pt)) /\ (forall pt, get_links s' pt = get_links s pt).

Definition op_defined (cfg : mconf) (op : dop) : Prop :=
  match op with
  | DClear => True
  | DAdd pt _ | DRemove pt _ | DRemoveFiltered pt _ _ | DUpdate pt _ _ | DUpdateMany pt _ _
  | DUpdateFiltered pt _ _ _ => def_of cfg pt <> None
  end.

(* an empty batch update "succeeds" every time *)
Definition repeatable (op : dop) : Prop :=
  match op with DUpdateMany _ os _ => os <> [] | _ => True end.

Lemma mem_change_unchanged s s' pt st ls : mem_change s s' pt st ls ->
  pol st = pol (get_store s pt) -> ls = get_links s pt -> unchanged s s'.
Proof.
  intros [S L] Hp Hl. split; intros pt'; [rewrite S|rewrite L]; destruct (String.eqb pt' pt) eqn:E; try reflexivity;
    apply String.eqb_eq in E; subst pt'; assumption.
Qed.

Lemma unchanged_refl s : unchanged s s. Proof. split; reflexivity. Qed.

Lemma same_mem_unchanged s s' : same_mem s s' -> unchanged s s'.
Proof. intros [S L]. split; intros pt; [rewrite S|rewrite L]; reflexivity. Qed.

Lemma links_after_nil d ls : links_after d [] [] ls = ls.
Proof. unfold links_after. destruct (a_is_g d); reflexivity. Qed.

Lemma filter_neg_nil {A} (f : A -> bool) l : filter f (filter (fun x => negb (f x)) l) = [].
Proof.
  induction l as [|x t IH]; cbn [filter]; [reflexivity|]. destruct (f x) eqn:E; cbn [negb filter]; [exact IH|].
  rewrite E. exact IH.
Qed.
Lemma filter_idem {A} (f : A -> bool) l : filter f (filter f l) = filter f l.
Proof.
  induction l as [|x t IH]; cbn [filter]; [reflexivity|]. destruct (f x) eqn:E; cbn [filter]; [|exact IH].
  rewrite E, IH. reflexivity.
Qed.

Lemma update_many_again_missing cfg s pt d o os n ns : MInv cfg s -> wf_rule o = true ->
  ~ In o (pol (get_store s pt)) ->
  snd (update_many_mem d s pt (o :: os) (n :: ns)) = DFlag false false /\
  unchanged s (fst (update_many_mem d s pt (o :: os) (n :: ns))).
Proof.
  intros M W H. rewrite (update_many_mem_missing cfg s pt d o os n ns M W H). cbn [fst snd].
  split; [reflexivity|]. apply same_mem_unchanged, with_store_same.
Qed.

Theorem self_mem_again cfg s op old : MInv cfg s -> dop_ok cfg s op -> op_defined cfg op -> repeatable op ->
  forall s1 old', same_mem (fst (self_mem cfg s op old)) s1 ->
    dop_ok cfg s1 op /\ snd (self_mem cfg s1 op old') = nothing op /\ unchanged s1 (fst (self_mem cfg s1 op old')).
Proof.
  intros M G Hdef Hrep s1 old' Sm.
  pose proof (MInv_same_mem cfg _ _ Sm (self_mem_MInv cfg s op old M G)) as M1.
  pose proof (fun pt => Inv_NoDup _ (proj1 M pt)) as ND.
  destruct op as [pt rs|pt rs|pt fi fvs| |pt o n|pt os ns|pt ns fi fvs];
    cbn [self_mem dop_ok op_defined repeatable nothing] in *;
    try (destruct (def_of cfg pt) as [d|] eqn:Hd; [|congruence]).
  - (* add *)
    destruct (add_mem_spec cfg s pt d rs M Hd (G d eq_refl)) as (st' & _ & Pp & _ & Mc).
    destruct (mem_change_at _ _ _ _ _ Mc) as (Es & _ & _).
    assert (E1 : pol (get_store s1 pt) = fst (spec_add_many (a_prio d) (pol (get_store s pt)) rs))
      by (rewrite (proj1 Sm pt), Es; exact Pp).
    assert (Hall : forall r, In r rs -> In r (pol (get_store s1 pt))) by (intros r Hr; rewrite E1, spec_add_many_In; auto).
    split; [exact G|].
    destruct (add_mem_spec cfg s1 pt d rs M1 Hd (G d eq_refl)) as (st2 & _ & Pp2 & Pr2 & Mc2).
    rewrite (added_all_listed rs _ Hall) in *. split; [exact Pr2|].
    apply (mem_change_unchanged _ _ _ _ _ Mc2); [|apply links_after_nil].
    rewrite Pp2. apply spec_add_many_all_listed, Hall.
  - (* remove *)
    destruct (remove_mem_spec cfg s pt d rs M Hd G) as (st' & _ & Pp & _ & Mc).
    destruct (mem_change_at _ _ _ _ _ Mc) as (Es & _ & _).
    assert (E1 : pol (get_store s1 pt) = fst (spec_remove_many (pol (get_store s pt)) rs))
      by (rewrite (proj1 Sm pt), Es; exact Pp).
    assert (Hnone : forall r, In r rs -> ~ In r (pol (get_store s1 pt))).
    { intros r Hr. rewrite E1, (spec_remove_many_In rs _ r (ND pt)). tauto. }
    split; [exact G|].
    destruct (remove_mem_spec cfg s1 pt d rs M1 Hd G) as (st2 & _ & Pp2 & Pr2 & Mc2).
    rewrite (removed_none_listed rs _ Hnone) in *. split; [exact Pr2|].
    apply (mem_change_unchanged _ _ _ _ _ Mc2); [|apply links_after_nil].
    rewrite Pp2. apply spec_remove_many_none_listed, Hnone.
  - (* remove filtered *)
    destruct (remove_filtered_mem_spec cfg s pt d fi fvs M Hd G) as (st' & _ & Pp & _ & Mc).
    destruct (mem_change_at _ _ _ _ _ Mc) as (Es & _ & _).
    assert (E1 : pol (get_store s1 pt) = filter (fun r => negb (matches_spec fi fvs r)) (pol (get_store s pt)))
      by (rewrite (proj1 Sm pt), Es; exact Pp).
    assert (G1 : in_range fi fvs (pol (get_store s1 pt))).
    { intros r Hr. rewrite E1 in Hr. apply filter_In in Hr as [Hr _]. apply G, Hr. }
    split; [exact G1|].
    destruct (remove_filtered_mem_spec cfg s1 pt d fi fvs M1 Hd G1) as (st2 & _ & Pp2 & Pr2 & Mc2).
    rewrite E1, filter_neg_nil in Pr2, Mc2. split; [exact Pr2|].
    apply (mem_change_unchanged _ _ _ _ _ Mc2); [|apply links_after_nil].
    rewrite Pp2, E1. apply filter_idem.
  - (* clear *)
    cbn [fst snd] in Sm |- *. split; [exact I|]. split; [reflexivity|]. split; intros pt.
    + rewrite (proj1 Sm pt). rewrite (proj1 (clear_policy_empty cfg s1 pt)), (proj1 (clear_policy_empty cfg s pt)). reflexivity.
    + rewrite (proj2 Sm pt). rewrite (proj2 (clear_policy_empty cfg s1 pt)), (proj2 (clear_policy_empty cfg s pt)). reflexivity.
  - (* update *)
    destruct (G d eq_refl) as [Rk Hn]. pose proof Rk as [W _]. inversion W as [|? ? Wo _]; subst.
    assert (Ho1 : ~ In o (pol (get_store s1 pt))).
    { destruct (in_dec_rule o (pol (get_store s pt))) as [Ho|Ho].
      - assert (Nn : ~ In n (pol (get_store s pt))) by (destruct Hn; [contradiction|assumption]).
        destruct (update_mem_spec cfg s pt d o n M Hd Rk Ho Nn) as (st' & _ & Pp & _ & Mc).
        destruct (mem_change_at _ _ _ _ _ Mc) as (Es & _ & _). rewrite (proj1 Sm pt), Es, Pp.
        rewrite (replace_first_In_iff o n _ o (ND pt) Ho Nn). intros [[_ H]|H]; [congruence|]. subst n. contradiction.
      - rewrite (update_mem_missing cfg s pt d o n M Wo Ho) in Sm. cbn [fst] in Sm. rewrite (proj1 Sm pt). exact Ho. }
    split; [intros d' Hd'; inversion Hd'; subst d'; split; [exact Rk|left; exact Ho1]|].
    rewrite (update_mem_missing cfg s1 pt d o n M1 Wo Ho1). cbn [fst snd]. split; [reflexivity|apply unchanged_refl].
  - (* update many *)
    destruct (G d eq_refl) as (Ro & Rn & El & Hc).
    destruct os as [|o os']; [congruence|]. destruct ns as [|n ns']; [discriminate|].
    pose proof Ro as [W _]. inversion W as [|? ? Wo _]; subst.
    assert (Hcases : ~ In o (pol (get_store s1 pt)) \/
              (pol (get_store s1 pt) = pol (get_store s pt) /\
               spec_update_many (pol (get_store s pt)) (o :: os') (n :: ns') = None /\
               NoDup (n :: ns') /\ (forall x, In x (n :: ns') -> ~ In x (pol (get_store s pt))) /\
               (forall x, In x (n :: ns') -> ~ In x (o :: os')))).
    { destruct Hc as [(o2 & os2 & Eo & Ho)|(NDn & Hf & Hdj)].
      - inversion Eo; subst o2 os2. left.
        rewrite (update_many_mem_missing cfg s pt d o os' n ns' M Wo Ho) in Sm. cbn [fst] in Sm.
        rewrite (proj1 Sm pt), get_store_with_store, String.eqb_refl. exact Ho.
      - destruct (update_many_mem_spec cfg s pt d _ _ M Hd Ro Rn El NDn Hf Hdj) as (st' & _ & Hs).
        destruct (spec_update_many (pol (get_store s pt)) (o :: os') (n :: ns')) as [l'|] eqn:Esp; destruct Hs as (Pp & _ & Mc);
          destruct (mem_change_at _ _ _ _ _ Mc) as (Es & _ & _).
        + left. rewrite (proj1 Sm pt), Es, Pp.
          rewrite (proj2 (spec_update_many_In _ _ _ l' o (ND pt) NDn Hf Hdj Esp El)).
          intros [[_ H]|H]; [apply H; left; reflexivity|apply (Hdj o H); left; reflexivity].
        + right. rewrite (proj1 Sm pt), Es. auto. }
    destruct Hcases as [Ho1|(Ep & Esp & NDn & Hf & Hdj)].
    + split; [intros d' Hd'; inversion Hd'; subst d'; split; [exact Ro|]; split; [exact Rn|]; split; [exact El|];
              left; exists o, os'; split; [reflexivity|exact Ho1]|].
      apply (update_many_again_missing cfg s1 pt d o os' n ns' M1 Wo Ho1).
    + rewrite <- Ep in Hf.
      split; [intros d' Hd'; inversion Hd'; subst d'; split; [exact Ro|]; split; [exact Rn|]; split; [exact El|];
              right; split; [exact NDn|]; split; [exact Hf|exact Hdj]|].
      destruct (update_many_mem_spec cfg s1 pt d _ _ M1 Hd Ro Rn El NDn Hf Hdj) as (st2 & _ & Hs).
      rewrite Ep, Esp in Hs. destruct Hs as (Pp2 & Pr2 & Mc2). split; [exact Pr2|].
      apply (mem_change_unchanged _ _ _ _ _ Mc2); [rewrite Pp2; symmetry; exact Ep|reflexivity].
  - contradiction.
Qed.

Lemma unchanged_pre a b c : same_mem a b -> unchanged b c -> unchanged a c.
Proof. intros [S L] [P Q]. split; intros pt; [rewrite P, S|rewrite Q, L]; reflexivity. Qed.

Theorem idempotent cfg s op p1 p2 : MInv cfg s -> dop_ok cfg s op -> op_defined cfg op -> repeatable op ->
  call_ok s p1 -> call_ok (fst (dstep cfg s op p1)) p2 ->
  let s1 := fst (dstep cfg s op p1) in
  snd (dstep cfg s1 op p2) = nothing op /\ unchanged s1 (fst (dstep cfg s1 op p2)) /\ dop_ok cfg s1 op.
Proof.
  intros M G Hdef Hrep O1 O2 s1. subst s1.
  destruct (dstep_mem cfg s op p1 O1) as (t1 & old1 & Sm1 & E1 & _).
  destruct (dstep_mem cfg _ op p2 O2) as (t2 & old2 & Sm2 & E2 & _). rewrite E2. rewrite E1 in Sm2 |- *.
  destruct (self_mem_again cfg t1 op old1 (MInv_same_mem cfg _ _ Sm1 M) (dop_ok_same_mem cfg _ _ op Sm1 G) Hdef Hrep t2 old2 Sm2)
    as (G2 & R2 & U2).
  split; [exact R2|]. split; [apply (unchanged_pre _ t2 _ Sm2 U2)|].
  apply (dop_ok_same_mem cfg t2 _ op (same_mem_sym _ _ Sm2) G2).
Qed.

(* ================= 12. the guards are necessary: witnesses on the faithful model ================= *)
Local Open Scope string_scope.
Definition cfg_p : mconf := [("p", {| a_is_g := false; a_arity := 2; a_prio := None |})].
Definition s_ab : mstate :=
  fst (dstep cfg_p (init_state cfg_p false false WNone []) (DAdd "p" [["a"; "x"]; ["b"; "y"]]) false).

(* F08: UpdatePolicySelf(A -> A) reports true every time it is replayed *)
Lemma update_same_refuted :
  let s1 := fst (dstep cfg_p s_ab (DUpdate "p" ["a"; "x"] ["a"; "x"]) false) in
  snd (dstep cfg_p s1 (DUpdate "p" ["a"; "x"] ["a"; "x"]) false) = DFlag true false.
Proof. vm_compute. reflexivity. Qed.

(* F08: UpdatePolicySelf(A -> B) with B listed lists B twice; RemovePoliciesSelf([B]) then
   reports B as removed although B is still listed, and reports it again when replayed *)
Lemma update_to_listed_refuted :
  let s1 := fst (dstep cfg_p s_ab (DUpdate "p" ["a"; "x"] ["b"; "y"]) false) in
  let r2 := dstep cfg_p s1 (DRemove "p" [["b"; "y"]]) false in
  let r3 := dstep cfg_p (fst r2) (DRemove "p" [["b"; "y"]]) false in
  pol (get_store s1 "p") = [["b"; "y"]; ["b"; "y"]] /\
  snd r2 = DRules [["b"; "y"]] false /\ pol (get_store (fst r2) "p") = [["b"; "y"]] /\
  snd r3 = DRules [["b"; "y"]] false.
Proof. vm_compute. repeat split; reflexivity. Qed.

(* an empty batch update reports true on every replay *)
Lemma update_many_empty_refuted :
  let s1 := fst (dstep cfg_p s_ab (DUpdateMany "p" [] []) false) in
  snd (dstep cfg_p s1 (DUpdateMany "p" [] []) false) = DFlag true false.
Proof. vm_compute. reflexivity. Qed.

(* a call on a policy type the model does not define fails every time (and changes nothing) *)
Lemma unknown_type_refuted :
  let r1 := dstep cfg_p s_ab (DAdd "q" [["a"; "x"]]) false in
  snd r1 = DRules [] true /\ snd (dstep cfg_p (fst r1) (DAdd "q" [["a"; "x"]]) false) = DRules [] true.
Proof. vm_compute. split; reflexivity. Qed.

(* F09 family: UpdateFilteredPoliciesSelf takes its old rules from the adapter.  A replica that
   does not persist has none: it ADDS the new rule next to the one it should replace and reports
   false, while a persisting replica in sync with its adapter replaces it and reports true — the
   replicas diverge.  This is why replicas_agree excludes this call. *)
Lemma update_filtered_diverges_refuted :
  let s0 := fst (dstep cfg_p (init_state cfg_p false false WNone []) (DAdd "p" [["a"; "x"]]) true) in
  let op := DUpdateFiltered "p" [["a"; "z"]] 0 ["a"] in
  snd (dstep cfg_p s0 op true) = DFlag true false /\
  pol (get_store (fst (dstep cfg_p s0 op true)) "p") = [["a"; "z"]] /\
  snd (dstep cfg_p s0 op false) = DFlag false false /\
  pol (get_store (fst (dstep cfg_p s0 op false)) "p") = [["a"; "x"]; ["a"; "z"]].
Proof. vm_compute. repeat split; reflexivity. Qed.

(* ================= 13. every log: replicas with different persist predicates ================= *)
Lemma dguards_no_filtered cfg : forall log s, dguards cfg s log -> no_filtered (map fst log).
Proof.
  induction log as [|[op p] t IH]; intros s G; cbn [map fst no_filtered]; [exact I|]. destruct G as [G1 G2].
  split; [destruct op; cbn [not_filtered dop_ok] in *; auto|]. apply (IH _ G2).
Qed.

Theorem replicas_all_logs cfg log1 log2 s1 s2 :
  map fst log1 = map fst log2 -> same_mem s1 s2 -> fail_in (ad s1) = None -> fail_in (ad s2) = None ->
  MInv cfg s1 -> dguards cfg s1 log1 ->
  snd (drun cfg s1 log1) = snd (drun cfg s2 log2) /\
  same_mem (fst (drun cfg s1 log1)) (fst (drun cfg s2 log2)) /\
  MInv cfg (fst (drun cfg s1 log1)) /\ MInv cfg (fst (drun cfg s2 log2)).
Proof.
  intros Hm Sm F1 F2 M G.
  destruct (replicas_agree_log cfg log1 log2 s1 s2 Hm (dguards_no_filtered cfg log1 s1 G) Sm F1 F2) as [S R].
  pose proof (drun_MInv cfg log1 s1 M G) as M1.
  split; [exact R|]. split; [exact S|]. split; [exact M1|]. apply (MInv_same_mem cfg _ _ S M1).
Qed.

(* non-vacuity: an RBAC configuration; a log with an overlapping batch that repeats a rule, a
   replayed entry, an update, a filtered removal and ClearPolicySelf (the witness of F02) is
   inside the guards; two replicas with opposite persist decisions are computed *)
Definition cfg_rbac : mconf :=
  [("g", {| a_is_g := true; a_arity := 2; a_prio := None |});
   ("p", {| a_is_g := false; a_arity := 3; a_prio := None |})].
Definition ex_ops : list dop :=
  [DAdd "g" [["alice"; "admin"]; ["bob"; "admin"]; ["alice"; "admin"]];
   DAdd "g" [["bob"; "admin"]; ["admin"; "root"]];
   DAdd "g" [["bob"; "admin"]; ["admin"; "root"]];
   DAdd "p" [["root"; "data1"; "read"]];
   DUpdate "g" ["bob"; "admin"] ["bob"; "root"];
   DRemoveFiltered "g" 0 ["alice"]].
Definition ex_log (p : bool) : list (dop * bool) := map (fun o => (o, p)) ex_ops.
Definition ex_s0 : mstate := init_state cfg_rbac false false WNone [].

Lemma example_guards : dguards cfg_rbac ex_s0 (ex_log true).
Proof.
  assert (RK : forall rs, Forall (fun r => wf_rule r = true /\ List.length r = 2) rs ->
               rules_ok {| a_is_g := true; a_arity := 2; a_prio := None |} rs).
  { intros rs H. split; [eapply Forall_impl; [|exact H]; cbn; tauto|]. intros _ r Hr.
    eapply Forall_forall in H; [|exact Hr]. apply H. }
  cbn [ex_log ex_ops map dguards].
  split; [intros d Hd; vm_compute in Hd; inversion Hd; subst; apply RK; repeat constructor|].
  split; [intros d Hd; vm_compute in Hd; inversion Hd; subst; apply RK; repeat constructor|].
  split; [intros d Hd; vm_compute in Hd; inversion Hd; subst; apply RK; repeat constructor|].
  split; [intros d Hd; vm_compute in Hd; inversion Hd; subst; split; [repeat constructor|]; intros H; discriminate|].
  split; [intros d Hd; vm_compute in Hd; inversion Hd; subst; split; [apply RK; repeat constructor|];
          right; vm_compute; intros [H|[H|[H|[]]]]; discriminate|].
  split; [|exact I].
  vm_compute. intros r [<-|[<-|[<-|[]]]]; discriminate.
Qed.

Lemma example_results :
  snd (drun cfg_rbac ex_s0 (ex_log true)) =
    [DRules [["alice"; "admin"]; ["bob"; "admin"]] false; DRules [["admin"; "root"]] false; DRules [] false;
     DRules [["root"; "data1"; "read"]] false; DFlag true false; DRules [["alice"; "admin"]] false] /\
  snd (drun cfg_rbac ex_s0 (ex_log false)) = snd (drun cfg_rbac ex_s0 (ex_log true)) /\
  listed cfg_rbac (fst (drun cfg_rbac ex_s0 (ex_log true))) =
    [("g", [["bob"; "root"]; ["admin"; "root"]]); ("p", [["root"; "data1"; "read"]])] /\
  decide_rbac (fst (drun cfg_rbac ex_s0 (ex_log false))) "bob" "data1" "read" = true /\
  alog (ad (fst (drun cfg_rbac ex_s0 (ex_log false)))) = [] /\
  List.length (alog (ad (fst (drun cfg_rbac ex_s0 (ex_log true))))) = 6.
Proof. vm_compute. repeat split; reflexivity. Qed.

(* the witness of F02: a grouping rule added, then ClearPolicySelf — no link survives *)
Lemma example_clear :
  let s1 := fst (drun cfg_rbac ex_s0 [(DAdd "g" [["alice"; "admin"]], true); (DClear, false)]) in
  listed cfg_rbac s1 = [("g", []); ("p", [])] /\ has_link (get_links s1 "g") "alice" "admin" "" = false.
Proof. vm_compute. split; reflexivity. Qed.

Lemma example_init : MInv cfg_rbac ex_s0.
Proof.
  apply init_MInv. intros pt d Hd Hg. unfold def_of, cfg_rbac in Hd. cbn [lookup] in Hd.
  destruct (String.eqb pt "g"); [inversion Hd; subst; left; reflexivity|].
  destruct (String.eqb pt "p"); [inversion Hd; subst; discriminate Hg|discriminate].
Qed.

(* ================= 14. the *Self calls notify nobody =================
   Frame: a *Self call changes stores, links, the matcher-cache counter and (when asked) the
   adapter — nothing else: no watcher callback, no flag.  (enforcer_distributed.go never calls
   e.watcher / e.dispatcher; the ordinary API does both in internal_api.go.) *)
Definition notif (s : mstate) := (autosave s, autonotify s, watcher s, wlog s).

Lemma links_update_notif d s pt b rs : notif (fst (links_update d s pt b rs)) = notif s.
Proof. unfold links_update. destruct (build_incremental _ _ _ _). reflexivity. Qed.

Lemma one_link_notif d s pt b rs (k : bool -> dres) :
  notif (fst (let '(s3, lok) := links_update d s pt b rs in (s3, k lok))) = notif s.
Proof.
  pose proof (links_update_notif d s pt b rs) as H. destruct (links_update d s pt b rs) as [s3 lok]. exact H.
Qed.

Lemma two_links_notif d s pt R A :
  notif (fst (let '(s3, lok1) := links_update d s pt false R in
              if negb lok1 then (s3, DFlag true true)
              else let '(s4, lok2) := links_update d s3 pt true A in (s4, DFlag true (negb lok2)))) = notif s.
Proof.
  pose proof (links_update_notif d s pt false R) as H1.
  destruct (links_update d s pt false R) as [s3 lok1]. cbn [fst] in H1. destruct lok1; cbn [negb]; [|exact H1].
  pose proof (links_update_notif d s3 pt true A) as H2.
  destruct (links_update d s3 pt true A) as [s4 lok2]. cbn [fst] in *. congruence.
Qed.

Lemma self_mem_notif cfg s op old : notif (fst (self_mem cfg s op old)) = notif s.
Proof.
  destruct op as [pt rs|pt rs|pt fi fvs| |pt o n|pt os ns|pt ns fi fvs]; cbn [self_mem];
    try (destruct (def_of cfg pt) as [d|]; [|reflexivity]).
  - unfold add_mem. destruct (add_many _ _ _) as [st' aff]. destruct (a_is_g d); [|reflexivity].
    apply (one_link_notif d (with_store s pt st') pt true aff (fun lok => DRules aff (negb lok))).
  - unfold remove_mem. destruct (remove_many _ _) as [st' aff]. destruct (a_is_g d); [|reflexivity].
    apply (one_link_notif d (with_store s pt st') pt false aff (fun lok => DRules aff (negb lok))).
  - unfold remove_filtered_mem. destruct (remove_filtered _ _ _) as [[[st' b] eff]|]; [|reflexivity].
    destruct (a_is_g d); [|reflexivity].
    apply (one_link_notif d (with_store s pt st') pt false eff (fun lok => DRules eff (negb lok))).
  - reflexivity.
  - unfold update_mem. destruct (update _ _ _) as [st' u]. destruct u; cbn [negb]; [|reflexivity].
    destruct (a_is_g d); [|reflexivity]. apply (two_links_notif d (with_store s pt st') pt [o] [n]).
  - unfold update_many_mem. destruct (update_many _ _ _) as [st' u]. destruct u; cbn [negb]; [|reflexivity].
    destruct (Nat.ltb _ _); [reflexivity|].
    destruct (a_is_g d); [|reflexivity]. apply (two_links_notif d (with_store s pt st') pt os ns).
  - unfold update_filtered_mem. destruct (remove_many _ _) as [st1 aff]. destruct (add_many _ _ _) as [st2 x].
    destruct (negb _); [reflexivity|].
    destruct (a_is_g d); [|reflexivity]. apply (two_links_notif d (with_store s pt st2) pt old ns).
Qed.

(* every call, any persist decision, failing adapter or not, inside or outside the guards *)
Theorem self_notifies_nobody cfg s op p :
  let s' := fst (dstep cfg s op p) in
  wlog s' = wlog s /\ watcher s' = watcher s /\ autonotify s' = autonotify s /\ autosave s' = autosave s.
Proof.
  assert (H : notif (fst (dstep cfg s op p)) = notif s).
  { rewrite dstep_factor. destruct (if p then self_call cfg s op else None) as [c|]; [|apply self_mem_notif].
    destruct (adapter_call (ad s) c) as [[a ok] old]. destruct ok; [|reflexivity].
    rewrite self_mem_notif. reflexivity. }
  unfold notif in H. cbn zeta. inversion H. auto.
Qed.

(* ================= 15. ... and never their own dispatcher =================
   Dist.replica carries the calls made on the replica's own dispatcher; rstep is dstep on the
   enforcer part: whatever the log, the persist decisions, the adapter failures and whether a
   dispatcher is set, the dispatcher sees no call, and results and enforcer state are those of the
   replica without dispatcher.  (True by the shape of the model — which is the point: the Go text
   it follows has no branch on d.dispatcher; the harness replica wired with SetDispatcher ties the
   code to it.) *)
Theorem self_dispatcher_free cfg : forall log r,
  rep_disp (fst (rrun cfg r log)) = rep_disp r /\
  rep_m (fst (rrun cfg r log)) = fst (drun cfg (rep_m r) log) /\
  snd (rrun cfg r log) = snd (drun cfg (rep_m r) log).
Proof.
  induction log as [|[op p] t IH]; intros r; cbn [rrun drun]; [repeat split; reflexivity|].
  unfold rstep. destruct (dstep cfg (rep_m r) op p) as [m x] eqn:E.
  specialize (IH {| rep_m := m; rep_disp := rep_disp r |}). cbn [rep_m rep_disp] in IH.
  destruct (rrun cfg {| rep_m := m; rep_disp := rep_disp r |} t) as [r2 xs].
  destruct (drun cfg m t) as [s2 ys]. cbn [fst snd] in *. destruct IH as (H1 & H2 & H3).
  repeat split; [exact H1|exact H2|rewrite H3; reflexivity].
Qed.

(* a replica wired to a dispatcher and one that is not (any persist predicates) agree on every log *)
Theorem wired_replica_agrees cfg log1 log2 r1 r2 :
  map fst log1 = map fst log2 -> no_filtered (map fst log1) ->
  same_mem (rep_m r1) (rep_m r2) -> fail_in (ad (rep_m r1)) = None -> fail_in (ad (rep_m r2)) = None ->
  same_mem (rep_m (fst (rrun cfg r1 log1))) (rep_m (fst (rrun cfg r2 log2))) /\
  snd (rrun cfg r1 log1) = snd (rrun cfg r2 log2) /\
  rep_disp (fst (rrun cfg r1 log1)) = rep_disp r1 /\ rep_disp (fst (rrun cfg r2 log2)) = rep_disp r2.
Proof.
  intros Hl Hn Sm F1 F2.
  destruct (self_dispatcher_free cfg log1 r1) as (D1 & M1 & X1).
  destruct (self_dispatcher_free cfg log2 r2) as (D2 & M2 & X2).
  destruct (replicas_agree_log cfg log1 log2 (rep_m r1) (rep_m r2) Hl Hn Sm F1 F2) as [A B].
  rewrite M1, M2, X1, X2. auto.
Qed.

(* ================= 16. a policy type with a priority column stays sorted =================
   model.AddPolicy inserts a rule with a numeric priority behind the last listed rule whose
   priority is not greater (Store.add / spec_insert; PriorityProofs.insert_sorted), removals keep
   the order of what stays, an update replaces in place: with numeric priorities everywhere and
   updates that keep the priority, the listing of the type is sorted after every *Self call. *)
Definition dprio_ok (c : nat) (pt : string) (op : dop) : Prop :=
  match op with
  | DAdd pt' rs => pt' = pt -> Forall (num_rule c) rs
  | DRemove _ _ | DRemoveFiltered _ _ _ | DClear => True
  | DUpdate pt' o n => pt' = pt -> num_rule c n /\ pv c o = pv c n
  | DUpdateMany pt' os ns => pt' = pt -> Forall (num_rule c) ns /\ map (pv c) os = map (pv c) ns
  | DUpdateFiltered _ _ _ _ => False
  end.

Lemma untouched_sorted c s s' pt pt' : others_untouched s s' pt' -> pt <> pt' ->
  SortedNum c (pol (get_store s pt)) -> SortedNum c (pol (get_store s' pt)).
Proof. intros O Hne H. rewrite (proj1 (O pt Hne)). exact H. Qed.

Lemma self_mem_undefined cfg s op old pt' :
  match op with
  | DAdd p _ | DRemove p _ | DRemoveFiltered p _ _ | DUpdate p _ _ | DUpdateMany p _ _ | DUpdateFiltered p _ _ _ => p = pt'
  | DClear => False
  end -> def_of cfg pt' = None -> fst (self_mem cfg s op old) = s.
Proof. destruct op; cbn [self_mem]; intros E H; try contradiction; subst; rewrite H; reflexivity. Qed.

Theorem self_keeps_priority_order cfg s op p pt d c :
  MInv cfg s -> dop_ok cfg s op -> call_ok s p -> def_of cfg pt = Some d -> a_prio d = Some c ->
  dprio_ok c pt op -> SortedNum c (pol (get_store s pt)) ->
  SortedNum c (pol (get_store (fst (dstep cfg s op p)) pt)).
Proof.
  intros M G Hok Hd Hc Hp Hs.
  (* an operation on another policy type *)
  assert (Other : forall pt', pt' <> pt ->
            match op with
            | DAdd q _ | DRemove q _ | DRemoveFiltered q _ _ | DUpdate q _ _ | DUpdateMany q _ _ | DUpdateFiltered q _ _ _ => q = pt'
            | DClear => False
            end -> (forall d', def_of cfg pt' = Some d' -> others_untouched s (fst (dstep cfg s op p)) pt') ->
            SortedNum c (pol (get_store (fst (dstep cfg s op p)) pt))).
  { intros pt' Hne Hop Hex. destruct (def_of cfg pt') as [d'|] eqn:Hd'.
    - apply (untouched_sorted c s _ pt pt' (Hex d' eq_refl)); [congruence|exact Hs].
    - destruct (dstep_mem cfg s op p Hok) as (s1 & old & Sm & E & _). rewrite E.
      rewrite (self_mem_undefined cfg s1 op old pt' Hop Hd'). rewrite (proj1 Sm pt). exact Hs. }
  destruct op as [q rs|q rs|q fi fvs| |q o n|q os ns|q ns fi fvs]; cbn [dop_ok dprio_ok] in G, Hp.
  - (* AddPoliciesSelf *)
    destruct (String.eqb q pt) eqn:Eq; [apply String.eqb_eq in Eq; subst q|apply String.eqb_neq in Eq].
    + destruct (dstep_mem cfg s (DAdd pt rs) p Hok) as (s1 & old & Sm & E & _). rewrite E. cbn [self_mem]. rewrite Hd.
      pose proof (MInv_same_mem cfg s s1 Sm M) as M1.
      destruct (add_mem_spec cfg s1 pt d rs M1 Hd (G d Hd)) as (st' & _ & Pp & _ & Mc).
      destruct (mem_change_at _ _ _ _ _ Mc) as (Es & _ & _). rewrite Es, Pp, (proj1 Sm pt), Hc.
      apply SortedNum_add_many; [exact Hs|exact (Hp eq_refl)].
    + apply (Other q Eq eq_refl). intros d' Hd'.
      apply (add_self_exact cfg s p q d' rs M Hd' (G d' Hd') Hok).
  - (* RemovePoliciesSelf *)
    destruct (String.eqb q pt) eqn:Eq; [apply String.eqb_eq in Eq; subst q|apply String.eqb_neq in Eq].
    + destruct (remove_self_exact cfg s p pt d rs M Hd G Hok) as (_ & Pl & _). rewrite Pl.
      apply SortedNum_filter, Hs.
    + apply (Other q Eq eq_refl). intros d' Hd'. apply (remove_self_exact cfg s p q d' rs M Hd' G Hok).
  - (* RemoveFilteredPolicySelf *)
    destruct (String.eqb q pt) eqn:Eq; [apply String.eqb_eq in Eq; subst q|apply String.eqb_neq in Eq].
    + destruct (remove_filtered_self_exact cfg s p pt d fi fvs M Hd G Hok) as (_ & Pl & _). rewrite Pl.
      apply SortedNum_filter, Hs.
    + apply (Other q Eq eq_refl). intros d' Hd'. apply (remove_filtered_self_exact cfg s p q d' fi fvs M Hd' G Hok).
  - (* ClearPolicySelf *)
    destruct (clear_self cfg s p Hok) as [_ H]. rewrite (proj1 (H pt)). split; constructor.
  - (* UpdatePolicySelf *)
    destruct (String.eqb q pt) eqn:Eq; [apply String.eqb_eq in Eq; subst q|apply String.eqb_neq in Eq].
    + destruct (G d Hd) as [Rk Hl]. destruct (Hp eq_refl) as [Hn Hv].
      destruct (update_self_exact cfg s p pt d o n M Hd Rk Hl Hok) as (_ & Pl & _). rewrite Pl.
      apply SortedNum_replace; assumption.
    + apply (Other q Eq eq_refl). intros d' Hd'. destruct (G d' Hd') as [Rk Hl].
      apply (update_self_exact cfg s p q d' o n M Hd' Rk Hl Hok).
  - (* UpdatePoliciesSelf *)
    destruct (String.eqb q pt) eqn:Eq; [apply String.eqb_eq in Eq; subst q|apply String.eqb_neq in Eq].
    + destruct (G d Hd) as (Ro & Rn & Len & Hcase). destruct (Hp eq_refl) as [Hn Hv].
      destruct Hcase as [(o & os' & -> & Hmiss)|(ND & Hnl & Hno)].
      * (* the first old rule is not listed: nothing happens *)
        destruct ns as [|n ns']; [discriminate|].
        destruct (dstep_mem cfg s (DUpdateMany pt (o :: os') (n :: ns')) p Hok) as (s1 & old & Sm & E & _).
        rewrite E. cbn [self_mem]. rewrite Hd.
        pose proof (MInv_same_mem cfg s s1 Sm M) as M1.
        assert (Wo : wf_rule o = true) by (destruct Ro as [W _]; inversion W; assumption).
        rewrite <- (proj1 Sm pt) in Hmiss.
        rewrite (update_many_mem_missing cfg s1 pt d o os' n ns' M1 Wo Hmiss).
        cbn [fst]. rewrite (proj1 (with_store_same s1 pt) pt), (proj1 Sm pt). exact Hs.
      * pose proof (update_many_self_exact cfg s p pt d os ns M Hd Ro Rn Len ND Hnl Hno Hok) as [H _].
        cbn zeta in H. destruct (spec_update_many (pol (get_store s pt)) os ns) as [l'|] eqn:Es.
        -- destruct H as (_ & Pl & _). rewrite Pl. eapply SortedNum_update_many; eassumption.
        -- destruct H as (_ & Pl). rewrite Pl. exact Hs.
    + apply (Other q Eq eq_refl). intros d' Hd'. destruct (G d' Hd') as (Ro & Rn & Len & Hcase).
      destruct Hcase as [(o & os' & -> & Hmiss)|(ND & Hnl & Hno)].
      * destruct ns as [|n ns']; [discriminate|].
        destruct (dstep_mem cfg s (DUpdateMany q (o :: os') (n :: ns')) p Hok) as (s1 & old & Sm & E & _).
        rewrite E. cbn [self_mem]. rewrite Hd'.
        pose proof (MInv_same_mem cfg s s1 Sm M) as M1.
        assert (Wo : wf_rule o = true) by (destruct Ro as [W _]; inversion W; assumption).
        rewrite <- (proj1 Sm q) in Hmiss.
        rewrite (update_many_mem_missing cfg s1 q d' o os' n ns' M1 Wo Hmiss).
        intros pt' Hne. cbn [fst]. destruct (with_store_same s1 q) as [W1 W2].
        rewrite (W1 pt'), (W2 pt'), (proj1 Sm pt'), (proj2 Sm pt'). auto.
      * apply (update_many_self_exact cfg s p q d' os ns M Hd' Ro Rn Len ND Hnl Hno Hok).
  - contradiction.
Qed.

(* every guarded log: the type stays sorted on every replica *)
Fixpoint dprio_oks (c : nat) (pt : string) (log : list (dop * bool)) : Prop :=
  match log with [] => True | (op, _) :: t => dprio_ok c pt op /\ dprio_oks c pt t end.

Theorem drun_keeps_priority_order cfg pt d c : forall log s,
  def_of cfg pt = Some d -> a_prio d = Some c ->
  MInv cfg s -> fail_in (ad s) = None -> dguards cfg s log -> dprio_oks c pt log ->
  SortedNum c (pol (get_store s pt)) -> SortedNum c (pol (get_store (fst (drun cfg s log)) pt)).
Proof.
  induction log as [|[op p] t IH]; intros s Hd Hc M F G P Hs; cbn [drun fst]; [exact Hs|].
  destruct G as [G1 G2]. destruct P as [P1 P2].
  assert (Hok : call_ok s p) by (intros _; rewrite F; discriminate).
  pose proof (dstep_MInv cfg s op p M G1) as M1.
  pose proof (dstep_nofail cfg s op p F) as F1.
  pose proof (self_keeps_priority_order cfg s op p pt d c M G1 Hok Hd Hc P1 Hs) as S1.
  destruct (dstep cfg s op p) as [s1 r1]. cbn [fst] in *.
  specialize (IH s1 Hd Hc M1 F1 G2 P2 S1). destruct (drun cfg s1 t). exact IH.
Qed.

(* ---------- non-vacuity of 15 and 16: a priority model, a replica wired to a dispatcher ----------
   p = priority, sub, obj, act, eft.  Rules inserted in front of listed ones, behind a tie, the rule
   that sorts last removed (and removed again), a rule replaced by one of the same priority: the
   log is inside the guards, every call keeps the priorities numeric, the listing stays sorted. *)
Definition cfg_prio : mconf :=
  [("g", {| a_is_g := true; a_arity := 2; a_prio := None |});
   ("p", {| a_is_g := false; a_arity := 5; a_prio := Some 0 |})].
Definition pr_ops : list dop :=
  [DAdd "p" [["10"; "alice"; "data1"; "read"; "allow"]; ["20"; "root"; "data2"; "write"; "deny"]];
   DAdd "p" [["1"; "alice"; "data2"; "write"; "deny"]; ["10"; "bob"; "data2"; "write"; "allow"]];
   DRemove "p" [["20"; "root"; "data2"; "write"; "deny"]];
   DRemove "p" [["20"; "root"; "data2"; "write"; "deny"]];
   DAdd "g" [["bob"; "alice"]];
   DUpdate "p" ["1"; "alice"; "data2"; "write"; "deny"] ["1"; "alice"; "data1"; "read"; "deny"]].
Definition pr_log (p : bool) : list (dop * bool) := map (fun o => (o, p)) pr_ops.
Definition pr_s0 : mstate := init_state cfg_prio false false WNone [].

Lemma prio_example_init : MInv cfg_prio pr_s0.
Proof.
  apply init_MInv. intros pt d Hd Hg. unfold def_of, cfg_prio in Hd. cbn [lookup] in Hd.
  destruct (String.eqb pt "g"); [inversion Hd; subst; left; reflexivity|].
  destruct (String.eqb pt "p"); [inversion Hd; subst; discriminate Hg|discriminate].
Qed.

Lemma prio_example_guards : dguards cfg_prio pr_s0 (pr_log true) /\ dprio_oks 0 "p" (pr_log true).
Proof.
  assert (RP : forall d rs, def_of cfg_prio "p" = Some d -> Forall (fun r => wf_rule r = true) rs -> rules_ok d rs).
  { intros d rs Hd H. vm_compute in Hd. inversion Hd; subst. split; [exact H|]. intros Hg; discriminate Hg. }
  split.
  - cbn [pr_log pr_ops map dguards].
    split; [intros d Hd; apply RP; [exact Hd|repeat constructor]|].
    split; [intros d Hd; apply RP; [exact Hd|repeat constructor]|].
    split; [repeat constructor|].
    split; [repeat constructor|].
    split; [intros d Hd; vm_compute in Hd; inversion Hd; subst; split; [repeat constructor|];
            intros _ r [<-|[]]; reflexivity|].
    split; [|exact I].
    intros d Hd. split; [apply RP; [exact Hd|repeat constructor]|].
    right. vm_compute. intros [H|[H|[H|[]]]]; discriminate.
  - cbn [pr_log pr_ops map dprio_oks dprio_ok].
    repeat split; try (intros E; discriminate E); try exact I;
      repeat constructor; unfold num_rule; vm_compute; discriminate.
Qed.

Lemma prio_example_results :
  snd (drun cfg_prio pr_s0 (pr_log true)) =
    [DRules [["10"; "alice"; "data1"; "read"; "allow"]; ["20"; "root"; "data2"; "write"; "deny"]] false;
     DRules [["1"; "alice"; "data2"; "write"; "deny"]; ["10"; "bob"; "data2"; "write"; "allow"]] false;
     DRules [["20"; "root"; "data2"; "write"; "deny"]] false; DRules [] false;
     DRules [["bob"; "alice"]] false; DFlag true false] /\
  pol (get_store (fst (drun cfg_prio pr_s0 (pr_log false))) "p") =
    [["1"; "alice"; "data1"; "read"; "deny"]; ["10"; "alice"; "data1"; "read"; "allow"];
     ["10"; "bob"; "data2"; "write"; "allow"]] /\
  (* bob inherits alice's rules: the deny of priority 1 wins over the allow of priority 10 *)
  decide_priority (fst (drun cfg_prio pr_s0 (pr_log false))) "bob" "data1" "read" = Some false /\
  decide_priority (fst (drun cfg_prio pr_s0 (pr_log false))) "bob" "data2" "write" = Some true /\
  (* a replica wired to a dispatcher: same results, the dispatcher saw no call *)
  snd (rrun cfg_prio {| rep_m := pr_s0; rep_disp := Some [] |} (pr_log false)) = snd (drun cfg_prio pr_s0 (pr_log true)) /\
  rep_disp (fst (rrun cfg_prio {| rep_m := pr_s0; rep_disp := Some [] |} (pr_log false))) = Some [].
Proof. vm_compute. repeat split; reflexivity. Qed.
