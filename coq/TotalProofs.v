(* TotalProofs.v — the lemmas behind Properties/C03.v ("enforcement and loading are total and
   fail closed").  Four parts:
     A. loading: the csv field loop never runs out of its fuel; LoadPolicyLine is total and
        changes the store by at most one rule of a declared type and arity; the loops of the
        file adapter (stop at the first rejected line / at a line the Scanner cannot hold) and
        of the string adapter (rejected lines dropped) keep everything loaded before;
        Enforcer.LoadPolicy on top (subject-hierarchy check terminates);
     B. enforce: every way the body can end (value, returned error, panic of any modelled
        partial operation) is a proper outcome at the API and fails closed, class by class;
     C. eval(): every chain of nested eval() calls that never bottoms out (self-referential
        rules, mutually referential rules, infinite tables) is the nesting error, for every
        parse table;
     D. the four entry points. *)
From Coq Require Import List String Ascii Bool Arith ZArith Lia.
Import ListNotations.
From Casbin Require Import Csv CsvProofs Filter FilterProofs Priority PriorityProofs Total.
From Casbin Require Import Base Roles RolesProofs Effect EffectProofs Expr Enforce EnforceProofs.
Local Open Scope string_scope.
Local Open Scope list_scope.

(* Both Csv and Expr have constructors called Ok / Err: here the bare names are Expr's, the
   csv side is always written Csv.Ok / Csv.Err. *)

(* ====================================================================================== *)
(* A. loading                                                                             *)
(* ====================================================================================== *)

(* ---------- A.1 the field loop and its fuel ---------- *)
Lemma qcons_more a q f r : qcons a q = QMore f r -> exists f', q = QMore f' r.
Proof. destruct q; cbn [qcons]; intros H; inversion H; subst. eexists; reflexivity. Qed.

Lemma quoted_more_length_aux n : forall s f r,
  String.length s <= n -> quoted s = QMore f r -> String.length r < String.length s.
Proof.
  induction n as [|n IH]; intros s f r Hn H.
  - destruct s; [discriminate H|cbn [String.length] in Hn; lia].
  - destruct s as [|a s']; [discriminate H|]. cbn [quoted] in H. cbn [String.length] in *.
    destruct (Ascii.eqb a c_quote).
    + destruct s' as [|b s'']; [discriminate H|]. cbn [String.length] in *.
      destruct (Ascii.eqb b c_quote).
      * apply qcons_more in H. destruct H as [f' H]. apply IH in H; lia.
      * destruct (Ascii.eqb b c_comma); [|discriminate H]. inversion H; subst. lia.
    + apply qcons_more in H. destruct H as [f' H]. apply IH in H; lia.
Qed.

Lemma quoted_more_length s f r : quoted s = QMore f r -> String.length r < String.length s.
Proof. apply (quoted_more_length_aux (String.length s)). lia. Qed.

(* Csv.fields is fields_i with the fuel exhaustion read as an error ... *)
Lemma fields_i_erase n : forall line, fields n line = erase (fields_i n line).
Proof.
  induction n as [|n IH]; intros line; cbn [fields fields_i erase]; [reflexivity|].
  destruct (starts_with c_quote (Csv.trim_left line)).
  - destruct (Csv.trim_left line) as [|q rest]; [reflexivity|].
    destruct (quoted rest) as [|f|f r]; try reflexivity.
    rewrite IH. destruct (fields_i n r); reflexivity.
  - destruct (break_comma (Csv.trim_left line)) as [f m].
    destruct (has_char c_quote f); [reflexivity|].
    destruct m as [r|]; [|reflexivity].
    rewrite IH. destruct (fields_i n r); reflexivity.
Qed.

(* ... and the exhaustion never happens once the fuel exceeds the length of the line: every
   field but the last consumes at least its comma *)
Lemma fields_i_fuel n : forall line, String.length line < n -> fields_i n line <> FFuel.
Proof.
  induction n as [|n IH]; intros line Hl; [lia|]. cbn [fields_i].
  pose proof (trim_left_length line) as Ht.
  destruct (starts_with c_quote (Csv.trim_left line)).
  - destruct (Csv.trim_left line) as [|q rest] eqn:El; [discriminate|].
    destruct (quoted rest) as [|f|f r] eqn:Eq; try discriminate.
    apply quoted_more_length in Eq. cbn [String.length] in Ht.
    specialize (IH r ltac:(lia)). destruct (fields_i n r); try discriminate. congruence.
  - destruct (break_comma (Csv.trim_left line)) as [f m] eqn:B.
    destruct (has_char c_quote f); [discriminate|].
    destruct m as [r|]; [|discriminate].
    apply break_comma_length in B.
    specialize (IH r ltac:(lia)). destruct (fields_i n r); try discriminate. congruence.
Qed.

(* the result does not depend on the fuel once it exceeds the length of the line *)
Lemma fields_fuel_irrelevant n : forall m line,
  String.length line < n -> String.length line < m -> fields n line = fields m line.
Proof.
  induction n as [|n IH]; intros m line Hn Hm; [lia|]. destruct m as [|m]; [lia|].
  cbn [fields].
  pose proof (trim_left_length line) as Ht.
  destruct (starts_with c_quote (Csv.trim_left line)).
  - destruct (Csv.trim_left line) as [|q rest] eqn:El; [reflexivity|].
    destruct (quoted rest) as [|f|f r] eqn:Eq; try reflexivity.
    apply quoted_more_length in Eq. cbn [String.length] in Ht.
    rewrite (IH m r) by lia. reflexivity.
  - destruct (break_comma (Csv.trim_left line)) as [f mm] eqn:B.
    destruct (has_char c_quote f); [reflexivity|].
    destruct mm as [r|]; [|reflexivity].
    apply break_comma_length in B. rewrite (IH m r) by lia. reflexivity.
Qed.

Lemma drop_last_length s : String.length (drop_last s) <= String.length s.
Proof.
  induction s as [|a s IH]; [cbn; lia|]. destruct s as [|b s']; [cbn; lia|].
  change (drop_last (String a (String b s'))) with (String a (drop_last (String b s'))).
  cbn [String.length] in *. lia.
Qed.

(* csv.Reader.Read as modelled = the instrumented reader with any fuel above the length *)
Lemma read_record_erase s n : String.length s < n -> read_record s = erase (read_record_i n s).
Proof.
  intros Hn. unfold read_record, read_record_i. destruct s as [|a s']; [reflexivity|].
  set (line := if ends_with c_cr (String a s') then drop_last (String a s') else String a s').
  assert (Hl : String.length line <= String.length (String a s')).
  { unfold line. destruct (ends_with c_cr (String a s')); [apply drop_last_length|lia]. }
  destruct (starts_with c_hash line); [reflexivity|].
  destruct line as [|b l'] eqn:El; [reflexivity|].
  rewrite <- fields_i_erase. apply fields_fuel_irrelevant; lia.
Qed.

Lemma read_record_never_out_of_fuel s n : String.length s < n -> read_record_i n s <> FFuel.
Proof.
  intros Hn. unfold read_record_i. destruct s as [|a s']; [discriminate|].
  set (line := if ends_with c_cr (String a s') then drop_last (String a s') else String a s').
  assert (Hl : String.length line <= String.length (String a s')).
  { unfold line. destruct (ends_with c_cr (String a s')); [apply drop_last_length|lia]. }
  destruct (starts_with c_hash line); [discriminate|].
  destruct line as [|b l'] eqn:El; [discriminate|].
  apply fields_i_fuel. lia.
Qed.

(* ---------- A.2 LoadPolicyLine is total; what an accepted line does ---------- *)
(* the three ways LoadPolicyLine can end.  (A Gallina function always returns; the content is
   WHICH results are possible: an error, the untouched store, or exactly one rule appended to
   an assertion that exists, of the arity HasPolicyEx demands, not listed before.) *)
Lemma load_policy_line_cases line st :
  load_policy_line line st = Csv.Err \/
  load_policy_line line st = Csv.Ok st \/
  exists key r e,
    key <> "" /\ find_entry key st = Some e /\ arity_ok key (e_ntok e) r = true /\
    key_in r (e_rules e) = false /\ load_policy_line line st = Csv.Ok (add_rule key r st).
Proof.
  unfold load_policy_line. destruct (skip_line line); [right; left; reflexivity|].
  destruct (read_record line) as [toks|]; [|left; reflexivity].
  unfold load_policy_array. destruct toks as [|key r]; [left; reflexivity|].
  destruct (String.eqb key "") eqn:Ek; [left; reflexivity|].
  destruct (find_entry key st) as [e|] eqn:F; [|left; reflexivity].
  destruct (arity_ok key (e_ntok e) r) eqn:A; cbn [negb]; [|left; reflexivity].
  destruct (key_in r (e_rules e)) eqn:K; [right; left; reflexivity|].
  right; right. exists key, r, e. repeat split; try assumption.
  intros ->. discriminate Ek.
Qed.

(* the rule lists after add_rule: one rule appended to that type, every other type untouched *)
Lemma add_rule_effect key r st e : find_entry key st = Some e ->
  rules_of key (add_rule key r st) = rules_of key st ++ [r] /\
  (forall k', k' <> key -> rules_of k' (add_rule key r st) = rules_of k' st) /\
  same_defs st (add_rule key r st).
Proof.
  intros F. assert (Hf : find_entry key st <> None) by congruence.
  split; [|split].
  - rewrite (rules_of_add_rule key r st key Hf), String.eqb_refl. reflexivity.
  - intros k' Hk. rewrite (rules_of_add_rule key r st k' Hf).
    destruct (String.eqb_spec k' key); [contradiction|reflexivity].
  - apply add_rule_same_defs.
Qed.

(* "what was loaded before stays": same definitions, every rule list is extended at its end *)
Definition extends (st st' : store) : Prop :=
  same_defs st st' /\ forall key, exists added, rules_of key st' = rules_of key st ++ added.

Lemma extends_refl st : extends st st.
Proof. split; [apply same_defs_refl|]. intros key. exists []. symmetry. apply app_nil_r. Qed.

Lemma extends_trans a b c : extends a b -> extends b c -> extends a c.
Proof.
  intros [D1 R1] [D2 R2]. split; [eapply same_defs_trans; eauto|].
  intros key. destruct (R1 key) as [x Hx]. destruct (R2 key) as [y Hy].
  exists (x ++ y). rewrite Hy, Hx, app_assoc. reflexivity.
Qed.

Lemma load_line_extends line st st' : load_policy_line line st = Csv.Ok st' -> extends st st'.
Proof.
  intros H. destruct (load_line_spec _ _ _ H) as [D R]. split; [exact D|].
  intros key. rewrite R, add_all_firsts. eexists. reflexivity.
Qed.

Lemma try_line_extends st l : extends st (try_line st l).
Proof.
  unfold try_line. destruct (load_policy_line l st) as [st'|] eqn:E.
  - apply (load_line_extends _ _ _ E).
  - apply extends_refl.
Qed.

(* ---------- A.3 the file adapter's loop ---------- *)
(* the lines of `pre`, loaded one after the other from st, were all accepted and gave st' *)
Inductive accepted : list string -> store -> store -> Prop :=
| acc_nil st : accepted [] st st
| acc_cons l t st st1 st2 :
    load_policy_line l st = Csv.Ok st1 -> accepted t st1 st2 -> accepted (l :: t) st st2.

Lemma accepted_extends ls st st' : accepted ls st st' -> extends st st'.
Proof.
  induction 1 as [|l t st st1 st2 H _ IH]; [apply extends_refl|].
  eapply extends_trans; [apply (load_line_extends _ _ _ H)|exact IH].
Qed.

(* loadPolicyFile: the longest accepted prefix is loaded; the flag says whether that is all *)
Lemma load_lines_spec ls : forall st st' ok, load_lines ls st = (st', ok) ->
  exists pre post, ls = pre ++ post /\ accepted pre st st' /\
    (if ok then post = [] else exists l t, post = l :: t /\ load_policy_line l st' = Csv.Err).
Proof.
  induction ls as [|l t IH]; intros st st' ok E; cbn [load_lines] in E.
  - inversion E; subst. exists [], []. repeat split. constructor.
  - destruct (load_policy_line l st) as [st1|] eqn:L.
    + destruct (IH _ _ _ E) as [pre [post [Hs [Ha Hp]]]].
      exists (l :: pre), post. split; [rewrite Hs; reflexivity|]. split; [|exact Hp].
      econstructor; eassumption.
    + inversion E; subst. exists [], (l :: t). split; [reflexivity|]. split; [constructor|].
      exists l, t. split; [reflexivity|exact L].
Qed.

Lemma load_lines_extends ls st st' ok : load_lines ls st = (st', ok) -> extends st st'.
Proof.
  intros E. destruct (load_lines_spec _ _ _ _ E) as [pre [post [_ [Ha _]]]].
  apply (accepted_extends _ _ _ Ha).
Qed.

(* the same with the Scanner's token limit: the scan also stops (with an error) in front of a
   raw line of max_token bytes or more *)
Lemma scan_load_spec raws : forall st st' ok, scan_load raws st = (st', ok) ->
  exists pre post, raws = pre ++ post /\ accepted (map trim pre) st st' /\
    Forall (fun raw => String.length raw < max_token) pre /\
    (if ok then post = []
     else exists raw t, post = raw :: t /\
          (max_token <= String.length raw \/ load_policy_line (trim raw) st' = Csv.Err)).
Proof.
  induction raws as [|raw t IH]; intros st st' ok E; cbn [scan_load] in E.
  - inversion E; subst. exists [], []. repeat split; constructor.
  - destruct (Nat.leb max_token (String.length raw)) eqn:Hlen.
    + inversion E; subst. exists [], (raw :: t). repeat split; try constructor.
      exists raw, t. split; [reflexivity|]. left. apply Nat.leb_le. exact Hlen.
    + apply Nat.leb_gt in Hlen.
      destruct (load_policy_line (trim raw) st) as [st1|] eqn:L.
      * destruct (IH _ _ _ E) as [pre [post [Hs [Ha [Hf Hp]]]]].
        exists (raw :: pre), post. split; [rewrite Hs; reflexivity|].
        split; [cbn [map]; econstructor; eassumption|]. split; [constructor; assumption|exact Hp].
      * inversion E; subst. exists [], (raw :: t). repeat split; try constructor.
        exists raw, t. split; [reflexivity|]. right. exact L.
Qed.

Lemma scan_load_extends raws st st' ok : scan_load raws st = (st', ok) -> extends st st'.
Proof.
  intros E. destruct (scan_load_spec _ _ _ _ E) as [pre [post [_ [Ha _]]]].
  apply (accepted_extends _ _ _ Ha).
Qed.

(* without an over-long line the file adapter is Filter.load_lines over Filter.lines_of *)
Lemma scan_load_short raws : forall st,
  Forall (fun raw => String.length raw < max_token) raws ->
  scan_load raws st = load_lines (map trim raws) st.
Proof.
  induction raws as [|raw t IH]; intros st H; [reflexivity|].
  inversion H as [|? ? Hr Ht]; subst. cbn [scan_load map load_lines].
  replace (Nat.leb max_token (String.length raw)) with false by (symmetry; apply Nat.leb_gt; exact Hr).
  destruct (load_policy_line (trim raw) st); [apply IH; exact Ht|reflexivity].
Qed.

Lemma file_load_short text st :
  Forall (fun raw => String.length raw < max_token) (split_on c_lf text) ->
  file_load text st = load_lines (lines_of text) st.
Proof. intros H. unfold file_load, lines_of. apply scan_load_short. exact H. Qed.

(* ---------- A.4 the string adapter's loop ---------- *)
Lemma fold_try_extends ls : forall st, extends st (fold_left try_line ls st).
Proof.
  induction ls as [|l t IH]; intros st; [apply extends_refl|]. cbn [fold_left].
  eapply extends_trans; [apply try_line_extends|apply IH].
Qed.

(* every line is attempted: a rejected one leaves the store as it is, the others act exactly
   as LoadPolicyLine does; the only error is the empty text *)
Lemma string_load_spec text st :
  (text = "" /\ string_load text st = (st, false)) \/
  (text <> "" /\ string_load text st = (fold_left try_line (split_on c_lf text) st, true)).
Proof.
  unfold string_load. destruct (String.eqb_spec text "") as [->|Hne]; [left|right]; split; auto.
Qed.

Lemma string_load_extends text st st' ok : string_load text st = (st', ok) -> extends st st'.
Proof.
  unfold string_load. destruct (String.eqb text ""); intros E; inversion E; subst.
  - apply extends_refl.
  - apply fold_try_extends.
Qed.

(* when no line is rejected both adapters load the same thing (lines without outer blanks) *)
Lemma fold_try_accepted ls : forall st st', accepted ls st st' -> fold_left try_line ls st = st'.
Proof.
  induction 1 as [|l t st st1 st2 H _ IH]; [reflexivity|]. cbn [fold_left]. unfold try_line at 2.
  rewrite H. exact IH.
Qed.

(* ---------- A.5 Enforcer.LoadPolicy ---------- *)
Lemma enforcer_load_some sp st ok st' : enforcer_load sp (st, ok) = Some st' ->
  st' = st /\ ok = true /\ (sp = true -> exists m, hierarchy_map (rules_of "g" st) = HOk m).
Proof.
  unfold enforcer_load. destruct ok; cbn [negb]; [|discriminate].
  destruct sp.
  - destruct (hierarchy_map (rules_of "g" st)) as [m| |] eqn:H; try discriminate.
    intros E; inversion E; subst. repeat split. intros _. exists m. reflexivity.
  - intros E; inversion E; subst. repeat split. discriminate.
Qed.

(* the only ways a load fails: the adapter's error, or the hierarchy error (never a search
   that runs out of fuel: PriorityProofs.hierarchy_terminates) *)
Lemma enforcer_load_none sp st ok : enforcer_load sp (st, ok) = None ->
  ok = false \/ (sp = true /\ hierarchy_map (rules_of "g" st) = HErr).
Proof.
  unfold enforcer_load. destruct ok; cbn [negb]; [|left; reflexivity].
  destruct sp; [|discriminate].
  pose proof (hierarchy_terminates (rules_of "g" st)) as Ht.
  destruct (hierarchy_map (rules_of "g" st)) as [m| |]; try discriminate; [|congruence].
  intros _. right. split; reflexivity.
Qed.

(* ====================================================================================== *)
(* B. enforce: every ending of the body is a proper, fail-closed outcome                  *)
(* ====================================================================================== *)
Section EnforceTotal.
  Variable parse : string -> option expr.
  Variable oracle : string -> list string -> res.

  Notation enforce := (Enforce.enforce parse oracle).
  Notation enforce_body := (Enforce.enforce_body parse oracle).
  Notation run := (Enforce.run parse oracle).
  Notation slot := (Enforce.slot parse oracle).
  Notation eval_rule := (Enforce.eval_rule parse oracle).
  Notation eval := (Expr.eval parse oracle).

  (* ---------- B.1 the deferred recover() ---------- *)
  Lemma panic_is_caught M t rq : enforce_body M t rq = Panicked -> enforce M t rq = error_outcome.
  Proof. unfold Enforce.enforce. intros ->. reflexivity. Qed.

  Lemma returned_is_returned M t rq o : enforce_body M t rq = Done o -> enforce M t rq = o.
  Proof. unfold Enforce.enforce. intros ->. reflexivity. Qed.

  (* ---------- B.2 the only three outcomes ---------- *)
  Definition allow_outcome : outcome := {| decision := true; explain := None; failed := false |}.

  Lemma prepare_disabled M t rq : prepare parse M t rq = PDisabled <-> enabled M = false.
  Proof.
    unfold prepare. destruct (enabled M); cbn [negb]; [|split; reflexivity].
    split; [|discriminate].
    repeat match goal with
           | |- context [match ?x with _ => _ end] => destruct x
           end; discriminate.
  Qed.

  Lemma enforce_outcomes M t rq :
    enforce M t rq = error_outcome \/
    (enabled M = false /\ enforce M t rq = allow_outcome) \/
    (exists s e x, prepare parse M t rq = PReady s /\ run s = LOk e x /\
       enforce M t rq =
       {| decision := eft_eqb e Allow;
          explain := match x with
                     | Some j => if Nat.ltb j (List.length (rd_policy s)) then Some j else None
                     | None => None
                     end;
          failed := false |}).
  Proof.
    unfold Enforce.enforce, Enforce.enforce_body.
    destruct (prepare parse M t rq) as [|s| |] eqn:Hp; cbn [recover]; try (left; reflexivity).
    - right; left. split; [apply prepare_disabled in Hp; exact Hp|reflexivity].
    - destruct (run s) as [e x| |] eqn:Hr; cbn [finish recover]; try (left; reflexivity).
      right; right. exists s, e, x. split; [reflexivity|]. split; [exact Hr|reflexivity].
  Qed.

  (* an error is THE error outcome: decision false, nothing explained *)
  Lemma failed_iff_error_outcome M t rq :
    failed (enforce M t rq) = true <-> enforce M t rq = error_outcome.
  Proof.
    split; [|intros ->; reflexivity].
    destruct (enforce_outcomes M t rq) as [H|[[_ H]|[s [e [x [_ [_ H]]]]]]]; rewrite H; cbn;
      try discriminate; reflexivity.
  Qed.

  (* ---------- B.3 endings before the policy is looked at ---------- *)
  Lemma not_ready_is_error M t rq :
    enabled M = true -> (forall s, prepare parse M t rq <> PReady s) -> enforce M t rq = error_outcome.
  Proof.
    intros He Hn. unfold Enforce.enforce, Enforce.enforce_body.
    destruct (prepare parse M t rq) as [|s| |] eqn:Hp; cbn [recover]; try reflexivity.
    - apply prepare_disabled in Hp. congruence.
    - exfalso. apply (Hn s). reflexivity.
  Qed.

  (* the text enforce compiles *)
  Definition matcher_text (M : emodel) (t : string) (rq : request) : option string :=
    if String.eqb t "" then lookup (c_m (ctx_of rq)) (m_defs M) else Some (prep_matcher t).

  (* what a run that reaches the policy has established *)
  Lemma prepare_ready_inv M t rq s : prepare parse M t rq = PReady s ->
    enabled M = true /\
    exists es rtk ptk policy e,
      matcher_text M t rq = Some es /\
      lookup (c_r (ctx_of rq)) (r_defs M) = Some rtk /\
      lookup (c_p (ctx_of rq)) (p_defs M) = Some (ptk, policy) /\
      parse es = Some e /\ compile_ok (map fst (g_defs M)) (has_eval es) e = true /\
      List.length rtk = List.length (rq_vals rq) /\
      rd_ef s = lookup (c_e (ctx_of rq)) (e_defs M) /\ rd_expr s = e /\ rd_policy s = policy /\
      ptoks (rd_env s) = ptk /\ rtoks (rd_env s) = rtk /\ rvals (rd_env s) = rq_vals rq /\
      gdefs (rd_env s) = g_defs M /\ eval_in_scope (rd_env s) = has_eval es /\
      rd_has_eval s = has_eval es.
  Proof.
    unfold prepare, matcher_text, ctx_of.
    destruct (enabled M); cbn [negb]; [|discriminate].
    set (cx := match rq_ctx rq with Some c => c | None => default_ctx end).
    destruct (if String.eqb t "" then lookup (c_m cx) (m_defs M) else Some (prep_matcher t)) as [es|] eqn:Hm;
      [|discriminate].
    destruct (lookup (c_r cx) (r_defs M)) as [rtk|] eqn:Hr; [|discriminate].
    destruct (lookup (c_p cx) (p_defs M)) as [[ptk policy]|] eqn:Hpk; [|discriminate].
    destruct (parse es) as [e|] eqn:Hpe; [|discriminate].
    destruct (compile_ok (map fst (g_defs M)) (has_eval es) e) eqn:Hc; cbn [negb]; [|discriminate].
    destruct (Nat.eqb (List.length rtk) (List.length (rq_vals rq))) eqn:Hl; cbn [negb]; [|discriminate].
    intros H. inversion H; subst s; clear H. split; [reflexivity|].
    exists es, rtk, ptk, policy, e. cbn. apply Nat.eqb_eq in Hl. repeat split; auto.
  Qed.

  (* unknown EnforceContext names: m / r / p missing is a nil dereference, recovered *)
  Lemma unknown_matcher_name M rq :
    enabled M = true -> lookup (c_m (ctx_of rq)) (m_defs M) = None ->
    enforce_body M "" rq = Panicked /\ enforce M "" rq = error_outcome.
  Proof.
    intros He Hl. assert (Hb : enforce_body M "" rq = Panicked).
    { unfold Enforce.enforce_body, prepare. rewrite He. cbn [negb String.eqb].
      unfold ctx_of in Hl. rewrite Hl. reflexivity. }
    split; [exact Hb|apply panic_is_caught; exact Hb].
  Qed.

  Lemma unknown_request_name M t rq :
    enabled M = true -> lookup (c_r (ctx_of rq)) (r_defs M) = None -> enforce M t rq = error_outcome.
  Proof.
    intros He Hl. apply not_ready_is_error; [exact He|]. intros s Hp.
    destruct (prepare_ready_inv _ _ _ _ Hp) as [_ [es [rtk [ptk [pol [e [_ [Hr _]]]]]]]]. congruence.
  Qed.

  Lemma unknown_policy_name M t rq :
    enabled M = true -> lookup (c_p (ctx_of rq)) (p_defs M) = None -> enforce M t rq = error_outcome.
  Proof.
    intros He Hl. apply not_ready_is_error; [exact He|]. intros s Hp.
    destruct (prepare_ready_inv _ _ _ _ Hp) as [_ [es [rtk [ptk [pol [e [_ [_ [Hpk _]]]]]]]]]. congruence.
  Qed.

  (* a matcher text that does not compile (EnforceWithMatcher with ANY text; a stored text; a
     call of a function that is not defined, e.g. g without a role definition) *)
  Lemma matcher_not_compiled M t rq es :
    enabled M = true -> matcher_text M t rq = Some es ->
    (parse es = None \/
     exists e, parse es = Some e /\ compile_ok (map fst (g_defs M)) (has_eval es) e = false) ->
    enforce M t rq = error_outcome.
  Proof.
    intros He Hm Hbad. apply not_ready_is_error; [exact He|]. intros s Hp.
    destruct (prepare_ready_inv _ _ _ _ Hp) as [_ [es' [rtk [ptk [pol [e [Hm' [_ [_ [Hpe [Hc _]]]]]]]]]]].
    rewrite Hm in Hm'. inversion Hm'; subst es'.
    destruct Hbad as [Hn|[e' [He' Hc']]]; congruence.
  Qed.

  (* wrong number of request values *)
  Lemma wrong_request_size M t rq rtk :
    enabled M = true -> lookup (c_r (ctx_of rq)) (r_defs M) = Some rtk ->
    List.length rtk <> List.length (rq_vals rq) -> enforce M t rq = error_outcome.
  Proof.
    intros He Hl Hne. apply not_ready_is_error; [exact He|]. intros s Hp.
    destruct (prepare_ready_inv _ _ _ _ Hp) as [_ [es [rtk' [ptk [pol [e [_ [Hr [_ [_ [_ [Hlen _]]]]]]]]]]]].
    congruence.
  Qed.

  (* ---------- B.4 endings inside the policy ---------- *)
  Lemma ready_error M t rq s :
    prepare parse M t rq = PReady s -> (forall e x, run s <> LOk e x) -> enforce M t rq = error_outcome.
  Proof.
    intros Hp Hn. rewrite (enforce_ready parse oracle _ _ _ _ Hp).
    destruct (run s) as [e x| |] eqn:Hr; cbn [finish recover]; try reflexivity.
    exfalso. apply (Hn e x). reflexivity.
  Qed.

  Lemma supported_false ef : supported ef = false -> ef = Unsupported.
  Proof. destruct ef; try discriminate; reflexivity. Qed.

  (* the effect definition is missing (unknown e-name: nil dereference at MergeEffects) or is
     not one of the five supported expressions *)
  Lemma bad_effect_is_error M t rq s :
    prepare parse M t rq = PReady s ->
    (rd_ef s = None \/ exists efs, rd_ef s = Some efs /\ supported (effect_of efs) = false) ->
    enforce M t rq = error_outcome.
  Proof.
    intros Hp Hbad. apply (ready_error _ _ _ _ Hp). intros e x. unfold Enforce.run.
    assert (Hef : option_map effect_of (rd_ef s) = None \/ option_map effect_of (rd_ef s) = Some Unsupported).
    { destruct Hbad as [->|[efs [-> Hs]]]; [left; reflexivity|right].
      cbn [option_map]. rewrite (supported_false _ Hs). reflexivity. }
    destruct (policy_branch s) eqn:Hb.
    - unfold policy_branch in Hb. destruct (rd_policy s) as [|pv rest] eqn:Hpol; [discriminate|].
      cbn [lazy_loop]. destruct (slot s pv); try discriminate.
      destruct Hef as [->| ->]; [discriminate|].
      rewrite merge_unsupported. discriminate.
    - destruct (rd_has_eval s && match rd_policy s with [] => true | _ => false end); [discriminate|].
      destruct (eval_rule s (blank_rule s)) as [v| |]; try discriminate.
      destruct v; try discriminate.
      destruct Hef as [->| ->]; [discriminate|].
      rewrite merge_unsupported. discriminate.
  Qed.

  (* the loop fails at the first rule it evaluates *)
  Lemma first_rule_failure M t rq s pv rest :
    prepare parse M t rq = PReady s -> policy_branch s = true -> rd_policy s = pv :: rest ->
    (forall en, slot s pv <> SOk en) -> enforce M t rq = error_outcome.
  Proof.
    intros Hp Hb Hpol Hs. apply (ready_error _ _ _ _ Hp). intros e x. unfold Enforce.run.
    rewrite Hb, Hpol. cbn [lazy_loop]. destruct (slot s pv) as [en| |]; try discriminate.
    exfalso. apply (Hs en). reflexivity.
  Qed.

  (* the policy-free branch: anything but a boolean result *)
  Lemma policy_free_failure M t rq s :
    prepare parse M t rq = PReady s -> policy_branch s = false ->
    (forall b, eval_rule s (blank_rule s) <> Ok (VBool b)) -> enforce M t rq = error_outcome.
  Proof.
    intros Hp Hb Hn. apply (ready_error _ _ _ _ Hp). intros e x. unfold Enforce.run. rewrite Hb.
    destruct (rd_has_eval s && match rd_policy s with [] => true | _ => false end); [discriminate|].
    destruct (eval_rule s (blank_rule s)) as [v| |]; try discriminate.
    destruct v; try discriminate. exfalso. apply (Hn b). reflexivity.
  Qed.

  (* eval() in the matcher and no rule in the policy *)
  Lemma eval_with_empty_policy M t rq s :
    prepare parse M t rq = PReady s -> rd_has_eval s = true -> rd_policy s = [] ->
    enforce M t rq = error_outcome.
  Proof.
    intros Hp He Hpol. apply (ready_error _ _ _ _ Hp). intros e x. unfold Enforce.run, policy_branch.
    rewrite Hpol, He. discriminate.
  Qed.

  (* ---------- B.5 one slot of the loop ---------- *)
  Lemma slot_wrong_size s pv :
    List.length (ptoks (rd_env s)) <> List.length pv -> slot s pv = SErr.
  Proof.
    intros H. unfold Enforce.slot.
    replace (Nat.eqb (List.length (ptoks (rd_env s))) (List.length pv)) with false
      by (symmetry; apply Nat.eqb_neq; exact H).
    reflexivity.
  Qed.

  Lemma tok_index_from_bound tok toks : forall i found j,
    tok_index_from tok toks i found = Some j -> found = Some j \/ (i <= j /\ j < i + List.length toks).
  Proof.
    induction toks as [|x toks IH]; intros i found j H; cbn [tok_index_from] in H.
    - left. exact H.
    - apply IH in H. cbn [List.length]. destruct H as [H|H]; [|right; lia].
      destruct (String.eqb tok x); [|left; exact H].
      inversion H; subst. right. lia.
  Qed.

  Lemma tok_index_bound tok toks j : tok_index tok toks = Some j -> j < List.length toks.
  Proof.
    unfold tok_index. intros H. apply tok_index_from_bound in H. destruct H as [H|H]; [discriminate|lia].
  Qed.

  (* after the size check pVals[j] for the eft column cannot be out of range: that panic is
     unreachable *)
  Lemma eft_col_in_range s pv :
    List.length (ptoks (rd_env s)) = List.length pv -> eft_col s pv <> None.
  Proof.
    intros Hl. unfold eft_col.
    destruct (tok_index (rd_ptype s ++ "_eft") (ptoks (rd_env s))) as [j|] eqn:Ht; [|discriminate].
    apply tok_index_bound in Ht.
    destruct (nth_error pv j) eqn:Hn; [discriminate|].
    apply nth_error_None in Hn. lia.
  Qed.

  (* the slot: exactly how each result of the matcher evaluation ends *)
  Lemma slot_cases s pv :
    List.length (ptoks (rd_env s)) = List.length pv ->
    match eval_rule s pv with
    | Panic => slot s pv = SPanic
    | Err => slot s pv = SErr
    | Ok (VBool b) => exists e, slot s pv = SOk (b, e)
    | Ok (VNum z) => exists e, slot s pv = SOk (negb (Z.eqb z 0), e)
    | Ok _ => slot s pv = SErr          (* matcher result should be bool, int or float *)
    end.
  Proof.
    intros Hl. unfold Enforce.slot. rewrite Hl, Nat.eqb_refl. cbn [negb].
    pose proof (eft_col_in_range s pv Hl) as He.
    destruct (eval_rule s pv) as [v| |]; try reflexivity.
    destruct v; try reflexivity; destruct (eft_col s pv) as [e|]; try congruence; eexists; reflexivity.
  Qed.

  (* a panic inside the evaluation of the first rule (g() on a non-string, ...) is caught *)
  Lemma first_rule_panic M t rq s pv rest :
    prepare parse M t rq = PReady s -> policy_branch s = true -> rd_policy s = pv :: rest ->
    List.length (ptoks (rd_env s)) = List.length pv -> eval_rule s pv = Panic ->
    enforce_body M t rq = Panicked /\ enforce M t rq = error_outcome.
  Proof.
    intros Hp Hb Hpol Hl Hev.
    assert (Hs : slot s pv = SPanic).
    { pose proof (slot_cases s pv Hl) as H. rewrite Hev in H. exact H. }
    assert (Hbody : enforce_body M t rq = Panicked).
    { unfold Enforce.enforce_body. rewrite Hp. unfold Enforce.run. rewrite Hb, Hpol.
      cbn [lazy_loop]. rewrite Hs. reflexivity. }
    split; [exact Hbody|apply panic_is_caught; exact Hbody].
  Qed.

  (* ---------- B.6 the panics of the evaluator, class by class ---------- *)
  (* g(): fewer than two arguments *)
  Lemma g_call_too_few count ls vs l :
    all_strings vs = Some l -> List.length l < 2 -> g_call count ls vs = Panic.
  Proof.
    intros H Hl. unfold g_call. rewrite H. destruct l as [|a [|b rest]]; try reflexivity.
    cbn [List.length] in Hl. lia.
  Qed.

  (* `x in (...)` comparing two maps: uncomparable dynamic type *)
  Lemma in_list_maps_panic f g t : in_list (VObj false f) (VObj false g :: t) = Panic.
  Proof. reflexivity. Qed.

  (* enforceParameters.Get: a value index beyond the values (impossible after the size
     checks, kept as Panic in the model) *)
  Lemma get_param_beyond_values en name c rest i :
    name = String c rest -> Ascii.eqb c "p"%char = true -> tok_index name (ptoks en) = Some i ->
    nth_error (pvals en) i = None -> get_param en name = Panic.
  Proof. intros -> Hc Ht Hn. cbn [get_param]. rewrite Hc, Ht, Hn. reflexivity. Qed.
End EnforceTotal.

(* ====================================================================================== *)
(* C. eval(): nesting that never bottoms out is the nesting error, for every parse table   *)
(* ====================================================================================== *)
(* positions of an expression that are evaluated first and whose failure IS the failure of
   the whole expression: the left operand of every binary operator (&& and || included),
   the operand of !, the left side of `in`, the first argument of a call *)
Inductive lctx (e0 : expr) : expr -> Prop :=
| lc_here : lctx e0 e0
| lc_bin op a b : lctx e0 a -> lctx e0 (EBin op a b)
| lc_not a : lctx e0 a -> lctx e0 (ENot a)
| lc_in a l : lctx e0 a -> lctx e0 (EIn a l)
| lc_arg f a rest : lctx e0 a -> lctx e0 (ECall f (a :: rest)).

Section EvalNesting.
  Variable parse : string -> option expr.
  Variable oracle : string -> list string -> res.
  Notation eval := (Expr.eval parse oracle).

  Lemma lctx_propagates n en e0 e r :
    lctx e0 e -> eval n en e0 = r -> (forall v, r <> Ok v) -> eval n en e = r.
  Proof.
    intros Hc H0 Hr. induction Hc as [|op a b _ IH|a _ IH|a l _ IH|f a rest _ IH]; [exact H0| | | |].
    - destruct n; cbn [Expr.eval]; cbn [Expr.eval] in IH; rewrite IH;
        destruct op; destruct r as [v| |]; try reflexivity; exfalso; apply (Hr v); reflexivity.
    - destruct n; cbn [Expr.eval]; cbn [Expr.eval] in IH; rewrite IH;
        destruct r as [v| |]; try reflexivity; exfalso; apply (Hr v); reflexivity.
    - destruct n; cbn [Expr.eval]; cbn [Expr.eval] in IH; rewrite IH;
        destruct r as [v| |]; try reflexivity; exfalso; apply (Hr v); reflexivity.
    - destruct n; cbn [Expr.eval]; cbn [Expr.eval] in IH; rewrite IH;
        destruct r as [v| |]; try reflexivity; exfalso; apply (Hr v); reflexivity.
  Qed.

  (* eval(a) where a is a string: one level of the fuel is spent on the text's expression *)
  Lemma eval_call_step n en a s :
    eval_in_scope en = true -> eval (S n) en a = Ok (VStr s) ->
    eval (S n) en (ECall "eval" [a]) =
    match parse (escape s) with
    | Some e' => if compile_ok (gnames_of en) (eval_in_scope en) e' then eval n en e' else Err
    | None => Err
    end.
  Proof.
    intros Hs Ha. cbn [Expr.eval]. cbn [Expr.eval] in Ha. rewrite Ha, Hs. reflexivity.
  Qed.

  Lemma eval_call_bottom en a s :
    eval_in_scope en = true -> eval 0 en a = Ok (VStr s) -> eval 0 en (ECall "eval" [a]) = Err.
  Proof. intros Hs Ha. apply (eval_nesting_exhausted parse oracle en a (VStr s) Hs Ha). Qed.

  Section Cycle.
    Variable en : env.
    Variable P : expr -> Prop.
    Hypothesis in_scope : eval_in_scope en = true.
    (* P is a family of expressions each of which must first evaluate eval(a) for a string
       whose text, whatever it parses to, is again in the family *)
    Hypothesis P_closed : forall e, P e -> exists a s,
        lctx (ECall "eval" [a]) e /\ (forall n, eval n en a = Ok (VStr s)) /\
        (forall e', parse (escape s) = Some e' -> P e').

    Theorem eval_cycle_err : forall n e, P e -> eval n en e = Err.
    Proof.
      induction n as [|n IH]; intros e HP; destruct (P_closed e HP) as [a [s [Hc [Ha Hp]]]];
        apply (lctx_propagates _ _ _ _ _ Hc); try discriminate.
      - apply (eval_call_bottom en a s in_scope (Ha 0)).
      - rewrite (eval_call_step n en a s in_scope (Ha (S n))).
        destruct (parse (escape s)) as [e'|] eqn:Hpe; [|reflexivity].
        destruct (compile_ok (gnames_of en) (eval_in_scope en) e'); [|reflexivity].
        apply IH. apply Hp. reflexivity.
    Qed.
  End Cycle.

  Lemma eval_var n en tok : eval n en (EVar tok) = get_param en tok.
  Proof. destruct n; reflexivity. Qed.

  (* the rule that evaluates itself (F29): the token tok of the rule holds a text whose
     expression first evaluates eval(tok) again *)
  Theorem self_eval_err en tok txt e :
    eval_in_scope en = true -> get_param en tok = Ok (VStr txt) ->
    parse (escape txt) = Some e -> lctx (ECall "eval" [EVar tok]) e ->
    forall n e0, lctx (ECall "eval" [EVar tok]) e0 -> eval n en e0 = Err.
  Proof.
    intros Hs Hg Hpe Hc n e0 H0.
    apply (eval_cycle_err en (lctx (ECall "eval" [EVar tok])) Hs); [|exact H0].
    intros e1 H1. exists (EVar tok), txt. split; [exact H1|]. split.
    - intros k. rewrite eval_var. exact Hg.
    - intros e' He'. rewrite Hpe in He'. inversion He'; subst. exact Hc.
  Qed.

  (* ... and enforce answers (false, error) when that rule is the first one evaluated *)
  Theorem self_referential_rule_fails_closed M t rq s pv rest tok txt e :
    prepare parse M t rq = PReady s -> policy_branch s = true -> rd_policy s = pv :: rest ->
    eval_in_scope (rd_env s) = true ->
    get_param (with_pvals (rd_env s) pv) tok = Ok (VStr txt) ->
    parse (escape txt) = Some e -> lctx (ECall "eval" [EVar tok]) e ->
    lctx (ECall "eval" [EVar tok]) (rd_expr s) ->
    Enforce.enforce parse oracle M t rq = error_outcome.
  Proof.
    intros Hp Hb Hpol Hs Hg Hpe Hc Hm.
    apply (first_rule_failure parse oracle M t rq s pv rest Hp Hb Hpol). intros en Hsl.
    assert (Hev : Enforce.eval_rule parse oracle s pv = Err).
    { unfold Enforce.eval_rule.
      apply (self_eval_err (with_pvals (rd_env s) pv) tok txt e Hs Hg Hpe Hc _ _ Hm). }
    unfold Enforce.slot in Hsl. rewrite Hev in Hsl.
    destruct (negb (Nat.eqb (List.length (ptoks (rd_env s))) (List.length pv))); discriminate.
  Qed.

  (* g(a, b) whose (spread) arguments are not all strings: the a.(string) panic *)
  Lemma eval_g_non_string n en f count ls ea eb va vb :
    (eval_in_scope en && String.eqb f "eval") = false ->
    lookup f (gdefs en) = Some (count, ls) ->
    eval n en ea = Ok va -> eval n en eb = Ok vb -> all_strings (spread [va; vb]) = None ->
    eval n en (ECall f [ea; eb]) = Panic.
  Proof.
    intros He Hl Ha Hb Hs.
    destruct n; cbn [Expr.eval]; cbn [Expr.eval] in Ha, Hb; rewrite Ha, Hb, He, Hl;
      apply g_call_non_string; exact Hs.
  Qed.
End EvalNesting.

(* ====================================================================================== *)
(* D. the entry points                                                                    *)
(* ====================================================================================== *)
Section Api.
  Variable parse : string -> option expr.
  Variable oracle : string -> list string -> res.
  Notation enforce := (Enforce.enforce parse oracle).

  Lemma api_enforce_fail_closed M rq :
    snd (api_enforce parse oracle M rq) = true -> fst (api_enforce parse oracle M rq) = false.
  Proof. unfold api_enforce. cbn [fst snd]. intros H. apply (enforce_fail_closed parse oracle _ _ _ H). Qed.

  Lemma api_enforce_ex_fail_closed M rq :
    snd (api_enforce_ex parse oracle M rq) = true ->
    fst (fst (api_enforce_ex parse oracle M rq)) = false /\
    snd (fst (api_enforce_ex parse oracle M rq)) = None.
  Proof. unfold api_enforce_ex. cbn [fst snd]. intros H. apply (enforce_fail_closed parse oracle _ _ _ H). Qed.

  (* for ANY matcher text *)
  Lemma api_enforce_with_matcher_fail_closed M text rq :
    snd (api_enforce_with_matcher parse oracle M text rq) = true ->
    fst (api_enforce_with_matcher parse oracle M text rq) = false.
  Proof.
    unfold api_enforce_with_matcher. cbn [fst snd]. intros H. apply (enforce_fail_closed parse oracle _ _ _ H).
  Qed.

  Lemma ok_prefix_ok M rqs :
    Forall (fun rq => failed (enforce M "" rq) = false) (ok_prefix parse oracle M rqs).
  Proof.
    induction rqs as [|rq t IH]; cbn [ok_prefix]; [constructor|].
    destruct (failed (enforce M "" rq)) eqn:Hf; [constructor|]. constructor; assumption.
  Qed.

  Lemma ok_prefix_split M rqs :
    (ok_prefix parse oracle M rqs = rqs /\
     existsb (fun rq => failed (enforce M "" rq)) rqs = false) \/
    (exists rq post, rqs = ok_prefix parse oracle M rqs ++ rq :: post /\
                     failed (enforce M "" rq) = true /\
                     existsb (fun rq => failed (enforce M "" rq)) rqs = true).
  Proof.
    induction rqs as [|rq t IH]; cbn [ok_prefix existsb]; [left; split; reflexivity|].
    destruct (failed (enforce M "" rq)) eqn:Hf; cbn [orb].
    - right. exists rq, t. repeat split. exact Hf.
    - destruct IH as [[H1 H2]|[rq' [post [H1 [H2 H3]]]]].
      + left. rewrite H1. split; [reflexivity|exact H2].
      + right. exists rq', post. split; [cbn [app]; rewrite <- H1; reflexivity|]. split; assumption.
  Qed.

  (* BatchEnforce: decisions are reported only for the requests in front of the first failing
     one (each of which did not fail); with an error nothing is reported for the failing
     request or for any request behind it *)
  Lemma batch_fail_closed M rqs rs e :
    api_batch_enforce parse oracle M rqs = (rs, e) ->
    rs = map (fun rq => decision (enforce M "" rq)) (ok_prefix parse oracle M rqs) /\
    Forall (fun rq => failed (enforce M "" rq) = false) (ok_prefix parse oracle M rqs) /\
    (if e then exists rq post, rqs = ok_prefix parse oracle M rqs ++ rq :: post /\
                               failed (enforce M "" rq) = true
     else ok_prefix parse oracle M rqs = rqs).
  Proof.
    rewrite batch_spec. intros H. inversion H; subst; clear H.
    split; [reflexivity|]. split; [apply ok_prefix_ok|].
    change (fun rq => snd (api_enforce parse oracle M rq)) with (fun rq => failed (enforce M "" rq)).
    destruct (ok_prefix_split M rqs) as [[H1 H2]|[rq [post [H1 [H2 H3]]]]].
    - rewrite H2. exact H1.
    - rewrite H3. exists rq, post. split; assumption.
  Qed.
End Api.
