(* Machine.v — executable model of the Enforcer as a state machine behind the management API
   (internal_api.go, management_api.go, the policy part of enforcer.go, enforcer_distributed.go):
   per policy type a Store, per role definition the role manager's link set, a set-semantics
   adapter with every optional interface and injectable failures, a recording watcher, and the
   auto-save / auto-notify flags.  Every operation follows the Go control flow: pre-check,
   persist first (when auto-save), mutate memory, build role links incrementally, notify.
   Definitions only. *)
From Coq Require Import List String Bool Arith ZArith.
Import ListNotations.
From Casbin Require Import Base Store Roles Priority.

(* ---------- static configuration (the model file) ---------- *)
Record adef := {
  a_is_g : bool;          (* section g (role definition) or p (policy definition) *)
  a_arity : nat;          (* number of tokens: p fields / number of "_" of the role definition *)
  a_prio : option nat     (* resolved priority column (p only) *)
}.
Notation mconf := (list (string * adef)) (only parsing).   (* ptype -> definition *)

(* ---------- adapter ---------- *)
Inductive acall :=
| AAdd (pt : string) (r : rule)
| ARemove (pt : string) (r : rule)
| AAddMany (pt : string) (rs : list rule)
| ARemoveMany (pt : string) (rs : list rule)
| ARemoveFiltered (pt : string) (fi : nat) (fvs : list string)
| AUpdate (pt : string) (o n : rule)
| AUpdateMany (pt : string) (os ns : list rule)
| AUpdateFiltered (pt : string) (ns : list rule) (fi : nat) (fvs : list string)
| ASave (all : list (string * rule))
| ALoad.

Notation prule := (string * rule)%type (only parsing).
Definition prule_eqb (a b : prule) : bool := String.eqb (fst a) (fst b) && rule_eqb (snd a) (snd b).
Definition mem_prule (x : prule) (l : list prule) : bool := existsb (prule_eqb x) l.

Record adapter_st := {
  content : list prule;       (* stored rules, a set kept in insertion order *)
  alog : list acall;          (* every call received, oldest first *)
  fail_in : option nat        (* Some k: the (k+1)-th call from now fails *)
}.

Definition c_add (x : prule) (c : list prule) : list prule := if mem_prule x c then c else c ++ [x].
Definition c_remove (x : prule) (c : list prule) : list prule := filter (fun y => negb (prule_eqb x y)) c.
Definition c_matches (pt : string) (fi : nat) (fvs : list string) (y : prule) : bool :=
  String.eqb (fst y) pt && matches_spec fi fvs (snd y).
(* every stored copy of o becomes n (the stored content is a set, so there is at most one) *)
Definition c_replace (o n : prule) (c : list prule) : list prule :=
  map (fun y => if prule_eqb o y then n else y) c.
Definition c_update (pt : string) (o n : rule) (c : list prule) : list prule :=
  if mem_prule (pt, o) c then
    (if mem_prule (pt, n) c then c_remove (pt, o) c else c_replace (pt, o) (pt, n) c)
  else c.

(* the effect of a successful call on the stored content; second component: the old rules
   returned by UpdateFilteredPolicies *)
Definition content_after (call : acall) (c : list prule) : list prule * list rule :=
  match call with
  | AAdd pt r => (c_add (pt, r) c, [])
  | ARemove pt r => (c_remove (pt, r) c, [])
  | AAddMany pt rs => (fold_left (fun c r => c_add (pt, r) c) rs c, [])
  | ARemoveMany pt rs => (fold_left (fun c r => c_remove (pt, r) c) rs c, [])
  | ARemoveFiltered pt fi fvs => (filter (fun y => negb (c_matches pt fi fvs y)) c, [])
  | AUpdate pt o n => (c_update pt o n c, [])
  | AUpdateMany pt os ns =>
      (* atomic: every old rule stored, or no change *)
      if forallb (fun o => mem_prule (pt, o) c) os
      then (fold_left (fun c on => c_update pt (fst on) (snd on) c) (combine os ns) c, [])
      else (c, [])
  | AUpdateFiltered pt ns fi fvs =>
      let old := map snd (filter (c_matches pt fi fvs) c) in
      (fold_left (fun c r => c_add (pt, r) c) ns (filter (fun y => negb (c_matches pt fi fvs y)) c), old)
  | ASave all => (all, [])
  | ALoad => (c, [])
  end.

(* one adapter call: logged, then fails (content untouched) or takes effect *)
Definition adapter_call (a : adapter_st) (call : acall) : adapter_st * bool * list rule :=
  let lg := alog a ++ [call] in
  match fail_in a with
  | Some 0 => ({| content := content a; alog := lg; fail_in := None |}, false, [])
  | Some (S k) =>
      let '(c, old) := content_after call (content a) in
      ({| content := c; alog := lg; fail_in := Some k |}, true, old)
  | None =>
      let '(c, old) := content_after call (content a) in
      ({| content := c; alog := lg; fail_in := None |}, true, old)
  end.

(* ---------- watcher ---------- *)
Inductive wkind := WNone | WPlain | WEx | WUpdatable.
Inductive notice :=
| NUpdate
| NAdd (pt : string) (r : rule)
| NRemove (pt : string) (r : rule)
| NAddMany (pt : string) (rs : list rule)
| NRemoveMany (pt : string) (rs : list rule)
| NRemoveFiltered (pt : string) (fi : nat) (fvs : list string)
| NUpdatePolicy (pt : string) (o n : rule)
| NUpdatePolicies (pt : string) (os ns : list rule)
| NSave.

(* ---------- enforcer state ---------- *)
Record mstate := {
  stores : smap store;            (* ptype -> Policy / PolicyMap *)
  rlinks : smap (list link);      (* role definition -> links held by its role manager *)
  ad : adapter_st;
  autosave : bool;
  autonotify : bool;
  watcher : wkind;
  (* each notification with the state visible at callback time: listed rules, stored content *)
  wlog : list (notice * (list (string * list rule) * list prule));
  inval : nat                     (* number of invalidateMatcherMap() calls so far *)
}.

Definition get_store (s : mstate) (pt : string) : store :=
  match lookup pt (stores s) with Some st => st | None => empty_store end.
Definition get_links (s : mstate) (pt : string) : list link :=
  match lookup pt (rlinks s) with Some l => l | None => [] end.

Definition with_store (s : mstate) (pt : string) (st : store) : mstate :=
  {| stores := set pt st (del pt (stores s)); rlinks := rlinks s; ad := ad s; autosave := autosave s;
     autonotify := autonotify s; watcher := watcher s; wlog := wlog s; inval := inval s |}.
Definition with_links (s : mstate) (pt : string) (l : list link) : mstate :=
  {| stores := stores s; rlinks := set pt l (del pt (rlinks s)); ad := ad s; autosave := autosave s;
     autonotify := autonotify s; watcher := watcher s; wlog := wlog s; inval := inval s |}.
Definition with_ad (s : mstate) (a : adapter_st) : mstate :=
  {| stores := stores s; rlinks := rlinks s; ad := a; autosave := autosave s;
     autonotify := autonotify s; watcher := watcher s; wlog := wlog s; inval := inval s |}.
Definition invalidate (s : mstate) : mstate :=
  {| stores := stores s; rlinks := rlinks s; ad := ad s; autosave := autosave s;
     autonotify := autonotify s; watcher := watcher s; wlog := wlog s; inval := S (inval s) |}.

(* listed rules of every policy type, in the order of the configuration *)
Definition listed (cfg : mconf) (s : mstate) : list (string * list rule) :=
  map (fun d => (fst d, pol (get_store s (fst d)))) cfg.
Definition all_prules (cfg : mconf) (s : mstate) : list prule :=
  flat_map (fun d => map (fun r => (fst d, r)) (pol (get_store s (fst d)))) cfg.

(* results: (ok, err) of the Go functions; a panic is an outcome of its own *)
Inductive mres := ROk (b : bool) | RFalseErr | RTrueErr | RPanicked.

Definition def_of (cfg : mconf) (pt : string) : option adef := lookup pt cfg.

(* e.BuildIncrementalRoleLinks(op, ptype, rules): invalidates the matcher cache, then adds or
   deletes one link per rule; false = "grouping policy elements do not meet role definition" *)
Definition links_update (d : adef) (s : mstate) (pt : string) (adding : bool) (rules : list rule)
  : mstate * bool :=
  let s1 := invalidate s in
  let '(l, ok) := build_incremental (a_arity d) adding rules (get_links s1 pt) in
  (with_links s1 pt l, ok).

(* persist-before-mutate: the adapter call made when shouldPersist() *)
Definition persist (s : mstate) (call : acall) : mstate * bool * list rule :=
  if autosave s then
    let '(a, ok, old) := adapter_call (ad s) call in (with_ad s a, ok, old)
  else (s, true, []).

(* ----- the *WithoutNotify functions of internal_api.go ----- *)
Definition add_wo (d : adef) (s : mstate) (pt : string) (r : rule) : mstate * mres :=
  let st := get_store s pt in
  if has st r then (s, ROk false)
  else
    let '(s1, ok, _) := persist s (AAdd pt r) in
    if negb ok then (s1, RFalseErr)
    else
      let s2 := with_store s1 pt (add (a_prio d) st r) in
      if a_is_g d then
        let '(s3, lok) := links_update d s2 pt true [r] in
        (s3, if lok then ROk true else RTrueErr)
      else (s2, ROk true).

Definition add_many_wo (d : adef) (s : mstate) (pt : string) (rs : list rule) (auto_remove_repeat : bool)
  : mstate * mres :=
  let st := get_store s pt in
  if negb auto_remove_repeat && has_any st rs then (s, ROk false)
  else
    let '(s1, ok, _) := persist s (AAddMany pt rs) in
    if negb ok then (s1, RFalseErr)
    else
      let s2 := with_store s1 pt (fst (add_many (a_prio d) st rs)) in
      if a_is_g d then
        let '(s3, lok) := links_update d s2 pt true rs in
        (s3, if lok then ROk true else RTrueErr)
      else (s2, ROk true).

Definition remove_wo (d : adef) (s : mstate) (pt : string) (r : rule) : mstate * mres :=
  let '(s1, ok, _) := persist s (ARemove pt r) in
  if negb ok then (s1, RFalseErr)
  else
    let '(st', removed) := remove (get_store s1 pt) r in
    if negb removed then (s1, ROk false)
    else
      let s2 := with_store s1 pt st' in
      if a_is_g d then
        let '(s3, lok) := links_update d s2 pt false [r] in
        (s3, if lok then ROk true else RTrueErr)
      else (s2, ROk true).

Definition remove_many_wo (d : adef) (s : mstate) (pt : string) (rs : list rule) : mstate * mres :=
  let st := get_store s pt in
  if negb (has_any st rs) then (s, ROk false)
  else
    let '(s1, ok, _) := persist s (ARemoveMany pt rs) in
    if negb ok then (s1, RFalseErr)
    else
      let '(st', aff) := remove_many st rs in
      match aff with
      | [] => (s1, ROk false)
      | _ =>
          let s2 := with_store s1 pt st' in
          if a_is_g d then
            let '(s3, lok) := links_update d s2 pt false rs in
            (s3, if lok then ROk true else RTrueErr)
          else (s2, ROk true)
      end.

Definition update_wo (d : adef) (s : mstate) (pt : string) (o n : rule) : mstate * mres :=
  let '(s1, ok, _) := persist s (AUpdate pt o n) in
  if negb ok then (s1, RFalseErr)
  else
    let '(st', updated) := update (get_store s1 pt) o n in
    if negb updated then (s1, ROk false)
    else
      let s2 := with_store s1 pt st' in
      if a_is_g d then
        let '(s3, lok1) := links_update d s2 pt false [o] in
        if negb lok1 then (s3, RTrueErr)
        else let '(s4, lok2) := links_update d s3 pt true [n] in
             (s4, if lok2 then ROk true else RTrueErr)
      else (s2, ROk true).

Definition update_many_wo (d : adef) (s : mstate) (pt : string) (os ns : list rule) : mstate * mres :=
  if negb (Nat.eqb (List.length os) (List.length ns)) then (s, RFalseErr)
  else
    let '(s1, ok, _) := persist s (AUpdateMany pt os ns) in
    if negb ok then (s1, RFalseErr)
    else
      let '(st', updated) := update_many (get_store s1 pt) os ns in
      (* a refused batch has already been rolled back inside the store *)
      let s2 := with_store s1 pt st' in
      if negb updated then (s2, ROk false)
      else
        if a_is_g d then
          let '(s3, lok1) := links_update d s2 pt false os in
          if negb lok1 then (s3, RTrueErr)
          else let '(s4, lok2) := links_update d s3 pt true ns in
               (s4, if lok2 then ROk true else RTrueErr)
        else (s2, ROk true).

Definition remove_filtered_wo (d : adef) (s : mstate) (pt : string) (fi : nat) (fvs : list string)
  : mstate * mres :=
  match fvs with
  | [] => (s, RFalseErr)
  | _ =>
      let '(s1, ok, _) := persist s (ARemoveFiltered pt fi fvs) in
      if negb ok then (s1, RFalseErr)
      else
        match remove_filtered (get_store s1 pt) fi fvs with
        | None => (s1, RPanicked)
        | Some (st', removed, eff) =>
            let s2 := with_store s1 pt st' in
            if negb removed then (s2, ROk false)
            else
              if a_is_g d then
                let '(s3, lok) := links_update d s2 pt false eff in
                (s3, if lok then ROk true else RTrueErr)
              else (s2, ROk true)
        end
  end.

(* updateFilteredPoliciesWithoutNotify: the old rules come from the adapter; result is the list
   of old rules (ok := it is non-empty) *)
Definition update_filtered_wo (d : adef) (s : mstate) (pt : string) (ns : list rule) (fi : nat) (fvs : list string)
  : mstate * mres * list rule :=
  let '(s1, ok, old) := persist s (AUpdateFiltered pt ns fi fvs) in
  if negb ok then (s1, RFalseErr, [])
  else
    let '(st1, aff) := remove_many (get_store s1 pt) old in
    let st2 := fst (add_many (a_prio d) st1 ns) in
    let s2 := with_store s1 pt st2 in
    let changed := (match aff with [] => false | _ => true end) && negb (Nat.eqb (List.length ns) 0) in
    if negb changed then (s2, ROk false, [])
    else
      if a_is_g d then
        let '(s3, lok1) := links_update d s2 pt false old in
        if negb lok1 then (s3, (match old with [] => RFalseErr | _ => RTrueErr end), old)
        else let '(s4, lok2) := links_update d s3 pt true ns in
             (s4, (match old with [] => ROk false | _ => if lok2 then ROk true else RTrueErr end), old)
      else (s2, (match old with [] => ROk false | _ => ROk true end), old).

(* ----- notification (addPolicy, removePolicy, ... wrappers) ----- *)
Definition snapshot (cfg : mconf) (s : mstate) := (listed cfg s, content (ad s)).

Definition notify (cfg : mconf) (s : mstate) (res : mres) (ex upd : option notice) : mstate :=
  match res with
  | ROk true =>
      if autonotify s then
        let push n := {| stores := stores s; rlinks := rlinks s; ad := ad s; autosave := autosave s;
                         autonotify := autonotify s; watcher := watcher s;
                         wlog := wlog s ++ [(n, snapshot cfg s)]; inval := inval s |} in
        match watcher s with
        | WNone => s
        | WPlain => push NUpdate
        | WEx => push (match ex with Some n => n | None => NUpdate end)
        | WUpdatable => push (match upd with Some n => n | None => NUpdate end)
        end
      else s
  | _ => s
  end.

(* ----- LoadPolicy / SavePolicy / ClearPolicy ----- *)
(* persist.LoadPolicyArray for one stored rule into the model being loaded *)
Definition load_one (cfg : mconf) (m : smap store) (x : prule) : option (smap store) :=
  let '(pt, r) := x in
  match def_of cfg pt with
  | None => None                                   (* unknown policy type: GetAssertion error *)
  | Some d =>
      if (if a_is_g d then Nat.ltb (List.length r) (a_arity d)
          else negb (Nat.eqb (List.length r) (a_arity d)))
      then None                                    (* HasPolicyEx: invalid policy rule size *)
      else
        let st := match lookup pt m with Some st => st | None => empty_store end in
        if has st r then Some m
        else Some (set pt (add (a_prio d) st r) (del pt m))
  end.

Fixpoint load_all (cfg : mconf) (m : smap store) (c : list prule) : option (smap store) :=
  match c with
  | [] => Some m
  | x :: t => match load_one cfg m x with None => None | Some m' => load_all cfg m' t end
  end.

(* SortPoliciesByPriority for every p type with a priority column, index rebuilt *)
Definition sort_stores (cfg : mconf) (m : smap store) : smap store :=
  map (fun e => let '(pt, st) := e in
       match def_of cfg pt with
       | Some d => match a_prio d with
                   | Some c => if a_is_g d then (pt, st)
                               else let l := sort_by_priority c (pol st) in
                                    (pt, {| pol := l; idx := reindex_all l (idx st) |})
                   | None => (pt, st)
                   end
       | None => (pt, st)
       end) m.

(* rebuildRoleLinks: every manager cleared, then rebuilt from the (new) listed grouping rules;
   false = a rule does not meet its role definition *)
Fixpoint rebuild_links (cfg : mconf) (m : smap store) (defs : mconf) : smap (list link) * bool :=
  match defs with
  | [] => ([], true)
  | (pt, d) :: t =>
      if a_is_g d then
        let st := match lookup pt m with Some st => st | None => empty_store end in
        let '(l, ok) := rebuild (a_arity d) (pol st) in
        if ok then let '(rest, ok') := rebuild_links cfg m t in ((pt, l) :: rest, ok')
        else ([], false)
      else rebuild_links cfg m t
  end.

Definition load_policy (cfg : mconf) (s : mstate) : mstate * mres :=
  let '(a, ok, _) := adapter_call (ad s) ALoad in
  let s0 := with_ad s a in
  if negb ok then (s0, RFalseErr)
  else
    match load_all cfg [] (content a) with
    | None => (s0, RFalseErr)
    | Some m =>
        let m' := sort_stores cfg m in
        let '(ls, lok) := rebuild_links cfg m' cfg in
        if negb lok then (s0, RFalseErr)       (* the deferred BuildRoleLinks restored the old links *)
        else
          ({| stores := m'; rlinks := ls; ad := a; autosave := autosave s; autonotify := autonotify s;
              watcher := watcher s; wlog := wlog s; inval := S (inval s) |}, ROk true)
    end.

Definition save_policy (cfg : mconf) (s : mstate) : mstate * mres :=
  let '(a, ok, _) := adapter_call (ad s) (ASave (all_prules cfg s)) in
  let s1 := with_ad s a in
  if negb ok then (s1, RFalseErr)
  else
    (* SavePolicy notifies whenever a watcher is set (not gated by autoNotifyWatcher) *)
    match watcher s1 with
    | WNone => (s1, ROk true)
    | WEx => ({| stores := stores s1; rlinks := rlinks s1; ad := ad s1; autosave := autosave s1;
                 autonotify := autonotify s1; watcher := watcher s1;
                 wlog := wlog s1 ++ [(NSave, snapshot cfg s1)]; inval := inval s1 |}, ROk true)
    | _ => ({| stores := stores s1; rlinks := rlinks s1; ad := ad s1; autosave := autosave s1;
               autonotify := autonotify s1; watcher := watcher s1;
               wlog := wlog s1 ++ [(NUpdate, snapshot cfg s1)]; inval := inval s1 |}, ROk true)
    end.

Definition clear_policy (cfg : mconf) (s : mstate) : mstate * mres :=
  let s1 := invalidate s in
  ({| stores := []; rlinks := map (fun e => (fst e, @nil link)) (rlinks s1); ad := ad s1; autosave := autosave s1;
      autonotify := autonotify s1; watcher := watcher s1; wlog := wlog s1; inval := inval s1 |}, ROk true).

(* ---------- operations ---------- *)
Inductive mop :=
| MAdd (pt : string) (r : rule)
| MAddMany (pt : string) (rs : list rule)
| MAddManyEx (pt : string) (rs : list rule)
| MRemove (pt : string) (r : rule)
| MRemoveMany (pt : string) (rs : list rule)
| MUpdate (pt : string) (o n : rule)
| MUpdateMany (pt : string) (os ns : list rule)
| MRemoveFiltered (pt : string) (fi : nat) (fvs : list string)
| MUpdateFiltered (pt : string) (ns : list rule) (fi : nat) (fvs : list string)
| MSelf (op : mop)                    (* the Self* entry points: same call without notification *)
| MClear
| MLoad
| MSave
| MSetAutoSave (b : bool)
| MSetAutoNotify (b : bool)
| MFailNext (k : nat).                (* harness: make the (k+1)-th adapter call from now fail *)

Definition set_flags (s : mstate) (sv nt : bool) : mstate :=
  {| stores := stores s; rlinks := rlinks s; ad := ad s; autosave := sv; autonotify := nt;
     watcher := watcher s; wlog := wlog s; inval := inval s |}.

Fixpoint step_wo (cfg : mconf) (s : mstate) (op : mop) (notifying : bool) : mstate * mres :=
  let nf (r : mstate * mres) (ex upd : option notice) :=
    if notifying then (notify cfg (fst r) (snd r) ex upd, snd r) else r in
  match op with
  | MAdd pt r =>
      match def_of cfg pt with None => (s, RFalseErr) | Some d => nf (add_wo d s pt r) (Some (NAdd pt r)) None end
  | MAddMany pt rs =>
      match def_of cfg pt with None => (s, RFalseErr) | Some d => nf (add_many_wo d s pt rs false) (Some (NAddMany pt rs)) None end
  | MAddManyEx pt rs =>
      match def_of cfg pt with None => (s, RFalseErr) | Some d => nf (add_many_wo d s pt rs true) (Some (NAddMany pt rs)) None end
  | MRemove pt r =>
      match def_of cfg pt with None => (s, RFalseErr) | Some d => nf (remove_wo d s pt r) (Some (NRemove pt r)) None end
  | MRemoveMany pt rs =>
      match def_of cfg pt with None => (s, RFalseErr) | Some d => nf (remove_many_wo d s pt rs) (Some (NRemoveMany pt rs)) None end
  | MUpdate pt o n =>
      match def_of cfg pt with None => (s, RFalseErr) | Some d => nf (update_wo d s pt o n) None (Some (NUpdatePolicy pt o n)) end
  | MUpdateMany pt os ns =>
      match def_of cfg pt with None => (s, RFalseErr) | Some d => nf (update_many_wo d s pt os ns) None (Some (NUpdatePolicies pt os ns)) end
  | MRemoveFiltered pt fi fvs =>
      match def_of cfg pt with None => (s, RFalseErr) | Some d => nf (remove_filtered_wo d s pt fi fvs) (Some (NRemoveFiltered pt fi fvs)) None end
  | MUpdateFiltered pt ns fi fvs =>
      match def_of cfg pt with
      | None => (s, RFalseErr)
      | Some d => let '(s', r, old) := update_filtered_wo d s pt ns fi fvs in
                  nf (s', r) None (Some (NUpdatePolicies pt old ns))
      end
  | MSelf op' => step_wo cfg s op' false
  | MClear => clear_policy cfg s
  | MLoad => load_policy cfg s
  | MSave => save_policy cfg s
  | MSetAutoSave b => (set_flags s b (autonotify s), ROk true)
  | MSetAutoNotify b => (set_flags s (autosave s) b, ROk true)
  | MFailNext k => (with_ad s {| content := content (ad s); alog := alog (ad s); fail_in := Some k |}, ROk true)
  end.

Definition step (cfg : mconf) (s : mstate) (op : mop) : mstate * mres := step_wo cfg s op true.

Fixpoint run (cfg : mconf) (s : mstate) (ops : list mop) : mstate * list mres :=
  match ops with
  | [] => (s, [])
  | op :: t => let '(s1, r) := step cfg s op in let '(s2, rs) := run cfg s1 t in (s2, r :: rs)
  end.

Definition init_state (cfg : mconf) (sv nt : bool) (w : wkind) (c : list prule) : mstate :=
  {| stores := []; rlinks := []; ad := {| content := c; alog := []; fail_in := None |};
     autosave := sv; autonotify := nt; watcher := w; wlog := []; inval := 0 |}.
