(* FilterProofs.v — proofs about Filter.v (C18). *)
From Coq Require Import List String Ascii Bool Arith Lia.
From Casbin Require Import Csv CsvProofs Filter.
Import ListNotations.
Open Scope string_scope.

(* ================= filterLine is exact on safe lines ================= *)

Lemma safe_piece_trim w : safe_piece w = true -> trim w = trim_left w.
Proof. unfold safe_piece, trim. intros H. apply String.eqb_eq in H. exact H. Qed.

Lemma mismatch_matchb fs : forall ws, List.length fs <= List.length ws ->
  forallb safe_piece ws = true -> mismatch ws fs = negb (matchb fs (map trim_left ws)).
Proof.
  induction fs as [|v fs IH]; intros ws Hl Hs; [reflexivity|].
  destruct ws as [|w ws]; [simpl in Hl; lia|].
  simpl in Hl, Hs. apply andb_true_iff in Hs. destruct Hs as [Hw Hs].
  cbn [mismatch matchb map]. rewrite (IH ws) by (auto; lia).
  unfold field_match. rewrite (safe_piece_trim w Hw).
  destruct (String.eqb v ""), (String.eqb (trim v) (trim_left w)), (matchb fs (map trim_left ws)); reflexivity.
Qed.

(* a line is skipped iff some non-empty filter value differs from the corresponding field *)
Lemma filter_line_exact F line key r : safe_line line = true -> read_record line = Ok (key :: r) ->
  List.length (filter_for F key) <= List.length r ->
  filter_line line (Some F) = negb (matchb (filter_for F key) r).
Proof.
  intros Hs Hr Hl. rewrite (read_record_safe line Hs) in Hr. inversion Hr as [Hm]. clear Hr.
  destruct (safe_line_parts line Hs) as [_ [_ [_ [_ Hp]]]].
  unfold filter_line. destruct (split_comma line) as [|p0 ps]; [discriminate Hm|].
  simpl in Hm. inversion Hm; subst key r. clear Hm.
  simpl in Hp. apply andb_true_iff in Hp. destruct Hp as [Hp0 Hps].
  cbn [hd]. rewrite (safe_piece_trim p0 Hp0).
  rewrite map_length in Hl.
  unfold filter_words. cbn [List.length tl].
  replace (Nat.ltb (S (List.length ps)) (List.length (filter_for F (trim_left p0)) + 1)) with false
    by (symmetry; apply Nat.ltb_ge; lia).
  apply mismatch_matchb; auto.
Qed.

Lemma fits_line_le F line key r : safe_line line = true -> read_record line = Ok (key :: r) ->
  fits_line (Some F) line = true -> List.length (filter_for F key) <= List.length r.
Proof.
  intros Hs Hr Hf. rewrite (read_record_safe line Hs) in Hr. inversion Hr as [Hm]. clear Hr.
  destruct (safe_line_parts line Hs) as [_ [_ [_ [_ Hp]]]].
  unfold fits_line in Hf. destruct (split_comma line) as [|p0 ps]; [discriminate Hm|].
  simpl in Hm. inversion Hm; subst key r. clear Hm.
  simpl in Hp. apply andb_true_iff in Hp. destruct Hp as [Hp0 _].
  cbn [hd tl] in Hf. rewrite (safe_piece_trim p0 Hp0) in Hf. apply Nat.leb_le in Hf.
  rewrite map_length. exact Hf.
Qed.

(* ================= the rules a list of lines denotes ================= *)

Definition contrib (st : store) (key : string) (l : string) : list rule :=
  match classify st l with
  | Ok (Some (k, r)) => if String.eqb k key then [r] else []
  | _ => []
  end.

Lemma items_for_cons st key l t : items_for st key (l :: t) = (contrib st key l ++ items_for st key t)%list.
Proof. reflexivity. Qed.

Lemma items_for_same_defs st st' key ls : same_defs st st' -> items_for st key ls = items_for st' key ls.
Proof.
  intros H. unfold items_for. apply flat_map_ext. intros l.
  rewrite (classify_same_defs st st' l H). reflexivity.
Qed.

Lemma In_items_for st key ls r : In r (items_for st key ls) ->
  exists l, In l ls /\ classify st l = Ok (Some (key, r)).
Proof.
  unfold items_for. intros H. apply in_flat_map in H. destruct H as [l [Hl H]].
  exists l. split; [exact Hl|].
  destruct (classify st l) as [[[k r0]|]|]; try (destruct H; fail).
  destruct (String.eqb_spec k key) as [->|]; [|destruct H].
  destruct H as [->|[]]. reflexivity.
Qed.

Lemma filter_true {A} (P : A -> bool) l : (forall x, P x = true) -> filter P l = l.
Proof. intros H. induction l as [|x l IH]; simpl; [reflexivity|]. rewrite H, IH. reflexivity. Qed.

Lemma filter_cons {A} (P : A -> bool) x l :
  filter P (x :: l) = if P x then x :: filter P l else filter P l.
Proof. reflexivity. Qed.

Lemma forallb_cons {A} (P : A -> bool) x l : forallb P (x :: l) = P x && forallb P l.
Proof. reflexivity. Qed.

(* the kept lines denote exactly the rules that match the filter *)
Lemma items_for_kept st key F ls :
  forallb line_ok ls = true -> forallb (fun l => skip_line l || fits_line F l) ls = true ->
  items_for st key (kept F ls) = filter (spec_match F key) (items_for st key ls).
Proof.
  destruct F as [F|].
  2:{ intros _ _. unfold kept. rewrite !filter_true; auto. }
  induction ls as [|l t IH]; intros Hok Hfit; [reflexivity|].
  rewrite forallb_cons in Hok, Hfit.
  apply andb_true_iff in Hok. destruct Hok as [Hl Hok].
  apply andb_true_iff in Hfit. destruct Hfit as [Hf Hfit].
  specialize (IH Hok Hfit).
  rewrite items_for_cons, filter_app, <- IH. unfold kept. rewrite filter_cons. fold (kept (Some F) t).
  assert (C : contrib st key l = [] \/
              exists r, contrib st key l = [r] /\
                        filter_line l (Some F) = negb (spec_match (Some F) key r)).
  { unfold contrib. destruct (classify st l) as [[[k r]|]|] eqn:Cl; auto.
    destruct (String.eqb_spec k key) as [->|]; auto.
    right. exists r. split; [reflexivity|].
    destruct (classify_some_find _ _ _ _ Cl) as [_ [Hsk Hr]].
    unfold line_ok in Hl. rewrite Hsk in Hl, Hf. rewrite orb_false_l in Hl, Hf.
    unfold spec_match. apply filter_line_exact; auto. eapply fits_line_le; eauto. }
  destruct C as [C|[r [C E]]].
  - rewrite C. destruct (negb (filter_line l (Some F))); [|reflexivity].
    rewrite items_for_cons, C. reflexivity.
  - rewrite C, E, negb_involutive, filter_cons.
    destruct (spec_match (Some F) key r) eqn:M; [|reflexivity].
    rewrite items_for_cons, C. reflexivity.
Qed.

(* ================= what loading does to the rule lists ================= *)

Lemma add_all_app l a b : add_all l (a ++ b) = add_all (add_all l a) b.
Proof.
  revert l. induction a as [|x a IH]; intros l; simpl; [reflexivity|].
  destruct (key_in x l); apply IH.
Qed.

Lemma load_line_spec l st st1 : load_policy_line l st = Ok st1 ->
  same_defs st st1 /\
  forall key, rules_of key st1 = add_all (rules_of key st) (contrib st key l).
Proof.
  rewrite load_policy_line_classify. unfold contrib.
  destruct (classify st l) as [[[k r]|]|] eqn:Cl; intros E; inversion E; subst; clear E.
  - destruct (classify_some_find _ _ _ _ Cl) as [Hfind _].
    destruct (key_in r (rules_of k st)) eqn:K.
    + split; [apply same_defs_refl|]. intros key.
      destruct (String.eqb_spec k key) as [->|]; [|reflexivity]. simpl. rewrite K. reflexivity.
    + split; [apply add_rule_same_defs|]. intros key.
      rewrite (rules_of_add_rule k r st key Hfind). rewrite (String.eqb_sym key k).
      destruct (String.eqb_spec k key) as [->|]; [|reflexivity]. simpl. rewrite K. reflexivity.
  - split; [apply same_defs_refl|]. reflexivity.
Qed.

Lemma load_line_err l st : load_policy_line l st = Err <-> classify st l = Err.
Proof.
  rewrite load_policy_line_classify.
  destruct (classify st l) as [[[k r]|]|]; split; intros H; try discriminate; reflexivity.
Qed.

(* any load, complete or stopped by a bad line: definitions unchanged, rules only added *)
Lemma load_lines_grows ls : forall st st' ok, load_lines ls st = (st', ok) ->
  same_defs st st' /\
  forall key r, key_in r (rules_of key st) = true -> key_in r (rules_of key st') = true.
Proof.
  induction ls as [|l t IH]; intros st st' ok E; simpl in E.
  - inversion E; subst. split; [apply same_defs_refl|auto].
  - destruct (load_policy_line l st) as [st1|] eqn:L.
    + destruct (load_line_spec _ _ _ L) as [D1 R1]. destruct (IH _ _ _ E) as [D2 R2].
      split; [eapply same_defs_trans; eauto|]. intros key r K. apply R2. rewrite R1.
      apply add_all_keeps. exact K.
    + inversion E; subst. split; [apply same_defs_refl|auto].
Qed.

(* a completed load: per type, the listed rules are the old ones plus the file's, in order,
   duplicates (by key) skipped *)
Lemma load_lines_ok ls : forall st st', load_lines ls st = (st', true) ->
  forall key, rules_of key st' = add_all (rules_of key st) (items_for st key ls).
Proof.
  induction ls as [|l t IH]; intros st st' E key; simpl in E.
  - inversion E; subst. reflexivity.
  - destruct (load_policy_line l st) as [st1|] eqn:L; [|discriminate].
    destruct (load_line_spec _ _ _ L) as [D1 R1].
    rewrite (IH _ _ E key), R1, items_for_cons, add_all_app.
    rewrite (items_for_same_defs st st1 key t D1). reflexivity.
Qed.

(* a load completes iff no line is rejected; rejection does not depend on the rules present *)
Lemma load_lines_ok_iff ls : forall st,
  (exists st', load_lines ls st = (st', true)) <-> (forall l, In l ls -> classify st l <> Err).
Proof.
  induction ls as [|l t IH]; intros st; simpl.
  - split; [intros _ l []|intros _; eexists; reflexivity].
  - destruct (load_policy_line l st) as [st1|] eqn:L.
    + destruct (load_line_spec _ _ _ L) as [D1 _]. rewrite (IH st1). split.
      * intros H l0 [<-|H0].
        -- intros C. apply load_line_err in C. congruence.
        -- rewrite (classify_same_defs st st1 l0 D1). auto.
      * intros H l0 H0. rewrite <- (classify_same_defs st st1 l0 D1). auto.
    + split.
      * intros [st' E]. discriminate.
      * intros H. exfalso. apply (H l); [left; reflexivity|]. apply load_line_err. exact L.
Qed.

(* ================= ClearPolicy ================= *)

Lemma find_entry_clear k st :
  find_entry k (clear_policy st) =
  option_map (fun e => if is_sec "p" e || is_sec "g" e then set_rules e [] else e) (find_entry k st).
Proof.
  unfold clear_policy. induction st as [|e t IH]; simpl; [reflexivity|].
  assert (K : e_key (if is_sec "p" e || is_sec "g" e then set_rules e [] else e) = e_key e).
  { destruct (is_sec "p" e || is_sec "g" e); reflexivity. }
  rewrite K. destruct (String.eqb (e_key e) k); [reflexivity|exact IH].
Qed.

Lemma clear_same_defs st : same_defs st (clear_policy st).
Proof.
  intros k. rewrite find_entry_clear. destruct (find_entry k st) as [e|]; simpl; [|reflexivity].
  destruct (is_sec "p" e || is_sec "g" e); reflexivity.
Qed.

Lemma find_entry_key k st e : find_entry k st = Some e -> e_key e = k.
Proof.
  induction st as [|x t IH]; simpl; [discriminate|].
  destruct (String.eqb_spec (e_key x) k); [intros E; inversion E; congruence|exact IH].
Qed.

Lemma rules_of_clear key st : is_pg key = true -> rules_of key (clear_policy st) = [].
Proof.
  intros H. unfold rules_of. rewrite find_entry_clear.
  destruct (find_entry key st) as [e|] eqn:F; simpl; [|reflexivity].
  apply find_entry_key in F. unfold is_sec. rewrite F. unfold is_pg in H. rewrite H. reflexivity.
Qed.

Lemma filter_for_pg F key : filter_for F key <> [] -> is_pg key = true.
Proof.
  unfold filter_for. intros H.
  destruct (String.eqb key "p") eqn:E_p; [apply String.eqb_eq in E_p; rewrite E_p; reflexivity|].
  destruct (String.eqb key "g") eqn:E_g; [apply String.eqb_eq in E_g; rewrite E_g; reflexivity|].
  destruct (String.eqb key "g1") eqn:E_g1; [apply String.eqb_eq in E_g1; rewrite E_g1; reflexivity|].
  destruct (String.eqb key "g2") eqn:E_g2; [apply String.eqb_eq in E_g2; rewrite E_g2; reflexivity|].
  destruct (String.eqb key "g3") eqn:E_g3; [apply String.eqb_eq in E_g3; rewrite E_g3; reflexivity|].
  destruct (String.eqb key "g4") eqn:E_g4; [apply String.eqb_eq in E_g4; rewrite E_g4; reflexivity|].
  destruct (String.eqb key "g5") eqn:E_g5; [apply String.eqb_eq in E_g5; rewrite E_g5; reflexivity|].
  exfalso. apply H. reflexivity.
Qed.

(* ================= rules of safe lines have distinct keys ================= *)

Lemma items_safe_inj st key ls x y : forallb line_ok ls = true ->
  In x (items_for st key ls) -> In y (items_for st key ls) -> rule_key x = rule_key y -> x = y.
Proof.
  intros Hok Hx Hy E.
  apply In_items_for in Hx. destruct Hx as [lx [Ilx Cx]].
  apply In_items_for in Hy. destruct Hy as [ly [Ily Cy]].
  rewrite forallb_forall in Hok.
  assert (Sx : safe_line lx = true).
  { pose proof (Hok lx Ilx) as H. unfold line_ok in H.
    destruct (classify_some_find _ _ _ _ Cx) as [_ [Hs _]]. rewrite Hs in H. exact H. }
  assert (Sy : safe_line ly = true).
  { pose proof (Hok ly Ily) as H. unfold line_ok in H.
    destruct (classify_some_find _ _ _ _ Cy) as [_ [Hs _]]. rewrite Hs in H. exact H. }
  destruct (safe_line_rule _ _ _ _ Sx Cx) as [Nx [Fx _]].
  destruct (safe_line_rule _ _ _ _ Sy Cy) as [Ny [Fy _]].
  apply rule_key_inj; auto.
Qed.

(* ================= the three loads, as functions of the file ================= *)

Section Loads.
  Variable v : variant.
  Variable s : state.

  Let ls := lines_of (file s).
  Let c := clear_policy (mem s).

  Lemma step_load_inv sL : step v s (OLoad false) = (sL, true) ->
    load_lines ls c = (mem sL, true) /\ links sL = rules_of "g" (mem sL) /\
    file sL = file s /\ flag sL = false.
  Proof.
    unfold step, adapter_load_policy. fold ls c.
    destruct (load_lines ls c) as [m' ok] eqn:E. destruct ok; intros H; inversion H; subst; clear H.
    simpl. auto.
  Qed.

  Lemma kept_incl F l : In l (kept F ls) -> In l ls.
  Proof. unfold kept. intros H. apply filter_In in H. tauto. Qed.

  Lemma spec_match_cases F key :
    (forall r, spec_match F key r = true) \/ is_pg key = true.
  Proof.
    destruct F as [F|]; [|left; reflexivity].
    destruct (filter_for F key) as [|v0 fs0] eqn:FF.
    - left. intros r. simpl. rewrite FF. reflexivity.
    - right. apply (filter_for_pg F). rewrite FF. discriminate.
  Qed.

  (* load_filtered_subset (F = None is the nil *Filter: everything is loaded, flag set) *)
  Lemma load_filtered_subset F sL :
    safe_file (file s) = true -> fits F (file s) = true ->
    step v s (OLoad false) = (sL, true) ->
    exists sF, step v s (OLoadFiltered false false (FPtr F)) = (sF, true) /\
      flag sF = true /\ file sF = file s /\ links sF = rules_of "g" (mem sF) /\
      forall key, rules_of key (mem sF) = filter (spec_match F key) (rules_of key (mem sL)).
  Proof.
    intros Hsafe Hfits HL. destruct (step_load_inv sL HL) as [EL _].
    unfold safe_file in Hsafe. unfold fits in Hfits. fold ls in Hsafe, Hfits.
    assert (Hno : forall l, In l ls -> classify c l <> Err).
    { apply load_lines_ok_iff. eexists; exact EL. }
    destruct (proj2 (load_lines_ok_iff (kept F ls) c)) as [mF EF].
    { intros l Hl. apply Hno. eapply kept_incl; eauto. }
    exists (mkState mF (rules_of "g" mF) (file s) true). split.
    { unfold step, adapter_load_filtered. fold ls c. rewrite EF.
      destruct v; reflexivity. }
    simpl. repeat split; auto. intros key.
    rewrite (load_lines_ok _ _ _ EF key), (load_lines_ok _ _ _ EL key).
    rewrite (items_for_kept c key F ls Hsafe Hfits).
    destruct (spec_match_cases F key) as [T|PG].
    - rewrite !filter_true; auto.
    - unfold c. rewrite (rules_of_clear key (mem s) PG). fold c.
      rewrite !add_all_nil. apply firsts_filter.
      intros x y Hx Hy E. f_equal. eapply items_safe_inj; eauto.
  Qed.

  (* incremental_adds *)
  Lemma incremental_adds F sL :
    safe_file (file s) = true -> fits F (file s) = true ->
    step v s (OLoad false) = (sL, true) ->
    exists sI, step v s (OLoadFiltered true false (FPtr F)) = (sI, true) /\
      flag sI = true /\ file sI = file s /\ links sI = rules_of "g" (mem sI) /\
      forall key, is_pg key = true ->
        rules_of key (mem sI) =
        (rules_of key (mem s) ++
         filter (fun r => negb (key_in r (rules_of key (mem s))))
                (filter (spec_match F key) (rules_of key (mem sL))))%list.
  Proof.
    intros Hsafe Hfits HL. destruct (step_load_inv sL HL) as [EL _].
    unfold safe_file in Hsafe. unfold fits in Hfits. fold ls in Hsafe, Hfits.
    assert (Hno : forall l, In l ls -> classify c l <> Err).
    { apply load_lines_ok_iff. eexists; exact EL. }
    pose proof (clear_same_defs (mem s)) as D. fold c in D.
    destruct (proj2 (load_lines_ok_iff (kept F ls) (mem s))) as [mI EI].
    { intros l Hl. rewrite (classify_same_defs _ _ l D). apply Hno. eapply kept_incl; eauto. }
    exists (mkState mI (rules_of "g" mI) (file s) true). split.
    { unfold step, adapter_load_filtered. fold ls. rewrite EI. destruct v; reflexivity. }
    simpl. repeat split; auto. intros key PG.
    rewrite (load_lines_ok _ _ _ EI key), (load_lines_ok _ _ _ EL key).
    unfold c at 1. rewrite (rules_of_clear key (mem s) PG).
    rewrite (items_for_same_defs (mem s) c key _ D).
    rewrite (items_for_kept c key F ls Hsafe Hfits).
    rewrite add_all_onto. do 2 f_equal.
    rewrite !add_all_nil. apply firsts_filter.
    intros x y Hx Hy E. f_equal. eapply items_safe_inj; eauto.
  Qed.

  (* LoadFilteredPolicy(nil) is a full load (when it completes) *)
  Lemma nil_filter_is_full_load sL :
    step v s (OLoad false) = (sL, true) ->
    step v s (OLoadFiltered false false FNil) = (sL, true).
  Proof.
    unfold step, adapter_load_filtered, adapter_load_policy. fold ls c.
    destruct (load_lines ls c) as [m' ok]. destruct ok; intros H; inversion H; subst; reflexivity.
  Qed.

  (* a completed full load lists, per type, the file's rules in order without duplicates *)
  Lemma full_load_lists sL : step v s (OLoad false) = (sL, true) ->
    forall key, is_pg key = true -> rules_of key (mem sL) = firsts [] (items_for (mem s) key ls).
  Proof.
    intros HL key PG. destruct (step_load_inv sL HL) as [EL _].
    rewrite (load_lines_ok _ _ _ EL key). unfold c at 1. rewrite (rules_of_clear key (mem s) PG).
    rewrite add_all_nil. f_equal. symmetry. apply items_for_same_defs. apply clear_same_defs.
  Qed.

  (* the guard `fits` follows from "no filter is longer than the arity of its type" *)
  Lemma fits_of_arity F sL :
    safe_file (file s) = true -> within_arity F (mem s) ->
    step v s (OLoad false) = (sL, true) -> fits (Some F) (file s) = true.
  Proof.
    intros Hsafe HA HL. destruct (step_load_inv sL HL) as [EL _].
    unfold safe_file in Hsafe. unfold fits. fold ls in Hsafe |- *.
    assert (Hno : forall l, In l ls -> classify c l <> Err).
    { apply load_lines_ok_iff. eexists; exact EL. }
    rewrite forallb_forall in Hsafe. apply forallb_forall. intros l Hl.
    destruct (skip_line l) eqn:Sk; [reflexivity|]. rewrite orb_false_l.
    pose proof (Hsafe l Hl) as Sl. unfold line_ok in Sl. rewrite Sk, orb_false_l in Sl.
    specialize (Hno l Hl). unfold c in Hno. rewrite <- (classify_same_defs _ _ l (clear_same_defs (mem s))) in Hno.
    unfold classify in Hno. rewrite Sk, (read_record_safe l Sl) in Hno.
    destruct (safe_line_parts l Sl) as [_ [_ [_ [_ Hp]]]].
    unfold fits_line. destruct (split_comma l) as [|p0 ps]; [exfalso; apply Hno; reflexivity|].
    cbn [map] in Hno. cbn [hd tl].
    rewrite forallb_cons in Hp. apply andb_true_iff in Hp. destruct Hp as [Hp0 _].
    rewrite (safe_piece_trim p0 Hp0). apply Nat.leb_le.
    destruct (String.eqb (trim_left p0) ""); [exfalso; apply Hno; reflexivity|].
    destruct (find_entry (trim_left p0) (mem s)) as [e|] eqn:Fe; [|exfalso; apply Hno; reflexivity].
    destruct (arity_ok (trim_left p0) (e_ntok e) (map trim_left ps)) eqn:Ar; [|exfalso; apply Hno; reflexivity].
    specialize (HA _ _ Fe). unfold arity_ok in Ar. rewrite map_length in Ar.
    destruct (filter_for F (trim_left p0)) as [|v0 fs0] eqn:FF; [simpl; lia|].
    assert (PG : is_pg (trim_left p0) = true) by (apply (filter_for_pg F); rewrite FF; discriminate).
    unfold is_pg in PG. destruct (String.eqb (sec_of (trim_left p0)) "p").
    - apply Nat.eqb_eq in Ar. lia.
    - simpl in PG. rewrite PG in Ar. apply Nat.leb_le in Ar. lia.
  Qed.
End Loads.

(* subset_decisions: after a filtered load every decision is the decision over the full load
   restricted by the filter (decide is a function of the p rules and the role links only) *)
Lemma subset_decisions v s F sL :
  safe_file (file s) = true -> fits F (file s) = true ->
  step v s (OLoad false) = (sL, true) ->
  exists sF, step v s (OLoadFiltered false false (FPtr F)) = (sF, true) /\
    forall dom req,
      decide dom sF req =
      decide_rules dom (filter (spec_match F "p") (rules_of "p" (mem sL)))
                       (filter (spec_match F "g") (rules_of "g" (mem sL))) req.
Proof.
  intros H1 H2 H3. destruct (load_filtered_subset v s F sL H1 H2 H3) as [sF [E [_ [_ [Lk R]]]]].
  exists sF. split; [exact E|]. intros dom req. unfold decide. rewrite Lk, !R. reflexivity.
Qed.

(* with filter values free of outer blanks the comparison is plain equality *)
Lemma matchb_plain fs : trimmed_values fs = true -> forall r, matchb fs r = match_plain fs r.
Proof.
  unfold trimmed_values. induction fs as [|v fs IH]; intros H r; [reflexivity|].
  rewrite forallb_cons in H. apply andb_true_iff in H. destruct H as [Hv H].
  apply String.eqb_eq in Hv. destruct r as [|w r]; [reflexivity|].
  cbn [matchb match_plain]. unfold field_match. rewrite Hv, (IH H). reflexivity.
Qed.

Lemma filter_trimmed_for F key : filter_trimmed F = true -> trimmed_values (filter_for F key) = true.
Proof.
  unfold filter_trimmed. intros H.
  repeat (apply andb_true_iff in H; destruct H as [H ?]).
  unfold filter_for.
  repeat match goal with |- context [if ?b then _ else _] => destruct b; [assumption|] end.
  reflexivity.
Qed.

(* ================= the save guard, over all histories ================= *)

Definition Inv (s : state) : Prop := flag s = false -> complete (mem s) (file s).

Lemma covers_after_load text m0 m' : load_lines (lines_of text) m0 = (m', true) -> covers m' text.
Proof.
  intros E key r H. destruct (load_lines_grows _ _ _ _ E) as [D _].
  rewrite <- (items_for_same_defs m0 m' key _ D) in H.
  rewrite (load_lines_ok _ _ _ E key). apply add_all_covers. exact H.
Qed.

Lemma covers_add_rule m text k r : covers m text -> find_entry k m <> None ->
  covers (add_rule k r m) text.
Proof.
  intros C F key r0 H.
  rewrite <- (items_for_same_defs m (add_rule k r m) key _ (add_rule_same_defs k r m)) in H.
  specialize (C key r0 H). rewrite (rules_of_add_rule k r m key F).
  destruct (String.eqb_spec key k) as [->|]; [|exact C].
  rewrite key_in_app, C. reflexivity.
Qed.

Lemma grown_refl m : grown m m.
Proof. exists []. reflexivity. Qed.

Lemma grown_add m0 m k r : grown m0 m -> grown m0 (add_rule k r m).
Proof.
  intros [adds ->]. exists (adds ++ [(k, r)])%list. rewrite fold_left_app. reflexivity.
Qed.

Lemma step_inv s o : Inv s -> Inv (fst (step Current s o)).
Proof.
  intros I. destruct o as [io|incr io a| |key r].
  - (* LoadPolicy *)
    unfold step, adapter_load_policy. destruct io.
    + simpl. exact I.
    + destruct (load_lines (lines_of (file s)) (clear_policy (mem s))) as [m' ok] eqn:E.
      destruct ok; simpl.
      * intros _. left. eapply covers_after_load; eauto.
      * exact I.
  - (* LoadFilteredPolicy / LoadIncrementalFilteredPolicy *)
    unfold step, adapter_load_filtered, adapter_load_policy.
    set (m0 := if incr then mem s else clear_policy (mem s)).
    destruct a as [| |F].
    + destruct io; [intros H; discriminate H|].
      destruct (load_lines (lines_of (file s)) m0) as [m' ok] eqn:E.
      destruct ok; simpl.
      * intros _. left. eapply covers_after_load; eauto.
      * intros H; discriminate H.
    + intros H; discriminate H.
    + destruct io; [intros H; discriminate H|].
      destruct (load_lines (kept F (lines_of (file s))) m0) as [m' ok].
      destruct ok; intros H; discriminate H.
  - (* SavePolicy *)
    unfold step. destruct (flag s) eqn:Fl; simpl; [exact I|].
    intros _. right. exists (mem s). split; [reflexivity|apply grown_refl].
  - (* AddPolicy *)
    unfold step. destruct (find_entry key (mem s)) as [e|] eqn:Fe; [|exact I].
    destruct (key_in r (e_rules e)); [exact I|]. simpl. intros Fl.
    destruct (I Fl) as [C|[m0 [E G]]].
    + left. apply covers_add_rule; [exact C|congruence].
    + right. exists m0. split; [exact E|apply grown_add; exact G].
Qed.

Lemma init_inv defs text : Inv (init defs text).
Proof. intros H. discriminate H. Qed.

Lemma run_inv ops : forall s, Inv s -> Inv (run Current s ops).
Proof. induction ops as [|o t IH]; intros s I; simpl; [exact I|]. apply IH. apply step_inv. exact I. Qed.

(* save_guard: in every reachable state SavePolicy refuses (and changes nothing) while the flag
   is set, and when it succeeds the in-memory view is the complete stored policy *)
Lemma save_guard defs text ops :
  let s := run Current (init defs text) ops in
  (flag s = true -> step Current s OSave = (s, false)) /\
  (forall s', step Current s OSave = (s', true) ->
     flag s = false /\ complete (mem s) (file s) /\
     file s' = save_text (mem s) /\ mem s' = mem s /\ links s' = links s /\ flag s' = false).
Proof.
  intros s. pose proof (run_inv ops _ (init_inv defs text)) as I. fold s in I.
  split.
  - intros Fl. unfold step. rewrite Fl. reflexivity.
  - intros s' E. unfold step in E. destruct (flag s) eqn:Fl; inversion E; subst; clear E.
    simpl. repeat split; auto.
Qed.

(* the flag stays set until a full load completes *)
Definition full_load_op (o : op) : bool :=
  match o with
  | OLoad _ => true
  | OLoadFiltered _ _ FNil => true
  | _ => false
  end.

Fixpoint no_full_success (s : state) (ops : list op) : Prop :=
  match ops with
  | [] => True
  | o :: t => (full_load_op o = true -> snd (step Current s o) = false) /\
              no_full_success (fst (step Current s o)) t
  end.

Lemma step_flag_sticky s o : flag s = true ->
  (full_load_op o = true -> snd (step Current s o) = false) -> flag (fst (step Current s o)) = true.
Proof.
  intros Fl H. destruct o as [io|incr io a| |key r].
  - specialize (H eq_refl). revert H. unfold step, adapter_load_policy. destruct io; [auto|].
    destruct (load_lines _ _) as [m' ok]. destruct ok; simpl; [discriminate|auto].
  - revert H. unfold step, adapter_load_filtered, adapter_load_policy.
    destruct a as [| |F]; simpl.
    + intros H. specialize (H eq_refl). revert H. destruct io; [auto|].
      destruct (load_lines _ _) as [m' ok]. destruct ok; simpl; [discriminate|auto].
    + auto.
    + intros _. destruct io; [auto|]. destruct (load_lines _ _) as [m' ok]. destruct ok; auto.
  - unfold step. rewrite Fl. exact Fl.
  - unfold step. destruct (find_entry key (mem s)) as [e|]; [|exact Fl].
    destruct (key_in r (e_rules e)); exact Fl.
Qed.

Lemma flag_sticky ops : forall s, flag s = true -> no_full_success s ops ->
  flag (run Current s ops) = true.
Proof.
  induction ops as [|o t IH]; intros s Fl H; simpl; [exact Fl|].
  destruct H as [H1 H2]. apply IH; [|exact H2]. apply step_flag_sticky; auto.
Qed.

(* every call of LoadFilteredPolicy / LoadIncrementalFilteredPolicy with a non-nil argument,
   successful or not, leaves the flag set *)
Lemma filtered_sets_flag s incr io a : a <> FNil ->
  flag (fst (step Current s (OLoadFiltered incr io a))) = true.
Proof.
  intros N. unfold step, adapter_load_filtered. destruct a as [| |F]; [congruence|reflexivity|].
  destruct io; [reflexivity|]. destruct (load_lines _ _) as [m' ok]. destruct ok; reflexivity.
Qed.

Lemma run_app v ops1 : forall s ops2, run v s (ops1 ++ ops2) = run v (run v s ops1) ops2.
Proof. induction ops1 as [|o t IH]; intros s ops2; simpl; [reflexivity|apply IH]. Qed.

(* the flag is set whenever the last load that completed, or was attempted with a filter, was a
   filtered one *)
Lemma flag_after_filtered s0 ops1 incr io a ops2 : a <> FNil ->
  let s1 := fst (step Current (run Current s0 ops1) (OLoadFiltered incr io a)) in
  no_full_success s1 ops2 ->
  let s := run Current s0 (ops1 ++ OLoadFiltered incr io a :: ops2) in
  flag s = true /\ step Current s OSave = (s, false).
Proof.
  intros N s1 H s.
  assert (Fl : flag s = true).
  { unfold s. rewrite run_app. simpl. apply flag_sticky; [|exact H]. apply filtered_sets_flag. exact N. }
  split; [exact Fl|]. unfold step. rewrite Fl. reflexivity.
Qed.

(* ================= refuted: what the guards and the repairs are needed for ================= *)

Definition flat_defs : store :=
  [mkEntry "r" 3 []; mkEntry "p" 3 []; mkEntry "g" 2 []; mkEntry "e" 0 []; mkEntry "m" 0 []].

Definition three_lines : string :=
  "p, alice, data1, read" ++ String c_lf ("p, admin, data2, write" ++ String c_lf "g, alice, admin").

Definition only (p g : list string) : filt := mkFilter p g [] [] [] [] [].

Definition all_empty (m : store) : Prop := forall e, In e m -> e_rules e = [].

Lemma all_empty_add_rule k r m : all_empty (add_rule k r m) -> all_empty m.
Proof.
  induction m as [|e t IH]; intros H; [exact H|]. simpl in H.
  destruct (String.eqb (e_key e) k).
  - exfalso. specialize (H _ (or_introl eq_refl)). simpl in H. destruct (e_rules e); discriminate H.
  - intros x [<-|Hx]; [apply H; left; reflexivity|].
    apply IH; [|exact Hx]. intros y Hy. apply H. right. exact Hy.
Qed.

Lemma all_empty_grown m0 m : grown m0 m -> all_empty m -> all_empty m0.
Proof.
  intros [adds ->]. revert m0. induction adds as [|[k r] t IH]; intros m0 H; [exact H|].
  simpl in H. apply (all_empty_add_rule k r). apply IH. exact H.
Qed.

Lemma flat_map_nil {A B} (f : A -> list B) l : (forall x, In x l -> f x = []) -> flat_map f l = [].
Proof.
  induction l as [|x l IH]; intros H; [reflexivity|]. simpl. rewrite (H x (or_introl eq_refl)).
  apply IH. intros y Hy. apply H. right. exact Hy.
Qed.

Lemma save_text_all_empty m : all_empty m -> save_text m = "".
Proof.
  intros H. unfold save_text, save_lines.
  rewrite !flat_map_nil; [reflexivity| |];
    intros e He; apply filter_In in He; destruct He as [He _]; rewrite (H e He); reflexivity.
Qed.

Lemma not_complete_empty m text key r :
  all_empty m -> text <> "" -> In r (items_for m key (lines_of text)) -> ~ complete m text.
Proof.
  intros HE HT HI [C|[m0 [E G]]].
  - specialize (C key r HI). unfold rules_of in C.
    destruct (find_entry key m) as [e|] eqn:F; [|discriminate C].
    assert (In e m).
    { clear - F. induction m as [|x t IH]; simpl in F; [discriminate|].
      destruct (String.eqb (e_key x) key); [inversion F; left; reflexivity|right; auto]. }
    rewrite (HE e H) in C. discriminate C.
  - apply HT. rewrite E. apply save_text_all_empty. eapply all_empty_grown; eauto.
Qed.

Lemma all_empty_dec m : forallb (fun e => match e_rules e with [] => true | _ => false end) m = true ->
  all_empty m.
Proof.
  intros H e He. rewrite forallb_forall in H. specialize (H e He). destruct (e_rules e); [reflexivity|discriminate].
Qed.

(* before F24's repair: filtered load, then a full load that fails (file moved away) — the flag
   was already reset, SavePolicy succeeds and the file loses its rules *)
Lemma guard_lost_refuted :
  exists defs text ops,
    let s := run PreF24 (init defs text) ops in
    snd (step PreF24 s OSave) = true /\ ~ complete (mem s) (file s) /\
    file (fst (step PreF24 s OSave)) = "".
Proof.
  exists flat_defs, three_lines,
    [OLoadFiltered false false (FPtr (Some (only ["zzz"] ["zzz"]))); OLoad true].
  split; [vm_compute; reflexivity|]. split; [|vm_compute; reflexivity].
  apply (not_complete_empty _ _ "p" ["alice"; "data1"; "read"]).
  - apply all_empty_dec. vm_compute. reflexivity.
  - vm_compute. discriminate.
  - vm_compute. left. reflexivity.
Qed.

(* before F32's repair: full load, then a filtered load that fails (wrong filter type; the
   enforcer has already cleared its model) — the flag stayed false, SavePolicy truncates the file *)
Lemma guard_lost_by_failed_filtered_refuted :
  exists defs text ops,
    let s := run PreF32 (init defs text) ops in
    snd (step PreF32 s OSave) = true /\ ~ complete (mem s) (file s) /\
    file (fst (step PreF32 s OSave)) = "".
Proof.
  exists flat_defs, three_lines, [OLoad false; OLoadFiltered false false FBad].
  split; [vm_compute; reflexivity|]. split; [|vm_compute; reflexivity].
  apply (not_complete_empty _ _ "p" ["alice"; "data1"; "read"]).
  - apply all_empty_dec. vm_compute. reflexivity.
  - vm_compute. discriminate.
  - vm_compute. left. reflexivity.
Qed.

(* the same two histories on the code as it is: SavePolicy refuses *)
Lemma repaired_histories_refuse :
  snd (step Current (run Current (init flat_defs three_lines)
        [OLoadFiltered false false (FPtr (Some (only ["zzz"] ["zzz"]))); OLoad true]) OSave) = false /\
  snd (step Current (run Current (init flat_defs three_lines)
        [OLoad false; OLoadFiltered false false FBad]) OSave) = false.
Proof. split; vm_compute; reflexivity. Qed.

(* F25 (not repaired): without `fits` the subset theorem is false — a filter with more entries
   than the rule has fields, all of them wildcards, loads nothing *)
Lemma F25_refuted :
  exists defs text F,
    let s := init defs text in
    safe_file text = true /\ fits (Some F) text = false /\
    (forall r, spec_match (Some F) "p" r = true \/ List.length r < 4) /\
    rules_of "p" (mem (fst (step Current s (OLoad false)))) = [["alice"; "data1"; "read"]] /\
    snd (step Current s (OLoadFiltered false false (FPtr (Some F)))) = true /\
    rules_of "p" (mem (fst (step Current s (OLoadFiltered false false (FPtr (Some F)))))) = [].
Proof.
  exists flat_defs, "p, alice, data1, read", (only [""; ""; ""; ""] []).
  repeat split; try (vm_compute; reflexivity).
  intros r. destruct r as [|a [|b [|c [|d r]]]]; simpl; try (right; lia). left. reflexivity.
Qed.

(* outside safe_line filterLine is not exact: a field with a trailing blank is compared trimmed
   by the filter but loaded untrimmed by encoding/csv *)
Lemma filter_exact_unsafe_refuted :
  exists F line key r,
    safe_line line = false /\ read_record line = Ok (key :: r) /\
    List.length (filter_for F key) <= List.length r /\
    filter_line line (Some F) <> negb (matchb (filter_for F key) r).
Proof.
  exists (only ["alice"] []), "p, alice , data1, read", "p", ["alice "; "data1"; "read"].
  repeat split; try (vm_compute; reflexivity).
  - vm_compute. lia.
  - vm_compute. discriminate.
Qed.

(* filter_exact: a safe line is kept iff every non-empty value of its type's filter equals the
   corresponding leading field *)
Lemma filter_exact F line key r :
  safe_line line = true -> read_record line = Ok (key :: r) ->
  List.length (filter_for F key) <= List.length r -> filter_trimmed F = true ->
  (filter_line line (Some F) = false <-> match_plain (filter_for F key) r = true).
Proof.
  intros Hs Hr Hl Ht. rewrite (filter_line_exact F line key r Hs Hr Hl).
  rewrite (matchb_plain _ (filter_trimmed_for F key Ht)).
  destruct (match_plain (filter_for F key) r); simpl; split; congruence.
Qed.

(* non-vacuity material *)
Definition demo_text : string :=
  "p, alice, data1, read" ++ String c_lf ("# roles below" ++ String c_lf ("p, admin, data2, write"
  ++ String c_lf (String c_lf ("p, alice, data1, read" ++ String c_lf ("g, alice, admin"
  ++ String c_lf "g, bob, admin"))))).
