(* EffectProofs.v — the streaming merge of enforcer.go/default_effector.go equals the
   declarative `combine` for every vector of every length; explanations are truthful;
   the three non-priority effects are order-insensitive. *)
From Coq Require Import List Bool Arith Lia Permutation.
Import ListNotations.
From Casbin Require Import Effect.

(* ---------- first index satisfying a predicate ---------- *)
Fixpoint first_idx (p : entry -> bool) (l : list entry) (k : nat) : option nat :=
  match l with [] => None | x :: t => if p x then Some k else first_idx p t (S k) end.

Lemma first_idx_None p l k : first_idx p l k = None <-> existsb p l = false.
Proof.
  revert k. induction l as [|x t IH]; intros k; cbn [first_idx existsb]; [tauto|].
  destruct (p x); cbn [orb]; [split; discriminate|apply IH].
Qed.

Lemma first_idx_Some p l k j :
  first_idx p l k = Some j ->
  k <= j /\ (exists x, nth_error l (j - k) = Some x /\ p x = true) /\
  (forall m y, m < j - k -> nth_error l m = Some y -> p y = false).
Proof.
  revert k. induction l as [|x t IH]; intros k H; cbn [first_idx] in H; [discriminate|].
  destruct (p x) eqn:E.
  - inversion H; subst j. rewrite Nat.sub_diag. split; [lia|]. split.
    + exists x. split; [reflexivity|exact E].
    + intros m y Hm. lia.
  - apply IH in H as [Hk [[y [Hy Py]] Hmin]]. split; [lia|]. split.
    + exists y. split; [|exact Py]. replace (j - k) with (S (j - S k)) by lia. exact Hy.
    + intros m z Hm Hz. destruct m as [|m']; cbn [nth_error] in Hz.
      * inversion Hz; subst; exact E.
      * apply (Hmin m' z); [lia|exact Hz].
Qed.

Lemma first_idx_shift p l k : first_idx p l (S k) = option_map S (first_idx p l k).
Proof.
  revert k. induction l as [|x t IH]; intros k; cbn [first_idx option_map]; [reflexivity|].
  destruct (p x); [reflexivity|apply IH].
Qed.

Lemma first_idx_app_none p l1 l2 k :
  existsb p l1 = false -> first_idx p (l1 ++ l2) k = first_idx p l2 (k + length l1).
Proof.
  revert k. induction l1 as [|x t IH]; intros k H; cbn [app first_idx length existsb] in *.
  - rewrite Nat.add_0_r. reflexivity.
  - apply orb_false_iff in H as [Hx Ht]. rewrite Hx, (IH (S k) Ht). f_equal. lia.
Qed.

Lemma first_allow_is_first_idx a k : first_allow a k = first_idx (matched_with Allow) a k.
Proof.
  revert k. induction a as [|[m e] t IH]; intros k; cbn [first_allow first_idx]; [reflexivity|].
  unfold matched_with at 1. cbn [fst snd]. destruct (m && eft_eqb e Allow); [reflexivity|apply IH].
Qed.

(* ---------- the arrays at step i ---------- *)
Lemma firstn_mid {A} (pre : list A) x suf : firstn (S (length pre)) (pre ++ x :: suf) = pre ++ [x].
Proof.
  induction pre as [|y pre IH]; cbn [length app]; [reflexivity|].
  change (firstn (S (S (length pre))) (y :: pre ++ x :: suf)) with (y :: firstn (S (length pre)) (pre ++ x :: suf)).
  rewrite IH. reflexivity.
Qed.

Lemma arr_mid pre x suf n :
  arr (pre ++ x :: suf) (length pre) n = (pre ++ [x]) ++ repeat zero (n - S (length pre)).
Proof. unfold arr. rewrite firstn_mid. reflexivity. Qed.

Lemma nth_arr_mid pre x suf n : nth (length pre) (arr (pre ++ x :: suf) (length pre) n) zero = x.
Proof.
  rewrite arr_mid. rewrite app_nth1 by (rewrite app_length; cbn; lia).
  rewrite app_nth2 by lia. rewrite Nat.sub_diag. reflexivity.
Qed.

Lemma arr_last pre x : arr (pre ++ [x]) (length pre) (length (pre ++ [x])) = pre ++ [x].
Proof.
  rewrite arr_mid. rewrite app_length. cbn [length].
  replace (length pre + 1 - S (length pre)) with 0 by lia. apply app_nil_r.
Qed.

Lemma last_det_zeros l k j : last_det (l ++ repeat zero k) j = last_det l j.
Proof.
  revert j. induction l as [|[m e] t IH]; intros j; cbn [app].
  - revert j. induction k as [|k IHk]; intros j; cbn [repeat last_det]; [reflexivity|].
    unfold zero at 1. rewrite IHk. reflexivity.
  - cbn [last_det]. rewrite IH. reflexivity.
Qed.

Lemma last_det_none l j : existsb det l = false -> last_det l j = None.
Proof.
  revert j. induction l as [|[m e] t IH]; intros j H; cbn [last_det existsb] in *; [reflexivity|].
  apply orb_false_iff in H as [Hx Ht]. rewrite (IH _ Ht). unfold det in Hx. cbn [fst snd] in Hx.
  rewrite Hx. reflexivity.
Qed.

Lemma last_det_snoc pre x j :
  existsb det pre = false ->
  last_det (pre ++ [x]) j = if det x then Some (j + length pre, snd x) else None.
Proof.
  revert j. induction pre as [|[m e] t IH]; intros j H; cbn [app length].
  - destruct x as [m e]. cbn [last_det]. unfold det. cbn [fst snd]. rewrite Nat.add_0_r. reflexivity.
  - cbn [existsb] in H. apply orb_false_iff in H as [Hx Ht]. cbn [last_det]. rewrite (IH _ Ht).
    destruct (det x); [f_equal; f_equal; lia|].
    unfold det in Hx. cbn [fst snd] in Hx. rewrite Hx. reflexivity.
Qed.

(* ---------- the loop, effect by effect ---------- *)
Local Ltac step_loop pre x suf :=
  cbn [loop]; unfold merge; rewrite nth_arr_mid.

Lemma S_len_eq {A} (pre : list A) x suf :
  Nat.eqb (S (length pre)) (length (pre ++ x :: suf)) = match suf with [] => true | _ => false end.
Proof.
  rewrite app_length. cbn [length]. destruct suf; cbn [length].
  - apply Nat.eqb_eq. lia.
  - apply Nat.eqb_neq. lia.
Qed.

Lemma snoc_assoc {A} (pre : list A) x y suf : pre ++ x :: y :: suf = (pre ++ [x]) ++ y :: suf.
Proof. rewrite <- app_assoc. reflexivity. Qed.

Lemma len_snoc {A} (pre : list A) x : length (pre ++ [x]) = S (length pre).
Proof. rewrite app_length. cbn. lia. Qed.

Lemma loop_allow suf : forall pre fuel, suf <> [] -> length suf <= fuel ->
  loop AllowOverride (pre ++ suf) (length (pre ++ suf)) fuel (length pre) =
  Some (match first_idx (matched_with Allow) suf (length pre) with
        | Some j => (Allow, Some j) | None => (Indet, None) end).
Proof.
  induction suf as [|x suf IH]; intros pre fuel Hne Hf; [congruence|].
  destruct fuel as [|fuel]; [cbn in Hf; lia|].
  step_loop pre x suf. cbn [first_idx]. destruct x as [m e]. unfold matched_with at 1. cbn [fst snd].
  destruct (m && eft_eqb e Allow); cbn [fst]; [reflexivity|].
  rewrite S_len_eq. destruct suf as [|y suf']; [reflexivity|].
  rewrite snoc_assoc. rewrite <- (len_snoc pre (m, e)). apply IH; [discriminate|cbn in *; lia].
Qed.

Lemma loop_deny suf : forall pre fuel, suf <> [] -> length suf <= fuel ->
  loop DenyOverride (pre ++ suf) (length (pre ++ suf)) fuel (length pre) =
  Some (match first_idx (matched_with Deny) suf (length pre) with
        | Some j => (Deny, Some j) | None => (Allow, None) end).
Proof.
  induction suf as [|x suf IH]; intros pre fuel Hne Hf; [congruence|].
  destruct fuel as [|fuel]; [cbn in Hf; lia|].
  step_loop pre x suf. cbn [first_idx]. destruct x as [m e]. unfold matched_with at 1. cbn [fst snd].
  destruct (m && eft_eqb e Deny); cbn [fst]; [reflexivity|].
  replace (Nat.eqb (length pre) (length (pre ++ (m, e) :: suf) - 1))
    with (match suf with [] => true | _ => false end).
  2:{ rewrite app_length. cbn [length]. destruct suf; cbn [length]; symmetry;
      [apply Nat.eqb_eq|apply Nat.eqb_neq]; lia. }
  destruct suf as [|y suf']; cbn [fst]; [reflexivity|].
  rewrite S_len_eq.
  rewrite snoc_assoc. rewrite <- (len_snoc pre (m, e)). apply IH; [discriminate|cbn in *; lia].
Qed.

Lemma loop_allow_and_deny suf : forall pre fuel, suf <> [] -> length suf <= fuel ->
  loop AllowAndDeny (pre ++ suf) (length (pre ++ suf)) fuel (length pre) =
  Some (match first_idx (matched_with Deny) suf (length pre) with
        | Some j => (Deny, Some j)
        | None => match first_idx (matched_with Allow) (pre ++ suf) 0 with
                  | Some j => (Allow, Some j) | None => (Indet, None) end
        end).
Proof.
  induction suf as [|x suf IH]; intros pre fuel Hne Hf; [congruence|].
  destruct fuel as [|fuel]; [cbn in Hf; lia|].
  step_loop pre x suf. cbn [first_idx]. destruct x as [m e]. unfold matched_with at 1. cbn [fst snd].
  destruct (m && eft_eqb e Deny); cbn [fst]; [reflexivity|].
  replace (Nat.ltb (length pre) (length (pre ++ (m, e) :: suf) - 1))
    with (match suf with [] => false | _ => true end).
  2:{ rewrite app_length. cbn [length]. destruct suf; cbn [length]; symmetry;
      [apply Nat.ltb_ge|apply Nat.ltb_lt]; lia. }
  destruct suf as [|y suf'].
  - cbn [first_idx]. rewrite arr_last, first_allow_is_first_idx.
    destruct (first_idx (matched_with Allow) (pre ++ [(m, e)]) 0); cbn [fst]; [reflexivity|].
    rewrite (S_len_eq pre (m, e) []). reflexivity.
  - cbn [fst]. rewrite S_len_eq.
    rewrite snoc_assoc. rewrite <- (len_snoc pre (m, e)). apply IH; [discriminate|cbn in *; lia].
Qed.

Lemma merge_priority_eq ef a i n : (ef = Priority \/ ef = SubjectPriority) ->
  merge ef a i n = Some (match last_det a 0 with
            | Some (j, e') => ((if eft_eqb e' Allow then Allow else Deny), Some j)
            | None => (Indet, None)
            end).
Proof. unfold merge. destruct (nth i a zero). intros [-> | ->]; reflexivity. Qed.

Lemma loop_priority ef suf : (ef = Priority \/ ef = SubjectPriority) ->
  forall pre fuel, suf <> [] -> length suf <= fuel ->
  existsb det pre = false ->
  loop ef (pre ++ suf) (length (pre ++ suf)) fuel (length pre) =
  Some (match first_idx det suf (length pre) with
        | Some j => ((if eft_eqb (snd (nth j (pre ++ suf) zero)) Allow then Allow else Deny), Some j)
        | None => (Indet, None) end).
Proof.
  intros Hef. induction suf as [|x suf IH]; intros pre fuel Hne Hf Hpre; [congruence|].
  destruct fuel as [|fuel]; [cbn in Hf; lia|].
  cbn [loop]. rewrite (merge_priority_eq ef _ _ _ Hef).
  rewrite arr_mid, last_det_zeros, (last_det_snoc _ _ _ Hpre). cbn [first_idx Nat.add].
  destruct (det x) eqn:Dx.
  - rewrite app_nth2 by lia. rewrite Nat.sub_diag. cbn [nth].
    destruct (eft_eqb (snd x) Allow); reflexivity.
  - cbn [fst]. rewrite S_len_eq. destruct suf as [|y suf']; [reflexivity|].
    rewrite snoc_assoc. rewrite <- (len_snoc pre x). apply IH; [discriminate|cbn in *; lia|].
    rewrite existsb_app. cbn [existsb]. rewrite Hpre, Dx. reflexivity.
Qed.

(* the loop from index 0 *)
Lemma loop_allow0 v : v <> [] -> loop AllowOverride v (length v) (length v) 0 =
  Some (match first_idx (matched_with Allow) v 0 with Some j => (Allow, Some j) | None => (Indet, None) end).
Proof. intros Hv. exact (loop_allow v [] (length v) Hv (le_n _)). Qed.
Lemma loop_deny0 v : v <> [] -> loop DenyOverride v (length v) (length v) 0 =
  Some (match first_idx (matched_with Deny) v 0 with Some j => (Deny, Some j) | None => (Allow, None) end).
Proof. intros Hv. exact (loop_deny v [] (length v) Hv (le_n _)). Qed.
Lemma loop_allow_and_deny0 v : v <> [] -> loop AllowAndDeny v (length v) (length v) 0 =
  Some (match first_idx (matched_with Deny) v 0 with
        | Some j => (Deny, Some j)
        | None => match first_idx (matched_with Allow) v 0 with
                  | Some j => (Allow, Some j) | None => (Indet, None) end
        end).
Proof. intros Hv. exact (loop_allow_and_deny v [] (length v) Hv (le_n _)). Qed.
Lemma loop_priority0 ef v : (ef = Priority \/ ef = SubjectPriority) -> v <> [] ->
  loop ef v (length v) (length v) 0 =
  Some (match first_idx det v 0 with
        | Some j => ((if eft_eqb (snd (nth j v zero)) Allow then Allow else Deny), Some j)
        | None => (Indet, None) end).
Proof. intros He Hv. exact (loop_priority ef v He [] (length v) Hv (le_n _) eq_refl). Qed.

(* ---------- spec side ---------- *)
Lemma first_det_first_idx v :
  first_det v = match first_idx det v 0 with
                | Some j => eft_eqb (snd (nth j v zero)) Allow | None => false end.
Proof.
  induction v as [|x t IH]; cbn [first_det first_idx]; [reflexivity|].
  destruct (det x); [reflexivity|]. rewrite IH, first_idx_shift.
  destruct (first_idx det t 0); reflexivity.
Qed.

Lemma existsb_first_idx p v k : existsb p v = match first_idx p v k with Some _ => true | None => false end.
Proof.
  destruct (first_idx p v k) eqn:E.
  - apply not_false_iff_true. intros H. apply (first_idx_None p v k) in H. congruence.
  - apply (first_idx_None p v k). exact E.
Qed.

Theorem stream_correct ef v : supported ef = true -> v <> [] ->
  failed (stream ef v) = false /\ decision (stream ef v) = combine ef v.
Proof.
  intros Hs Hv. unfold stream.
  destruct ef; try discriminate; cbn [combine].
  - rewrite (loop_allow0 v Hv).
    unfold some_allow. rewrite (existsb_first_idx _ v 0).
    destruct (first_idx (matched_with Allow) v 0); split; reflexivity.
  - rewrite (loop_deny0 v Hv).
    unfold some_deny. rewrite (existsb_first_idx _ v 0).
    destruct (first_idx (matched_with Deny) v 0); split; reflexivity.
  - rewrite (loop_allow_and_deny0 v Hv).
    unfold some_allow, some_deny. rewrite (existsb_first_idx (matched_with Allow) v 0), (existsb_first_idx (matched_with Deny) v 0).
    destruct (first_idx (matched_with Deny) v 0); [rewrite andb_false_r; split; reflexivity|].
    destruct (first_idx (matched_with Allow) v 0); split; reflexivity.
  - rewrite (loop_priority0 Priority v (or_introl eq_refl) Hv).
    rewrite first_det_first_idx.
    destruct (first_idx det v 0); [|split; reflexivity].
    destruct (eft_eqb (snd (nth n v zero)) Allow); split; reflexivity.
  - rewrite (loop_priority0 SubjectPriority v (or_intror eq_refl) Hv).
    rewrite first_det_first_idx.
    destruct (first_idx det v 0); [|split; reflexivity].
    destruct (eft_eqb (snd (nth n v zero)) Allow); split; reflexivity.
Qed.

Theorem unsupported_is_error v : v <> [] ->
  failed (stream Unsupported v) = true /\ decision (stream Unsupported v) = false.
Proof.
  intros Hv. unfold stream. destruct v as [|x t]; [congruence|]. cbn [length loop].
  unfold merge. destruct (nth 0 (arr (x :: t) 0 (S (length t))) zero). split; reflexivity.
Qed.

(* whenever EnforceEx names a rule: it is in the policy, it matched, and it carries the
   effect that produced the decision *)
Definition deciding_eft (d : bool) : eft := if d then Allow else Deny.

Lemma first_idx_witness p v j : first_idx p v 0 = Some j -> exists x, nth_error v j = Some x /\ p x = true.
Proof.
  intros H. apply first_idx_Some in H as [_ [[x [Hx Px]] _]]. rewrite Nat.sub_0_r in Hx. eauto.
Qed.

Lemma matched_with_inv e x : matched_with e x = true -> fst x = true /\ snd x = e.
Proof.
  unfold matched_with. intros H. apply andb_true_iff in H as [H1 H2]. split; [exact H1|].
  destruct (snd x), e; cbn in H2; congruence.
Qed.

Theorem explain_truthful ef v j : v <> [] ->
  explain (stream ef v) = Some j ->
  exists e, nth_error v j = Some (true, e) /\ e = deciding_eft (decision (stream ef v)).
Proof.
  intros Hv. unfold stream.
  destruct ef.
  - rewrite (loop_allow0 v Hv).
    destruct (first_idx (matched_with Allow) v 0) as [k|] eqn:E; cbn [explain decision]; [|discriminate].
    intros H; inversion H; subst k. apply first_idx_witness in E as [[m e] [Hx Px]].
    apply matched_with_inv in Px as [Hm He]. cbn [fst snd] in *. subst. exists Allow. split; [exact Hx|reflexivity].
  - rewrite (loop_deny0 v Hv).
    destruct (first_idx (matched_with Deny) v 0) as [k|] eqn:E; cbn [explain decision]; [|discriminate].
    intros H; inversion H; subst k. apply first_idx_witness in E as [[m e] [Hx Px]].
    apply matched_with_inv in Px as [Hm He]. cbn [fst snd] in *. subst. exists Deny. split; [exact Hx|reflexivity].
  - rewrite (loop_allow_and_deny0 v Hv).
    destruct (first_idx (matched_with Deny) v 0) as [k|] eqn:E; cbn [explain decision].
    + intros H; inversion H; subst k. apply first_idx_witness in E as [[m e] [Hx Px]].
      apply matched_with_inv in Px as [Hm He]. cbn [fst snd] in *. subst. exists Deny. split; [exact Hx|reflexivity].
    + destruct (first_idx (matched_with Allow) v 0) as [k|] eqn:E2; cbn [explain decision]; [|discriminate].
      intros H; inversion H; subst k. apply first_idx_witness in E2 as [[m e] [Hx Px]].
      apply matched_with_inv in Px as [Hm He]. cbn [fst snd] in *. subst. exists Allow. split; [exact Hx|reflexivity].
  - rewrite (loop_priority0 Priority v (or_introl eq_refl) Hv).
    destruct (first_idx det v 0) as [k|] eqn:E; cbn [explain decision]; [|discriminate].
    intros H; inversion H; subst k. apply first_idx_witness in E as [[m e] [Hx Px]].
    rewrite (nth_error_nth _ _ zero Hx). cbn [snd]. unfold det in Px. cbn [fst snd] in Px.
    apply andb_true_iff in Px as [Hm He]. subst m. exists e. split; [exact Hx|].
    destruct e; cbn in *; congruence.
  - rewrite (loop_priority0 SubjectPriority v (or_intror eq_refl) Hv).
    destruct (first_idx det v 0) as [k|] eqn:E; cbn [explain decision]; [|discriminate].
    intros H; inversion H; subst k. apply first_idx_witness in E as [[m e] [Hx Px]].
    rewrite (nth_error_nth _ _ zero Hx). cbn [snd]. unfold det in Px. cbn [fst snd] in Px.
    apply andb_true_iff in Px as [Hm He]. subst m. exists e. split; [exact Hx|].
    destruct e; cbn in *; congruence.
  - destruct v as [|x t]; [congruence|]. cbn [length loop]. unfold merge.
    destruct (nth 0 (arr (x :: t) 0 (S (length t))) zero). cbn [explain]. discriminate.
Qed.

(* ---------- order insensitivity ---------- *)
Lemma existsb_perm {A} (p : A -> bool) l l' : Permutation l l' -> existsb p l = existsb p l'.
Proof.
  induction 1; cbn [existsb]; try congruence.
  - destruct (p x), (p y); reflexivity.
Qed.

Theorem combine_order_insensitive ef v v' :
  order_insensitive_effect ef = true -> Permutation v v' -> combine ef v = combine ef v'.
Proof.
  intros He P. destruct ef; try discriminate; cbn [combine]; unfold some_allow, some_deny;
    rewrite ?(existsb_perm _ _ _ P); reflexivity.
Qed.

Theorem decision_order_insensitive ef v v' :
  order_insensitive_effect ef = true -> v <> [] -> Permutation v v' ->
  decision (stream ef v) = decision (stream ef v').
Proof.
  intros He Hv P.
  assert (Hv' : v' <> []) by (intros ->; apply Permutation_sym, Permutation_nil in P; congruence).
  assert (Hs : supported ef = true) by (destruct ef; try discriminate; reflexivity).
  rewrite (proj2 (stream_correct ef v Hs Hv)), (proj2 (stream_correct ef v' Hs Hv')).
  apply combine_order_insensitive; assumption.
Qed.

(* the policy-free branch: allow-if-matched under the four positive effects,
   always allow under deny-override (one virtual slot that is never a deny) *)
Theorem nopolicy_decision ef b : supported ef = true ->
  decision (stream_nopolicy ef b) = match ef with DenyOverride => true | _ => b end.
Proof.
  intros Hs. unfold stream_nopolicy.
  assert (Hne : forall x : entry, [x] <> []) by (intros x; discriminate).
  rewrite (proj2 (stream_correct ef _ Hs (Hne _))).
  destruct ef, b; try discriminate; reflexivity.
Qed.

(* sanity: the priority order matters (so order-insensitivity is not claimed there) *)
Example priority_order_sensitive :
  combine Priority [(true, Allow); (true, Deny)] <> combine Priority [(true, Deny); (true, Allow)].
Proof. cbn. discriminate. Qed.
