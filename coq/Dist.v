(* Dist.v — executable model of enforcer_distributed.go: the *Self operations a dispatcher
   calls on every replica (AddPoliciesSelf, RemovePoliciesSelf, RemoveFilteredPolicySelf,
   ClearPolicySelf, UpdatePolicySelf, UpdatePoliciesSelf, UpdateFilteredPoliciesSelf), on the
   enforcer state of Machine.v.  The argument `p : bool` is what `shouldPersist != nil &&
   shouldPersist()` evaluated to.  Every function follows the Go text: persist FIRST when asked
   (an adapter error returns before memory is touched), then call the model functions directly
   (d.model.HasPolicy / AddPoliciesWithAffected / RemovePoliciesWithAffected / RemoveFilteredPolicy /
   UpdatePolicy / UpdatePolicies — NOT the internal_api wrappers: no pre-checks, no length check,
   no notification), then BuildIncrementalRoleLinks for the AFFECTED rules (Add / Remove /
   RemoveFiltered) or the old / new rules (the Update calls).
   The section argument `sec` of the Go functions is determined by the policy type here
   (a_is_g of its definition): callers pass the section the type belongs to.  The branches
   `err.Error() == "not implemented"` are not modelled: the adapter of Machine.v implements every
   optional interface, so an adapter error is always a genuine failure.
   Definitions only; proofs are in DistProofs.v. *)
From Coq Require Import List String Bool Arith.
Import ListNotations.
From Casbin Require Import Base Store Roles Machine.

(* what a *Self call returns *)
Inductive dres :=
| DRules (aff : list rule) (err : bool)    (* (affected [][]string, err != nil) *)
| DFlag (b : bool) (err : bool)            (* (affected bool, err != nil) *)
| DUnit (err : bool)                       (* ClearPolicySelf: err != nil *)
| DPanic.                                  (* index out of range inside model.* (outside every guard) *)

(* `if shouldPersist != nil && shouldPersist() { adapter call }` *)
Definition dpersist (p : bool) (s : mstate) (call : acall) : mstate * bool * list rule :=
  if p then let '(a, ok, old) := adapter_call (ad s) call in (with_ad s a, ok, old)
  else (s, true, []).

(* ---------- the memory part of each call (what follows the persist block) ---------- *)

(* AddPoliciesSelf, lines 52-64 *)
Definition add_mem (d : adef) (s : mstate) (pt : string) (rs : list rule) : mstate * dres :=
  let '(st', aff) := add_many (a_prio d) (get_store s pt) rs in
  let s2 := with_store s pt st' in
  if a_is_g d then
    let '(s3, lok) := links_update d s2 pt true aff in (s3, DRules aff (negb lok))
  else (s2, DRules aff false).

(* RemovePoliciesSelf, lines 80-92 *)
Definition remove_mem (d : adef) (s : mstate) (pt : string) (rs : list rule) : mstate * dres :=
  let '(st', aff) := remove_many (get_store s pt) rs in
  let s2 := with_store s pt st' in
  if a_is_g d then
    let '(s3, lok) := links_update d s2 pt false aff in (s3, DRules aff (negb lok))
  else (s2, DRules aff false).

(* RemoveFilteredPolicySelf, lines 108-120; there is no "empty fieldValues" check here: an empty
   filter matches (and removes) every rule of the type *)
Definition remove_filtered_mem (d : adef) (s : mstate) (pt : string) (fi : nat) (fvs : list string)
  : mstate * dres :=
  match remove_filtered (get_store s pt) fi fvs with
  | None => (s, DPanic)
  | Some (st', _, eff) =>
      let s2 := with_store s pt st' in
      if a_is_g d then
        let '(s3, lok) := links_update d s2 pt false eff in (s3, DRules eff (negb lok))
      else (s2, DRules eff false)
  end.

(* UpdatePolicySelf, lines 152-168 *)
Definition update_mem (d : adef) (s : mstate) (pt : string) (o n : rule) : mstate * dres :=
  let '(st', updated) := update (get_store s pt) o n in
  if negb updated then (s, DFlag false false)
  else
    let s2 := with_store s pt st' in
    if a_is_g d then
      let '(s3, lok1) := links_update d s2 pt false [o] in
      if negb lok1 then (s3, DFlag true true)
      else let '(s4, lok2) := links_update d s3 pt true [n] in (s4, DFlag true (negb lok2))
    else (s2, DFlag true false).

(* UpdatePoliciesSelf, lines 182-198.  model.UpdatePolicies is called without the length check
   of internal_api.go: with fewer new rules than old ones `newRules[newIndex]` panics after the
   first |ns| slots were rewritten (rollbackFlag is false then: no rollback) *)
Definition update_many_mem (d : adef) (s : mstate) (pt : string) (os ns : list rule) : mstate * dres :=
  let '(st', updated) := update_many (get_store s pt) os ns in
  let s2 := with_store s pt st' in        (* a refused batch was rolled back inside the store *)
  if negb updated then (s2, DFlag false false)
  else if Nat.ltb (List.length ns) (List.length os) then (s2, DPanic)
  else
    if a_is_g d then
      let '(s3, lok1) := links_update d s2 pt false os in
      if negb lok1 then (s3, DFlag true true)
      else let '(s4, lok2) := links_update d s3 pt true ns in (s4, DFlag true (negb lok2))
    else (s2, DFlag true false).

(* UpdateFilteredPoliciesSelf, lines 216-240; `old` = what the adapter returned (nil when the
   call was not persisted) *)
Definition update_filtered_mem (d : adef) (s : mstate) (pt : string) (old ns : list rule) : mstate * dres :=
  let '(st1, aff) := remove_many (get_store s pt) old in
  let '(st2, _) := add_many (a_prio d) st1 ns in
  let s2 := with_store s pt st2 in
  let changed := (match aff with [] => false | _ => true end) && negb (Nat.eqb (List.length ns) 0) in
  if negb changed then (s2, DFlag false false)
  else
    if a_is_g d then
      let '(s3, lok1) := links_update d s2 pt false old in
      if negb lok1 then (s3, DFlag true true)
      else let '(s4, lok2) := links_update d s3 pt true ns in (s4, DFlag true (negb lok2))
    else (s2, DFlag true false).

(* ---------- the seven calls ---------- *)

(* AddPoliciesSelf: only the rules that are not yet listed go to the adapter (duplicates inside
   the batch are not removed there); an unknown policy type fails in the first HasPolicy — or,
   for an empty batch, after the adapter call, in AddPoliciesWithAffected *)
Definition add_policies_self (cfg : mconf) (s : mstate) (p : bool) (pt : string) (rs : list rule)
  : mstate * dres :=
  match def_of cfg pt with
  | None =>
      match rs with
      | [] => let '(s1, _, _) := dpersist p s (AAddMany pt []) in (s1, DRules [] true)
      | _ => (s, DRules [] true)
      end
  | Some d =>
      let st := get_store s pt in
      let '(s1, ok, _) := dpersist p s (AAddMany pt (filter (fun r => negb (has st r)) rs)) in
      if negb ok then (s1, DRules [] true) else add_mem d s1 pt rs
  end.

Definition remove_policies_self (cfg : mconf) (s : mstate) (p : bool) (pt : string) (rs : list rule)
  : mstate * dres :=
  let '(s1, ok, _) := dpersist p s (ARemoveMany pt rs) in
  if negb ok then (s1, DRules [] true)
  else match def_of cfg pt with
       | None => (s1, DRules [] true)
       | Some d => remove_mem d s1 pt rs
       end.

Definition remove_filtered_policy_self (cfg : mconf) (s : mstate) (p : bool) (pt : string)
  (fi : nat) (fvs : list string) : mstate * dres :=
  let '(s1, ok, _) := dpersist p s (ARemoveFiltered pt fi fvs) in
  if negb ok then (s1, DRules [] true)
  else match def_of cfg pt with
       | None => (s1, DRules [] true)
       | Some d => remove_filtered_mem d s1 pt fi fvs
       end.

(* ClearPolicySelf: SavePolicy(nil) stores the empty policy; then invalidateMatcherMap,
   model.ClearPolicy, clearRoleLinks (the repair of F02) = Machine.clear_policy *)
Definition clear_policy_self (cfg : mconf) (s : mstate) (p : bool) : mstate * dres :=
  let '(s1, ok, _) := dpersist p s (ASave []) in
  if negb ok then (s1, DUnit true)
  else (fst (clear_policy cfg s1), DUnit false).

Definition update_policy_self (cfg : mconf) (s : mstate) (p : bool) (pt : string) (o n : rule)
  : mstate * dres :=
  let '(s1, ok, _) := dpersist p s (AUpdate pt o n) in
  if negb ok then (s1, DFlag false true)
  else match def_of cfg pt with
       | None => (s1, DFlag false true)
       | Some d => update_mem d s1 pt o n
       end.

Definition update_policies_self (cfg : mconf) (s : mstate) (p : bool) (pt : string) (os ns : list rule)
  : mstate * dres :=
  let '(s1, ok, _) := dpersist p s (AUpdateMany pt os ns) in
  if negb ok then (s1, DFlag false true)
  else match def_of cfg pt with
       | None => (s1, DFlag false true)
       | Some d => update_many_mem d s1 pt os ns
       end.

Definition update_filtered_policies_self (cfg : mconf) (s : mstate) (p : bool) (pt : string)
  (ns : list rule) (fi : nat) (fvs : list string) : mstate * dres :=
  let '(s1, ok, old) := dpersist p s (AUpdateFiltered pt ns fi fvs) in
  if negb ok then (s1, DFlag false true)
  else match def_of cfg pt with
       | None => (s1, DFlag false true)
       | Some d => update_filtered_mem d s1 pt old ns
       end.

(* ---------- operation logs ---------- *)
Inductive dop :=
| DAdd (pt : string) (rs : list rule)
| DRemove (pt : string) (rs : list rule)
| DRemoveFiltered (pt : string) (fi : nat) (fvs : list string)
| DClear
| DUpdate (pt : string) (o n : rule)
| DUpdateMany (pt : string) (os ns : list rule)
| DUpdateFiltered (pt : string) (ns : list rule) (fi : nat) (fvs : list string).

Definition dstep (cfg : mconf) (s : mstate) (op : dop) (p : bool) : mstate * dres :=
  match op with
  | DAdd pt rs => add_policies_self cfg s p pt rs
  | DRemove pt rs => remove_policies_self cfg s p pt rs
  | DRemoveFiltered pt fi fvs => remove_filtered_policy_self cfg s p pt fi fvs
  | DClear => clear_policy_self cfg s p
  | DUpdate pt o n => update_policy_self cfg s p pt o n
  | DUpdateMany pt os ns => update_policies_self cfg s p pt os ns
  | DUpdateFiltered pt ns fi fvs => update_filtered_policies_self cfg s p pt ns fi fvs
  end.

(* a replica applies a log; each entry carries the persist decision of THIS replica *)
Fixpoint drun (cfg : mconf) (s : mstate) (log : list (dop * bool)) : mstate * list dres :=
  match log with
  | [] => (s, [])
  | (op, p) :: t =>
      let '(s1, r) := dstep cfg s op p in
      let '(s2, rs) := drun cfg s1 t in (s2, r :: rs)
  end.

(* ---------- short specification of the reported lists ---------- *)
(* the rules of a batch that are not listed, first occurrences, in batch order *)
Fixpoint added (l : list rule) (rs : list rule) : list rule :=
  match rs with
  | [] => []
  | r :: t => if mem_rule r l then added l t else r :: added (r :: l) t
  end.
(* the rules of a batch that are listed, first occurrences, in batch order *)
Fixpoint removed (l : list rule) (rs : list rule) : list rule :=
  match rs with
  | [] => []
  | r :: t => if mem_rule r l then r :: removed (remove_first r l) t else removed l t
  end.

(* ---------- decisions of the two harness models ----------
   The matchers of harness/mach.go machRBAC / machDomain under `some(where (p.eft == allow))`,
   restated: a decision is a function of the listed p rules and the HasLink answers only. *)
Local Open Scope string_scope.
Definition decide_rbac (s : mstate) (sub obj act : string) : bool :=
  existsb (fun r => match r with
                    | [ps; po; pa] => has_link (get_links s "g") sub ps ""
                                      && has_link (get_links s "g2") obj po "" && String.eqb act pa
                    | _ => false
                    end) (pol (get_store s "p")).
Definition decide_domain (s : mstate) (sub dom obj act : string) : bool :=
  existsb (fun r => match r with
                    | [ps; pd; po; pa] => has_link (get_links s "g") sub ps dom
                                          && String.eqb dom pd && String.eqb obj po && String.eqb act pa
                    | _ => false
                    end) (pol (get_store s "p")).
