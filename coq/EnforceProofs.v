(* EnforceProofs.v — proofs about the model of enforce (Enforce.v):
     - the lazy policy loop agrees with Effect.loop on EVERY completion of the evaluated
       prefix, hence (EffectProofs.stream_correct) with the declarative `combine`;
     - error-free runs decide exactly as the PERM specification `perm_spec`;
     - Enforce / EnforceEx / BatchEnforce / EnforceWithMatcher(own matcher) agree;
     - explanations name a rule of the policy that matched with the deciding effect;
     - g() is reachability within max_level links (RolesProofs.has_link_iff_walk);
     - every error is fail-closed. *)
From Coq Require Import List String Ascii Bool Arith ZArith Lia.
Import ListNotations.
From Casbin Require Import Base Roles RolesProofs Effect EffectProofs Expr Enforce.
Local Open Scope string_scope.
Local Open Scope list_scope.

(* ---------- merge ---------- *)
Lemma merge_unsupported a i n : merge Unsupported a i n = None.
Proof. unfold merge. destruct (nth i a zero). reflexivity. Qed.

Lemma merge_supported ef a i n : supported ef = true -> exists r, merge ef a i n = Some r.
Proof.
  intros Hs. unfold merge. destruct (nth i a zero) as [m e].
  destruct ef; try discriminate; eexists; reflexivity.
Qed.

Lemma pair_eta {A B} (r : A * B) e x : fst r = e -> snd r = x -> r = (e, x).
Proof. destruct r; cbn; intros -> ->; reflexivity. Qed.

(* ---------- the lazy loop ---------- *)
Section Loop.
  Variable sl : rule -> sres.

  (* the evaluated prefix: rules paired with the slots the loop computed for them *)
  Definition evaluated (pre : list rule) (ents : list (bool * eft)) : Prop :=
    Forall2 (fun pv en => sl pv = SOk en) pre ents.

  Lemma evaluated_length pre ents : evaluated pre ents -> List.length ents = List.length pre.
  Proof. induction 1; cbn [List.length]; congruence. Qed.

  (* an error-free run only looked at a non-empty prefix of the rules; Effect.loop run on that
     prefix followed by ANY completion of the right length returns the very same result *)
  Lemma lazy_loop_prefix ef rest : forall acc n e x,
    n = List.length acc + List.length rest -> rest <> [] ->
    lazy_loop (Some ef) sl n acc rest = LOk e x ->
    exists pre post ents,
      rest = pre ++ post /\ pre <> [] /\ evaluated pre ents /\
      forall compl, List.length compl = List.length post ->
        loop ef (acc ++ ents ++ compl) n (List.length rest) (List.length acc) = Some (e, x).
  Proof.
    induction rest as [|pv rest' IH]; intros acc n e x Hn Hne H; [congruence|].
    cbn [lazy_loop] in H.
    destruct (sl pv) as [en| |] eqn:Hsl; try discriminate.
    destruct (merge ef ((acc ++ [en]) ++ repeat zero (n - S (List.length acc))) (List.length acc) n) as [r|] eqn:Hm;
      [|discriminate].
    (* what Effect.loop does at this index, for any tail behind the slot *)
    assert (Hstep : forall tl fuel,
      loop ef (acc ++ en :: tl) n (S fuel) (List.length acc) =
      match fst r with
      | Indet => if Nat.eqb (S (List.length acc)) n then Some r
                 else loop ef (acc ++ en :: tl) n fuel (S (List.length acc))
      | _ => Some r
      end).
    { intros tl fuel. cbn [loop]. rewrite arr_mid, Hm. reflexivity. }
    destruct (fst r) eqn:Hf.
    - (* Allow: break *)
      inversion H; subst e x. exists [pv], rest', [en]. split; [reflexivity|]. split; [discriminate|].
      split; [constructor; [exact Hsl|constructor]|].
      intros compl _. cbn [app List.length]. rewrite Hstep. f_equal. apply pair_eta; [exact Hf|reflexivity].
    - (* Indeterminate: go on, or end of the policy *)
      destruct rest' as [|pv' rest''].
      + inversion H; subst e x. exists [pv], [], [en]. split; [reflexivity|]. split; [discriminate|].
        split; [constructor; [exact Hsl|constructor]|].
        intros compl Hc. destruct compl; [|discriminate]. cbn [app List.length].
        rewrite Hstep. cbn [List.length] in Hn.
        replace (Nat.eqb (S (List.length acc)) n) with true by (symmetry; apply Nat.eqb_eq; lia).
        f_equal. apply pair_eta; [exact Hf|reflexivity].
      + apply IH in H; [|rewrite app_length; cbn [List.length] in *; lia|discriminate].
        destruct H as [pre [post [ents [Hr [Hp [He Hl]]]]]].
        exists (pv :: pre), post, (en :: ents). split; [rewrite Hr; reflexivity|]. split; [discriminate|].
        split; [constructor; assumption|].
        intros compl Hc. cbn [app]. change (List.length (pv :: pv' :: rest'')) with (S (List.length (pv' :: rest''))).
        rewrite Hstep.
        replace (Nat.eqb (S (List.length acc)) n) with false
          by (symmetry; apply Nat.eqb_neq; cbn [List.length] in Hn; lia).
        specialize (Hl compl Hc). rewrite app_length in Hl. cbn [List.length] in Hl.
        rewrite Nat.add_1_r in Hl. rewrite <- app_assoc in Hl. cbn [app] in Hl. exact Hl.
    - (* Deny: break *)
      inversion H; subst e x. exists [pv], rest', [en]. split; [reflexivity|]. split; [discriminate|].
      split; [constructor; [exact Hsl|constructor]|].
      intros compl _. cbn [app List.length]. rewrite Hstep. f_equal. apply pair_eta; [exact Hf|reflexivity].
  Qed.

  Lemma lazy_loop_supported ef acc n rest e x :
    rest <> [] -> lazy_loop (Some ef) sl n acc rest = LOk e x -> supported ef = true.
  Proof.
    intros Hne H. destruct rest as [|pv rest']; [congruence|]. cbn [lazy_loop] in H.
    destruct (sl pv); try discriminate. destruct ef; try reflexivity.
    rewrite merge_unsupported in H. discriminate.
  Qed.

  Lemma lazy_loop_no_effect acc n rest e x : lazy_loop None sl n acc rest = LOk e x -> rest = [].
  Proof. destruct rest as [|pv rest']; [reflexivity|]. cbn [lazy_loop]. destruct (sl pv); discriminate. Qed.

  (* when every rule can be evaluated the loop does not fail *)
  Lemma lazy_loop_total ef rest : forall acc n,
    supported ef = true -> Forall (fun pv => exists en, sl pv = SOk en) rest ->
    exists e x, lazy_loop (Some ef) sl n acc rest = LOk e x.
  Proof.
    induction rest as [|pv rest' IH]; intros acc n Hs Hall; [eexists; eexists; reflexivity|].
    inversion Hall as [|? ? [en Hen] Hall']; subst. cbn [lazy_loop]. rewrite Hen.
    destruct (merge_supported ef ((acc ++ [en]) ++ repeat zero (n - S (List.length acc))) (List.length acc) n Hs) as [r Hr].
    rewrite Hr. destruct (fst r); try (eexists; eexists; reflexivity).
    destruct rest' as [|pv' rest'']; [eexists; eexists; reflexivity|].
    apply IH; assumption.
  Qed.

  (* the decision of an error-free loop is the declarative combination of the evaluated prefix
     with any completion *)
  Lemma lazy_loop_combine ef policy e x :
    policy <> [] ->
    lazy_loop (Some ef) sl (List.length policy) [] policy = LOk e x ->
    exists pre post ents,
      policy = pre ++ post /\ pre <> [] /\ evaluated pre ents /\
      forall compl, List.length compl = List.length post ->
        stream ef (ents ++ compl) = {| decision := eft_eqb e Allow; explain := x; failed := false |} /\
        eft_eqb e Allow = combine ef (ents ++ compl).
  Proof.
    intros Hne H.
    pose proof (lazy_loop_supported ef [] _ policy e x Hne H) as Hs.
    apply lazy_loop_prefix in H; [|reflexivity|exact Hne].
    destruct H as [pre [post [ents [Hp [Hpre [He Hl]]]]]].
    exists pre, post, ents. repeat split; try assumption.
    - specialize (Hl compl H). cbn [app List.length] in Hl.
      unfold stream. replace (List.length (ents ++ compl)) with (List.length policy).
      + rewrite Hl. reflexivity.
      + rewrite Hp, !app_length, (evaluated_length _ _ He), H. reflexivity.
    - specialize (Hl compl H). cbn [app List.length] in Hl.
      assert (Hv : ents ++ compl <> []).
      { destruct ents; [inversion He; subst; congruence|discriminate]. }
      destruct (stream_correct ef (ents ++ compl) Hs Hv) as [_ Hd]. rewrite <- Hd.
      unfold stream. replace (List.length (ents ++ compl)) with (List.length policy).
      + rewrite Hl. reflexivity.
      + rewrite Hp, !app_length, (evaluated_length _ _ He), H. reflexivity.
  Qed.
End Loop.

(* ---------- enforce ---------- *)
Section Proofs.
  Variable parse : string -> option expr.
  Variable oracle : string -> list string -> res.

  Notation prepare := (prepare).
  Notation enforce := (enforce parse oracle).
  Notation slot := (slot parse oracle).
  Notation run := (run parse oracle).
  Notation spec_entry := (spec_entry parse oracle).
  Notation perm_spec := (perm_spec parse oracle).
  Notation error_free := (error_free parse oracle).
  Notation eval_rule := (eval_rule parse oracle).
  Notation matcher_true := (matcher_true parse oracle).

  Lemma enforce_ready M t rq s :
    prepare parse M t rq = PReady s ->
    enforce M t rq = recover (finish (List.length (rd_policy s)) (run s)).
  Proof. intros H. unfold Enforce.enforce, enforce_body. rewrite H. reflexivity. Qed.

  (* ----- fail closed: whatever goes wrong, the answer is "no" ----- *)
  Theorem enforce_fail_closed M t rq :
    failed (enforce M t rq) = true -> decision (enforce M t rq) = false /\ explain (enforce M t rq) = None.
  Proof.
    unfold Enforce.enforce, enforce_body.
    destruct (prepare parse M t rq) as [|s| |]; cbn [recover]; try discriminate; try (split; reflexivity).
    destruct (run s) as [e x| |]; cbn [finish recover]; try discriminate; split; reflexivity.
  Qed.

  (* a disabled enforcer allows everything *)
  Theorem enforce_disabled M t rq : enabled M = false ->
    enforce M t rq = {| decision := true; explain := None; failed := false |}.
  Proof. intros H. unfold Enforce.enforce, enforce_body, Enforce.prepare. rewrite H. reflexivity. Qed.

  (* the slot computed for a rule is the specification's (matched?, effect) pair *)
  Lemma slot_spec s pv en : slot s pv = SOk en -> en = spec_entry s pv.
  Proof.
    unfold Enforce.slot, Enforce.spec_entry, Enforce.matcher_true, Enforce.eft_of_rule.
    destruct (negb _); [discriminate|].
    destruct (Enforce.eval_rule parse oracle s pv) as [v| |]; try discriminate.
    destruct v; try discriminate; destruct (eft_col s pv); try discriminate; intros H; inversion H; reflexivity.
  Qed.

  Lemma evaluated_spec s pre ents :
    evaluated (slot s) pre ents -> ents = map (spec_entry s) pre.
  Proof.
    induction 1 as [|pv en pre' ents' H _ IH]; [reflexivity|].
    cbn [map]. rewrite (slot_spec _ _ _ H), IH. reflexivity.
  Qed.

  (* ----- (1) the policy loop: decision = combine over the evaluated prefix + any completion ----- *)
  Theorem enforce_prefix M t rq s :
    prepare parse M t rq = PReady s -> policy_branch s = true ->
    failed (enforce M t rq) = false ->
    exists efs pre post,
      rd_ef s = Some efs /\ supported (effect_of efs) = true /\
      rd_policy s = pre ++ post /\ pre <> [] /\
      evaluated (slot s) pre (map (spec_entry s) pre) /\
      forall compl, List.length compl = List.length post ->
        decision (enforce M t rq) = combine (effect_of efs) (map (spec_entry s) pre ++ compl).
  Proof.
    intros Hp Hb Hf. rewrite (enforce_ready _ _ _ _ Hp) in *.
    unfold Enforce.run in *. rewrite Hb in *.
    assert (Hne : rd_policy s <> []).
    { unfold policy_branch in Hb. destruct (rd_policy s); [discriminate|discriminate]. }
    destruct (rd_ef s) as [efs|] eqn:Hef; cbn [option_map] in *.
    - destruct (lazy_loop (Some (effect_of efs)) (slot s) (List.length (rd_policy s)) [] (rd_policy s)) as [e x| |] eqn:Hl;
        cbn [finish recover failed error_outcome] in Hf; try discriminate.
      pose proof (lazy_loop_supported _ _ _ _ _ _ _ Hne Hl) as Hs.
      destruct (lazy_loop_combine _ _ _ _ _ Hne Hl) as [pre [post [ents [Hpp [Hpre [He Hc]]]]]].
      pose proof (evaluated_spec _ _ _ He) as ->.
      exists efs, pre, post. repeat split; try assumption.
      intros compl Hlen. cbn [finish recover decision]. apply (Hc compl Hlen).
    - destruct (lazy_loop None (slot s) (List.length (rd_policy s)) [] (rd_policy s)) as [e x| |] eqn:Hl;
        cbn [finish recover failed error_outcome] in Hf; try discriminate.
      apply lazy_loop_no_effect in Hl. congruence.
  Qed.

  (* ----- (2) error-free runs decide exactly as the PERM specification ----- *)
  Lemma forallb_slot_ok s l : forallb (slot_ok parse oracle s) l = true ->
    Forall (fun pv => exists en, slot s pv = SOk en) l.
  Proof.
    intros H. apply Forall_forall. intros pv Hin. rewrite forallb_forall in H. specialize (H pv Hin).
    unfold slot_ok in H. destruct (slot s pv) as [en| |]; try discriminate. exists en. reflexivity.
  Qed.

  Theorem enforce_error_free M t rq s efs :
    prepare parse M t rq = PReady s -> rd_ef s = Some efs -> supported (effect_of efs) = true ->
    error_free s = true ->
    failed (enforce M t rq) = false /\ decision (enforce M t rq) = perm_spec (effect_of efs) s.
  Proof.
    intros Hp Hef Hs Hok. unfold Enforce.error_free, Enforce.perm_spec in *.
    destruct (policy_branch s) eqn:Hb.
    - (* the policy loop *)
      assert (Hne : rd_policy s <> []).
      { unfold policy_branch in Hb. destruct (rd_policy s); [discriminate|discriminate]. }
      assert (Hf : failed (enforce M t rq) = false).
      { rewrite (enforce_ready _ _ _ _ Hp). unfold Enforce.run. rewrite Hb, Hef. cbn [option_map].
        destruct (lazy_loop_total (slot s) (effect_of efs) (rd_policy s) [] (List.length (rd_policy s)) Hs
                    (forallb_slot_ok _ _ Hok)) as [e [x Hl]].
        rewrite Hl. reflexivity. }
      split; [exact Hf|].
      destruct (enforce_prefix M t rq s Hp Hb Hf) as [efs' [pre [post [Hef' [_ [Hpp [_ [_ Hc]]]]]]]].
      rewrite Hef in Hef'. inversion Hef'; subst efs'.
      rewrite (Hc (map (spec_entry s) post)) by apply map_length.
      rewrite <- map_app, <- Hpp. reflexivity.
    - (* the policy-free branch *)
      apply andb_true_iff in Hok as [Hne Hev].
      rewrite (enforce_ready _ _ _ _ Hp). unfold Enforce.run. rewrite Hb.
      apply negb_true_iff in Hne. rewrite Hne, Hef. cbn [option_map].
      unfold Enforce.matcher_true.
      destruct (Enforce.eval_rule parse oracle s (blank_rule s)) as [v| |]; try discriminate.
      destruct v; try discriminate.
      destruct (effect_of efs), b; try discriminate; split; reflexivity.
  Qed.

  (* ----- (3) the entry points agree ----- *)
  Theorem enforce_ex_agrees M rq :
    api_enforce parse oracle M rq =
    (fst (fst (api_enforce_ex parse oracle M rq)), snd (api_enforce_ex parse oracle M rq)).
  Proof. reflexivity. Qed.

  Definition ctx_of (rq : request) : ectx := match rq_ctx rq with Some c => c | None => default_ctx end.

  (* EnforceWithMatcher given the matcher the model stores (a text that EscapeAssertion and
     RemoveComments leave unchanged, as every Value stored by Model.AddDef is) *)
  Theorem enforce_with_own_matcher M rq t :
    lookup (c_m (ctx_of rq)) (m_defs M) = Some t -> t <> "" -> prep_matcher t = t ->
    api_enforce_with_matcher parse oracle M t rq = api_enforce parse oracle M rq.
  Proof.
    intros Hl Hne Hprep. unfold api_enforce_with_matcher, api_enforce, Enforce.enforce, enforce_body.
    assert (E : prepare parse M t rq = prepare parse M "" rq).
    { unfold Enforce.prepare, ctx_of in *. destruct (enabled M); [|reflexivity]. cbn [negb].
      destruct (String.eqb t "") eqn:Et; [apply String.eqb_eq in Et; congruence|].
      rewrite String.eqb_refl, Hprep, Hl. reflexivity. }
    rewrite E. reflexivity.
  Qed.

  (* BatchEnforce: the decisions of the requests before the first failing one, and whether
     one failed *)
  Fixpoint ok_prefix (M : emodel) (rqs : list request) : list request :=
    match rqs with
    | [] => []
    | rq :: t => if failed (enforce M "" rq) then [] else rq :: ok_prefix M t
    end.

  Theorem batch_spec M rqs :
    api_batch_enforce parse oracle M rqs =
    (map (fun rq => fst (api_enforce parse oracle M rq)) (ok_prefix M rqs),
     existsb (fun rq => snd (api_enforce parse oracle M rq)) rqs).
  Proof.
    induction rqs as [|rq t IH]; [reflexivity|].
    cbn [api_batch_enforce ok_prefix existsb].
    change (snd (api_enforce parse oracle M rq)) with (failed (enforce M "" rq)).
    destruct (failed (enforce M "" rq)) eqn:Hf; [reflexivity|].
    rewrite IH. cbn [map orb]. reflexivity.
  Qed.

  Corollary batch_no_error M rqs rs :
    api_batch_enforce parse oracle M rqs = (rs, false) ->
    rs = map (fun rq => fst (api_enforce parse oracle M rq)) rqs /\
    Forall (fun rq => snd (api_enforce parse oracle M rq) = false) rqs.
  Proof.
    rewrite batch_spec. intros H. injection H as Hr He. subst rs.
    assert (Hall : Forall (fun rq => snd (api_enforce parse oracle M rq) = false) rqs).
    { apply Forall_forall. intros rq Hin. destruct (snd (api_enforce parse oracle M rq)) eqn:E; [|reflexivity].
      assert (existsb (fun rq => snd (api_enforce parse oracle M rq)) rqs = true)
        as Hx by (apply existsb_exists; exists rq; split; assumption).
      change (existsb (fun rq => failed (enforce M "" rq)) rqs = true) in Hx. congruence. }
    split; [|exact Hall]. clear He. f_equal.
    induction rqs as [|rq t IH]; [reflexivity|]. inversion Hall; subst. cbn [ok_prefix].
    unfold api_enforce in H1. cbn [snd] in H1. rewrite H1. f_equal. apply IH. assumption.
  Qed.

  (* ----- (4) explanations ----- *)
  Theorem explain_in_policy M t rq j :
    explain (enforce M t rq) = Some j ->
    exists s, prepare parse M t rq = PReady s /\ j < List.length (rd_policy s).
  Proof.
    unfold Enforce.enforce, enforce_body.
    destruct (prepare parse M t rq) as [|s| |]; cbn [recover explain error_outcome]; try discriminate.
    destruct (run s) as [e x| |]; cbn [finish recover explain error_outcome]; try discriminate.
    destruct x as [k|]; [|discriminate]. destruct (Nat.ltb k (List.length (rd_policy s))) eqn:E; [|discriminate].
    intros H. inversion H; subst k. exists s. split; [reflexivity|]. apply Nat.ltb_lt. exact E.
  Qed.

  Lemma evaluated_nth sl pre ents j en :
    evaluated sl pre ents -> nth_error ents j = Some en ->
    exists pv, nth_error pre j = Some pv /\ sl pv = SOk en.
  Proof.
    intros H. revert j. induction H as [|pv e pre' ents' Hpv _ IH]; intros j Hj.
    - destruct j; discriminate.
    - destruct j as [|j']; cbn [nth_error] in *.
      + inversion Hj; subst. exists pv. split; [reflexivity|exact Hpv].
      + apply IH. exact Hj.
  Qed.

  (* in the policy loop the explained rule is a rule of the policy that matched the request
     and carries the effect that produced the decision *)
  Theorem explain_truthful M t rq s j :
    prepare parse M t rq = PReady s -> policy_branch s = true ->
    explain (enforce M t rq) = Some j ->
    exists pv e, nth_error (rd_policy s) j = Some pv /\ slot s pv = SOk (true, e) /\
                 e = deciding_eft (decision (enforce M t rq)).
  Proof.
    intros Hp Hb. rewrite (enforce_ready _ _ _ _ Hp). unfold Enforce.run. rewrite Hb.
    assert (Hne : rd_policy s <> []).
    { unfold policy_branch in Hb. destruct (rd_policy s); [discriminate|discriminate]. }
    destruct (rd_ef s) as [efs|] eqn:Hef; cbn [option_map].
    - destruct (lazy_loop (Some (effect_of efs)) (slot s) (List.length (rd_policy s)) [] (rd_policy s)) as [e x| |] eqn:Hl;
        cbn [finish recover explain decision error_outcome]; try discriminate.
      destruct x as [k|]; [|discriminate]. destruct (Nat.ltb k (List.length (rd_policy s))); [|discriminate].
      intros H. inversion H; subst k.
      destruct (lazy_loop_combine _ _ _ _ _ Hne Hl) as [pre [post [ents [Hpp [Hpre [He Hc]]]]]].
      (* complete the prefix with unmatched slots: the explained index cannot fall there *)
      destruct (Hc (repeat (false, Allow) (List.length post)) (repeat_length _ _)) as [Hst _].
      assert (Hv : ents ++ repeat (false, Allow) (List.length post) <> []).
      { destruct ents; [inversion He; subst; congruence|discriminate]. }
      pose proof (EffectProofs.explain_truthful (effect_of efs) _ j Hv) as Ht.
      rewrite Hst in Ht. cbn [explain decision] in Ht. destruct (Ht eq_refl) as [e' [Hn Hd]].
      assert (Hj : nth_error ents j = Some (true, e')).
      { destruct (Nat.lt_ge_cases j (List.length ents)) as [Hlt|Hge].
        - rewrite nth_error_app1 in Hn by exact Hlt. exact Hn.
        - rewrite nth_error_app2 in Hn by exact Hge. apply nth_error_In, repeat_spec in Hn. discriminate. }
      destruct (evaluated_nth _ _ _ _ _ He Hj) as [pv [Hpv Hs]].
      exists pv, e'. split; [|split; [exact Hs|exact Hd]].
      rewrite Hpp. rewrite nth_error_app1; [exact Hpv|]. apply nth_error_Some. congruence.
    - destruct (lazy_loop None (slot s) (List.length (rd_policy s)) [] (rd_policy s)) as [e x| |] eqn:Hl;
        cbn [finish recover explain error_outcome]; try discriminate.
      apply lazy_loop_no_effect in Hl. congruence.
  Qed.
End Proofs.

(* ---------- (5) g() is reachability within max_level links ---------- *)
Theorem g_call_two_args count ls a b :
  exists v, g_call count ls [VStr a; VStr b] = Ok (VBool v) /\
            (v = true <-> exists k, k <= max_level /\ walk ls "" a b k).
Proof.
  eexists. split; [reflexivity|]. unfold has_link. apply has_link_iff_walk.
Qed.

Theorem g_call_domain count ls a b d : 3 <= count ->
  exists v, g_call count ls [VStr a; VStr b; VStr d] = Ok (VBool v) /\
            (v = true <-> exists k, k <= max_level /\ walk ls d a b k).
Proof.
  intros Hc. unfold g_call. cbn [all_strings option_map].
  replace (Nat.leb count 2) with false by (symmetry; apply Nat.leb_gt; lia).
  eexists. split; [reflexivity|]. unfold has_link. apply has_link_iff_walk.
Qed.

(* a non-string argument is the a.(string) panic of GenerateGFunction, never a decision *)
Theorem g_call_non_string count ls vs : all_strings vs = None -> g_call count ls vs = Panic.
Proof. intros H. unfold g_call. rewrite H. reflexivity. Qed.

(* the same at the level of the matcher evaluator: a call g(a, b) / g(a, b, dom) whose
   arguments evaluate to strings *)
Lemma eval_g_call2 parse oracle fuel en f count ls ea eb a b :
  (eval_in_scope en && String.eqb f "eval") = false ->
  lookup f (gdefs en) = Some (count, ls) ->
  eval parse oracle fuel en ea = Ok (VStr a) -> eval parse oracle fuel en eb = Ok (VStr b) ->
  eval parse oracle fuel en (ECall f [ea; eb]) = g_call count ls [VStr a; VStr b].
Proof.
  intros He Hl Ha Hb. destruct fuel; cbn [eval]; cbn [eval] in Ha, Hb; rewrite Ha, Hb, He, Hl; reflexivity.
Qed.

Lemma eval_g_call3 parse oracle fuel en f count ls ea eb ed a b d :
  (eval_in_scope en && String.eqb f "eval") = false ->
  lookup f (gdefs en) = Some (count, ls) ->
  eval parse oracle fuel en ea = Ok (VStr a) -> eval parse oracle fuel en eb = Ok (VStr b) ->
  eval parse oracle fuel en ed = Ok (VStr d) ->
  eval parse oracle fuel en (ECall f [ea; eb; ed]) = g_call count ls [VStr a; VStr b; VStr d].
Proof.
  intros He Hl Ha Hb Hd.
  destruct fuel; cbn [eval]; cbn [eval] in Ha, Hb, Hd; rewrite Ha, Hb, Hd, He, Hl; reflexivity.
Qed.

Theorem g_is_bounded_reachability parse oracle fuel en f count ls ea eb a b :
  (eval_in_scope en && String.eqb f "eval") = false ->
  lookup f (gdefs en) = Some (count, ls) ->
  eval parse oracle fuel en ea = Ok (VStr a) -> eval parse oracle fuel en eb = Ok (VStr b) ->
  exists v, eval parse oracle fuel en (ECall f [ea; eb]) = Ok (VBool v) /\
            (v = true <-> exists k, k <= max_level /\ walk ls "" a b k).
Proof.
  intros He Hl Ha Hb. rewrite (eval_g_call2 parse oracle fuel en f count ls ea eb a b He Hl Ha Hb). apply g_call_two_args.
Qed.

Theorem g_domain_is_bounded_reachability parse oracle fuel en f count ls ea eb ed a b d :
  3 <= count ->
  (eval_in_scope en && String.eqb f "eval") = false ->
  lookup f (gdefs en) = Some (count, ls) ->
  eval parse oracle fuel en ea = Ok (VStr a) -> eval parse oracle fuel en eb = Ok (VStr b) ->
  eval parse oracle fuel en ed = Ok (VStr d) ->
  exists v, eval parse oracle fuel en (ECall f [ea; eb; ed]) = Ok (VBool v) /\
            (v = true <-> exists k, k <= max_level /\ walk ls d a b k).
Proof.
  intros Hc He Hl Ha Hb Hd. rewrite (eval_g_call3 parse oracle fuel en f count ls ea eb ed a b d He Hl Ha Hb Hd).
  apply g_call_domain. exact Hc.
Qed.

(* short-circuit: a false left operand of && (true of ||) decides without looking at the
   right operand, whatever it is (ill-typed, failing, panicking) *)
Lemma eval_and_short parse oracle fuel en a b :
  eval parse oracle fuel en a = Ok (VBool false) ->
  eval parse oracle fuel en (EBin OAnd a b) = Ok (VBool false).
Proof. intros Ha. destruct fuel; cbn [eval]; cbn [eval] in Ha; rewrite Ha; reflexivity. Qed.

Lemma eval_or_short parse oracle fuel en a b :
  eval parse oracle fuel en a = Ok (VBool true) ->
  eval parse oracle fuel en (EBin OOr a b) = Ok (VBool true).
Proof. intros Ha. destruct fuel; cbn [eval]; cbn [eval] in Ha; rewrite Ha; reflexivity. Qed.

(* eval() nesting: with no fuel left an eval() call is the nesting error, never a recursion *)
Lemma eval_nesting_exhausted parse oracle en ea v :
  eval_in_scope en = true ->
  eval parse oracle 0 en ea = Ok v ->
  eval parse oracle 0 en (ECall "eval" [ea]) = Err.
Proof.
  intros Hs Ha. cbn [eval]. cbn [eval] in Ha. rewrite Ha, Hs. cbn [String.eqb Ascii.eqb Bool.eqb andb].
  destruct v; try reflexivity. destruct l as [|x [|y l']]; reflexivity.
Qed.
