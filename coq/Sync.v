(* Sync.v -- model of the SyncedEnforcer lock protocol (definitions only; proofs in SyncProofs.v).

   Shared by C12 (race / deadlock freedom) and C13 (linearizability).

   1. The table types filled in by the translator (coq/Gen/SyncTable.v): one [wrapper] per method
      declared with receiver *SyncedEnforcer, each a list of critical [section]s on the single
      sync.RWMutex e.m with the abstract locations that may be accessed inside.
   2. A small-step machine: any number of threads, each running a list of calls, each call a
      list of sections, each section a list of micro-steps on a shared state; one RWMutex
      (writer option + reader list).  The machine is executable ([step_by]), so witnesses are
      closed by computation and invariants by case analysis.
   3. The decision procedures run on the generated table ([table_ok], [lin_ok]).
   4. The auto-load protocol (StartAutoLoadPolicy / StopAutoLoadPolicy / loader goroutine).

   What is modelled rather than verified: sync.RWMutex (acquire R needs no writer, acquire W
   needs nobody, no fairness / writer preference -- irrelevant for safety), the Go memory model
   (a data race = two threads simultaneously inside sections with conflicting accesses). *)
From Coq Require Import List String NArith Bool Arith Lia.
Import ListNotations.

(* ------------------------------------------------------------------ 1. table types *)

Inductive mode := R | W | NoLock.
Inductive shape := Regular | Irregular.

Record section := {
  s_mode : mode;
  s_callees : list string;   (* informational *)
  s_pr : list N;             (* plain reads *)
  s_pw : list N;             (* plain writes *)
  s_ar : list N;             (* synchronised reads: sync.Map, sync/atomic, channel, inner mutex *)
  s_aw : list N              (* synchronised writes *)
}.

Record wrapper := {
  w_name : string;
  w_shape : shape;           (* Irregular: the translator could not establish the sections *)
  w_sections : list section;
  w_escapes : list N         (* shared memory that the RETURNED values point to directly *)
}.

Definition mode_eqb (a b : mode) : bool :=
  match a, b with R, R => true | W, W => true | NoLock, NoLock => true | _, _ => false end.

(* two sections may be active at the same time under an RWMutex unless one of them is a write
   section and the other one holds the lock at all *)
Definition can_overlap (a b : mode) : bool :=
  match a, b with
  | W, W => false | W, R => false | R, W => false
  | _, _ => true
  end.

(* an access: location, is-write, is-synchronised *)
Definition access := (N * bool * bool)%type.
Definition a_loc (a : access) : N := fst (fst a).
Definition a_write (a : access) : bool := snd (fst a).
Definition a_sync (a : access) : bool := snd a.

Definition accs (s : section) : list access :=
  map (fun l => (l, false, false)) (s_pr s) ++ map (fun l => (l, true, false)) (s_pw s) ++
  map (fun l => (l, false, true)) (s_ar s) ++ map (fun l => (l, true, true)) (s_aw s).

(* Go memory model: same location, at least one write, not both synchronised *)
Definition conflicting (a b : access) : Prop :=
  a_loc a = a_loc b /\ (a_write a = true \/ a_write b = true) /\ (a_sync a = false \/ a_sync b = false).

Definition conflictingb (a b : access) : bool :=
  N.eqb (a_loc a) (a_loc b) && (a_write a || a_write b) && (negb (a_sync a) || negb (a_sync b)).

(* the write accesses of a section *)
Definition writes (s : section) : list access :=
  map (fun l => (l, true, false)) (s_pw s) ++ map (fun l => (l, true, true)) (s_aw s).

(* some write of s1 conflicts with some access of s2 (table_ok looks at both orders) *)
Definition half_conflictb (s1 s2 : section) : bool :=
  existsb (fun a => existsb (conflictingb a) (accs s2)) (writes s1).

Definition all_sections (T : list wrapper) : list section := flat_map w_sections T.

Definition shape_ok (w : wrapper) : bool := match w_shape w with Regular => true | Irregular => false end.

(* THE C12 obligation on the generated table: every wrapper has well-formed sections, and no
   two sections that the lock allows to overlap (incl. two instances of the same section in
   different threads) have conflicting accesses.  In particular: a plain write can only sit in
   a W section, and a lock-free section cannot plainly touch anything that is written anywhere. *)
Definition pair_ok (s1 s2 : section) : bool :=
  if can_overlap (s_mode s1) (s_mode s2) then negb (half_conflictb s1 s2) else true.

Definition table_ok (T : list wrapper) : bool :=
  forallb shape_ok T &&
  forallb (fun s1 => forallb (pair_ok s1) (all_sections T)) (all_sections T).

(* A wrapper may hand a reference to shared memory to its caller (a slice of the model, say);
   the caller reads it after the lock is released.  That is modelled as a lock-free pseudo-call
   "<name>$result" whose only section plainly reads the memory the returned values point to;
   table_ok is evaluated on the table extended with these readers, so a returned reference to
   memory that any section writes is rejected (finding F38 had this shape). *)
Definition result_reader (w : wrapper) : wrapper :=
  {| w_name := w_name w ++ "$result"; w_shape := Regular;
     w_sections := match w_escapes w with
                   | [] => []
                   | ls => [ {| s_mode := NoLock; s_callees := []; s_pr := ls; s_pw := []; s_ar := []; s_aw := [] |} ]
                   end;
     w_escapes := [] |}.

Definition with_result_readers (T : list wrapper) : list wrapper := T ++ map result_reader T.

(* ------------------------------------------------------------------ 2. the machine *)

Definition tid := nat.

Section Machine.
  Variables Sec Call St Loc Ret : Type.
  Variable mode_of : Sec -> mode.
  Variable body_of : Sec -> list (Loc -> St -> Loc * St).   (* micro-steps, each one atomic *)
  Variable impl : Call -> list Sec.                          (* the sections of a call, in order *)
  Variable loc0 : Call -> Loc.                               (* thread-local state at invocation *)
  Variable ret_of : Call -> Loc -> Ret.                      (* result, from the local state *)

  Notation micro := (Loc -> St -> Loc * St).

  Inductive tstate :=
  | TIdle (todo : list Call)
  | TCall (c : Call) (l : Loc) (secs : list Sec) (todo : list Call)
  | TIn (c : Call) (l : Loc) (s : Sec) (k : list micro) (s0 : St) (secs : list Sec) (todo : list Call).
  (* s0: ghost, the shared state when the section was entered *)

  Inductive event :=
  | EInv (t : tid) (n : nat) (c : Call)
  | ERet (t : tid) (n : nat) (r : Ret).

  Record config := {
    sh : St;                          (* shared state *)
    wr : option tid;                  (* RWMutex: the writer *)
    rd : list tid;                    (* RWMutex: the readers *)
    th : tid -> tstate;
    cnt : tid -> nat;                 (* calls completed by each thread = index of its current call *)
    tr : list event;                  (* history, NEWEST FIRST *)
    glin : list (tid * nat * Call)    (* ghost: calls in the order they entered a section, NEWEST FIRST *)
  }.

  Definition upd {A} (f : tid -> A) (t : tid) (x : A) : tid -> A :=
    fun u => if Nat.eqb u t then x else f u.

  Definition init (s : St) (prog : tid -> list Call) : config :=
    {| sh := s; wr := None; rd := []; th := fun t => TIdle (prog t); cnt := fun _ => 0; tr := []; glin := [] |}.

  Definition can_acquire (m : mode) (c : config) : bool :=
    match m with
    | R => match wr c with None => true | Some _ => false end
    | W => match wr c, rd c with None, [] => true | _, _ => false end
    | NoLock => true
    end.

  Definition acquire (m : mode) (t : tid) (c : config) : option tid * list tid :=
    match m with
    | R => (wr c, t :: rd c)
    | W => (Some t, rd c)
    | NoLock => (wr c, rd c)
    end.

  Definition release (m : mode) (t : tid) (c : config) : option tid * list tid :=
    match m with
    | R => (wr c, remove Nat.eq_dec t (rd c))
    | W => (None, rd c)
    | NoLock => (wr c, rd c)
    end.

  (* the one step thread t can take in configuration c, if any *)
  Definition step_by (t : tid) (c : config) : option config :=
    match th c t with
    | TIdle [] => None
    | TIdle (ca :: todo) =>                                       (* invoke *)
        Some {| sh := sh c; wr := wr c; rd := rd c; th := upd (th c) t (TCall ca (loc0 ca) (impl ca) todo);
                cnt := cnt c; tr := EInv t (cnt c t) ca :: tr c; glin := glin c |}
    | TCall ca l [] todo =>                                       (* return *)
        Some {| sh := sh c; wr := wr c; rd := rd c; th := upd (th c) t (TIdle todo);
                cnt := upd (cnt c) t (S (cnt c t)); tr := ERet t (cnt c t) (ret_of ca l) :: tr c; glin := glin c |}
    | TCall ca l (s :: secs) todo =>                              (* enter the next section *)
        if can_acquire (mode_of s) c then
          let (w', r') := acquire (mode_of s) t c in
          Some {| sh := sh c; wr := w'; rd := r'; th := upd (th c) t (TIn ca l s (body_of s) (sh c) secs todo);
                  cnt := cnt c; tr := tr c; glin := (t, cnt c t, ca) :: glin c |}
        else None
    | TIn ca l s (m :: k) s0 secs todo =>                         (* one micro-step inside the section *)
        let (l', st') := m l (sh c) in
        Some {| sh := st'; wr := wr c; rd := rd c; th := upd (th c) t (TIn ca l' s k s0 secs todo);
                cnt := cnt c; tr := tr c; glin := glin c |}
    | TIn ca l s [] s0 secs todo =>                               (* leave the section *)
        let (w', r') := release (mode_of s) t c in
        Some {| sh := sh c; wr := w'; rd := r'; th := upd (th c) t (TCall ca l secs todo);
                cnt := cnt c; tr := tr c; glin := glin c |}
    end.

  Definition step (c c' : config) : Prop := exists t, step_by t c = Some c'.

  Inductive reachable (c0 : config) : config -> Prop :=
  | reach_init : reachable c0 c0
  | reach_step : forall c c', reachable c0 c -> step c c' -> reachable c0 c'.

  (* running a schedule (a list of thread ids); a disabled step aborts *)
  Fixpoint run_sched (sched : list tid) (c : config) : option config :=
    match sched with
    | [] => Some c
    | t :: rest => match step_by t c with Some c' => run_sched rest c' | None => None end
    end.

  Definition inside (c : config) (t : tid) (s : Sec) : Prop :=
    exists ca l k s0 secs todo, th c t = TIn ca l s k s0 secs todo.

  Definition finished (c : config) (t : tid) : Prop := th c t = TIdle [].

  (* ---------------- sequential specification and linearizability (C13) *)

  Variable seq_step : St -> Call -> St * Ret.

  Fixpoint run (k : list micro) (l : Loc) (st : St) : Loc * St :=
    match k with
    | [] => (l, st)
    | m :: k' => let (l', st') := m l st in run k' l' st'
    end.

  Definition pure_micro (m : micro) : Prop := forall l st, snd (m l st) = st.

  (* a call that is ONE section which, run alone, does what the sequential enforcer does; a read
     section moreover never modifies the (abstract) shared state *)
  Definition atomic_call (ca : Call) : Prop :=
    exists s, impl ca = [s] /\
      (mode_of s = W \/ (mode_of s = R /\ Forall pure_micro (body_of s))) /\
      forall st, snd (run (body_of s) (loc0 ca) st) = fst (seq_step st ca) /\
                 ret_of ca (fst (run (body_of s) (loc0 ca) st)) = snd (seq_step st ca).

  Definition cid := (tid * nat)%type.
  Definition id_of (x : tid * nat * Call) : cid := fst x.
  Definition call_of (x : tid * nat * Call) : Call := snd x.
  Definition ids (L : list (tid * nat * Call)) : list cid := map id_of L.

  (* L is NEWEST FIRST: the state after all of L, and what each call returns at its place *)
  Fixpoint spec_run (s : St) (L : list (tid * nat * Call)) : St :=
    match L with
    | [] => s
    | x :: L' => fst (seq_step (spec_run s L') (call_of x))
    end.

  Fixpoint outs (s : St) (L : list (tid * nat * Call)) : list (cid * Ret) :=
    match L with
    | [] => []
    | x :: L' => (id_of x, snd (seq_step (spec_run s L') (call_of x))) :: outs s L'
    end.

  (* real-time order on a history (newest first): a returned before b was invoked *)
  Definition returns_before (h : list event) (a b : cid) : Prop :=
    exists l1 l2 r cb, h = l1 ++ EInv (fst b) (snd b) cb :: l2 /\ In (ERet (fst a) (snd a) r) l2.

  (* a is placed before b in the sequential order L (newest first) *)
  Definition placed_before (L : list (tid * nat * Call)) (a b : cid) : Prop :=
    exists l1 l2 cb, L = l1 ++ (b, cb) :: l2 /\ In a (ids l2).

  (* L is a linearization of history h from initial state s: a sequence of distinct calls that
     were all invoked (with these arguments), containing every completed call, in which every
     completed call returns what the sequential specification returns at that place, and which
     respects the real-time order of h. *)
  Definition linearization (s : St) (h : list event) (L : list (tid * nat * Call)) : Prop :=
    NoDup (ids L) /\
    (forall t n ca, In (t, n, ca) L -> In (EInv t n ca) h) /\
    (forall t n r, In (ERet t n r) h -> In ((t, n), r) (outs s L)) /\
    (forall a b, returns_before h a b -> In b (ids L) -> placed_before L a b).

  Definition linearizable (s : St) (h : list event) : Prop := exists L, linearization s h L.

End Machine.

Arguments sh {Sec Call St Loc Ret} c.
Arguments wr {Sec Call St Loc Ret} c.
Arguments rd {Sec Call St Loc Ret} c.
Arguments th {Sec Call St Loc Ret} c.
Arguments cnt {Sec Call St Loc Ret} c.
Arguments tr {Sec Call St Loc Ret} c.
Arguments glin {Sec Call St Loc Ret} c.
Arguments TIdle {Sec Call St Loc}.
Arguments TCall {Sec Call St Loc}.
Arguments TIn {Sec Call St Loc}.
Arguments EInv {Call Ret}.
Arguments ERet {Call Ret}.

(* ------------------------------------------------------------------ 3. C12 on tables *)

(* the machine instantiated with table sections: a call is a wrapper, bodies are irrelevant *)
Section TableMachine.
  Variables St Loc Ret : Type.
  Variable body_of : section -> list (Loc -> St -> Loc * St).
  Variable loc0 : wrapper -> Loc.
  Variable ret_of : wrapper -> Loc -> Ret.

  Definition tconfig := config section wrapper St Loc Ret.
  Definition tstep_by := step_by section wrapper St Loc Ret s_mode body_of w_sections loc0 ret_of.
  Definition treachable := reachable section wrapper St Loc Ret s_mode body_of w_sections loc0 ret_of.
  Definition tinit := init section wrapper St Loc Ret.

  (* a data race: two distinct threads are inside sections at the same time and the sections
     contain conflicting accesses *)
  Definition race_state (c : tconfig) : Prop :=
    exists t1 t2 s1 s2 a b,
      t1 <> t2 /\ inside _ _ _ _ _ c t1 s1 /\ inside _ _ _ _ _ c t2 s2 /\
      In a (accs s1) /\ In b (accs s2) /\ conflicting a b.
End TableMachine.

(* ------------------------------------------------------------------ 3b. C13 on tables *)

Definition mem_str (x : string) (l : list string) : bool := existsb (String.eqb x) l.

Definition name_of (names : list (N * string)) (l : N) : string :=
  match find (fun p => N.eqb (fst p) l) names with Some p => snd p | None => EmptyString end.

Definition names_of (names : list (N * string)) (ls : list N) : list string := map (name_of names) ls.

Definition subset_str (a b : list string) : bool := forallb (fun x => mem_str x b) a.

Open Scope string_scope.

(* Synchronised writes that a read section may perform without touching the abstract state:
   memoisation of pure functions of the key, dropped by every write section that could change
   the value (C04 proves the invalidation discipline of the sequential enforcer). *)
Definition transparent_caches : list string := [
  "casbin.Enforcer.matcherMap{}";      (* compiled matcher per matcher string *)
  "util.reCache[]"                     (* compiled regexp per pattern, under util.reCacheMu *)
].

(* F20: the default role manager creates and removes temporary roles (and their pattern matches)
   while answering HasLink / GetRoles / GetUsers under the READ lock, and g() memoises the
   answer.  With a role-matching function two concurrent readers interfere through these. *)
Definition f20_scratch : list string := [
  "defaultrolemanager.RoleManagerImpl.allRoles{}";
  "defaultrolemanager.Role.matched{}";
  "defaultrolemanager.Role.matchedBy{}";
  "defaultrolemanager.Role.roles{}";
  "defaultrolemanager.Role.users{}";
  "defaultrolemanager.DomainManager.rmMap{}";
  "util.GenerateGFunction.memorized{}"
].

(* lock-free control API: no abstract state, outside the linearizability statement *)
Definition control_api : list string := [
  "GetLock"; "IsAutoLoadingRunning"; "StartAutoLoadPolicy"; "StopAutoLoadPolicy"; "StartAutoLoadPolicy$go1"
].

Definition modes (w : wrapper) : list mode := map s_mode (w_sections w).

Definition sync_writes (names : list (N * string)) (w : wrapper) : list string :=
  flat_map (fun s => names_of names (s_aw s)) (w_sections w).

Definition plain_writes (w : wrapper) : list N := flat_map s_pw (w_sections w).

(* one write section, or one read section without any write except to the transparent caches *)
Definition atomic_wrapper (names : list (N * string)) (w : wrapper) : bool :=
  shape_ok w &&
  match w_sections w with
  | [s] => match s_mode s with
           | W => true
           | R => match s_pw s with [] => subset_str (names_of names (s_aw s)) transparent_caches | _ => false end
           | NoLock => false
           end
  | _ => false
  end.

Definition control_wrapper (w : wrapper) : bool :=
  shape_ok w && mem_str (w_name w) control_api &&
  match w_sections w with
  | [s] => match s_mode s, s_pw s with NoLock, [] => true | _, _ => false end
  | _ => false
  end.

(* signatures of the recorded findings; a generated exception is accepted only if it has one *)
Definition f19_sig (w : wrapper) : bool :=
  shape_ok w && String.eqb (w_name w) "LoadPolicy" &&
  match modes w with [R; W] => true | _ => false end.

Definition f20_sig (names : list (N * string)) (w : wrapper) : bool :=
  shape_ok w &&
  match w_sections w with
  | [s] => match s_mode s, s_pw s with
           | R, [] => subset_str (names_of names (s_aw s)) (transparent_caches ++ f20_scratch) &&
                      existsb (fun x => mem_str x f20_scratch) (names_of names (s_aw s))
           | _, _ => false
           end
  | _ => false
  end.

Definition exception_ok (names : list (N * string)) (ex : list (string * string)) (w : wrapper) : bool :=
  existsb (fun p => String.eqb (fst p) (w_name w) &&
                    ((String.eqb (snd p) "F19" && f19_sig w) || (String.eqb (snd p) "F20" && f20_sig names w))) ex.

(* THE C13 obligation on the generated table: every wrapper is atomic, or lock-free control API,
   or a listed exception that carries the signature of its finding; and nothing is listed that
   is atomic anyway. *)
Definition lin_ok (names : list (N * string)) (ex : list (string * string)) (T : list wrapper) : bool :=
  forallb (fun w => atomic_wrapper names w || control_wrapper w || exception_ok names ex w) T &&
  forallb (fun p => existsb (fun w => String.eqb (w_name w) (fst p) && negb (atomic_wrapper names w)) T) ex.

Definition excepted (ex : list (string * string)) (name : string) : bool := mem_str name (map fst ex).

Close Scope string_scope.

(* ------------------------------------------------------------------ 4. auto-load protocol *)

(* StartAutoLoadPolicy / StopAutoLoadPolicy / the loader goroutine of enforcer_synced.go.
   Shared: the flag autoLoadRunning, the 1-slot channel stopAutoLoad (number of buffered
   tokens), the number of live loader goroutines.  The booleans say which variant the source
   has (the translator reads them off the SSA). *)
Record al_variant := {
  v_nonblocking_send : bool;   (* Stop: select { case ch <- x: default: }  vs  ch <- x *)
  v_cas : bool;                (* Start: CompareAndSwap(0,1)  vs  load; store *)
  v_drain : bool               (* Start: drop a stale token before starting the loader *)
}.

Inductive al_op := OpStart | OpStop.

(* program counter of a client thread inside an operation *)
Inductive al_pc :=
| PcIdle                      (* between operations *)
| PcStartCheck                (* Start: about to test / CAS the flag *)
| PcStartSet                  (* Start without CAS: saw 0, about to store 1 *)
| PcStartDrain                (* Start: about to drain *)
| PcStartSpawn                (* Start: about to `go` the loader *)
| PcStopCheck                 (* Stop: about to read the flag *)
| PcStopSend.                 (* Stop: saw 1, about to send *)

(* the loader goroutine: waiting in select, or past `return` and about to clear the flag *)
Inductive al_loader := LdWaiting | LdExiting.

Record al_state := {
  flag : bool;
  chan : nat;                          (* tokens in the buffer, capacity 1 *)
  loaders : list al_loader;            (* live loader goroutines *)
  clients : nat -> al_pc * list al_op  (* pc and remaining operations of each client thread *)
}.

Definition al_init (prog : nat -> list al_op) : al_state :=
  {| flag := false; chan := 0; loaders := []; clients := fun t => (PcIdle, prog t) |}.

Definition al_upd (f : nat -> al_pc * list al_op) (t : nat) (x : al_pc * list al_op) :=
  fun u => if Nat.eqb u t then x else f u.

(* one step of client t; None = the client cannot move (finished, or blocked on the send) *)
Definition al_client_step (v : al_variant) (t : nat) (s : al_state) : option al_state :=
  let set pc ops fl ch ld := {| flag := fl; chan := ch; loaders := ld; clients := al_upd (clients s) t (pc, ops) |} in
  match clients s t with
  | (PcIdle, []) => None
  | (PcIdle, OpStart :: ops) => Some (set PcStartCheck ops (flag s) (chan s) (loaders s))
  | (PcIdle, OpStop :: ops) => Some (set PcStopCheck ops (flag s) (chan s) (loaders s))
  | (PcStartCheck, ops) =>
      if v_cas v then
        if flag s then Some (set PcIdle ops (flag s) (chan s) (loaders s))
        else Some (set PcStartDrain ops true (chan s) (loaders s))
      else
        if flag s then Some (set PcIdle ops (flag s) (chan s) (loaders s))
        else Some (set PcStartSet ops (flag s) (chan s) (loaders s))
  | (PcStartSet, ops) => Some (set PcStartDrain ops true (chan s) (loaders s))
  | (PcStartDrain, ops) =>
      Some (set PcStartSpawn ops (flag s) (if v_drain v then 0 else chan s) (loaders s))
  | (PcStartSpawn, ops) => Some (set PcIdle ops (flag s) (chan s) (LdWaiting :: loaders s))
  | (PcStopCheck, ops) =>
      if flag s then Some (set PcStopSend ops (flag s) (chan s) (loaders s))
      else Some (set PcIdle ops (flag s) (chan s) (loaders s))
  | (PcStopSend, ops) =>
      match chan s with
      | 0 => Some (set PcIdle ops (flag s) 1 (loaders s))
      | S _ => if v_nonblocking_send v then Some (set PcIdle ops (flag s) (chan s) (loaders s)) else None
      end
  end.

(* one step of the i-th loader goroutine: a tick (LoadPolicy, invisible here) is a stutter and is
   left out; receiving the stop token; clearing the flag and disappearing *)
Fixpoint al_replace (l : list al_loader) (i : nat) (x : option al_loader) : list al_loader :=
  match l, i with
  | [], _ => []
  | _ :: r, 0 => match x with Some y => y :: r | None => r end
  | h :: r, S j => h :: al_replace r j x
  end.

Definition al_loader_step (i : nat) (s : al_state) : option al_state :=
  match nth_error (loaders s) i with
  | None => None
  | Some LdWaiting =>
      match chan s with
      | 0 => None
      | S n => Some {| flag := flag s; chan := n; loaders := al_replace (loaders s) i (Some LdExiting); clients := clients s |}
      end
  | Some LdExiting =>
      Some {| flag := false; chan := chan s; loaders := al_replace (loaders s) i None; clients := clients s |}
  end.

Inductive al_actor := Client (t : nat) | Loader (i : nat).

Definition al_step_by (v : al_variant) (a : al_actor) (s : al_state) : option al_state :=
  match a with Client t => al_client_step v t s | Loader i => al_loader_step i s end.

Inductive al_reachable (v : al_variant) (s0 : al_state) : al_state -> Prop :=
| al_reach_init : al_reachable v s0 s0
| al_reach_step : forall s s' a, al_reachable v s0 s -> al_step_by v a s = Some s' -> al_reachable v s0 s'.

Fixpoint al_run (v : al_variant) (sched : list al_actor) (s : al_state) : option al_state :=
  match sched with
  | [] => Some s
  | a :: rest => match al_step_by v a s with Some s' => al_run v rest s' | None => None end
  end.

Definition al_client_done (s : al_state) (t : nat) : Prop := clients s t = (PcIdle, []).
