(* C05Cond — the CONDITIONAL role managers (ConditionalRoleManager, ConditionalDomainManager of
   rbac/default-role-manager/role_manager.go) and the enforcer's conditional branch
   (model/assertion.go buildIncrementalConditionalRoleLinks / buildConditionalRoleLinks,
   internal_api.go, enforcer.go).  Only final statements; each closed by `exact` and followed by
   Print Assumptions.

   Model: RoleCond.v on top of RoleGraph.v.  A ConditionalRoleManager is the embedded RoleManagerImpl
   (c_rm, the pointer structure of RoleGraph.v) plus the linkConditionFuncMap / ...ParamsMap of every
   Role object, kept as two tables keyed by (object id of the user Role, roleName, domainName).  The
   users' functions are the variable  cf : id -> params -> option bool  (None = error), quantified in
   every theorem.  crm_has_link / chl_helper / seg_next follow HasLink / hasLinkHelper / getNextRoles.
   A ConditionalDomainManager is rmMap (domain -> ConditionalRoleManager) + the two matching-function
   flags; the calls it inherits from DomainManager and that panic on its values answer CPanic.
   estep is the conditional branch of the management API over (listed rules, manager, store).

   CWF mf s  = the embedded manager is well-formed (RoleGraphProofs.WF) and every table key belongs to
               an allocated Role object and names a registered role.
   cond_pass cf s x y d = Some true / Some false / None: the link x -> y passes in domain d (no
               function registered, or it holds on the parameters currently stored; no parameters
               stored = called without arguments) / does not pass / its function returns an error.
   lwalk cf s d u r k = u reaches r through k stored links, the first passing in domain d, every
               later one passing in the default domain "".
   fn_of / par_of s x y d = the function / parameter list stored for the link x -> y in domain d. *)
From Coq Require Import List String Bool Arith.
Import ListNotations.
From Casbin Require Import Base Roles RolesProofs RoleGraph RoleGraphProofs RoleCond RoleCondProofs.
Local Open Scope string_scope.

(* ---------- the structure stays well-formed ---------- *)

(* After EVERY sequence of AddLink / DeleteLink / HasLink / GetRoles / GetUsers / Clear /
   AddMatchingFunc / Add[Domain]LinkConditionFunc / Set[Domain]LinkConditionFuncParams /
   Get[Domain]LinkConditionFunc / GetLinkConditionFuncParams calls (any role matching function, any
   condition functions) the conditional manager is well-formed. *)
Theorem C05C_structure_wellformed_all_histories : forall mf cf n ops s,
  CWF mf s -> CWF mf (crun mf cf n s ops).
Proof. exact crun_CWF. Qed.
Print Assumptions C05C_structure_wellformed_all_histories.

Theorem C05C_new_manager_wellformed : forall mf b, CWF mf (crm_new b).
Proof. exact CWF_new. Qed.
Print Assumptions C05C_new_manager_wellformed.

(* ConditionalDomainManager: after every sequence of its calls (matching functions and the calls
   that panic included) rmMap holds one well-formed ConditionalRoleManager per domain. *)
Theorem C05C_domain_structure_wellformed_all_histories : forall mf dmf cf n ops dm,
  CDWF mf dm -> CDWF mf (cdrun mf dmf cf n dm ops).
Proof. exact cdrun_CDWF. Qed.
Print Assumptions C05C_domain_structure_wellformed_all_histories.

Theorem C05C_new_domain_manager_wellformed : forall mf, CDWF mf cdm_new.
Proof. exact CDWF_new. Qed.
Print Assumptions C05C_new_domain_manager_wellformed.

(* ---------- (a) no condition function registered: the plain manager ---------- *)

(* (a1) With no function registered HasLink of the conditional manager IS HasLink of the embedded
   RoleManagerImpl — same answer, same state afterwards — for every role matching function, every
   domain argument, every stored parameter list. *)
Theorem C05C_without_functions_has_link_is_plain : forall mf cf n s u r d,
  c_fn s = [] -> WF mf (c_rm s) ->
  snd (crm_has_link mf cf n s u r d) = snd (RoleGraph.has_link mf n (c_rm s) u r) /\
  fst (crm_has_link mf cf n s u r d) = with_rm s (fst (RoleGraph.has_link mf n (c_rm s) u r)).
Proof. exact crm_has_link_nofn_full. Qed.
Print Assumptions C05C_without_functions_has_link_is_plain.

(* (a2) A history of the calls shared with RoleManagerImpl (AddLink, DeleteLink, HasLink, GetRoles,
   GetUsers, Clear, AddMatchingFunc) drives the embedded manager exactly as the same calls drive a
   plain RoleManagerImpl (RoleGraph.rrun), and answers every further shared call alike: every C05G
   theorem about the plain structure holds of the conditional one. *)
Theorem C05C_shared_histories_are_plain_histories : forall mf cf n ops s,
  c_fn s = [] -> WF mf (c_rm s) -> Forall plain_cop ops ->
  c_rm (crun mf cf n s ops) = rrun mf n (c_rm s) (projs ops) /\ c_fn (crun mf cf n s ops) = [] /\
  WF mf (c_rm (crun mf cf n s ops)).
Proof. exact crun_plain. Qed.
Print Assumptions C05C_shared_histories_are_plain_histories.

Theorem C05C_shared_answers_are_plain_answers : forall mf cf n ops op rp,
  Forall plain_cop ops -> proj op = Some rp ->
  to_rres (snd (cstep mf cf n (crun mf cf n (crm_new false) ops) op))
  = snd (rstep mf n (rrun mf n (new_rm false) (projs ops)) rp).
Proof. exact crun_plain_answers. Qed.
Print Assumptions C05C_shared_answers_are_plain_answers.

(* (a3) Refinement to the link set of Roles.v (about which C05 is proved): without matching function
   and without a registered function, every history of the remaining calls — parameters may be set,
   functions and parameters may be queried — holds exactly the links the abstract model holds after
   the shared calls of the history, and answers HasLink / GetRoles / GetUsers as it does. *)
Theorem C05C_histories_without_functions_refine : forall mf cf n d0 ops s ls,
  CWF mf s -> m_mf (c_rm s) = false -> c_fn s = [] -> links_equiv (abs_rm d0 (c_rm s)) ls ->
  Forall nofn_cop ops ->
  CWF mf (crun mf cf n s ops) /\ m_mf (c_rm (crun mf cf n s ops)) = false /\ c_fn (crun mf cf n s ops) = [] /\
  links_equiv (abs_rm d0 (c_rm (crun mf cf n s ops))) (arun n d0 ls (projs ops)).
Proof. exact crun_nofn. Qed.
Print Assumptions C05C_histories_without_functions_refine.

Theorem C05C_answers_without_functions_agree : forall mf cf n d0 ops op rp,
  Forall nofn_cop ops -> nofn_cop op -> proj op = Some rp ->
  res_agree (to_rres (snd (cstep mf cf n (crun mf cf n (crm_new false) ops) op)))
            (snd (astep n d0 (arun n d0 [] (projs ops)) rp)).
Proof. exact crun_nofn_answers. Qed.
Print Assumptions C05C_answers_without_functions_agree.

(* ---------- (b) HasLink with conditions ---------- *)

(* (b1) Manager without role matching function, well-formed (hence after every history).
   HasLink(u, r, d) = true  ==>  r is reached from u within n = maxHierarchyLevel stored links each
   of whose condition (if any) holds on its CURRENT parameters — the first link judged in the domain
   d of the call, every later one in the default domain (hasLinkHelper drops `domains` when it
   recurses).  A function that returns an error never grants.  Conversely, when no condition on a
   stored link returns an error, every such path is found: the characterisation is exact. *)
Theorem C05C_has_link_is_conditional_bounded_reachability : forall mf cf n s u r d,
  WF mf (c_rm s) -> m_mf (c_rm s) = false ->
  (snd (crm_has_link mf cf n s u r d) = true -> exists k, k <= n /\ lwalk cf s d u r k) /\
  (no_err_links cf s -> (exists k, k <= n /\ lwalk cf s d u r k) -> snd (crm_has_link mf cf n s u r d) = true).
Proof. exact crm_has_link_spec. Qed.
Print Assumptions C05C_has_link_is_conditional_bounded_reachability.

(* the hypothesis of the exact direction holds whenever no registered function can fail *)
Theorem C05C_total_functions_never_err : forall cf s,
  (forall f ps, In f (map snd (c_fn s)) -> cf f ps <> None) -> no_err_links cf s.
Proof. exact no_err_total. Qed.
Print Assumptions C05C_total_functions_never_err.

(* cond_pass, the pure lookup the model uses inside hasLinkHelper, is a function of the stored function
   and parameters of the link; and on REGISTERED names — the only ones hasLinkHelper meets in a
   well-formed structure — the stateful getters of the code return exactly those and change nothing. *)
Theorem C05C_condition_is_stored_function_on_stored_parameters : forall cf s x y d,
  cond_pass cf s x y d = match fn_of s x y d with
                         | Some f => cf f (match par_of s x y d with Some ps => ps | None => [] end)
                         | None => Some true
                         end.
Proof. exact cond_pass_fn_par. Qed.
Print Assumptions C05C_condition_is_stored_function_on_stored_parameters.

Theorem C05C_getters_are_pure_on_registered_names : forall mf s un rn d u r, WFs (c_rm s) ->
  regd (c_rm s) un u -> regd (c_rm s) rn r ->
  crm_get_fn mf s un rn d = (s, fn_of s un rn d) /\ crm_get_params mf s un rn d = (s, par_of s un rn d).
Proof. exact getters_pure_on_registered. Qed.
Print Assumptions C05C_getters_are_pure_on_registered_names.

(* (b2) With a role matching function: the same, over the edges hasLinkHelper follows in the state
   where both names are registered (rangeRoles: stored links closed under pattern matching, see
   C05G_has_link_is_pattern_reachability), the target being r or a name matching r. *)
Theorem C05C_has_link_conditional_pattern_reachability : forall mf cf n s n1 n2 d, WF mf (c_rm s) ->
  (snd (crm_has_link mf cf n s n1 n2 d) = true ->
   exists y k, k <= n /\ cwalk cf (chl_state mf s n1 n2) d n1 y k /\ starget mf (c_rm s) n2 y) /\
  (no_err cf (chl_state mf s n1 n2) ->
   (exists y k, k <= n /\ cwalk cf (chl_state mf s n1 n2) d n1 y k /\ starget mf (c_rm s) n2 y) ->
   snd (crm_has_link mf cf n s n1 n2 d) = true).
Proof. exact crm_has_link_value. Qed.
Print Assumptions C05C_has_link_conditional_pattern_reachability.

(* (b3) ConditionalDomainManager: HasLink(u, r, d) is HasLink(u, r, d) of the manager stored for d;
   without a domain matching function AddLink / DeleteLink never reach the panicking assertion. *)
Theorem C05C_domain_has_link_is_the_domains_manager : forall mf dmf cf n dm u r d rm,
  lookup d (cd_rms dm) = Some rm ->
  snd (cdm_has_link mf dmf cf n dm u r d) = snd (crm_has_link mf cf n rm u r d).
Proof. exact cdm_has_link_stored. Qed.
Print Assumptions C05C_domain_has_link_is_the_domains_manager.

Theorem C05C_domain_links_do_not_panic_without_domain_pattern : forall mf dmf dm u r d,
  cd_dmf dm = false ->
  snd (cdm_add_link mf dmf dm u r d) = CUnit /\ snd (cdm_delete_link mf dmf dm u r d) = CUnit.
Proof. exact cdm_links_no_panic. Qed.
Print Assumptions C05C_domain_links_do_not_panic_without_domain_pattern.

(* ---------- (c) frame: a registration changes the condition of ONE link and nothing else ---------- *)

(* Add[Domain]LinkConditionFunc(u, r, d, f): afterwards the function of (u, r, d) is f; the function of
   every other (link, domain), every stored parameter list and the stored links are what they were. *)
Theorem C05C_add_function_frame : forall mf s un rn d f, CWF mf s ->
  fn_of (crm_add_fn mf s un rn d f) un rn d = Some f /\
  (forall x y d', (x, y, d') <> (un, rn, d) -> fn_of (crm_add_fn mf s un rn d f) x y d' = fn_of s x y d') /\
  (forall x y d', par_of (crm_add_fn mf s un rn d f) x y d' = par_of s x y d') /\
  (forall x y, In (x, y) (links_of (c_rm (crm_add_fn mf s un rn d f))) <-> In (x, y) (links_of (c_rm s))).
Proof. exact add_fn_frame. Qed.
Print Assumptions C05C_add_function_frame.

Theorem C05C_set_parameters_frame : forall mf s un rn d ps, CWF mf s ->
  par_of (crm_set_params mf s un rn d ps) un rn d = Some ps /\
  (forall x y d', (x, y, d') <> (un, rn, d) -> par_of (crm_set_params mf s un rn d ps) x y d' = par_of s x y d') /\
  (forall x y d', fn_of (crm_set_params mf s un rn d ps) x y d' = fn_of s x y d') /\
  (forall x y, In (x, y) (links_of (c_rm (crm_set_params mf s un rn d ps))) <-> In (x, y) (links_of (c_rm s))).
Proof. exact set_params_frame. Qed.
Print Assumptions C05C_set_parameters_frame.

(* so the truth of every OTHER condition is unchanged ... *)
Theorem C05C_add_function_changes_one_condition : forall mf cf s un rn d f x y d', CWF mf s ->
  (x, y, d') <> (un, rn, d) -> cond_pass cf (crm_add_fn mf s un rn d f) x y d' = cond_pass cf s x y d'.
Proof. exact add_fn_cond_frame. Qed.
Print Assumptions C05C_add_function_changes_one_condition.

Theorem C05C_set_parameters_changes_one_condition : forall mf cf s un rn d ps x y d', CWF mf s ->
  (x, y, d') <> (un, rn, d) -> cond_pass cf (crm_set_params mf s un rn d ps) x y d' = cond_pass cf s x y d'.
Proof. exact set_params_cond_frame. Qed.
Print Assumptions C05C_set_parameters_changes_one_condition.

(* ... and the condition of that link becomes: the new function on the parameters stored BEFORE it
   (none = no arguments) / the function registered before on the NEW parameters. *)
Theorem C05C_function_applies_to_earlier_parameters : forall mf cf s un rn d f, CWF mf s ->
  cond_pass cf (crm_add_fn mf s un rn d f) un rn d
  = cf f (match par_of s un rn d with Some ps => ps | None => [] end).
Proof. exact add_fn_cond. Qed.
Print Assumptions C05C_function_applies_to_earlier_parameters.

Theorem C05C_parameters_apply_to_earlier_function : forall mf cf s un rn d ps, CWF mf s ->
  cond_pass cf (crm_set_params mf s un rn d ps) un rn d
  = match fn_of s un rn d with Some f => cf f ps | None => Some true end.
Proof. exact set_params_cond. Qed.
Print Assumptions C05C_parameters_apply_to_earlier_function.

(* AddLink / DeleteLink never touch a function or a parameter list (they live in the Role objects,
   not in the links: a link deleted and added again is conditional as before). *)
Theorem C05C_add_link_keeps_conditions : forall mf s a b x y d, CWF mf s ->
  fn_of (crm_add_link mf s a b) x y d = fn_of s x y d /\ par_of (crm_add_link mf s a b) x y d = par_of s x y d.
Proof. exact (fun mf => add_link_frame mf no_cf). Qed.
Print Assumptions C05C_add_link_keeps_conditions.

Theorem C05C_delete_link_keeps_conditions : forall mf s a b x y d, CWF mf s ->
  fn_of (crm_delete_link mf s a b) x y d = fn_of s x y d /\ par_of (crm_delete_link mf s a b) x y d = par_of s x y d.
Proof. exact (fun mf => delete_link_frame mf no_cf). Qed.
Print Assumptions C05C_delete_link_keeps_conditions.

(* ---------- (e) the enforcer: conditional role definition g = _, _, (_, .., _) ---------- *)

(* EI np e = the role definition has a well-formed ConditionalRoleManager without matching function
   whose stored links are EXACTLY the links named by the listed grouping rules, and the rules the
   adapter delivers have at least 2 + np fields.  Inside the guard — AddGroupingPolicies with rules
   of at least 2 + np fields, LoadPolicy, ClearPolicy, AddNamed[Domain]LinkConditionFunc,
   SetNamed[Domain]LinkConditionFuncParams, decisions — EI holds after every history: role
   inheritance mirrors the currently listed grouping rules ((b1) then says what g() answers). *)
Theorem C05C_enforcer_links_mirror_listed_rules : forall mf dmf cf n np ops e,
  EI mf np e -> Forall (guarded np) ops -> EI mf np (erun mf dmf cf n np e ops).
Proof. exact erun_EI. Qed.
Print Assumptions C05C_enforcer_links_mirror_listed_rules.

Theorem C05C_new_enforcer_meets_invariant : forall mf np store,
  Forall (long np) store -> EI mf np (mkCenf [] (MC (crm_new false)) store).
Proof. exact EI_new. Qed.
Print Assumptions C05C_new_enforcer_meets_invariant.

(* ---------- what is FALSE (witnesses computed on the faithful model) ---------- *)

(* F04: outside the guard the invariant fails.  The single-rule AddGroupingPolicy lists the rule and
   builds no link; the batch call builds it; RemoveGroupingPolicy and RemoveGroupingPolicies unlist
   the rule and leave the link. *)
Theorem C05C_F04_shape :
  let e1 := fst (estep no_mf no_mf wcf 10 2 e_empty (EAddOne f04_rule)) in
  let e2 := fst (estep no_mf no_mf wcf 10 2 e_empty (EAddMany [f04_rule])) in
  let e3 := fst (estep no_mf no_mf wcf 10 2 e2 (ERemoveOne f04_rule)) in
  let e4 := fst (estep no_mf no_mf wcf 10 2 e2 (ERemoveMany [f04_rule])) in
  e_rules e1 = [f04_rule] /\ g_of e1 "alice" "admin" = false /\
  e_rules e2 = [f04_rule] /\ g_of e2 "alice" "admin" = true /\
  e_rules e3 = [] /\ g_of e3 "alice" "admin" = true /\
  e_rules e4 = [] /\ g_of e4 "alice" "admin" = true.
Proof. exact f04_shape. Qed.
Print Assumptions C05C_F04_shape.

Theorem C05C_unguarded_single_add_refuted :
  exists e op, EI no_mf 2 e /\ ~ EI no_mf 2 (fst (estep no_mf no_mf wcf 10 2 e op)).
Proof. exact f04_refuted. Qed.
Print Assumptions C05C_unguarded_single_add_refuted.

Theorem C05C_unguarded_batch_remove_refuted :
  exists e op, EI no_mf 2 e /\ ~ EI no_mf 2 (fst (estep no_mf no_mf wcf 10 2 e op)) /\ (exists r, op = ERemoveMany [r]).
Proof. exact f04_remove_refuted. Qed.
Print Assumptions C05C_unguarded_batch_remove_refuted.

(* "every link of the path is judged in the domain of the call" is false: the domain reaches the
   first hop only.  a -> b carries a condition that fails in domain d; HasLink(a, b, d) is false, but
   HasLink(u, b, d) is true although u -> a -> b is the only path. *)
Theorem C05C_domain_reaches_first_hop_only_refuted :
  let s := crun no_mf wcf 10 (crm_new false) hop_ops in
  snd (crm_has_link no_mf wcf 10 s "u" "b" "d") = true /\
  snd (crm_has_link no_mf wcf 10 s "a" "b" "d") = false /\
  forall k, ~ uwalk wcf s "d" "u" "b" k.
Proof. exact domain_first_hop_only_refuted. Qed.
Print Assumptions C05C_domain_reaches_first_hop_only_refuted.

(* the exact direction of (b1) needs "no condition errs": an erroring condition on u -> a hides the
   unconditional sibling u -> b when u -> a is walked first (the Range stops); stored in the other
   order the answer is true.  Go's Range order is unspecified: there the answer is order dependent. *)
Theorem C05C_error_hides_sibling_link_refuted :
  let s := crun no_mf wcf 10 (crm_new false) [CAdd "u" "a"; CAdd "u" "b"; CAddFn "u" "a" "" 2] in
  (exists k, k <= 10 /\ lwalk wcf s "" "u" "b" k) /\
  snd (crm_has_link no_mf wcf 10 s "u" "b" "") = false /\
  snd (crm_has_link no_mf wcf 10 (crun no_mf wcf 10 (crm_new false) [CAdd "u" "b"; CAdd "u" "a"; CAddFn "u" "a" "" 2]) "u" "b" "") = true.
Proof. exact error_hides_sibling_refuted. Qed.
Print Assumptions C05C_error_hides_sibling_link_refuted.

(* the frame does not extend to AddMatchingFunc, Clear, LoadPolicy, copyFrom: each of them drops
   every function, so a link whose condition fails comes back unconditional. *)
Theorem C05C_rebuild_and_clear_drop_functions_refuted :
  let s := crun kmatch wcf 10 (crm_new false) [CAdd "u" "r"; CAddFn "u" "r" "" 3] in
  snd (crm_has_link kmatch wcf 10 s "u" "r" "") = false /\
  snd (crm_has_link kmatch wcf 10 (crm_add_matching_func kmatch s) "u" "r" "") = true /\
  snd (crm_has_link kmatch wcf 10 (crm_add_link kmatch (crm_clear s) "u" "r") "u" "r" "") = true.
Proof. exact rebuild_drops_functions_refuted. Qed.
Print Assumptions C05C_rebuild_and_clear_drop_functions_refuted.

Theorem C05C_load_policy_drops_functions_refuted :
  let e := fst (estep no_mf no_mf wcf 10 2 (mkCenf [] (MC (crm_new false)) [["u"; "r"; "off"; "x"]]) ELoad) in
  let e1 := fst (estep no_mf no_mf wcf 10 2 e (EAddFn "u" "r" "" 0)) in
  g_of e "u" "r" = true /\ g_of e1 "u" "r" = false /\ g_of (fst (estep no_mf no_mf wcf 10 2 e1 ELoad)) "u" "r" = true.
Proof. exact load_drops_functions_refuted. Qed.
Print Assumptions C05C_load_policy_drops_functions_refuted.

Theorem C05C_copy_from_drops_functions_refuted :
  let dm := cdrun no_mf kmatch wcf 10 cdm_new copy_ops in
  snd (cdm_has_link no_mf kmatch wcf 10 dm "u" "r" "*") = false /\
  snd (cdm_has_link no_mf kmatch wcf 10 dm "u" "r" "d1") = true.
Proof. exact copy_from_drops_functions_refuted. Qed.
Print Assumptions C05C_copy_from_drops_functions_refuted.

(* a ConditionalDomainManager forwards a registration to the managers stored at that moment only *)
Theorem C05C_function_before_first_link_of_domain_is_lost_refuted :
  snd (cdm_has_link no_mf no_mf wcf 10 (cdrun no_mf no_mf wcf 10 cdm_new [KAddFn "u" "r" "d1" 3; KAdd "u" "r" "d1"]) "u" "r" "d1") = true /\
  snd (cdm_has_link no_mf no_mf wcf 10 (cdrun no_mf no_mf wcf 10 cdm_new [KAdd "u" "r" "d1"; KAddFn "u" "r" "d1" 3]) "u" "r" "d1") = false.
Proof. exact early_function_lost_refuted. Qed.
Print Assumptions C05C_function_before_first_link_of_domain_is_lost_refuted.

(* the calls inherited from DomainManager panic once a domain has a manager *)
Theorem C05C_inherited_domain_calls_panic :
  let dm := cdrun no_mf kmatch wcf 10 cdm_new [KAdd "u" "r" "d1"] in
  snd (cdstep no_mf kmatch wcf 10 dm (KRoles "u" "d1")) = CPanic /\
  snd (cdstep no_mf kmatch wcf 10 dm (KUsers "r" "d1")) = CPanic /\
  snd (cdstep no_mf kmatch wcf 10 dm (KRoles "u" "d2")) = CList [] /\
  snd (cdstep no_mf kmatch wcf 10 dm (KDomains "u")) = CPanic /\
  snd (cdstep no_mf kmatch wcf 10 dm KAddMF) = CPanic /\
  snd (cdstep no_mf kmatch wcf 10 dm KAddDMF) = CPanic /\
  snd (cdstep no_mf kmatch wcf 10 (fst (cdstep no_mf kmatch wcf 10 dm KAddDMF)) (KAdd "u" "r" "*")) = CPanic.
Proof. exact inherited_calls_panic. Qed.
Print Assumptions C05C_inherited_domain_calls_panic.

(* GetLinkConditionFunc on two unknown names leaves the second one registered *)
Theorem C05C_get_function_leaks_a_name :
  map fst (m_all (c_rm (fst (crm_get_fn no_mf (crm_new false) "x" "y" "")))) = ["y"] /\
  snd (crm_get_fn no_mf (crm_new false) "x" "y" "") = None.
Proof. exact get_fn_leaks_second_name. Qed.
Print Assumptions C05C_get_function_leaks_a_name.

(* ---------- non-vacuity ---------- *)
(* parameters before the function, the function before the parameters, delete + add keeps the
   condition, a condition in the middle of a chain, named domain vs default domain, the two
   erroring functions *)
Example C05C_nonvacuous_conditions :
  let h (ops : list cop) u r d := snd (crm_has_link no_mf wcf 10 (crun no_mf wcf 10 (crm_new false) ops) u r d) in
  h [CAdd "a" "b"; CSetPar "a" "b" "" ["on"]; CAddFn "a" "b" "" 0] "a" "b" "" = true /\
  h [CAdd "a" "b"; CAddFn "a" "b" "" 0] "a" "b" "" = false /\
  h [CAdd "a" "b"; CAddFn "a" "b" "" 0; CSetPar "a" "b" "" ["on"]] "a" "b" "" = true /\
  h [CAdd "a" "b"; CAddFn "a" "b" "" 0; CSetPar "a" "b" "" ["on"]; CDel "a" "b"; CAdd "a" "b"] "a" "b" "" = true /\
  h [CAdd "a" "b"; CAddFn "a" "b" "" 0; CDel "a" "b"; CAdd "a" "b"] "a" "b" "" = false /\
  h [CAdd "u" "a"; CAdd "a" "b"; CAdd "b" "c"; CAddFn "a" "b" "" 0] "u" "c" "" = false /\
  h [CAdd "u" "a"; CAdd "a" "b"; CAdd "b" "c"; CAddFn "a" "b" "" 0; CSetPar "a" "b" "" ["on"; "x"]] "u" "c" "" = true /\
  h [CAdd "a" "b"; CAddFn "a" "b" "d" 3] "a" "b" "" = true /\
  h [CAdd "a" "b"; CAddFn "a" "b" "d" 3] "a" "b" "d" = false /\
  h [CAdd "a" "b"; CAddFn "a" "b" "" 2] "a" "b" "" = false /\
  h [CAdd "a" "b"; CAddFn "a" "b" "" 4] "a" "b" "" = false /\
  h [CAdd "a" "b"; CAddFn "a" "b" "" 4; CSetPar "a" "b" "" ["on"]] "a" "b" "" = true.
Proof. exact conditions_example. Qed.

(* a reachable state meets every hypothesis of (b1), exact direction included *)
Example C05C_nonvacuous_spec :
  let s := crun no_mf wcf 10 (crm_new false)
             [CAdd "u" "a"; CAdd "a" "b"; CAddFn "a" "b" "" 0; CSetPar "a" "b" "" ["on"]; CAddFn "u" "a" "d" 3] in
  CWF no_mf s /\ m_mf (c_rm s) = false /\ no_err_links wcf s /\
  snd (crm_has_link no_mf wcf 10 s "u" "b" "") = true /\ snd (crm_has_link no_mf wcf 10 s "u" "b" "d") = false.
Proof. exact spec_example. Qed.

(* a history with parameters and getters but no function meets the guard of (a3) *)
Example C05C_nonvacuous_nofn :
  let ops := [CAdd "a" "b"; CSetPar "a" "b" "" ["off"]; CGetFn "x" "y" ""; CAdd "b" "c"; CGetPar "a" "b" ""; CDel "a" "b"; CHas "z" "c" "d"] in
  Forall nofn_cop ops /\ projs ops = [RAdd "a" "b"; RAdd "b" "c"; RDel "a" "b"; RHas "z" "c"] /\
  arun 10 "" [] (projs ops) = [("b", "c", "")].
Proof. cbv zeta. split; [repeat constructor|]. split; vm_compute; reflexivity. Qed.

(* a guarded enforcer history: two batches, a registration, a reload *)
Example C05C_nonvacuous_enforcer :
  let ops := [EAddMany [["a"; "b"; "on"; "x"]; ["b"; "c"; "off"; "x"]]; EAddFn "b" "c" "" 0; EHas "a" "c" "";
              ESetPar "b" "c" "" ["on"]; EHas "a" "c" ""; ELoad; EAddMany [["a"; "c"; "_"; "_"; "extra"]]] in
  Forall (guarded 2) ops /\
  EI no_mf 2 (mkCenf [] (MC (crm_new false)) [["a"; "b"; "_"; "_"]]) /\
  e_rules (erun no_mf no_mf wcf 10 2 (mkCenf [] (MC (crm_new false)) [["a"; "b"; "_"; "_"]]) ops)
    = [["a"; "b"; "_"; "_"]; ["a"; "c"; "_"; "_"; "extra"]].
Proof.
  cbv zeta. split; [|split].
  - repeat constructor; unfold long; cbn; auto with arith.
  - apply EI_new. repeat constructor.
  - vm_compute. reflexivity.
Qed.
