(* C06 — The policy store is an ordered set with a coherent index.
   Only final statements; each closed by `exact` and followed by Print Assumptions.
   Model: Store.v (model/policy.go + assertion.go, incl. index map, priority bubble, tail
   re-index, batch update with deferred rollback, filtered removal) and the memory-only
   management API `api_step` (internal_api.go pre-checks and boolean results).
   Guards (each is a known finding when violated on the real code):
     wf_rule   — rules are non-empty and no field contains ',' (F07: the index key is
                 strings.Join(rule, ","));
     op_guard  — the new rule of an update is not already listed and differs from the old
                 rules of the same call (F08). *)
From Coq Require Import List String Bool Arith Permutation.
Import ListNotations.
From Casbin Require Import Base BaseProofs Store StoreProofs.

(* (1) Two distinct well-formed rules are never confused: the index key is injective. *)
Theorem C06_key_injective : forall r1 r2,
  wf_rule r1 = true -> wf_rule r2 = true -> key r1 = key r2 -> r1 = r2.
Proof. exact key_injective. Qed.
Print Assumptions C06_key_injective.

(* (2) For EVERY sequence of management calls (Add / AddPolicies / AddPoliciesEx / Remove /
   RemovePolicies / Update / UpdatePolicies / RemoveFiltered / Clear, any lengths, any rules
   within the guards) starting from a coherent store: the invariant (index coherent, no rule
   listed twice, all rules well-formed) still holds, the listed rules are exactly those of the
   ordered-set specification run on the same calls, and every call returns what the
   specification returns. *)
Theorem C06_refines_ordered_set : forall prio ops s, Inv s -> guards prio (pol s) ops ->
  Inv (fst (run_api prio s ops)) /\
  pol (fst (run_api prio s ops)) = fst (run_spec prio (pol s) ops) /\
  snd (run_api prio s ops) = snd (run_spec prio (pol s) ops).
Proof. exact run_refines. Qed.
Print Assumptions C06_refines_ordered_set.

(* (3) In every state satisfying the invariant: a rule is reported present exactly when it is
   listed, and no rule is listed twice. *)
Theorem C06_present_iff_listed : forall s r, Inv s -> wf_rule r = true -> (has s r = true <-> In r (pol s)).
Proof. exact has_iff_In. Qed.
Print Assumptions C06_present_iff_listed.

Theorem C06_never_listed_twice : forall s, Inv s -> NoDup (pol s).
Proof. exact Inv_NoDup. Qed.
Print Assumptions C06_never_listed_twice.

(* (4) The specification is the obvious one: removal and update keep the relative order of
   the remaining rules (removal = filtering out one rule, update = substitution in place);
   insertion without priority appends; filtered queries and removals select exactly the listed
   rules whose fields equal the given non-empty values. *)
Theorem C06_remove_keeps_order : forall r l, NoDup l ->
  remove_first r l = filter (fun x => negb (rule_eqb r x)) l.
Proof. exact remove_first_filter. Qed.
Print Assumptions C06_remove_keeps_order.

Theorem C06_update_keeps_order : forall o n l, NoDup l ->
  replace_first o n l = map (fun x => if rule_eqb o x then n else x) l.
Proof. exact replace_first_map. Qed.
Print Assumptions C06_update_keeps_order.

Theorem C06_filtered_query_exact : forall fi fvs l, in_range fi fvs l ->
  get_filtered fi fvs l = Some (filter (matches_spec fi fvs) l).
Proof. exact get_filtered_spec. Qed.
Print Assumptions C06_filtered_query_exact.

Theorem C06_filtered_removal_exact : forall s fi fvs, Inv s -> in_range fi fvs (pol s) ->
  exists s' res eff, remove_filtered s fi fvs = Some (s', res, eff) /\ Inv s' /\
    pol s' = filter (fun r => negb (matches_spec fi fvs r)) (pol s) /\
    eff = filter (matches_spec fi fvs) (pol s) /\
    res = existsb (matches_spec fi fvs) (pol s).
Proof. exact remove_filtered_spec. Qed.
Print Assumptions C06_filtered_removal_exact.

(* (5) A call reports false exactly when it left the listed rules unchanged: false => unchanged
   for every call; true => changed for the single-rule and removal calls (the Ex batch variant
   and an accepted batch that contained nothing new may report true without a change, as the
   property statement allows). *)
Theorem C06_false_means_unchanged : forall prio l op,
  snd (spec_step prio l op) = RBool false -> fst (spec_step prio l op) = l.
Proof. exact spec_false_unchanged. Qed.
Print Assumptions C06_false_means_unchanged.

Theorem C06_true_means_changed : forall prio l op, NoDup l ->
  match op with
  | OAdd _ | ORemove _ | ORemoveMany _ | ORemoveFiltered _ _ => True
  | OUpdate o n => o <> n /\ ~ In n l
  | _ => False
  end ->
  snd (spec_step prio l op) = RBool true -> fst (spec_step prio l op) <> l.
Proof. exact spec_true_changed. Qed.
Print Assumptions C06_true_means_changed.

(* (6) A refused batch update (some old rule not listed) is rolled back completely. *)
Theorem C06_batch_update_all_or_nothing : forall s os ns,
  Inv s -> WF os -> WF ns -> NoDup ns ->
  (forall n, In n ns -> ~ In n (pol s)) -> (forall n, In n ns -> ~ In n os) ->
  Inv (fst (update_many s os ns)) /\
  match spec_update_many (pol s) os ns with
  | Some l' => snd (update_many s os ns) = true /\ pol (fst (update_many s os ns)) = l'
  | None => snd (update_many s os ns) = false /\ pol (fst (update_many s os ns)) = pol s
  end.
Proof. exact update_many_spec. Qed.
Print Assumptions C06_batch_update_all_or_nothing.

(* the guards are necessary: the witnesses of F07 and F08 on the faithful model *)
Example C06_key_collision_refuted : key ["a,b"; "c"]%string = key ["a"; "b,c"]%string /\ ["a,b"; "c"]%string <> ["a"; "b,c"]%string.
Proof. exact key_collision. Qed.
Example C06_update_to_listed_refuted :
  let s := fst (add_many None empty_store [["a"%string]; ["b"%string]]) in
  pol (fst (update s ["a"%string] ["b"%string])) = [["b"%string]; ["b"%string]].
Proof. exact update_to_listed_refuted. Qed.

(* non-vacuity: a reachable non-trivial state satisfies the invariant and the guards *)
Example C06_nonvacuous :
  let ops := [OAdd ["alice"; "data1"]; OAddManyEx [["bob"; "data2"]; ["alice"; "data1"]];
              OUpdate ["alice"; "data1"] ["carol"; "data3"]; ORemoveFiltered 0 ["bob"]]%string in
  guards None [] ops /\ pol (fst (run_api None empty_store ops)) = [["carol"; "data3"]]%string.
Proof.
  split; [|reflexivity]. cbn. repeat split; try reflexivity; try (repeat constructor).
  - intros [H|[H|[]]]; discriminate.
  - intros r [<-|[<-|[]]]; discriminate.
Qed.
