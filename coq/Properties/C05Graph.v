(* C05Graph — the default role managers as POINTER STRUCTURES (rbac/default-role-manager/role_manager.go).
   Only final statements; each closed by `exact` and followed by Print Assumptions.

   Model: RoleGraph.v follows role_manager.go function by function: RoleManagerImpl = allRoles
   (name -> *Role) over a heap of Role objects with roles / users / matched / matchedBy maps holding
   object ids (so a map can keep pointing at an object that left allRoles); getRole (creating, and
   linking pattern matches when a matching function is set), removeRole / removeMatches, AddLink,
   DeleteLink, HasLink with hasLinkHelper (level budget, temporary roles and their removal), GetRoles,
   GetUsers, Clear, AddMatchingFunc + rebuild, copyFrom; DomainManager = rmMap (domain -> manager) with
   getRoleManager(domain, store), rangeAffectedRoleManagers, AddMatchingFunc, AddDomainMatchingFunc +
   rebuild.  The matching functions are Section variables `mf` / `dmf` (any boolean function on
   strings), whether one is registered is a flag of the state.  Go maps are insertion-ordered
   association lists; listings are compared as sets.  the conditional managers are modelled separately in RoleCond.v (Properties/C05Cond.v).

   WF mf s   (RoleGraphProofs.WFs + WFm): object ids are allocated below m_next; allRoles is a map
             whose entries point at live objects carrying their own name; every roles / users entry
             of a registered object points at the object REGISTERED under that name (no dangling or
             stale id) and roles / users are mutually symmetric; matched / matchedBy of a registered
             object hold exactly the registered names related to it by the matching function (empty
             without one) and are mutually symmetric.
   NoMF mf s = WF mf s /\ no matching function registered.
   abs_rm d s = the stored links of s (what Range enumerates) tagged with domain d: the state of the
             abstract model Roles.v, about which C05 is proved. *)
From Coq Require Import List String Bool Arith.
Import ListNotations.
From Casbin Require Import Base Roles RolesProofs RoleGraph RoleGraphProofs.
Local Open Scope string_scope.

(* ---------- (a) the structure stays well-formed ---------- *)

(* (a1) RoleManagerImpl: after EVERY sequence of AddLink / DeleteLink / HasLink / GetRoles / GetUsers /
   Clear / AddMatchingFunc calls (matching function registered at any point, any function) the
   structure is well-formed: no subject is dropped from allRoles while others point at it, no edge is
   stored on one side only, temporary roles of HasLink / GetRoles / GetUsers leave no trace in any
   map.  NewRoleManagerImpl is well-formed. *)
Theorem C05G_structure_wellformed_all_histories : forall mf n ops s,
  WF mf s -> WF mf (rrun mf n s ops).
Proof. exact rrun_WF_any. Qed.
Print Assumptions C05G_structure_wellformed_all_histories.

Theorem C05G_new_manager_wellformed : forall mf b, WF mf (new_rm b).
Proof. exact WF_new. Qed.
Print Assumptions C05G_new_manager_wellformed.

(* (a2) DomainManager: after every sequence of its calls, AddMatchingFunc and AddDomainMatchingFunc
   (with their rebuilds, copyFrom and rangeAffectedRoleManagers) included, rmMap has one manager per
   domain, each well-formed and carrying the role matching function of its owner. *)
Theorem C05G_domain_structure_wellformed_all_histories : forall mf dmf n ops dm,
  DWF mf dm -> DWF mf (drun mf dmf n dm ops).
Proof. exact drun_DWF. Qed.
Print Assumptions C05G_domain_structure_wellformed_all_histories.

Theorem C05G_new_domain_manager_wellformed : forall mf, DWF mf new_dm.
Proof. exact DWF_new. Qed.
Print Assumptions C05G_new_domain_manager_wellformed.

(* ---------- (b) without matching function the structure refines the link set of Roles.v ---------- *)

(* (b1) every operation commutes with the abstraction and answers like the abstract model: AddLink
   / DeleteLink insert / delete exactly one link, Clear empties, HasLink / GetRoles / GetUsers leave
   the links alone; HasLink answers Roles.has_link_n, GetRoles / GetUsers list (duplicate-free) the
   abstract listings. *)
Theorem C05G_every_operation_refines : forall mf n d s ls op,
  NoMF mf s -> links_equiv (abs_rm d s) ls -> plain_rop op ->
  NoMF mf (fst (rstep mf n s op)) /\
  links_equiv (abs_rm d (fst (rstep mf n s op))) (fst (astep n d ls op)) /\
  res_agree (snd (rstep mf n s op)) (snd (astep n d ls op)).
Proof. exact rstep_refines. Qed.
Print Assumptions C05G_every_operation_refines.

(* (b2) over all histories: the structure reached by any history (no AddMatchingFunc) is well-formed
   and holds exactly the links the abstract model holds after the same history ... *)
Theorem C05G_histories_refine : forall mf n d ops s ls,
  NoMF mf s -> links_equiv (abs_rm d s) ls -> Forall plain_rop ops ->
  NoMF mf (rrun mf n s ops) /\ links_equiv (abs_rm d (rrun mf n s ops)) (arun n d ls ops).
Proof. exact rrun_refines. Qed.
Print Assumptions C05G_histories_refine.

(* ... and every call made after it is answered as the abstract model answers it. *)
Theorem C05G_answers_agree_after_every_history : forall mf n d ops op,
  Forall plain_rop ops -> plain_rop op ->
  res_agree (snd (rstep mf n (rrun mf n (new_rm false) ops) op)) (snd (astep n d (arun n d [] ops) op)).
Proof. exact rrun_answers. Qed.
Print Assumptions C05G_answers_agree_after_every_history.

(* (b3) the three queries, stated on their own. *)
Theorem C05G_has_link_refines : forall mf n d s u r,
  NoMF mf s -> snd (has_link mf n s u r) = Roles.has_link_n n (abs_rm d s) u r d.
Proof. exact has_link_refines. Qed.
Print Assumptions C05G_has_link_refines.

Theorem C05G_get_roles_refines : forall mf d s u, NoMF mf s ->
  NoDup (snd (get_roles mf s u)) /\
  forall x, In x (snd (get_roles mf s u)) <-> In x (Roles.get_roles (abs_rm d s) u d).
Proof. exact get_roles_refines. Qed.
Print Assumptions C05G_get_roles_refines.

Theorem C05G_get_users_refines : forall mf d s u, NoMF mf s ->
  NoDup (snd (get_users mf s u)) /\
  forall x, In x (snd (get_users mf s u)) <-> In x (Roles.get_users (abs_rm d s) u d).
Proof. exact get_users_refines. Qed.
Print Assumptions C05G_get_users_refines.

(* (b4) so the C05 theorems about the abstract model hold of the structure, e.g. HasLink of the real
   structure after any history = reachability within maxHierarchyLevel edges among the links that the
   history leaves listed. *)
Theorem C05G_structure_has_link_is_bounded_reachability : forall mf n d ops u r,
  Forall plain_rop ops ->
  (snd (has_link mf n (rrun mf n (new_rm false) ops) u r) = true <->
   exists k, k <= n /\ walk (arun n d [] ops) d u r k).
Proof. exact structure_has_link_bounded_reachability. Qed.
Print Assumptions C05G_structure_has_link_is_bounded_reachability.

(* (b5) DomainManager without matching functions refines the domain-tagged link set: per-domain
   managers are created on demand (stored by AddLink / DeleteLink, temporary for queries) and a
   query in domain d is answered from the links tagged d only. *)
Theorem C05G_domain_histories_refine : forall mf dmf n ops dm ls,
  DInv mf dm -> links_equiv (abs_dm dm) ls -> Forall plain_dop ops ->
  DInv mf (drun mf dmf n dm ops) /\ links_equiv (abs_dm (drun mf dmf n dm ops)) (adrun n ls ops).
Proof. exact drun_refines. Qed.
Print Assumptions C05G_domain_histories_refine.

Theorem C05G_domain_answers_agree_after_every_history : forall mf dmf n ops op,
  Forall plain_dop ops -> plain_dop op ->
  res_agree (snd (dstep mf dmf n (drun mf dmf n new_dm ops) op)) (snd (adstep n (adrun n [] ops) op)).
Proof. exact drun_answers. Qed.
Print Assumptions C05G_domain_answers_agree_after_every_history.

(* ---------- (c) with a role matching function ---------- *)

(* (c1) In every well-formed state (hence after every history, (a1)), with or without a matching
   function: HasLink(u, r) holds iff within n = maxHierarchyLevel steps u reaches a name that is r
   or matches r, in the graph whose edges are: a stored link x -> y; a stored link x -> w followed by
   a REGISTERED name y that matches the pattern w; a REGISTERED pattern p that x matches followed by
   a stored link p -> y.  Registered = in allRoles, plus u and r (registered as temporary roles for
   the duration of the call). *)
Theorem C05G_has_link_is_pattern_reachability : forall mf n s u r, WF mf s ->
  (snd (has_link mf n s u r) = true <->
   exists y k, k <= n /\
     pwalk mf (links_of s) (u :: r :: map fst (m_all s)) (m_mf s) u y k /\
     (y = r \/ (m_mf s = true /\ mf y r = true))).
Proof. exact has_link_pattern_spec. Qed.
Print Assumptions C05G_has_link_is_pattern_reachability.

(* (c2) GetRoles(u) lists exactly the one-step successors of u in that graph; GetUsers(r) lists
   (getUsers does not remove duplicates) exactly the one-step predecessors of r. *)
Theorem C05G_get_roles_pattern_spec : forall mf s u x, WF mf s ->
  (In x (snd (get_roles mf s u)) <-> pedge mf (links_of s) (u :: map fst (m_all s)) (m_mf s) u x).
Proof. exact get_roles_pattern_spec. Qed.
Print Assumptions C05G_get_roles_pattern_spec.

Theorem C05G_get_users_pattern_spec : forall mf s r x, WF mf s ->
  (In x (snd (get_users mf s r)) <-> uedge mf (links_of s) (r :: map fst (m_all s)) (m_mf s) r x).
Proof. exact get_users_pattern_spec. Qed.
Print Assumptions C05G_get_users_pattern_spec.

(* (c3) The registered names are hidden state: getRole registers every name AddLink / DeleteLink
   mention and never unregisters it.  `tight s` = every registered name is an endpoint of a stored
   link (no lingering names).  Histories WITHOUT DeleteLink keep the structure tight, and a rebuild
   (AddMatchingFunc) makes it tight after any history. *)
Theorem C05G_no_lingering_names_without_delete : forall mf n ops s,
  WF mf s -> tight s -> Forall nodel_rop ops -> tight (rrun mf n s ops).
Proof. exact rrun_tight. Qed.
Print Assumptions C05G_no_lingering_names_without_delete.

Theorem C05G_rebuild_drops_lingering_names : forall mf s, WF mf s -> tight (rm_add_matching_func mf s).
Proof. exact rebuild_tight. Qed.
Print Assumptions C05G_rebuild_drops_lingering_names.

(* (c4) In a tight structure HasLink is determined by the SET of stored links (incremental = rebuilt
   for add-only histories and after a rebuild). *)
Theorem C05G_tight_has_link_depends_on_links_only : forall mf n s1 s2 u r,
  WF mf s1 -> WF mf s2 -> tight s1 -> tight s2 -> m_mf s1 = m_mf s2 ->
  (forall x y, In (x, y) (links_of s1) <-> In (x, y) (links_of s2)) ->
  snd (has_link mf n s1 u r) = snd (has_link mf n s2 u r).
Proof. exact has_link_links_only. Qed.
Print Assumptions C05G_tight_has_link_depends_on_links_only.

(* ---------- what is FALSE (witnesses computed on the faithful model) ---------- *)

(* F06 shape: without tightness (4) fails.  AddLink(x, n); DeleteLink(x, n) restores the links but
   leaves x and n registered; n matches two patterns and now connects u to admin.  The same links
   rebuilt answer false. *)
Theorem C05G_lingering_names_refuted : exists s1 s2,
  WF mfw s1 /\ WF mfw s2 /\ m_mf s1 = m_mf s2 /\ links_of s1 = links_of s2 /\
  snd (has_link mfw 10 s1 "u" "admin") <> snd (has_link mfw 10 s2 "u" "admin").
Proof. exact has_link_links_only_refuted. Qed.
Print Assumptions C05G_lingering_names_refuted.

(* F05 shape: with a domain matching function (b5) fails.  After AddLink(alice, admin, STAR),
   AddLink(alice, admin, d1), DeleteLink(alice, admin, STAR) (STAR = the domain pattern "*") the listing still holds (alice, admin, d1)
   but the structure has no link in d1: DeleteLink ranges over every manager matching the pattern. *)
Theorem C05G_domain_pattern_delete_refuted :
  adrun 10 [] f05_ops = [("alice", "admin", "d1")] /\
  snd (dm_has_link no_mf kmatch 10 (drun no_mf kmatch 10 new_dm f05_ops) "alice" "admin" "d1") = false /\
  Roles.has_link (adrun 10 [] f05_ops) "alice" "admin" "d1" = true.
Proof. exact domain_pattern_delete_refuted. Qed.
Print Assumptions C05G_domain_pattern_delete_refuted.

(* the guard "no matching function" of (b) is needed even for plain names *)
Theorem C05G_pattern_not_link_set_refuted :
  let s := rrun kmatch 10 (new_rm false) [RAddMF; RAdd "u" "/a/*"; RAdd "/a/*" "r"] in
  snd (has_link kmatch 10 s "/a/7" "r") = true /\ Roles.has_link (abs_rm "" s) "/a/7" "r" "" = false.
Proof. exact pattern_not_link_set_refuted. Qed.
Print Assumptions C05G_pattern_not_link_set_refuted.

(* stale pointers are representable in the model (so a change that drops a subject from allRoles
   while members still point at it shows up as a wrong answer of the model-vs-code comparison, and
   is excluded for the real code by (a1)): *)
Theorem C05G_stale_pointer_shape :
  let s3 := rrun no_mf 10 (new_rm false) [RAdd "u" "X"; RAdd "X" "P"; RDel "X" "P"] in
  let bad := add_link no_mf (remove_role s3 "X") "X" "Y" in
  let good := add_link no_mf s3 "X" "Y" in
  links_of bad = [("u", "X"); ("X", "Y")] /\ links_of good = [("u", "X"); ("X", "Y")] /\
  snd (has_link no_mf 10 bad "u" "Y") = false /\ snd (has_link no_mf 10 good "u" "Y") = true /\
  snd (get_users no_mf bad "X") = [] /\ snd (get_users no_mf good "X") = ["u"].
Proof. exact stale_pointer_shape. Qed.
Print Assumptions C05G_stale_pointer_shape.

(* ---------- non-vacuity ---------- *)
(* a plain history with a cycle, a self link, a query about an unknown name, a deletion: inside the
   guard of (b); its abstract counterpart is the expected listing *)
Example C05G_nonvacuous_plain :
  let ops := [RAdd "a" "b"; RAdd "b" "c"; RAdd "c" "a"; RAdd "a" "a"; RHas "z" "a"; RDel "b" "c"; RUsers "zz"] in
  Forall plain_rop ops /\
  snd (has_link no_mf 10 (rrun no_mf 10 (new_rm false) ops) "c" "b") = true /\
  snd (has_link no_mf 10 (rrun no_mf 10 (new_rm false) ops) "a" "c") = false /\
  arun 10 "" [] ops = [("a", "b", ""); ("c", "a", ""); ("a", "a", "")].
Proof. exact plain_example. Qed.

(* pattern reachability in action (KeyMatch) *)
Example C05G_nonvacuous_pattern :
  let s := rrun kmatch 10 (new_rm false) [RAddMF; RAdd "u" "/a/*"; RAdd "/a/*" "r"] in
  snd (has_link kmatch 10 s "u" "/a/1") = true /\ snd (has_link kmatch 10 s "/a/7" "r") = true /\
  snd (has_link kmatch 10 s "/b/7" "r") = false /\ snd (get_roles kmatch s "/a/1") = ["r"].
Proof. exact pattern_example. Qed.

(* an add-only history with the function registered in the middle meets the guards of (c3)/(c4) *)
Example C05G_nonvacuous_tight :
  let ops := [RAdd "u" "/a/*"; RAddMF; RAdd "/a/*" "r"; RHas "/a/9" "r"; RClear; RAdd "v" "r"] in
  Forall nodel_rop ops /\ WF kmatch (new_rm false) /\ tight (new_rm false).
Proof. split; [repeat constructor|]. split; [apply WF_new|]. intros k []. Qed.

(* the level bound on a chain, through the structure *)
Example C05G_depth_boundary :
  let ops := [RAdd "n0" "n1"; RAdd "n1" "n2"; RAdd "n2" "n3"; RAdd "n3" "n4"; RAdd "n4" "n5"; RAdd "n5" "n6";
              RAdd "n6" "n7"; RAdd "n7" "n8"; RAdd "n8" "n9"; RAdd "n9" "n10"; RAdd "n10" "n11"] in
  snd (has_link no_mf 10 (rrun no_mf 10 (new_rm false) ops) "n0" "n10") = true /\
  snd (has_link no_mf 10 (rrun no_mf 10 (new_rm false) ops) "n0" "n11") = false.
Proof. cbv zeta. split; vm_compute; reflexivity. Qed.
