(* C15 — Every effective change is persisted, then announced exactly once.
   Only final statements; each closed by `exact` and followed by Print Assumptions.
   Model: Machine.v — the management wrappers of internal_api.go: *WithoutNotify, then, when the
   call reported (true, nil) and shouldNotify(), ONE watcher call: WatcherEx.UpdateFor… for
   add/remove calls, UpdatableWatcher.UpdateFor… for update calls, Update() otherwise.  The
   watcher log records each notification together with the state visible at callback time
   (listed rules of every type, stored adapter content). *)
From Coq Require Import List String Bool Arith.
Import ListNotations.
From Casbin Require Import Base Store Roles Machine MachineProofs MachineFrame MachineSync.

(* (1) For every management call, in every state: the watcher log grows by EXACTLY ONE entry —
   of the kind and with the arguments of the call for the watcher's kind, carrying the
   post-state (the change is already in memory and, with auto-save, in the adapter: the
   snapshot is that of the state the call returns) — iff the call reported success, a watcher is
   set and notification is enabled; otherwise (false, error, no watcher, notification off) the
   log is unchanged. *)
Theorem C15_announce_exactly_once : forall cfg op s ex upd, notices_of op = Some (ex, upd) ->
  let s' := fst (step cfg s op) in let r := snd (step cfg s op) in
  wlog s' = (if is_ok_true r && autonotify s && has_watcher (watcher s)
             then wlog s ++ [(pick_notice (watcher s) ex upd, snapshot cfg s')] else wlog s).
Proof. exact announce_exactly_once. Qed.
Print Assumptions C15_announce_exactly_once.

(* (2) Calls made through the Self* replay API announce nothing. *)
Theorem C15_self_announces_nothing : forall cfg op s, is_mgmt op -> wlog (fst (step cfg s (MSelf op))) = wlog s.
Proof. exact self_announces_nothing. Qed.
Print Assumptions C15_self_announces_nothing.

(* (3) The *WithoutNotify part of every call, ClearPolicy and LoadPolicy never touch the flags,
   the watcher or its log. *)
Theorem C15_without_notify_is_silent : forall cfg op s, is_mgmt op -> same_ctl s (fst (step_wo cfg s op false)).
Proof. exact step_wo_silent. Qed.
Print Assumptions C15_without_notify_is_silent.

(* (4) A peer that reloads from the shared adapter on a notification reaches the originator's
   rules: with auto-save on the adapter is in sync after every call (C10), and a load from it
   lists exactly the originator's rules of every type. *)
Theorem C15_peer_converges : forall cfg s p, NoDup (map fst cfg) -> Sync cfg s ->
  content (ad p) = content (ad s) -> content_ok cfg (content (ad p)) ->
  snd (load_policy cfg p) = ROk true ->
  forall pt d r, def_of cfg pt = Some d ->
    (In r (pol (get_store (fst (load_policy cfg p)) pt)) <-> In r (pol (get_store s pt))).
Proof. exact peer_converges. Qed.
Print Assumptions C15_peer_converges.

Theorem C15_sync_after_every_history : forall cfg ops s,
  NoDup (map fst cfg) -> MInv cfg s -> Sync cfg s -> sguards cfg s ops ->
  MInv cfg (fst (run cfg s ops)) /\ Sync cfg (fst (run cfg s ops)).
Proof. exact run_Sync. Qed.
Print Assumptions C15_sync_after_every_history.

(* non-vacuity: a WatcherEx sees one add notice carrying the post-state; the refused duplicate
   and the Self call announce nothing *)
Example C15_nonvacuous :
  let cfg := [("p", {| a_is_g := false; a_arity := 2; a_prio := None |})]%string in
  let s0 := init_state cfg true true WEx [] in
  let ops := [MAdd "p" ["alice"; "data1"]; MAdd "p" ["alice"; "data1"]; MSelf (MAdd "p" ["bob"; "data2"])]%string in
  wlog (fst (run cfg s0 ops)) =
    [(NAdd "p" ["alice"; "data1"], ([("p", [["alice"; "data1"]])], [("p", ["alice"; "data1"])]))]%string.
Proof. reflexivity. Qed.
