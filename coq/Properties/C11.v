(* C11 — A failed persistence or load leaves the enforcer unchanged.
   Only final statements; each closed by `exact` and followed by Print Assumptions.
   Model: Machine.v — every management call persists FIRST (when auto-save is on) and touches
   memory only after the adapter accepted; the adapter can be made to fail at ANY call
   (MFailNext k: the (k+1)-th adapter call from now fails, whichever operation makes it);
   LoadPolicy loads into a copy, sorts, rebuilds the links and only then swaps (after the F16
   repair a failing link rebuild restores the previous links). *)
From Coq Require Import List String Bool Arith.
Import ListNotations.
From Casbin Require Import Base Store StoreProofs Roles Machine MachineProofs MachineSync.

(* (1) Whatever the call (single, batch, Ex, filtered, update, batch update, Self* variants,
   LoadPolicy, SavePolicy), whatever the state and whichever adapter call or loaded line fails:
   if the call returns the error outcome, the listed rules and the role links of EVERY policy
   type and role definition are exactly what they were (so is every decision: decisions are
   functions of listed rules and links, C01). *)
Theorem C11_failed_call_changes_nothing : forall cfg op s nt, no_update_filtered op ->
  snd (step_wo cfg s op nt) = RFalseErr -> same_mem s (fst (step_wo cfg s op nt)).
Proof. exact step_wo_fail_unchanged. Qed.
Print Assumptions C11_failed_call_changes_nothing.

(* (2) Inside the guards (rules meet their definition's arity, default role managers) that clean
   error is the ONLY error outcome: no call returns "true with an error" (a mutation followed by a
   failed link update). *)
Theorem C11_no_partial_outcome : forall cfg op s nt, MInv cfg s -> mop_ok cfg s op ->
  snd (step_wo cfg s op nt) <> RTrueErr.
Proof. exact step_wo_no_true_err. Qed.
Print Assumptions C11_no_partial_outcome.

(* (3) A rejected LoadPolicy in particular: failing adapter, a stored line that does not load
   (after k good lines, any k), or a link rebuild that fails — memory untouched. *)
Theorem C11_rejected_load_changes_nothing : forall cfg s,
  snd (load_policy cfg s) = RFalseErr -> same_mem s (fst (load_policy cfg s)).
Proof. exact load_policy_fail. Qed.
Print Assumptions C11_rejected_load_changes_nothing.

(* (4) A refused batch update (some old rule not listed) is rolled back completely — no partial
   batch becomes visible (C06_batch_update_all_or_nothing is the store-level proof). *)
Theorem C11_no_partial_batch : forall s os ns,
  Inv s -> WF os -> WF ns -> NoDup ns ->
  (forall n, In n ns -> ~ In n (pol s)) -> (forall n, In n ns -> ~ In n os) ->
  Inv (fst (update_many s os ns)) /\
  match spec_update_many (pol s) os ns with
  | Some l' => snd (update_many s os ns) = true /\ pol (fst (update_many s os ns)) = l'
  | None => snd (update_many s os ns) = false /\ pol (fst (update_many s os ns)) = pol s
  end.
Proof. exact update_many_spec. Qed.
Print Assumptions C11_no_partial_batch.

(* the guard of (2) is necessary — the F17 family on the model: a grouping rule shorter than its
   role definition is added to memory and THEN the link update fails: "true with an error" *)
Example C11_link_error_after_mutation_refuted :
  let cfg := [("g", {| a_is_g := true; a_arity := 2; a_prio := None |})]%string in
  let r := step cfg (init_state cfg false false WNone []) (MAdd "g" ["alice"])%string in
  snd r = RTrueErr /\ pol (get_store (fst r) "g") = [["alice"%string]].
Proof. split; reflexivity. Qed.

(* non-vacuity: a failure injected into the second adapter call of a history *)
Example C11_nonvacuous :
  let cfg := [("p", {| a_is_g := false; a_arity := 2; a_prio := None |})]%string in
  let s0 := init_state cfg true false WNone [] in
  let ops := [MFailNext 1; MAdd "p" ["alice"; "data1"]; MAddMany "p" [["bob"; "data2"]; ["carol"; "data3"]]]%string in
  snd (run cfg s0 ops) = [ROk true; ROk true; RFalseErr] /\
  pol (get_store (fst (run cfg s0 ops)) "p") = [["alice"; "data1"]]%string.
Proof. split; reflexivity. Qed.
