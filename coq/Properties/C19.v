(* C19 — Replicated self-operations are exact, idempotent and deterministic.
   "The DistributedEnforcer *Self operations report as affected exactly the rules they added or
   removed, applying the same operation a second time changes nothing and reports nothing, the
   storage adapter is touched only when the caller's persist predicate says so, and replicas
   that apply the same operation log reach identical policies, role links and decisions."

   Only final statements; each closed by `exact` and followed by Print Assumptions.
   Model: Dist.v (enforcer_distributed.go: AddPoliciesSelf, RemovePoliciesSelf,
   RemoveFilteredPolicySelf, ClearPolicySelf after the F02 repair, UpdatePolicySelf,
   UpdatePoliciesSelf, UpdateFilteredPoliciesSelf; `p : bool` = what shouldPersist() answered) on
   the enforcer state of Machine.v (stores of Store.v = model/policy.go, link sets of Roles.v,
   set-semantics adapter with call log and injectable failures).
   A log is a list of (operation, persist decision of this replica); `drun` applies it.
   Guards (dop_ok; each is a known finding when violated on the real code): rules non-empty and
   comma-free (F07), grouping rules of exactly the definition's arity (F03), an update that takes
   place has new rules that are not listed, pairwise distinct and not among its old rules (F08),
   filtered removals stay within the rule length (Go panics beyond).  UpdateFilteredPoliciesSelf
   takes its old rules from the adapter: it is covered by (3) only and refuted for (4) (F09).
   (7) the *Self calls notify nobody: no watcher callback, no flag change, and never the replica's
   own dispatcher (they are what a dispatcher calls on the receiving replicas) — no guard at all.
   (8) a policy type with an explicit priority column stays sorted by priority under every guarded
   log whose rules have numeric priorities and whose updates keep the priority. *)
From Coq Require Import List String Bool Arith ZArith Permutation.
Import ListNotations.
From Casbin Require Import Base Store StoreProofs Roles RolesProofs Machine MachineProofs Dist DistProofs.
From Casbin Require Import PriorityProofs.

(* ---------- (1) affected_exact ----------
   In every state satisfying the invariant (= every state reached by a guarded log, see (5)),
   whatever the persist decision, provided the adapter call (if any) does not fail: *)

(* AddPoliciesSelf reports exactly `added l rs`: the rules of the batch that were not listed, in
   batch order, each once; afterwards exactly those are listed in addition (appended in that
   order when the type has no priority column), nothing is listed twice, and no other policy
   type or role definition is touched. *)
Theorem C19_affected_exact_add : forall cfg s p pt d rs,
  MInv cfg s -> def_of cfg pt = Some d -> rules_ok d rs -> call_ok s p ->
  let l := pol (get_store s pt) in
  let r := dstep cfg s (DAdd pt rs) p in
  snd r = DRules (added l rs) false /\
  Permutation (pol (get_store (fst r) pt)) (l ++ added l rs) /\
  (a_prio d = None -> pol (get_store (fst r) pt) = l ++ added l rs) /\
  NoDup (pol (get_store (fst r) pt)) /\
  others_untouched s (fst r) pt.
Proof. exact add_self_exact. Qed.
Print Assumptions C19_affected_exact_add.

Theorem C19_added_is_batch_minus_listed : forall rs l x, In x (added l rs) <-> In x rs /\ ~ In x l.
Proof. exact added_In. Qed.
Print Assumptions C19_added_is_batch_minus_listed.

Theorem C19_added_once : forall rs l, NoDup (added l rs).
Proof. exact added_NoDup. Qed.
Print Assumptions C19_added_once.

(* RemovePoliciesSelf reports exactly `removed l rs`: the rules of the batch that were listed, in
   batch order, each once; exactly those are gone, the others keep their order. *)
Theorem C19_affected_exact_remove : forall cfg s p pt d rs,
  MInv cfg s -> def_of cfg pt = Some d -> WF rs -> call_ok s p ->
  let l := pol (get_store s pt) in
  let r := dstep cfg s (DRemove pt rs) p in
  snd r = DRules (removed l rs) false /\
  pol (get_store (fst r) pt) = filter (fun x => negb (mem_rule x rs)) l /\
  (forall x, In x (pol (get_store (fst r) pt)) <-> In x l /\ ~ In x (removed l rs)) /\
  others_untouched s (fst r) pt.
Proof. exact remove_self_exact. Qed.
Print Assumptions C19_affected_exact_remove.

Theorem C19_removed_is_batch_and_listed : forall rs l x, NoDup l -> (In x (removed l rs) <-> In x rs /\ In x l).
Proof. exact removed_In. Qed.
Print Assumptions C19_removed_is_batch_and_listed.

Theorem C19_removed_once : forall rs l, NoDup l -> NoDup (removed l rs).
Proof. exact removed_NoDup. Qed.
Print Assumptions C19_removed_once.

(* RemoveFilteredPolicySelf reports exactly the listed rules matching the filter; the rest stays. *)
Theorem C19_affected_exact_remove_filtered : forall cfg s p pt d fi fvs,
  MInv cfg s -> def_of cfg pt = Some d -> in_range fi fvs (pol (get_store s pt)) -> call_ok s p ->
  let l := pol (get_store s pt) in
  let r := dstep cfg s (DRemoveFiltered pt fi fvs) p in
  snd r = DRules (filter (matches_spec fi fvs) l) false /\
  pol (get_store (fst r) pt) = filter (fun x => negb (matches_spec fi fvs x)) l /\
  others_untouched s (fst r) pt.
Proof. exact remove_filtered_self_exact. Qed.
Print Assumptions C19_affected_exact_remove_filtered.

(* UpdatePolicySelf reports true iff the old rule was listed, and then it was replaced in place
   (same slot); otherwise nothing changed. *)
Theorem C19_affected_exact_update : forall cfg s p pt d o n,
  MInv cfg s -> def_of cfg pt = Some d -> rules_ok d [o; n] ->
  (~ In o (pol (get_store s pt)) \/ ~ In n (pol (get_store s pt))) -> call_ok s p ->
  let l := pol (get_store s pt) in
  let r := dstep cfg s (DUpdate pt o n) p in
  snd r = DFlag (mem_rule o l) false /\
  pol (get_store (fst r) pt) = replace_first o n l /\
  (In o l -> forall x, In x (pol (get_store (fst r) pt)) <-> (In x l /\ x <> o) \/ x = n) /\
  (~ In o l -> pol (get_store (fst r) pt) = l) /\
  others_untouched s (fst r) pt.
Proof. exact update_self_exact. Qed.
Print Assumptions C19_affected_exact_update.

(* UpdatePoliciesSelf reports true iff every old rule was listed when its turn came; then exactly
   the old rules went and the new ones came; otherwise the batch was rolled back completely. *)
Theorem C19_affected_exact_update_many : forall cfg s p pt d os ns,
  MInv cfg s -> def_of cfg pt = Some d ->
  rules_ok d os -> rules_ok d ns -> List.length os = List.length ns -> NoDup ns ->
  (forall n, In n ns -> ~ In n (pol (get_store s pt))) -> (forall n, In n ns -> ~ In n os) -> call_ok s p ->
  let l := pol (get_store s pt) in
  let r := dstep cfg s (DUpdateMany pt os ns) p in
  match spec_update_many l os ns with
  | Some l' => snd r = DFlag true false /\ pol (get_store (fst r) pt) = l' /\
               (forall x, In x l' <-> (In x l /\ ~ In x os) \/ In x ns)
  | None => snd r = DFlag false false /\ pol (get_store (fst r) pt) = l
  end /\ others_untouched s (fst r) pt.
Proof. exact update_many_self_exact. Qed.
Print Assumptions C19_affected_exact_update_many.

(* ---------- (2) idempotent ----------
   Applying the same operation a second time (with ANY persist decision each time) reports
   nothing ([] / false / no error) and leaves the listed rules of every type and the links of
   every role definition exactly as they were; the guard still holds, so it may be replayed
   again.  `repeatable` excludes the empty batch update, `op_defined` an unknown policy type. *)
Theorem C19_idempotent : forall cfg s op p1 p2,
  MInv cfg s -> dop_ok cfg s op -> op_defined cfg op -> repeatable op ->
  call_ok s p1 -> call_ok (fst (dstep cfg s op p1)) p2 ->
  let s1 := fst (dstep cfg s op p1) in
  snd (dstep cfg s1 op p2) = nothing op /\ unchanged s1 (fst (dstep cfg s1 op p2)) /\ dop_ok cfg s1 op.
Proof. exact idempotent. Qed.
Print Assumptions C19_idempotent.

(* ---------- (3) persist_only_if_asked ----------  (no guard at all; every operation) *)
(* persist = false: stored content, call log and pending failure of the adapter are untouched *)
Theorem C19_not_asked_adapter_untouched : forall cfg s op, ad (fst (dstep cfg s op false)) = ad s.
Proof. exact not_asked_adapter_untouched. Qed.
Print Assumptions C19_not_asked_adapter_untouched.

(* persist = true: exactly one call, the documented one, computed from the state before the call
   (AddPoliciesSelf sends only the rules that are not yet listed) *)
Theorem C19_asked_exactly_one_call : forall cfg s op,
  ad (fst (dstep cfg s op true)) =
  match self_call cfg s op with
  | None => ad s
  | Some c => fst (fst (adapter_call (ad s) c))
  end.
Proof. exact asked_exactly_one_call. Qed.
Print Assumptions C19_asked_exactly_one_call.

Theorem C19_asked_call_log : forall cfg s op,
  alog (ad (fst (dstep cfg s op true))) =
  alog (ad s) ++ match self_call cfg s op with Some c => [c] | None => [] end.
Proof. exact asked_call_log. Qed.
Print Assumptions C19_asked_call_log.

(* ... made BEFORE memory changes: if it fails, memory is untouched and the error is reported *)
Theorem C19_failed_persist_memory_unchanged : forall cfg s op c,
  self_call cfg s op = Some c -> snd (fst (adapter_call (ad s) c)) = false ->
  same_mem s (fst (dstep cfg s op true)) /\ snd (dstep cfg s op true) = self_fail op.
Proof. exact failed_persist_memory_unchanged. Qed.
Print Assumptions C19_failed_persist_memory_unchanged.

(* ---------- (4) replicas_agree ----------  (no guard on the rules; every operation except
   UpdateFilteredPoliciesSelf) *)
(* one step, from one state: persisting or not gives the same result and the same memory
   (stores incl. index, links) *)
Theorem C19_persist_bit_irrelevant : forall cfg s op, not_filtered op -> fail_in (ad s) <> Some 0 ->
  same_mem (fst (dstep cfg s op true)) (fst (dstep cfg s op false)) /\
  snd (dstep cfg s op true) = snd (dstep cfg s op false).
Proof. exact persist_bit_irrelevant. Qed.
Print Assumptions C19_persist_bit_irrelevant.

(* every log: two replicas with the same memory and DIFFERENT persist predicates (log1 and log2
   carry the same operations, arbitrary persist bits) whose adapters do not fail return the same
   results and end with the same memory *)
Theorem C19_replicas_agree : forall cfg log1 log2 s1 s2,
  map fst log1 = map fst log2 -> no_filtered (map fst log1) ->
  same_mem s1 s2 -> fail_in (ad s1) = None -> fail_in (ad s2) = None ->
  same_mem (fst (drun cfg s1 log1)) (fst (drun cfg s2 log2)) /\
  snd (drun cfg s1 log1) = snd (drun cfg s2 log2).
Proof. exact replicas_agree_log. Qed.
Print Assumptions C19_replicas_agree.

(* same memory (even: same listed rules and the same link SETS) gives the same HasLink answers
   and the same decisions — here for the matchers of the two harness models; in general the
   decision is a function of the listed rules and the HasLink answers (C01) *)
Theorem C19_same_memory_same_decisions : forall s1 s2, mem_equiv s1 s2 ->
  (forall sub obj act, decide_rbac s2 sub obj act = decide_rbac s1 sub obj act) /\
  (forall sub dom obj act, decide_domain s2 sub dom obj act = decide_domain s1 sub dom obj act) /\
  (forall pt u r d, has_link (get_links s2 pt) u r d = has_link (get_links s1 pt) u r d) /\
  (forall sub obj act, decide_priority s2 sub obj act = decide_priority s1 sub obj act).
Proof. exact decisions_from_rules_and_links. Qed.
Print Assumptions C19_same_memory_same_decisions.

Theorem C19_same_mem_is_equiv : forall s1 s2, same_mem s1 s2 -> mem_equiv s1 s2.
Proof. exact same_mem_equiv. Qed.
Print Assumptions C19_same_mem_is_equiv.

(* ---------- (5) every guarded log keeps the invariant of C05 on every replica ----------
   stores coherent and duplicate-free, grouping rules of exact arity, links of every role
   definition = links of its listed rules; hence (MachineProofs.incremental_eq_rebuilt) each
   replica's incremental role graph answers like one rebuilt from its listed rules. *)
Theorem C19_invariant_all_logs : forall cfg log s, MInv cfg s -> dguards cfg s log -> MInv cfg (fst (drun cfg s log)).
Proof. exact drun_MInv. Qed.
Print Assumptions C19_invariant_all_logs.

Theorem C19_replicas_all_logs : forall cfg log1 log2 s1 s2,
  map fst log1 = map fst log2 -> same_mem s1 s2 -> fail_in (ad s1) = None -> fail_in (ad s2) = None ->
  MInv cfg s1 -> dguards cfg s1 log1 ->
  snd (drun cfg s1 log1) = snd (drun cfg s2 log2) /\
  same_mem (fst (drun cfg s1 log1)) (fst (drun cfg s2 log2)) /\
  MInv cfg (fst (drun cfg s1 log1)) /\ MInv cfg (fst (drun cfg s2 log2)).
Proof. exact replicas_all_logs. Qed.
Print Assumptions C19_replicas_all_logs.

Theorem C19_links_answer_like_rebuilt : forall cfg s pt d (u r dom : string),
  MInv cfg s -> def_of cfg pt = Some d -> a_is_g d = true ->
  has_link (get_links s pt) u r dom = has_link (fst (rebuild (a_arity d) (pol (get_store s pt)))) u r dom /\
  (forall x, In x (get_roles (get_links s pt) u dom) <-> In x (get_roles (fst (rebuild (a_arity d) (pol (get_store s pt)))) u dom)) /\
  (forall x, In x (get_users (get_links s pt) u dom) <-> In x (get_users (fst (rebuild (a_arity d) (pol (get_store s pt)))) u dom)).
Proof. exact incremental_eq_rebuilt. Qed.
Print Assumptions C19_links_answer_like_rebuilt.

(* ---------- (6) clear_self (F02) ----------
   After ClearPolicySelf no rule is listed, no link remains, HasLink is plain name equality. *)
Theorem C19_clear_self : forall cfg s p, call_ok s p ->
  snd (dstep cfg s DClear p) = DUnit false /\
  forall pt, pol (get_store (fst (dstep cfg s DClear p)) pt) = [] /\ get_links (fst (dstep cfg s DClear p)) pt = [] /\
             forall u r d, has_link (get_links (fst (dstep cfg s DClear p)) pt) u r d = String.eqb u r.
Proof. exact clear_self. Qed.
Print Assumptions C19_clear_self.

(* ---------- (7) the *Self calls notify nobody ----------  (no guard; every operation, any persist
   decision, failing adapter or not) *)
(* no watcher callback is made and no flag of the enforcer changes *)
Theorem C19_self_notifies_nobody : forall cfg s op p,
  let s' := fst (dstep cfg s op p) in
  wlog s' = wlog s /\ watcher s' = watcher s /\ autonotify s' = autonotify s /\ autosave s' = autosave s.
Proof. exact self_notifies_nobody. Qed.
Print Assumptions C19_self_notifies_nobody.

(* a replica with its own dispatcher (Dist.replica, rep_disp = the calls made on it): whatever the
   log, the dispatcher sees no call, and results and enforcer state are those of `drun` *)
Theorem C19_self_dispatcher_free : forall cfg log r,
  rep_disp (fst (rrun cfg r log)) = rep_disp r /\
  rep_m (fst (rrun cfg r log)) = fst (drun cfg (rep_m r) log) /\
  snd (rrun cfg r log) = snd (drun cfg (rep_m r) log).
Proof. exact self_dispatcher_free. Qed.
Print Assumptions C19_self_dispatcher_free.

(* a replica wired to a dispatcher and one that is not, any persist predicates: same results, same
   memory after every log, both dispatchers untouched *)
Theorem C19_wired_replica_agrees : forall cfg log1 log2 r1 r2,
  map fst log1 = map fst log2 -> no_filtered (map fst log1) ->
  same_mem (rep_m r1) (rep_m r2) -> fail_in (ad (rep_m r1)) = None -> fail_in (ad (rep_m r2)) = None ->
  same_mem (rep_m (fst (rrun cfg r1 log1))) (rep_m (fst (rrun cfg r2 log2))) /\
  snd (rrun cfg r1 log1) = snd (rrun cfg r2 log2) /\
  rep_disp (fst (rrun cfg r1 log1)) = rep_disp r1 /\ rep_disp (fst (rrun cfg r2 log2)) = rep_disp r2.
Proof. exact wired_replica_agrees. Qed.
Print Assumptions C19_wired_replica_agrees.

(* ---------- (8) an explicit priority column: the listing stays sorted ----------
   SortedNum c l: every rule of l has a numeric priority in column c and the priorities do not
   decrease.  dprio_ok: the rules added to the type have numeric priorities, an update of the type
   replaces a rule by one of the same priority (model.UpdatePolicy writes in place).  One call: *)
Theorem C19_priority_order_step : forall cfg s op p pt d c,
  MInv cfg s -> dop_ok cfg s op -> call_ok s p -> def_of cfg pt = Some d -> a_prio d = Some c ->
  dprio_ok c pt op -> SortedNum c (pol (get_store s pt)) ->
  SortedNum c (pol (get_store (fst (dstep cfg s op p)) pt)).
Proof. exact self_keeps_priority_order. Qed.
Print Assumptions C19_priority_order_step.

(* every guarded log *)
Theorem C19_priority_order_all_logs : forall cfg pt d c log s,
  def_of cfg pt = Some d -> a_prio d = Some c ->
  MInv cfg s -> fail_in (ad s) = None -> dguards cfg s log -> dprio_oks c pt log ->
  SortedNum c (pol (get_store s pt)) -> SortedNum c (pol (get_store (fst (drun cfg s log)) pt)).
Proof. exact drun_keeps_priority_order. Qed.
Print Assumptions C19_priority_order_all_logs.

(* where AddPoliciesSelf puts one new rule of priority v: behind every listed rule of priority <= v
   (ties included), in front of the greater ones, the listed rules keeping their order *)
Theorem C19_priority_insert_position : forall c l r v, pnumeric c l -> psorted c l -> prio_of c r = Some v ->
  psorted c (spec_insert (Some c) l r) /\
  exists pre suf, spec_insert (Some c) l r = pre ++ r :: suf /\ l = pre ++ suf /\
    (forall x, In x pre -> (pv c x <= v)%Z) /\ (forall x, In x suf -> (v < pv c x)%Z).
Proof. exact insert_sorted. Qed.
Print Assumptions C19_priority_insert_position.

(* ---------- the guards are necessary (witnesses on the faithful model, by computation) ---------- *)
Local Open Scope string_scope.
(* F08: UpdatePolicySelf(A -> A) reports true on every replay *)
Example C19_update_same_refuted :
  let s1 := fst (dstep cfg_p s_ab (DUpdate "p" ["a"; "x"] ["a"; "x"]) false) in
  snd (dstep cfg_p s1 (DUpdate "p" ["a"; "x"] ["a"; "x"]) false) = DFlag true false.
Proof. exact update_same_refuted. Qed.
(* F08: UpdatePolicySelf(A -> B), B listed: B listed twice; RemovePoliciesSelf([B]) then reports B
   although B stays listed, and reports it again when replayed *)
Example C19_update_to_listed_refuted :
  let s1 := fst (dstep cfg_p s_ab (DUpdate "p" ["a"; "x"] ["b"; "y"]) false) in
  let r2 := dstep cfg_p s1 (DRemove "p" [["b"; "y"]]) false in
  let r3 := dstep cfg_p (fst r2) (DRemove "p" [["b"; "y"]]) false in
  pol (get_store s1 "p") = [["b"; "y"]; ["b"; "y"]] /\
  snd r2 = DRules [["b"; "y"]] false /\ pol (get_store (fst r2) "p") = [["b"; "y"]] /\
  snd r3 = DRules [["b"; "y"]] false.
Proof. exact update_to_listed_refuted. Qed.
Example C19_update_many_empty_refuted :
  let s1 := fst (dstep cfg_p s_ab (DUpdateMany "p" [] []) false) in
  snd (dstep cfg_p s1 (DUpdateMany "p" [] []) false) = DFlag true false.
Proof. exact update_many_empty_refuted. Qed.
Example C19_unknown_type_refuted :
  let r1 := dstep cfg_p s_ab (DAdd "q" [["a"; "x"]]) false in
  snd r1 = DRules [] true /\ snd (dstep cfg_p (fst r1) (DAdd "q" [["a"; "x"]]) false) = DRules [] true.
Proof. exact unknown_type_refuted. Qed.
(* F09 family: without persistence UpdateFilteredPoliciesSelf has no old rules: it adds the new
   rule next to the one it should replace and reports false; a persisting replica replaces it *)
Example C19_update_filtered_diverges_refuted :
  let s0 := fst (dstep cfg_p (init_state cfg_p false false WNone []) (DAdd "p" [["a"; "x"]]) true) in
  let op := DUpdateFiltered "p" [["a"; "z"]] 0 ["a"] in
  snd (dstep cfg_p s0 op true) = DFlag true false /\
  pol (get_store (fst (dstep cfg_p s0 op true)) "p") = [["a"; "z"]] /\
  snd (dstep cfg_p s0 op false) = DFlag false false /\
  pol (get_store (fst (dstep cfg_p s0 op false)) "p") = [["a"; "x"]; ["a"; "z"]].
Proof. exact update_filtered_diverges_refuted. Qed.

(* ---------- non-vacuity ----------
   The empty enforcer satisfies the invariant; a log with an overlapping batch that repeats a
   rule, a replayed entry, an update and a filtered removal is inside the guards; the persisting
   and the non-persisting replica report the same and end with the same rules and decisions; the
   non-persisting adapter saw no call, the persisting one exactly one per entry. *)
Example C19_nonvacuous_init : MInv cfg_rbac ex_s0.
Proof. exact example_init. Qed.
Example C19_nonvacuous_guards : dguards cfg_rbac ex_s0 (ex_log true).
Proof. exact example_guards. Qed.
Example C19_nonvacuous_results :
  snd (drun cfg_rbac ex_s0 (ex_log true)) =
    [DRules [["alice"; "admin"]; ["bob"; "admin"]] false; DRules [["admin"; "root"]] false; DRules [] false;
     DRules [["root"; "data1"; "read"]] false; DFlag true false; DRules [["alice"; "admin"]] false] /\
  snd (drun cfg_rbac ex_s0 (ex_log false)) = snd (drun cfg_rbac ex_s0 (ex_log true)) /\
  listed cfg_rbac (fst (drun cfg_rbac ex_s0 (ex_log true))) =
    [("g", [["bob"; "root"]; ["admin"; "root"]]); ("p", [["root"; "data1"; "read"]])] /\
  decide_rbac (fst (drun cfg_rbac ex_s0 (ex_log false))) "bob" "data1" "read" = true /\
  alog (ad (fst (drun cfg_rbac ex_s0 (ex_log false)))) = [] /\
  List.length (alog (ad (fst (drun cfg_rbac ex_s0 (ex_log true))))) = 6.
Proof. exact example_results. Qed.
(* the witness of F02: AddPoliciesSelf of a grouping rule, then ClearPolicySelf *)
Example C19_nonvacuous_clear :
  let s1 := fst (drun cfg_rbac ex_s0 [(DAdd "g" [["alice"; "admin"]], true); (DClear, false)]) in
  listed cfg_rbac s1 = [("g", []); ("p", [])] /\ has_link (get_links s1 "g") "alice" "admin" "" = false.
Proof. exact example_clear. Qed.
(* a priority model (p = priority, sub, obj, act, eft): rules inserted in front of listed ones and
   behind a tie, the rule that sorts last removed and removed again, a rule replaced by one of the
   same priority; the log is inside the guards of (5) and (8); a replica wired to a dispatcher
   returns the same results and its dispatcher saw no call *)
Example C19_nonvacuous_priority_init : MInv cfg_prio pr_s0.
Proof. exact prio_example_init. Qed.
Example C19_nonvacuous_priority_guards : dguards cfg_prio pr_s0 (pr_log true) /\ dprio_oks 0 "p" (pr_log true).
Proof. exact prio_example_guards. Qed.
Example C19_nonvacuous_priority_results :
  snd (drun cfg_prio pr_s0 (pr_log true)) =
    [DRules [["10"; "alice"; "data1"; "read"; "allow"]; ["20"; "root"; "data2"; "write"; "deny"]] false;
     DRules [["1"; "alice"; "data2"; "write"; "deny"]; ["10"; "bob"; "data2"; "write"; "allow"]] false;
     DRules [["20"; "root"; "data2"; "write"; "deny"]] false; DRules [] false;
     DRules [["bob"; "alice"]] false; DFlag true false] /\
  pol (get_store (fst (drun cfg_prio pr_s0 (pr_log false))) "p") =
    [["1"; "alice"; "data1"; "read"; "deny"]; ["10"; "alice"; "data1"; "read"; "allow"];
     ["10"; "bob"; "data2"; "write"; "allow"]] /\
  decide_priority (fst (drun cfg_prio pr_s0 (pr_log false))) "bob" "data1" "read" = Some false /\
  decide_priority (fst (drun cfg_prio pr_s0 (pr_log false))) "bob" "data2" "write" = Some true /\
  snd (rrun cfg_prio {| rep_m := pr_s0; rep_disp := Some [] |} (pr_log false)) = snd (drun cfg_prio pr_s0 (pr_log true)) /\
  rep_disp (fst (rrun cfg_prio {| rep_m := pr_s0; rep_disp := Some [] |} (pr_log false))) = Some [].
Proof. exact prio_example_results. Qed.
