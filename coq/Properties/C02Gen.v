(* C02Gen — the effector AS THE SOURCE SAYS IT NOW.  Gen/GoFuns.v is regenerated from
   effector/default_effector.go on every run (translator/golite.go prints the type-checked Go
   AST of MergeEffects into the deep embedding GoLite.v); the statements below are about that
   term, run by the GoLite interpreter, for every input.  Only final statements live here; each
   is closed by `exact` and followed by Print Assumptions. *)
From Coq Require Import List String ZArith Bool Permutation.
Import ListNotations.
From Casbin Require Import Effect EffectProofs GoLite Gen.GoFuns GoLiteEffector GoLiteEffectorProofs.
Open Scope string_scope.

(* (G1) refinement: for EVERY effect text, every pair of arrays of any length (effects in
   {Allow, Indeterminate, Deny}, matches any numbers), every index inside the arrays, every
   policyLength >= 1 and every sufficient fuel, the translated MergeEffects terminates without a
   panic and returns exactly what the hand-written model Effect.merge returns (decision, explain
   index, error).  All theorems of C02.v are about Effect.merge. *)
Theorem C02_generated_MergeEffects_refines_model : forall s zs i n fuel,
  i < List.length zs -> 1 <= n -> 40 + List.length zs <= fuel ->
  call MergeEffects (merge_args s zs i n) fuel =
  OReturn (enc_result (merge (classify s) (map entry_of zs) i n)).
Proof. exact MergeEffects_refines_merge. Qed.
Print Assumptions C02_generated_MergeEffects_refines_model.

(* (G2) the enforce loop (hand-written model of enforcer.go) around the TRANSLATED effector is the
   enforce loop around the model effector *)
Theorem C02_generated_stream : forall s v, v <> [] -> stream_gen s v = stream (classify s) v.
Proof. exact stream_gen_is_stream. Qed.
Print Assumptions C02_generated_stream.

(* (G3) hence the property itself for the translated effector: exact decisions ... *)
Theorem C02_generated_merge_exact : forall s v, supported (classify s) = true -> v <> [] ->
  failed (stream_gen s v) = false /\ decision (stream_gen s v) = combine (classify s) v.
Proof. intros s v Hs Hv. rewrite (stream_gen_is_stream s v Hv). exact (stream_correct _ _ Hs Hv). Qed.
Print Assumptions C02_generated_merge_exact.

(* ... and truthful explanations *)
Theorem C02_generated_explain_truthful : forall s v j, v <> [] ->
  explain (stream_gen s v) = Some j ->
  exists e, nth_error v j = Some (true, e) /\ e = deciding_eft (decision (stream_gen s v)).
Proof. intros s v j Hv. rewrite (stream_gen_is_stream s v Hv). exact (explain_truthful _ _ _ Hv). Qed.
Print Assumptions C02_generated_explain_truthful.

(* (G4) the five effect texts of constant/constants.go (they reach the generated term through
   go/types; a changed constant changes the term and breaks G1) *)
Example C02_generated_texts :
  map classify effect_texts = [AllowOverride; DenyOverride; AllowAndDeny; Priority; SubjectPriority; Unsupported; Unsupported].
Proof. reflexivity. Qed.

(* non-vacuity: the interpreter really runs the generated term -- priority effect, the second
   rule decides and is named; an unsupported text is the error triple *)
Example C02_generated_nonvacuous :
  call MergeEffects (merge_args "priority(p_eft) || deny" [(1%Z, Indet); (7%Z, Deny); (0%Z, Allow)] 1 3) 50
  = OReturn [VInt 2; VInt 1; VNil] /\
  call MergeEffects (merge_args "some(where (p_eft == deny))" [(1%Z, Allow)] 0 1) 50
  = OReturn [VInt 2; VInt (-1); VErr "unsupported effect"] /\
  decision (stream_gen "some(where (p_eft == allow)) && !some(where (p_eft == deny))" [(true, Allow); (false, Deny)]) = true.
Proof. vm_compute. repeat split; reflexivity. Qed.

(* the finite sweep used to look for a concrete failing input when G1 no longer goes through
   (every text x every vector of length <= 3 x every index) finds nothing on this tree *)
Example C02_generated_sweep : sweep MergeEffects 1 = [] /\ sweep MergeEffects 2 = [] /\ sweep MergeEffects 3 = [].
Proof. vm_compute. repeat split; reflexivity. Qed.
