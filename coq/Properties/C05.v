(* C05 — Role inheritance always mirrors the currently listed grouping rules.
   Only final statements; each closed by `exact` and followed by Print Assumptions.
   Model: Machine.v (internal_api.go, ClearPolicy after the F02 repair, LoadPolicy), Roles.v
   (RoleManagerImpl / DomainManager without matching functions: link set, level-budgeted BFS),
   model/assertion.go (buildIncrementalRoleLinks / buildRoleLinks).
   Guards (each a known finding when violated on the real code): grouping rules have exactly
   the arity of their role definition (F03), the definition is not conditional (F04), no
   matching function is registered (F05 domain patterns, F06 role patterns), update targets are
   not already listed (F08), UpdateFilteredPolicies excluded (F09). *)
From Coq Require Import List String Bool Arith.
Import ListNotations.
From Casbin Require Import Base Store StoreProofs Roles RolesProofs Machine MachineProofs.

(* (1) HasLink is reachability within the maximum hierarchy depth (10 edges), in the domain asked. *)
Theorem C05_has_link_is_bounded_reachability : forall n ls u r d,
  has_link_n n ls u r d = true <-> exists k, k <= n /\ walk ls d u r k.
Proof. exact has_link_iff_walk. Qed.
Print Assumptions C05_has_link_is_bounded_reachability.

(* (2) The invariant — every store coherent, every grouping rule of its definition's arity, the
   links of every role definition equal (as a set) to the links of its listed rules — holds
   after EVERY sequence of guarded calls: single, batch and Ex additions, removals, updates,
   batch updates, filtered removals, the Self* variants, ClearPolicy, LoadPolicy, SavePolicy,
   flag changes and injected adapter failures. *)
Theorem C05_invariant_all_histories : forall cfg ops s,
  NoDup (map fst cfg) -> MInv cfg s -> mguards cfg s ops -> MInv cfg (fst (run cfg s ops)).
Proof. exact run_MInv. Qed.
Print Assumptions C05_invariant_all_histories.

Theorem C05_invariant_initially : forall cfg sv nt w c,
  (forall pt d, def_of cfg pt = Some d -> a_is_g d = true -> good_g d) ->
  MInv cfg (init_state cfg sv nt w c).
Proof. exact init_MInv. Qed.
Print Assumptions C05_invariant_initially.

(* (3) Hence in every reachable state the incrementally maintained role graph answers HasLink,
   GetRoles and GetUsers like one rebuilt from the listed grouping rules (GetGroupingPolicy) alone. *)
Theorem C05_incremental_eq_rebuilt : forall cfg s pt d (u r dom : string),
  MInv cfg s -> def_of cfg pt = Some d -> a_is_g d = true ->
  has_link (get_links s pt) u r dom = has_link (fst (rebuild (a_arity d) (pol (get_store s pt)))) u r dom /\
  (forall x, In x (get_roles (get_links s pt) u dom) <-> In x (get_roles (fst (rebuild (a_arity d) (pol (get_store s pt)))) u dom)) /\
  (forall x, In x (get_users (get_links s pt) u dom) <-> In x (get_users (fst (rebuild (a_arity d) (pol (get_store s pt)))) u dom)).
Proof. exact incremental_eq_rebuilt. Qed.
Print Assumptions C05_incremental_eq_rebuilt.

(* (4) Links of one role definition never leak into another: a call addressed to one policy
   type / role definition leaves the rules and the links of every other one untouched. *)
Theorem C05_definitions_isolated : forall cfg op s nt pt, op_pt op = Some pt ->
  touches_only s (fst (step_wo cfg s op nt)) pt.
Proof. exact definitions_isolated. Qed.
Print Assumptions C05_definitions_isolated.

(* (5) Links of one domain never leak into another: a link of another domain changes no answer,
   and every walk uses the links of its own domain only. *)
Theorem C05_domains_isolated : forall n ls u r d l,
  snd l <> d -> has_link_n n (add_link l ls) u r d = has_link_n n ls u r d.
Proof. exact has_link_other_domain. Qed.
Print Assumptions C05_domains_isolated.

Theorem C05_walks_stay_in_domain : forall ls d u r k,
  walk ls d u r k -> walk (filter (fun l => String.eqb (snd l) d) ls) d u r k.
Proof. exact domain_isolated. Qed.
Print Assumptions C05_walks_stay_in_domain.

(* non-vacuity: an RBAC configuration, a history with a batch add, an update and a filtered
   removal meets every guard; the maximum depth boundary is exhibited by a chain of 11 edges *)
Example C05_nonvacuous :
  let cfg := [("g", {| a_is_g := true; a_arity := 2; a_prio := None |});
              ("p", {| a_is_g := false; a_arity := 3; a_prio := None |})]%string in
  let ops := [MAddMany "g" [["alice"; "admin"]; ["bob"; "admin"]]; MUpdate "g" ["bob"; "admin"] ["bob"; "root"];
              MRemoveFiltered "g" 0 ["alice"]]%string in
  let s0 := init_state cfg false false WNone [] in
  mguards cfg s0 ops /\
  has_link (get_links (fst (run cfg s0 ops)) "g") "bob" "root" "" = true /\
  has_link (get_links (fst (run cfg s0 ops)) "g") "alice" "admin" "" = false.
Proof.
  split; [|split; reflexivity].
  cbn [mguards]. split; [|split; [|split; [|exact I]]].
  - intros d Hd. cbn in Hd. inversion Hd; subst. split; [repeat constructor|]. intros _ r [<-|[<-|[]]]; reflexivity.
  - intros d Hd. cbn in Hd. inversion Hd; subst. split.
    + split; [repeat constructor|]. intros _ r [<-|[<-|[]]]; reflexivity.
    + vm_compute. intros [H|[H|[]]]; discriminate.
  - vm_compute. intros r [<-|[<-|[]]]; discriminate.
Qed.
Example C05_depth_boundary :
  let ls := [("n0","n1",""); ("n1","n2",""); ("n2","n3",""); ("n3","n4",""); ("n4","n5","");
             ("n5","n6",""); ("n6","n7",""); ("n7","n8",""); ("n8","n9",""); ("n9","n10","");
             ("n10","n11","")]%string in
  has_link ls "n0" "n10" "" = true /\ has_link ls "n0" "n11" "" = false.
Proof. exact chain_boundary. Qed.
