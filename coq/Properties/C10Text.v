(* C10 (text side) — what the file / string adapters write for a rule, LoadPolicyLine reads back.
   Csv.v / CsvProofs.v model persist.LoadPolicyLine (encoding/csv subset) and the line printer of
   SavePolicy (ptype + ", " + strings.Join(rule, ", ")). *)
From Coq Require Import List String Ascii Bool.
From Casbin Require Import Csv CsvProofs.
Import ListNotations.

(* every rule of safe fields (no comma, no quote, no outer blanks — `safe_field`) round-trips *)
Theorem C10_text_roundtrip : forall key r,
  safe_field key = true -> key <> ""%string -> starts_with c_hash key = false ->
  forallb safe_field r = true -> r <> [] ->
  read_record (print_line key r) = Ok (key :: r).
Proof. exact read_record_print_line. Qed.
Print Assumptions C10_text_roundtrip.

(* the guard is necessary — F15: SavePolicy does not quote; a field with a comma reads back as
   two fields *)
Example C10_text_roundtrip_refuted :
  read_record (print_line "p" ["a,b"; "data1"; "read"])%string = Ok ["p"; "a"; "b"; "data1"; "read"]%string.
Proof. vm_compute. reflexivity. Qed.
