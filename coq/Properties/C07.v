(* C07 — Priority policies are always evaluated in priority order.
   Only final statements; each closed by `exact` and followed by Print Assumptions.
   Model: Store.add (the priority bubble of model.AddPolicy, resolved from the policy
   definition whether or not a policy was ever loaded — the F10 repair), Priority.v
   (SortPoliciesByPriority, getSubjectHierarchyMap after the F12 repair, the stable sort by
   hierarchy level). *)
From Coq Require Import List String Bool Arith ZArith Permutation.
Import ListNotations.
From Casbin Require Import Base Store StoreProofs Priority PriorityProofs Effect EffectProofs.

(* (1) For EVERY history of additions (single, batch, Ex), removals (single, batch, filtered),
   priority-preserving updates and clears, from the empty policy or from any sorted (e.g.
   loaded) policy, with numeric priorities: the listed rules are sorted by priority. *)
Theorem C07_sorted_invariant : forall c ops s,
  Inv s -> SortedNum c (pol s) -> guards (Some c) (pol s) ops -> prio_oks c ops ->
  SortedNum c (pol (fst (run_api (Some c) s ops))).
Proof. exact sorted_invariant. Qed.
Print Assumptions C07_sorted_invariant.

(* (2) Insertion is stable: a new rule goes after every listed rule of smaller or EQUAL
   priority and before every rule of greater priority (earliest inserted among equals first). *)
Theorem C07_insert_stable : forall c l r v, pnumeric c l -> psorted c l -> prio_of c r = Some v ->
  psorted c (spec_insert (Some c) l r) /\
  exists pre suf, spec_insert (Some c) l r = pre ++ r :: suf /\ l = pre ++ suf /\
    (forall x, In x pre -> (pv c x <= v)%Z) /\ (forall x, In x suf -> (v < pv c x)%Z).
Proof. exact insert_sorted. Qed.
Print Assumptions C07_insert_stable.

(* (3) A load sorts: SortPoliciesByPriority yields a sorted permutation of the loaded rules. *)
Theorem C07_load_sorts : forall c l, pnumeric c l ->
  psorted c (sort_by_priority c l) /\ Permutation (sort_by_priority c l) l.
Proof. exact sort_by_priority_sorted. Qed.
Print Assumptions C07_load_sorts.

(* (4) The rule that decides: under the priority effect the decision is the effect of the first
   matched determinate rule in stored order (C02_merge_exact: combine Priority = first_det); in a
   sorted list that rule has the smallest priority among all matched allow/deny rules and is
   the earliest listed among those of equal priority — like a firewall rule list. *)
Theorem C07_first_is_least : forall c (l : list rule) (v : list (bool * eft)) i,
  psorted c l -> List.length v = List.length l -> first_idx det v 0 = Some i ->
  forall j x, nth_error v j = Some x -> det x = true ->
    i <= j /\ (pv c (nth i l []) <= pv c (nth j l []))%Z.
Proof. exact first_is_least. Qed.
Print Assumptions C07_first_is_least.

(* (5) Ordering a policy by subject hierarchy terminates whatever the role graph: the model's
   traversal runs on explicit fuel and never exhausts it (a cycle below a root is an error). *)
Theorem C07_hierarchy_terminates : forall gs, hierarchy_map gs <> HOutOfFuel.
Proof. exact hierarchy_terminates. Qed.
Print Assumptions C07_hierarchy_terminates.

(* the guard of (1) is necessary: F11, an update that changes the priority keeps its slot *)
Example C07_update_priority_refuted :
  let l := [["5"; "a"]; ["10"; "b"]]%string in
  replace_first ["5"; "a"]%string ["20"; "a"]%string l = [["20"; "a"]; ["10"; "b"]]%string /\
  ~ psorted 0 [["20"; "a"]; ["10"; "b"]]%string.
Proof. exact update_priority_refuted. Qed.

(* non-vacuity: the firewall example — deny(10) added first, allow(1) second, no load ever *)
Example C07_nonvacuous :
  let ops := [OAdd ["10"; "alice"; "data1"; "read"; "deny"]; OAdd ["1"; "alice"; "data1"; "read"; "allow"];
              OAdd ["1"; "bob"; "data1"; "read"; "deny"]]%string in
  guards (Some 0) [] ops /\ prio_oks 0 ops /\
  pol (fst (run_api (Some 0) empty_store ops)) =
    [["1"; "alice"; "data1"; "read"; "allow"]; ["1"; "bob"; "data1"; "read"; "deny"];
     ["10"; "alice"; "data1"; "read"; "deny"]]%string.
Proof. split; [cbn; repeat split; reflexivity|]. split; [cbn; repeat split; discriminate|reflexivity]. Qed.
