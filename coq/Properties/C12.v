(* C12 -- SyncedEnforcer is free of data races and crashes under any concurrent use.  (PARTIAL)

   Full statement: "Any number of goroutines may call any mix of SyncedEnforcer methods
   concurrently without a data race, a concurrent-map fault, a deadlock or a panic."

   What is PROVED here (Coq, no axioms), for every number of threads, every program over the
   wrapped API and every schedule: the lock-protocol part --
     (1) mutual exclusion of the RWMutex model;
     (2) [table_ok T = true] implies that no reachable state has two threads inside sections with
         conflicting accesses (= no data race and no concurrent map read/write, at the
         granularity of the translator's abstract locations);
     (3) the table GENERATED from /repo on this run satisfies table_ok (re-evaluated by the
         kernel on every check: it breaks when a write moves under RLock, a Lock is dropped, a
         getter starts writing, a wrapper's paths disagree, ...);
     (4) no deadlock in the flat protocol (every section takes the one lock and releases it);
     (5) the auto-load protocol: Stop/Start never block for the variant found in the source
         (non-blocking send), at most one loader goroutine (CompareAndSwap); and the blocking
         variant of the pinned tree (F28) is refuted by a witness schedule.
   What is NOT proved (explored at run time by harness/c12.go under the race detector, and
   labelled exploration): the Go memory model and scheduler themselves, the soundness of the
   translator's may-access analysis (trusted), panics inside callees.

   Only final statements live here; each is closed by [exact] (or by kernel evaluation for the
   generated obligations) and followed by Print Assumptions. *)
From Coq Require Import List String NArith Bool.
Import ListNotations.
From Casbin Require Import Sync SyncProofs.
From Casbin Require Gen.SyncTable.

(* (1) two distinct threads are inside sections only in modes the RWMutex lets overlap:
   never W with W, never W with R *)
Theorem C12_mutual_exclusion :
  forall (Sec Call St Loc Ret : Type) (mode_of : Sec -> mode) body_of (impl : Call -> list Sec) loc0 ret_of
         (s : St) (prog : tid -> list Call) c t1 t2 s1 s2,
    reachable Sec Call St Loc Ret mode_of body_of impl loc0 ret_of (init Sec Call St Loc Ret s prog) c ->
    t1 <> t2 -> inside Sec Call St Loc Ret c t1 s1 -> inside Sec Call St Loc Ret c t2 s2 ->
    can_overlap (mode_of s1) (mode_of s2) = true.
Proof. exact mutual_exclusion. Qed.
Print Assumptions C12_mutual_exclusion.

(* (2) soundness of the table check, for EVERY table, any number of threads (prog : tid -> ...),
   any sequence of wrappers per thread, any schedule, any bodies *)
Theorem C12_lock_discipline_sound :
  forall (St Loc Ret : Type) body_of loc0 ret_of (T : list wrapper),
    table_ok T = true ->
    forall (s : St) (prog : tid -> list wrapper) c,
      calls_in T prog ->
      treachable St Loc Ret body_of loc0 ret_of (tinit St Loc Ret s prog) c ->
      ~ race_state St Loc Ret c.
Proof. exact lock_discipline_sound. Qed.
Print Assumptions C12_lock_discipline_sound.

(* (3) THE GENERATED OBLIGATION: the lock table extracted from the current source passes --
   including the lock-free readers of every reference a wrapper returns to its caller *)
Theorem C12_table_ok_current : table_ok (with_result_readers Gen.SyncTable.table) = true.
Proof. vm_compute. reflexivity. Qed.
Print Assumptions C12_table_ok_current.

(* ... and the translator found no plain write outside a write section at all (there is no
   recorded race finding on this tree, so the list has to be empty) *)
Theorem C12_no_plain_write_outside_write_sections : Gen.SyncTable.race_exceptions = [].
Proof. reflexivity. Qed.
Print Assumptions C12_no_plain_write_outside_write_sections.

(* (2)+(3): no race state is reachable with the wrappers of the current source, in programs
   that mix wrapper calls and reads of the values earlier calls returned *)
Theorem C12_no_race_current :
  forall (St Loc Ret : Type) body_of loc0 ret_of (s : St) (prog : tid -> list wrapper) c,
    calls_in (with_result_readers Gen.SyncTable.table) prog ->
    treachable St Loc Ret body_of loc0 ret_of (tinit St Loc Ret s prog) c ->
    ~ race_state St Loc Ret c.
Proof.
  exact (fun St Loc Ret body_of loc0 ret_of =>
           lock_discipline_sound St Loc Ret body_of loc0 ret_of (with_result_readers Gen.SyncTable.table) C12_table_ok_current).
Qed.
Print Assumptions C12_no_race_current.

(* (4) as long as some thread has not finished, some thread can take a step *)
Theorem C12_deadlock_free :
  forall (Sec Call St Loc Ret : Type) (mode_of : Sec -> mode) body_of (impl : Call -> list Sec) loc0 ret_of
         (s : St) (prog : tid -> list Call) c t,
    reachable Sec Call St Loc Ret mode_of body_of impl loc0 ret_of (init Sec Call St Loc Ret s prog) c ->
    ~ finished Sec Call St Loc Ret c t ->
    exists c', step Sec Call St Loc Ret mode_of body_of impl loc0 ret_of c c'.
Proof. exact deadlock_free. Qed.
Print Assumptions C12_deadlock_free.

(* (5) the auto-load protocol in the variant the translator read off the source *)
Definition current_variant : al_variant :=
  {| v_nonblocking_send := Gen.SyncTable.stop_send_nonblocking;
     v_cas := Gen.SyncTable.start_uses_cas;
     v_drain := Gen.SyncTable.start_drains_stale_stop |}.

(* StartAutoLoadPolicy / StopAutoLoadPolicy never block: in every state an unfinished client can
   step.  (Type-checks only while the source has the non-blocking send.) *)
Theorem C12_stop_never_blocks : forall s t,
  ~ al_client_done s t -> exists s', al_client_step current_variant t s = Some s'.
Proof. exact (fun s t => stop_never_blocks current_variant s t eq_refl). Qed.
Print Assumptions C12_stop_never_blocks.

(* never more than one loader goroutine.  (Type-checks only while Start uses CompareAndSwap.) *)
Theorem C12_at_most_one_loader : forall prog s,
  al_reachable current_variant (al_init prog) s -> List.length (loaders s) <= 1.
Proof. exact (fun prog s => at_most_one_loader current_variant prog s eq_refl). Qed.
Print Assumptions C12_at_most_one_loader.

(* the blocking send of the pinned tree deadlocks (finding F28, repaired): guard refuted *)
Theorem C12_blocking_send_refuted :
  exists s, al_reachable f28_variant (al_init f28_prog) s /\
            ~ al_client_done s 3 /\ forall a, al_step_by f28_variant a s = None.
Proof. exact blocking_send_refuted. Qed.
Print Assumptions C12_blocking_send_refuted.

(* non-vacuity: the generated table is not trivially fine -- it has write sections with plain
   writes, read sections with synchronised writes, a two-section wrapper, lock-free wrappers;
   and table_ok rejects it as soon as AddPolicy's section is a read section, or GetPolicy takes
   no lock at all (its plain reads then overlap the plain writes of AddPolicy). *)
Open Scope string_scope.

Definition retag (name : string) (m : mode) (w : wrapper) : wrapper :=
  if String.eqb (w_name w) name then
    {| w_name := w_name w; w_shape := w_shape w;
       w_sections := map (fun s => {| s_mode := m; s_callees := s_callees s; s_pr := s_pr s;
                                       s_pw := s_pw s; s_ar := s_ar s; s_aw := s_aw s |}) (w_sections w);
       w_escapes := w_escapes w |}
  else w.

(* GetPolicy as it was before the repair of F38: it returns the model's own rule list *)
Definition leak (name : string) (loc : string) (w : wrapper) : wrapper :=
  if String.eqb (w_name w) name then
    {| w_name := w_name w; w_shape := w_shape w; w_sections := w_sections w;
       w_escapes := map fst (filter (fun p => String.eqb (snd p) loc) Gen.SyncTable.loc_names) |}
  else w.

Example C12_nonvacuous :
  (exists w s, In w Gen.SyncTable.table /\ w_name w = "AddPolicy" /\ w_sections w = [s] /\
               s_mode s = W /\ s_pw s <> []) /\
  (exists w s, In w Gen.SyncTable.table /\ w_name w = "Enforce" /\ w_sections w = [s] /\
               s_mode s = R /\ s_pw s = [] /\ s_aw s <> []) /\
  table_ok (map (retag "AddPolicy" R) Gen.SyncTable.table) = false /\
  table_ok (map (retag "GetPolicy" NoLock) Gen.SyncTable.table) = false /\
  table_ok (with_result_readers (map (leak "GetPolicy" "model.Assertion.Policy[]") Gen.SyncTable.table)) = false /\
  List.length Gen.SyncTable.table >= 100.
Proof.
  split; [|split; [|split; [|split; [|split]]]].
  - assert (H : existsb (fun w => String.eqb (w_name w) "AddPolicy" &&
                 match w_sections w with [s] => mode_eqb (s_mode s) W && negb (N.eqb (N.of_nat (List.length (s_pw s))) 0) | _ => false end)
                 Gen.SyncTable.table = true) by (vm_compute; reflexivity).
    apply existsb_exists in H. destruct H as (w & Hin & H). apply andb_true_iff in H. destruct H as (Hn & H).
    apply String.eqb_eq in Hn. destruct (w_sections w) as [|s [|s' r]] eqn:E; try discriminate.
    apply andb_true_iff in H. destruct H as (Hm & Hp). exists w, s. repeat split; auto.
    + destruct (s_mode s); auto; discriminate.
    + intro Z. rewrite Z in Hp. discriminate.
  - assert (H : existsb (fun w => String.eqb (w_name w) "Enforce" &&
                 match w_sections w with [s] => mode_eqb (s_mode s) R && N.eqb (N.of_nat (List.length (s_pw s))) 0 && negb (N.eqb (N.of_nat (List.length (s_aw s))) 0) | _ => false end)
                 Gen.SyncTable.table = true) by (vm_compute; reflexivity).
    apply existsb_exists in H. destruct H as (w & Hin & H). apply andb_true_iff in H. destruct H as (Hn & H).
    apply String.eqb_eq in Hn. destruct (w_sections w) as [|s [|s' r]] eqn:E; try discriminate.
    apply andb_true_iff in H. destruct H as (H & Ha). apply andb_true_iff in H. destruct H as (Hm & Hp).
    exists w, s. repeat split; auto.
    + destruct (s_mode s); auto; discriminate.
    + destruct (s_pw s); auto; discriminate.
    + intro Z. rewrite Z in Ha. discriminate.
  - vm_compute. reflexivity.
  - vm_compute. reflexivity.
  - vm_compute. reflexivity.
  - vm_compute. repeat constructor.
Qed.
