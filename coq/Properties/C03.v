(* C03 — Enforcement and loading are total and fail closed.

     "For any request values (arbitrary strings, wrong arity, non-string values, unknown
      enforce-context names), any stored policy content and any matcher accepted at load time,
      Enforce and its variants return without panicking or hanging, and whenever they return an
      error the decision is false.  Loading any policy text through the bundled adapters
      likewise returns success or an error, and never panics or fails to terminate."

   Only final statements live here; each is closed by `exact` and followed by Print
   Assumptions.  The model: Casbin.Enforce (enforce() of enforcer.go, every Go partial operation
   an explicit Panic result, the deferred recover() = Enforce.recover) over Casbin.Expr (matcher
   evaluation, eval() on explicit nesting fuel), Casbin.Csv (persist.LoadPolicyLine over the
   single-record subset of encoding/csv), Casbin.Filter.load_lines / Casbin.Total (the loops of
   the file and string adapters as they are in /repo now, Enforcer.LoadPolicy on top),
   Casbin.Priority (subject hierarchy), Casbin.Roles (HasLink).

   How "total" is stated.  Every function of the model is a Gallina function, so it returns:
   what the theorems add is (a) that the results which stand for a crash or for an exhausted
   termination device are either converted at the API (Panic -> (false, error)) or unreachable
   (the fuel of the csv field loop, of the hierarchy traversal), (b) that the one genuinely
   unbounded recursion of the code, eval() inside eval(), is cut by the nesting bound for EVERY
   parse table, and (c) which results are possible at all.  All statements hold for EVERY parser
   table `parse`, EVERY behaviour `oracle` of the built-ins that are not modelled, every model,
   policy content, link set, matcher, matcher text and request. *)
From Coq Require Import List String Ascii Bool Arith ZArith.
Import ListNotations.
From Casbin Require Import Csv CsvProofs Filter FilterProofs Priority PriorityProofs Total.
From Casbin Require Import Base Roles RolesProofs Effect EffectProofs Expr Enforce EnforceProofs.
From Casbin Require Import TotalProofs.
Local Open Scope string_scope.
Local Open Scope list_scope.

(* ======================================================================================
   I. Enforce and its variants
   ====================================================================================== *)

(* (1) Every run ends in one of three outcomes: THE error outcome (decision false, nothing
   explained, error set), the pass-through of a disabled enforcer, or a decision computed from
   an effect the policy loop delivered.  There is no fourth way out: a panic of the body is one
   of the first kind (2). *)
Theorem C03_enforce_outcomes :
  forall parse oracle M t rq,
    enforce parse oracle M t rq = error_outcome \/
    (enabled M = false /\ enforce parse oracle M t rq = allow_outcome) \/
    (exists s e x, prepare parse M t rq = PReady s /\ run parse oracle s = LOk e x /\
       enforce parse oracle M t rq =
       {| decision := eft_eqb e Allow;
          explain := match x with
                     | Some j => if Nat.ltb j (List.length (rd_policy s)) then Some j else None
                     | None => None
                     end;
          failed := false |}).
Proof. exact enforce_outcomes. Qed.
Print Assumptions C03_enforce_outcomes.

(* (2) The deferred recover(): whatever partial operation panics inside the body (a missing
   m / r / p / e definition, a.(string) and args[1] in g(), result.(bool), interface equality on
   maps, an index beyond pVals / rVals), the caller gets (false, error). *)
Theorem C03_panic_is_caught :
  forall parse oracle M t rq,
    enforce_body parse oracle M t rq = Panicked -> enforce parse oracle M t rq = error_outcome.
Proof. exact panic_is_caught. Qed.
Print Assumptions C03_panic_is_caught.

(* (3) Fail closed: an error, returned or recovered, comes with decision false and no
   explanation; in fact with exactly one outcome. *)
Theorem C03_enforce_fail_closed :
  forall parse oracle M t rq,
    failed (enforce parse oracle M t rq) = true ->
    decision (enforce parse oracle M t rq) = false /\ explain (enforce parse oracle M t rq) = None.
Proof. exact enforce_fail_closed. Qed.
Print Assumptions C03_enforce_fail_closed.

Theorem C03_error_is_the_error_outcome :
  forall parse oracle M t rq,
    failed (enforce parse oracle M t rq) = true <-> enforce parse oracle M t rq = error_outcome.
Proof. exact failed_iff_error_outcome. Qed.
Print Assumptions C03_error_is_the_error_outcome.

(* (4) The variants.  Enforce, EnforceEx, EnforceWithMatcher with ANY text. *)
Theorem C03_api_enforce_fail_closed :
  forall parse oracle M rq,
    snd (api_enforce parse oracle M rq) = true -> fst (api_enforce parse oracle M rq) = false.
Proof. exact api_enforce_fail_closed. Qed.
Print Assumptions C03_api_enforce_fail_closed.

Theorem C03_api_enforce_ex_fail_closed :
  forall parse oracle M rq,
    snd (api_enforce_ex parse oracle M rq) = true ->
    fst (fst (api_enforce_ex parse oracle M rq)) = false /\
    snd (fst (api_enforce_ex parse oracle M rq)) = None.
Proof. exact api_enforce_ex_fail_closed. Qed.
Print Assumptions C03_api_enforce_ex_fail_closed.

Theorem C03_api_enforce_with_matcher_fail_closed :
  forall parse oracle M text rq,
    snd (api_enforce_with_matcher parse oracle M text rq) = true ->
    fst (api_enforce_with_matcher parse oracle M text rq) = false.
Proof. exact api_enforce_with_matcher_fail_closed. Qed.
Print Assumptions C03_api_enforce_with_matcher_fail_closed.

(* BatchEnforce reports decisions only for the requests in front of the first failing one,
   none of which failed; with an error there is such a failing request and nothing is reported
   for it or behind it; without an error every request was decided. *)
Theorem C03_batch_fail_closed :
  forall parse oracle M rqs rs e,
    api_batch_enforce parse oracle M rqs = (rs, e) ->
    rs = map (fun rq => decision (enforce parse oracle M "" rq)) (ok_prefix parse oracle M rqs) /\
    Forall (fun rq => failed (enforce parse oracle M "" rq) = false) (ok_prefix parse oracle M rqs) /\
    (if e then exists rq post, rqs = ok_prefix parse oracle M rqs ++ rq :: post /\
                               failed (enforce parse oracle M "" rq) = true
     else ok_prefix parse oracle M rqs = rqs).
Proof. exact batch_fail_closed. Qed.
Print Assumptions C03_batch_fail_closed.

(* (5) Class by class: each of these inputs ends in the error outcome, for every model. *)

(* unknown EnforceContext names.  m: nil dereference in the body, recovered *)
Theorem C03_unknown_matcher_name :
  forall parse oracle M rq,
    enabled M = true -> lookup (c_m (ctx_of rq)) (m_defs M) = None ->
    enforce_body parse oracle M "" rq = Panicked /\ enforce parse oracle M "" rq = error_outcome.
Proof. exact unknown_matcher_name. Qed.
Print Assumptions C03_unknown_matcher_name.

Theorem C03_unknown_request_name :
  forall parse oracle M t rq,
    enabled M = true -> lookup (c_r (ctx_of rq)) (r_defs M) = None ->
    enforce parse oracle M t rq = error_outcome.
Proof. exact unknown_request_name. Qed.
Print Assumptions C03_unknown_request_name.

Theorem C03_unknown_policy_name :
  forall parse oracle M t rq,
    enabled M = true -> lookup (c_p (ctx_of rq)) (p_defs M) = None ->
    enforce parse oracle M t rq = error_outcome.
Proof. exact unknown_policy_name. Qed.
Print Assumptions C03_unknown_policy_name.

(* e: missing effect definition (nil dereference at MergeEffects) or an effect expression
   that is not one of the five supported ones *)
Theorem C03_bad_effect :
  forall parse oracle M t rq s,
    prepare parse M t rq = PReady s ->
    (rd_ef s = None \/ exists efs, rd_ef s = Some efs /\ supported (effect_of efs) = false) ->
    enforce parse oracle M t rq = error_outcome.
Proof. exact bad_effect_is_error. Qed.
Print Assumptions C03_bad_effect.

(* a matcher text that does not compile: EnforceWithMatcher with ANY unparsable text, a stored
   text, a call of an undefined function (g without a role definition, eval without eval in
   scope) *)
Theorem C03_matcher_not_compiled :
  forall parse oracle M t rq es,
    enabled M = true -> matcher_text M t rq = Some es ->
    (parse es = None \/
     exists e, parse es = Some e /\ compile_ok (map fst (g_defs M)) (has_eval es) e = false) ->
    enforce parse oracle M t rq = error_outcome.
Proof. exact matcher_not_compiled. Qed.
Print Assumptions C03_matcher_not_compiled.

(* wrong arity of the request *)
Theorem C03_wrong_request_size :
  forall parse oracle M t rq rtk,
    enabled M = true -> lookup (c_r (ctx_of rq)) (r_defs M) = Some rtk ->
    List.length rtk <> List.length (rq_vals rq) -> enforce parse oracle M t rq = error_outcome.
Proof. exact wrong_request_size. Qed.
Print Assumptions C03_wrong_request_size.

(* the policy loop fails at the first rule it evaluates: a stored rule of the wrong size, an
   evaluation error, a panic, a result that is neither bool nor number.  (Only a rule the loop
   reaches counts: C03_unreached_rule_refuted.) *)
Theorem C03_first_rule_failure :
  forall parse oracle M t rq s pv rest,
    prepare parse M t rq = PReady s -> policy_branch s = true -> rd_policy s = pv :: rest ->
    (forall en, slot parse oracle s pv <> SOk en) -> enforce parse oracle M t rq = error_outcome.
Proof. exact first_rule_failure. Qed.
Print Assumptions C03_first_rule_failure.

(* how one slot ends, by the result of the matcher evaluation; in particular the pVals[j]
   panic of the eft column cannot happen after the size check *)
Theorem C03_slot_cases :
  forall parse oracle s pv,
    List.length (ptoks (rd_env s)) = List.length pv ->
    match eval_rule parse oracle s pv with
    | Panic => slot parse oracle s pv = SPanic
    | Err => slot parse oracle s pv = SErr
    | Ok (VBool b) => exists e, slot parse oracle s pv = SOk (b, e)
    | Ok (VNum z) => exists e, slot parse oracle s pv = SOk (negb (Z.eqb z 0), e)
    | Ok _ => slot parse oracle s pv = SErr
    end.
Proof. exact slot_cases. Qed.
Print Assumptions C03_slot_cases.

Theorem C03_slot_wrong_size :
  forall parse oracle s pv,
    List.length (ptoks (rd_env s)) <> List.length pv -> slot parse oracle s pv = SErr.
Proof. exact slot_wrong_size. Qed.
Print Assumptions C03_slot_wrong_size.

(* a panic while the first rule is evaluated: the body panics, the caller gets the error *)
Theorem C03_first_rule_panic :
  forall parse oracle M t rq s pv rest,
    prepare parse M t rq = PReady s -> policy_branch s = true -> rd_policy s = pv :: rest ->
    List.length (ptoks (rd_env s)) = List.length pv -> eval_rule parse oracle s pv = Panic ->
    enforce_body parse oracle M t rq = Panicked /\ enforce parse oracle M t rq = error_outcome.
Proof. exact first_rule_panic. Qed.
Print Assumptions C03_first_rule_panic.

(* g(a, b) on arguments that are not all strings IS such a panic, in every environment *)
Theorem C03_g_non_string_panics :
  forall parse oracle n en f count ls ea eb va vb,
    (eval_in_scope en && String.eqb f "eval") = false ->
    lookup f (gdefs en) = Some (count, ls) ->
    eval parse oracle n en ea = Ok va -> eval parse oracle n en eb = Ok vb ->
    all_strings (spread [va; vb]) = None ->
    eval parse oracle n en (ECall f [ea; eb]) = Panic.
Proof. exact eval_g_non_string. Qed.
Print Assumptions C03_g_non_string_panics.

Theorem C03_g_too_few_arguments_panics :
  forall count ls vs l,
    all_strings vs = Some l -> List.length l < 2 -> g_call count ls vs = Panic.
Proof. exact g_call_too_few. Qed.
Print Assumptions C03_g_too_few_arguments_panics.

(* the policy-free branch: anything but a boolean result (result.(bool) panics on a number or
   a string, an error is returned) *)
Theorem C03_policy_free_failure :
  forall parse oracle M t rq s,
    prepare parse M t rq = PReady s -> policy_branch s = false ->
    (forall b, eval_rule parse oracle s (blank_rule s) <> Ok (VBool b)) ->
    enforce parse oracle M t rq = error_outcome.
Proof. exact policy_free_failure. Qed.
Print Assumptions C03_policy_free_failure.

(* eval() in the matcher and an empty policy *)
Theorem C03_eval_with_empty_policy :
  forall parse oracle M t rq s,
    prepare parse M t rq = PReady s -> rd_has_eval s = true -> rd_policy s = [] ->
    enforce parse oracle M t rq = error_outcome.
Proof. exact eval_with_empty_policy. Qed.
Print Assumptions C03_eval_with_empty_policy.

(* ======================================================================================
   II. Termination arguments
   ====================================================================================== *)

(* (6) eval() nesting.  Take ANY parse table, ANY environment with eval in scope and ANY family
   P of expressions such that every member must first evaluate eval(a) for some a that yields a
   string whose text, whatever the table parses it to, is again a member (a rule that evaluates
   itself, rules that evaluate each other, a table with an infinite chain of distinct texts).
   Then evaluating a member is the nesting error at every fuel, in particular at
   max_eval_nesting, the fuel enforce uses: never a loop, never a value. *)
Theorem C03_eval_cycle_is_error :
  forall parse oracle en (P : expr -> Prop),
    eval_in_scope en = true ->
    (forall e, P e -> exists a s,
        lctx (ECall "eval" [a]) e /\ (forall n, eval parse oracle n en a = Ok (VStr s)) /\
        (forall e', parse (escape s) = Some e' -> P e')) ->
    forall n e, P e -> eval parse oracle n en e = Err.
Proof. exact eval_cycle_err. Qed.
Print Assumptions C03_eval_cycle_is_error.

(* the self-referential rule (F29): token tok holds a text whose expression starts by
   evaluating eval(tok) *)
Theorem C03_self_eval_is_error :
  forall parse oracle en tok txt e,
    eval_in_scope en = true -> get_param en tok = Ok (VStr txt) ->
    parse (escape txt) = Some e -> lctx (ECall "eval" [EVar tok]) e ->
    forall n e0, lctx (ECall "eval" [EVar tok]) e0 -> eval parse oracle n en e0 = Err.
Proof. exact self_eval_err. Qed.
Print Assumptions C03_self_eval_is_error.

(* and Enforce answers (false, error) for every model, request and parse table in which the
   first rule is of that kind *)
Theorem C03_self_referential_rule_fails_closed :
  forall parse oracle M t rq s pv rest tok txt e,
    prepare parse M t rq = PReady s -> policy_branch s = true -> rd_policy s = pv :: rest ->
    eval_in_scope (rd_env s) = true ->
    get_param (with_pvals (rd_env s) pv) tok = Ok (VStr txt) ->
    parse (escape txt) = Some e -> lctx (ECall "eval" [EVar tok]) e ->
    lctx (ECall "eval" [EVar tok]) (rd_expr s) ->
    enforce parse oracle M t rq = error_outcome.
Proof. exact self_referential_rule_fails_closed. Qed.
Print Assumptions C03_self_referential_rule_fails_closed.

(* the bottom of the chain: with no nesting left an eval() call is the error *)
Theorem C03_eval_nesting_exhausted :
  forall parse oracle en ea v,
    eval_in_scope en = true -> eval parse oracle 0 en ea = Ok v ->
    eval parse oracle 0 en (ECall "eval" [ea]) = Err.
Proof. exact eval_nesting_exhausted. Qed.
Print Assumptions C03_eval_nesting_exhausted.

(* (7) The csv field loop runs on fuel = length of the line + 1.  The fuel never runs out
   (fields_i shows the exhaustion as FFuel; Csv.fields = fields_i with FFuel read as an error),
   and the result does not depend on the fuel once it exceeds the length of the line. *)
Theorem C03_fields_never_out_of_fuel :
  forall n line, String.length line < n -> fields_i n line <> FFuel.
Proof. exact fields_i_fuel. Qed.
Print Assumptions C03_fields_never_out_of_fuel.

Theorem C03_fields_is_fields_i :
  forall n line, fields n line = erase (fields_i n line).
Proof. exact fields_i_erase. Qed.
Print Assumptions C03_fields_is_fields_i.

Theorem C03_fields_fuel_irrelevant :
  forall n m line,
    String.length line < n -> String.length line < m -> fields n line = fields m line.
Proof. exact fields_fuel_irrelevant. Qed.
Print Assumptions C03_fields_fuel_irrelevant.

(* csv.Reader.Read as LoadPolicyLine uses it: the same for every fuel above the length, and
   the exhaustion is unreachable *)
Theorem C03_read_record_total :
  forall s n, String.length s < n ->
    read_record s = erase (read_record_i n s) /\ read_record_i n s <> FFuel.
Proof. intros s n H. exact (conj (read_record_erase s n H) (read_record_never_out_of_fuel s n H)). Qed.
Print Assumptions C03_read_record_total.

(* (8) Subject-hierarchy ordering (F12 repaired): the level-order traversal never exhausts
   its fuel, for every list of grouping rules, cyclic or not: the result is a level map or
   the error. *)
Theorem C03_hierarchy_terminates :
  forall gs, hierarchy_map gs <> HOutOfFuel.
Proof. exact hierarchy_terminates. Qed.
Print Assumptions C03_hierarchy_terminates.

(* (9) HasLink on ANY link set (cycles, self-loops): the level-bounded search answers, and
   its answer is reachability within n links *)
Theorem C03_has_link_total :
  forall n ls u r d,
    has_link_n n ls u r d = true <-> exists k, k <= n /\ walk ls d u r k.
Proof. exact has_link_iff_walk. Qed.
Print Assumptions C03_has_link_total.

(* ======================================================================================
   III. Loading
   ====================================================================================== *)

(* (10) persist.LoadPolicyLine on EVERY line (arbitrary bytes) and store: an error (the store
   is what it was: the caller keeps it), the untouched store (blank / comment / duplicate), or
   exactly one rule appended to an assertion that exists, with the arity HasPolicyEx demands,
   not listed before. *)
Theorem C03_load_policy_line_cases :
  forall line st,
    load_policy_line line st = Csv.Err \/
    load_policy_line line st = Csv.Ok st \/
    exists key r e,
      key <> "" /\ find_entry key st = Some e /\ arity_ok key (e_ntok e) r = true /\
      key_in r (e_rules e) = false /\ load_policy_line line st = Csv.Ok (add_rule key r st).
Proof. exact load_policy_line_cases. Qed.
Print Assumptions C03_load_policy_line_cases.

Theorem C03_add_rule_effect :
  forall key r st e, find_entry key st = Some e ->
    rules_of key (add_rule key r st) = rules_of key st ++ [r] /\
    (forall k', k' <> key -> rules_of k' (add_rule key r st) = rules_of k' st) /\
    same_defs st (add_rule key r st).
Proof. exact add_rule_effect. Qed.
Print Assumptions C03_add_rule_effect.

(* the line ",a" (F13 repaired) is an error in every model *)
Theorem C03_missing_type_is_error :
  forall st, load_policy_line ",a" st = Csv.Err.
Proof. exact load_line_missing_type. Qed.
Print Assumptions C03_missing_type_is_error.

(* (11) The file adapter (loadPolicyFile): for EVERY text the longest prefix of accepted lines
   is loaded, in order; the flag says whether that is the whole file; it stops in front of the
   first rejected line or the first line the Scanner cannot hold. *)
Theorem C03_file_load_spec :
  forall text st st' ok, file_load text st = (st', ok) ->
    exists pre post, split_on c_lf text = pre ++ post /\ accepted (map trim pre) st st' /\
      Forall (fun raw => String.length raw < max_token) pre /\
      (if ok then post = []
       else exists raw t, post = raw :: t /\
            (max_token <= String.length raw \/ load_policy_line (trim raw) st' = Csv.Err)).
Proof. intros text st st' ok. exact (scan_load_spec (split_on c_lf text) st st' ok). Qed.
Print Assumptions C03_file_load_spec.

(* what was loaded before stays: definitions unchanged, every rule list only extended at its
   end, whether the load completed or not *)
Theorem C03_file_load_extends :
  forall text st st' ok, file_load text st = (st', ok) -> extends st st'.
Proof. intros text st st' ok. exact (scan_load_extends (split_on c_lf text) st st' ok). Qed.
Print Assumptions C03_file_load_extends.

(* without an over-long line this is Filter.load_lines over Filter.lines_of (the model C10,
   C11 and C18 use), which has the same prefix property *)
Theorem C03_file_load_short :
  forall text st,
    Forall (fun raw => String.length raw < max_token) (split_on c_lf text) ->
    file_load text st = load_lines (lines_of text) st.
Proof. exact file_load_short. Qed.
Print Assumptions C03_file_load_short.

Theorem C03_load_lines_spec :
  forall ls st st' ok, load_lines ls st = (st', ok) ->
    exists pre post, ls = pre ++ post /\ accepted pre st st' /\
      (if ok then post = [] else exists l t, post = l :: t /\ load_policy_line l st' = Csv.Err).
Proof. exact load_lines_spec. Qed.
Print Assumptions C03_load_lines_spec.

(* (12) The string adapter as it is now: the only error is the empty text; otherwise EVERY
   line is attempted, a rejected one is dropped (its error discarded) and the loop goes on. *)
Theorem C03_string_load_spec :
  forall text st,
    (text = "" /\ string_load text st = (st, false)) \/
    (text <> "" /\ string_load text st = (fold_left try_line (split_on c_lf text) st, true)).
Proof. exact string_load_spec. Qed.
Print Assumptions C03_string_load_spec.

Theorem C03_string_load_extends :
  forall text st st' ok, string_load text st = (st', ok) -> extends st st'.
Proof. exact string_load_extends. Qed.
Print Assumptions C03_string_load_extends.

(* (13) Enforcer.LoadPolicy / NewEnforcer(model, adapter): success keeps what the adapter
   loaded; the only failures are the adapter's error and the hierarchy error under
   subjectPriority (a cycle below a root), never an exhausted search. *)
Theorem C03_enforcer_load_some :
  forall sp st ok st', enforcer_load sp (st, ok) = Some st' ->
    st' = st /\ ok = true /\ (sp = true -> exists m, hierarchy_map (rules_of "g" st) = HOk m).
Proof. exact enforcer_load_some. Qed.
Print Assumptions C03_enforcer_load_some.

Theorem C03_enforcer_load_none :
  forall sp st ok, enforcer_load sp (st, ok) = None ->
    ok = false \/ (sp = true /\ hierarchy_map (rules_of "g" st) = HErr).
Proof. exact enforcer_load_none. Qed.
Print Assumptions C03_enforcer_load_none.

(* ======================================================================================
   IV. Non-vacuity
   ====================================================================================== *)
Ltac conj_vm :=
  repeat match goal with |- _ /\ _ => split end;
  match goal with |- _ = _ => vm_compute; reflexivity | _ => idtac end.

(* ---------- an RBAC model and one request per failure class ---------- *)
Definition ex_text : string := "g(r.sub, p.sub) && r.obj == p.obj && r.act == p.act".
Definition ex_ast : expr :=
  EBin OAnd (EBin OAnd (ECall "g" [EVar "r_sub"; EVar "p_sub"])
                       (EBin OEq (EVar "r_obj") (EVar "p_obj")))
            (EBin OEq (EVar "r_act") (EVar "p_act")).
Definition in_text : string := "r.sub in (r.obj, p.sub)".
Definition in_ast : expr := EIn (EVar "r_sub") [EVar "r_obj"; EVar "p_sub"].
Definition num_text : string := "1 + 1".
Definition num_ast : expr := EBin OAdd (ENum 1) (ENum 1).
Definition ex_parse (s : string) : option expr :=
  if String.eqb s (load_matcher ex_text) then Some ex_ast
  else if String.eqb s (prep_matcher in_text) then Some in_ast
  else if String.eqb s num_text then Some num_ast
  else None.
Definition ex_oracle (f : string) (args : list string) : res := Err.
Definition ex_model : emodel :=
  {| enabled := true;
     r_defs := [("r", load_tokens "r" "sub, obj, act")];
     p_defs := [("p", (load_tokens "p" "sub, obj, act",
                       [["admin"; "data1"; "read"]; ["bob"; "data2"]]))];
     e_defs := [("e", load_effect "some(where (p.eft == allow))")];
     m_defs := [("m", load_matcher ex_text)];
     g_defs := [("g", (2, fst (rebuild 2 [["alice"; "admin"]; ["admin"; "alice"]])))] |}.
Definition rq (vals : list value) : request := {| rq_ctx := None; rq_vals := vals |}.
Definition rq_in (c : ectx) (vals : list value) : request := {| rq_ctx := Some c; rq_vals := vals |}.
Definition amap : value := VObj false [("Name", VStr "alice")].

Example C03_nonvacuous_enforce :
  (* a good request is allowed by rule 0 through the (cyclic) role graph *)
  enforce ex_parse ex_oracle ex_model "" (rq [VStr "alice"; VStr "data1"; VStr "read"])
    = {| decision := true; explain := Some 0; failed := false |} /\
  (* non-string subject: g() panics, the body panics, the API fails closed *)
  enforce_body ex_parse ex_oracle ex_model "" (rq [VNum 7; VStr "data1"; VStr "read"]) = Panicked /\
  enforce ex_parse ex_oracle ex_model "" (rq [VNum 7; VStr "data1"; VStr "read"]) = error_outcome /\
  enforce_body ex_parse ex_oracle ex_model "" (rq [VNil; VStr "data1"; VStr "read"]) = Panicked /\
  enforce_body ex_parse ex_oracle ex_model "" (rq [amap; VStr "data1"; VStr "read"]) = Panicked /\
  (* wrong arity: returned error *)
  enforce_body ex_parse ex_oracle ex_model "" (rq [VStr "alice"; VStr "data1"]) = Done error_outcome /\
  enforce_body ex_parse ex_oracle ex_model "" (rq []) = Done error_outcome /\
  (* unknown EnforceContext names: m, r, p panic; e panics at MergeEffects *)
  enforce_body ex_parse ex_oracle ex_model ""
    (rq_in {| c_r := "r"; c_p := "p"; c_e := "e"; c_m := "m9" |} [VStr "alice"; VStr "data1"; VStr "read"]) = Panicked /\
  enforce_body ex_parse ex_oracle ex_model ""
    (rq_in {| c_r := "r9"; c_p := "p"; c_e := "e"; c_m := "m" |} [VStr "alice"; VStr "data1"; VStr "read"]) = Panicked /\
  enforce_body ex_parse ex_oracle ex_model ""
    (rq_in {| c_r := "r"; c_p := "p9"; c_e := "e"; c_m := "m" |} [VStr "alice"; VStr "data1"; VStr "read"]) = Panicked /\
  enforce_body ex_parse ex_oracle ex_model ""
    (rq_in {| c_r := "r"; c_p := "p"; c_e := "e9"; c_m := "m" |} [VStr "alice"; VStr "data1"; VStr "read"]) = Panicked /\
  (* a stored rule of the wrong size, reached by the loop: returned error *)
  enforce_body ex_parse ex_oracle ex_model "" (rq [VStr "bob"; VStr "data2"; VStr "read"]) = Done error_outcome /\
  (* EnforceWithMatcher: a text that does not parse, a text of the wrong type (number in the
     policy loop counts as a match; a map compared with a map inside `in` panics) *)
  api_enforce_with_matcher ex_parse ex_oracle ex_model "r.sub == " (rq [VStr "alice"; VStr "data1"; VStr "read"]) = (false, true) /\
  enforce_body ex_parse ex_oracle ex_model in_text (rq [amap; amap; VStr "read"]) = Panicked /\
  (* result.(bool) on a number in the policy-free branch: panic *)
  enforce_body ex_parse ex_oracle ex_model num_text (rq [VStr "alice"; VStr "data1"; VStr "read"]) = Panicked /\
  (* BatchEnforce: one decision, then the failing request, nothing behind it *)
  api_batch_enforce ex_parse ex_oracle ex_model
    [rq [VStr "alice"; VStr "data1"; VStr "read"]; rq [VNum 7; VStr "data1"; VStr "read"];
     rq [VStr "alice"; VStr "data1"; VStr "read"]] = ([true], true).
Proof. conj_vm. Qed.

(* the hypotheses of C03_first_rule_panic and C03_g_non_string_panics are met by that request *)
Example C03_nonvacuous_panic_hypotheses :
  exists s pv rest,
    prepare ex_parse ex_model "" (rq [VNum 7; VStr "data1"; VStr "read"]) = PReady s /\
    policy_branch s = true /\ rd_policy s = pv :: rest /\
    List.length (ptoks (rd_env s)) = List.length pv /\
    eval_rule ex_parse ex_oracle s pv = Panic /\
    all_strings (spread [VNum 7; VStr "admin"]) = None.
Proof. eexists. eexists. eexists. conj_vm. Qed.

(* ---------- eval(): the self-referential rule, two rules that evaluate each other, and a
   nested eval that bottoms out ---------- *)
Definition ev_text : string := "eval(p.sub_rule) && r.obj == p.obj && r.act == p.act".
Definition ev_ast : expr :=
  EBin OAnd (EBin OAnd (ECall "eval" [EVar "p_sub_rule"]) (EBin OEq (EVar "r_obj") (EVar "p_obj")))
            (EBin OEq (EVar "r_act") (EVar "p_act")).
Definition ev_parse (s : string) : option expr :=
  if String.eqb s (load_matcher ev_text) then Some ev_ast
  else if String.eqb s "eval(p_sub_rule)" then Some (ECall "eval" [EVar "p_sub_rule"])
  else if String.eqb s "eval(p_obj)" then Some (ECall "eval" [EVar "p_obj"])
  else if String.eqb s "eval('r_sub == ""alice""')" then Some (ECall "eval" [EStr "r_sub == ""alice"""])
  else if String.eqb s "r_sub == ""alice""" then Some (EBin OEq (EVar "r_sub") (EStr "alice"))
  else None.
Definition ev_model (rules : list rule) : emodel :=
  {| enabled := true;
     r_defs := [("r", load_tokens "r" "sub, obj, act")];
     p_defs := [("p", (load_tokens "p" "sub_rule, obj, act", rules))];
     e_defs := [("e", load_effect "some(where (p.eft == allow))")];
     m_defs := [("m", load_matcher ev_text)];
     g_defs := [] |}.
Definition ev_req : request := rq [VStr "alice"; VStr "data1"; VStr "read"].

Example C03_nonvacuous_eval :
  (* F29's witness: the rule whose sub-rule is eval(p.sub_rule) *)
  enforce ev_parse ex_oracle (ev_model [["eval(p.sub_rule)"; "data1"; "read"]]) "" ev_req = error_outcome /\
  enforce_body ev_parse ex_oracle (ev_model [["eval(p.sub_rule)"; "data1"; "read"]]) "" ev_req = Done error_outcome /\
  (* two fields that evaluate each other *)
  enforce ev_parse ex_oracle (ev_model [["eval(p.obj)"; "eval(p.sub_rule)"; "read"]]) "" ev_req = error_outcome /\
  (* a nested eval that bottoms out is evaluated *)
  enforce ev_parse ex_oracle (ev_model [["eval('r.sub == ""alice""')"; "data1"; "read"]]) "" ev_req
    = {| decision := true; explain := Some 0; failed := false |} /\
  (* an unparsable sub-rule: error; the same rule behind a deciding one is never looked at *)
  enforce ev_parse ex_oracle (ev_model [["r.sub.Age >"; "data1"; "read"]]) "" ev_req = error_outcome /\
  enforce ev_parse ex_oracle (ev_model [["eval('r.sub == ""alice""')"; "data1"; "read"]; ["r.sub.Age >"; "data1"; "read"]]) "" ev_req
    = {| decision := true; explain := Some 0; failed := false |} /\
  (* eval with an empty policy *)
  enforce ev_parse ex_oracle (ev_model []) "" ev_req = error_outcome.
Proof. conj_vm. Qed.

(* the hypotheses of C03_self_referential_rule_fails_closed hold for F29's witness *)
Example C03_nonvacuous_self_reference :
  exists s pv rest,
    prepare ev_parse (ev_model [["eval(p.sub_rule)"; "data1"; "read"]]) "" ev_req = PReady s /\
    policy_branch s = true /\ rd_policy s = pv :: rest /\ eval_in_scope (rd_env s) = true /\
    get_param (with_pvals (rd_env s) pv) "p_sub_rule" = Ok (VStr "eval(p.sub_rule)") /\
    ev_parse (escape "eval(p.sub_rule)") = Some (ECall "eval" [EVar "p_sub_rule"]) /\
    lctx (ECall "eval" [EVar "p_sub_rule"]) (ECall "eval" [EVar "p_sub_rule"]) /\
    lctx (ECall "eval" [EVar "p_sub_rule"]) (rd_expr s).
Proof.
  eexists. eexists. eexists.
  split; [vm_compute; reflexivity|]. split; [vm_compute; reflexivity|].
  split; [vm_compute; reflexivity|]. split; [vm_compute; reflexivity|].
  split; [vm_compute; reflexivity|]. split; [vm_compute; reflexivity|].
  split; [constructor|].
  change (lctx (ECall "eval" [EVar "p_sub_rule"]) ev_ast).
  unfold ev_ast. repeat constructor.
Qed.

(* ---------- loading ---------- *)
Definition flat_store : store :=
  [mkEntry "r" 3 []; mkEntry "p" 3 []; mkEntry "g" 2 []; mkEntry "e" 0 []; mkEntry "m" 0 []].
Definition nul : string := String (ascii_of_nat 0) "".
Definition lf : string := String c_lf "".
Definition cr : string := String c_cr "".

Example C03_nonvacuous_lines :
  (* hostile single lines: each is an error or leaves / extends the store, none is stuck *)
  load_policy_line ",a" flat_store = Csv.Err /\
  load_policy_line "," flat_store = Csv.Err /\
  load_policy_line """" flat_store = Csv.Err /\
  load_policy_line "p, a""b, c, d" flat_store = Csv.Err /\
  load_policy_line "p, ""a"" x, c, d" flat_store = Csv.Err /\
  load_policy_line "p, a, b" flat_store = Csv.Err /\
  load_policy_line "p, a, b, c, d" flat_store = Csv.Err /\
  load_policy_line "q, a, b, c" flat_store = Csv.Err /\
  load_policy_line " # not a comment" flat_store = Csv.Err /\
  load_policy_line cr flat_store = Csv.Err /\
  load_policy_line "# p, a, b, c" flat_store = Csv.Ok flat_store /\
  load_policy_line "" flat_store = Csv.Ok flat_store /\
  rules_of "p" (try_line flat_store ("p, ""a,b"", " ++ nul ++ ", ""c""""d""" ++ cr))
    = [["a,b"; nul; "c""d"]] /\
  rules_of "g" (try_line flat_store "g, a, b, extra") = [["a"; "b"; "extra"]] /\
  rules_of "p" (try_line (try_line flat_store "p, a, b, c") "p,a,b,c") = [["a"; "b"; "c"]].
Proof. conj_vm. Qed.

Definition hostile_text : string :=
  "p, alice, data1, read" ++ lf ++ "  g, alice, admin  " ++ cr ++ lf ++ ",a" ++ lf ++ "p, bob, data2, write" ++ lf.

Example C03_nonvacuous_texts :
  (* the file adapter stops at the rejected third line and keeps the first two *)
  snd (file_load hostile_text flat_store) = false /\
  rules_of "p" (fst (file_load hostile_text flat_store)) = [["alice"; "data1"; "read"]] /\
  rules_of "g" (fst (file_load hostile_text flat_store)) = [["alice"; "admin"]] /\
  (* the string adapter drops it and goes on *)
  snd (string_load hostile_text flat_store) = true /\
  rules_of "p" (fst (string_load hostile_text flat_store))
    = [["alice"; "data1"; "read"]; ["bob"; "data2"; "write"]] /\
  rules_of "g" (fst (string_load hostile_text flat_store)) = [["alice"; "admin  "]] /\
  string_load "" flat_store = (flat_store, false) /\
  (* F12's witness: a cycle below a root is the hierarchy error, a clean forest is ordered *)
  enforcer_load true (string_load ("g, a, r" ++ lf ++ "g, b, a" ++ lf ++ "g, a, b") flat_store) = None /\
  hierarchy_map [["a"; "r"]; ["b"; "a"]; ["a"; "b"]] = HErr /\
  (exists st, enforcer_load true (string_load ("g, a, r" ++ lf ++ "g, b, a") flat_store) = Some st) /\
  (* HasLink answers on a cyclic graph *)
  has_link (fst (rebuild 2 [["a"; "b"]; ["b"; "a"]; ["c"; "c"]])) "a" "zz" "" = false /\
  has_link (fst (rebuild 2 [["a"; "b"]; ["b"; "a"]; ["c"; "c"]])) "b" "a" "" = true.
Proof.
  repeat match goal with |- _ /\ _ => split end;
    try (vm_compute; reflexivity).
  eexists. vm_compute. reflexivity.
Qed.

(* ======================================================================================
   V. The guards are needed
   ====================================================================================== *)

(* only a rule the loop REACHES can fail the call: a rule of the wrong size behind the
   deciding rule is never looked at, and the call is allowed without error *)
Lemma C03_unreached_rule_refuted :
  exists M r s, prepare ex_parse M "" r = PReady s /\
    nth_error (rd_policy s) 1 = Some ["bob"; "data2"] /\
    slot ex_parse ex_oracle s ["bob"; "data2"] = SErr /\
    enforce ex_parse ex_oracle M "" r = {| decision := true; explain := Some 0; failed := false |}.
Proof.
  exists ex_model, (rq [VStr "alice"; VStr "data1"; VStr "read"]). eexists. conj_vm.
Qed.

(* the fuel guard of the field loop: with less fuel than fields the loop does give up *)
Lemma C03_fields_fuel_guard_refuted :
  exists n line, fields_i n line = FFuel /\ fields n line = Csv.Err /\
                 fields (S (String.length line)) line = Csv.Ok ["a"; "b"].
Proof. exists 1, "a,b". conj_vm. Qed.

(* the Scanner limit is needed in C03_file_load_short: a comment line of 65536 bytes is
   skipped by load_lines but ends the real scan with ErrTooLong *)
Fixpoint rep (n : nat) (tail : string) : string :=
  match n with O => tail | S k => String "#"%char (rep k tail) end.

Lemma C03_scanner_limit_refuted :
  exists text, file_load text flat_store = (flat_store, false) /\
               load_lines (lines_of text) flat_store = (flat_store, true).
Proof. exists (rep max_token ""). split; vm_compute; reflexivity. Qed.

(* the two adapters differ: the string adapter's flag does not say that every line loaded *)
Lemma C03_string_adapter_drops_errors :
  exists text, snd (string_load text flat_store) = true /\ snd (file_load text flat_store) = false.
Proof. exists hostile_text. split; vm_compute; reflexivity. Qed.
