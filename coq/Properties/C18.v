(* C18 — Filtered loading loads exactly the subset and cannot clobber the store.
   Only final statements live here; each is closed by `exact` and followed by Print Assumptions.

   Model: Csv.v (persist.LoadPolicyLine / LoadPolicyArray over the encoding/csv subset it uses)
   and Filter.v (adapter_filtered.go filterLine/filterWords + the `filtered` flag, and the
   enforcer's LoadPolicy / LoadFilteredPolicy / LoadIncrementalFilteredPolicy / SavePolicy /
   AddPolicy).  [step v s op] is one call; v = Current is the code as it is, PreF32 / PreF24 are
   the flag machines before the two repairs (only used in the refuted lemmas).
   Guards: safe_file (every line is blank / a comment / a line without quotes whose fields carry
   no trailing blanks, so that encoding/csv and filterLine's naive comma split see the same
   fields) and fits (no filter is longer than the rule it is applied to: finding F25). *)
From Coq Require Import List String Ascii Bool Arith.
Import ListNotations.
From Casbin Require Import Csv CsvProofs Filter FilterProofs.
Open Scope string_scope.

(* (0) encoding/csv on a safe line = the naive comma split with leading blanks removed; this is
   what ties LoadPolicyLine (csv) to filterLine (strings.Split) *)
Theorem C18_csv_safe_record : forall line, safe_line line = true ->
  read_record line = Ok (map trim_left (split_comma line)).
Proof. exact read_record_safe. Qed.
Print Assumptions C18_csv_safe_record.

(* (1) filter_exact: for every filter F (values without outer blanks), every safe line with policy
   type key and fields r, and the filter of that type not longer than r: the line is kept
   (filterLine = false) iff every non-empty filter value equals the corresponding leading field *)
Theorem C18_filter_exact : forall F line key r,
  safe_line line = true -> read_record line = Ok (key :: r) ->
  List.length (filter_for F key) <= List.length r -> filter_trimmed F = true ->
  (filter_line line (Some F) = false <-> match_plain (filter_for F key) r = true).
Proof. exact filter_exact. Qed.
Print Assumptions C18_filter_exact.

(* (1') the same for arbitrary filter values: the code compares TrimSpace(value) with the field *)
Theorem C18_filter_exact_trim : forall F line key r,
  safe_line line = true -> read_record line = Ok (key :: r) ->
  List.length (filter_for F key) <= List.length r ->
  filter_line line (Some F) = negb (matchb (filter_for F key) r).
Proof. exact filter_line_exact. Qed.
Print Assumptions C18_filter_exact_trim.

(* (2) load_filtered_subset: from ANY enforcer state s, for every safe file and every filter that
   fits (F = None is the nil *Filter): if a full LoadPolicy of the file succeeds (state sL) then
   LoadFilteredPolicy(F) succeeds, sets the flag, leaves the file alone, rebuilds the role links
   from the loaded g rules, and for EVERY policy type lists exactly the rules of the full load
   that match the filter, in the same order *)
Theorem C18_load_filtered_subset : forall v s F sL,
  safe_file (file s) = true -> fits F (file s) = true ->
  step v s (OLoad false) = (sL, true) ->
  exists sF, step v s (OLoadFiltered false false (FPtr F)) = (sF, true) /\
    flag sF = true /\ file sF = file s /\ links sF = rules_of "g" (mem sF) /\
    forall key, rules_of key (mem sF) = filter (spec_match F key) (rules_of key (mem sL)).
Proof. exact load_filtered_subset. Qed.
Print Assumptions C18_load_filtered_subset.

(* (3) incremental_adds: LoadIncrementalFilteredPolicy(F) keeps the rules already listed and
   appends, per p/g type and in file order, the matching rules of the full load that are not
   listed yet *)
Theorem C18_incremental_adds : forall v s F sL,
  safe_file (file s) = true -> fits F (file s) = true ->
  step v s (OLoad false) = (sL, true) ->
  exists sI, step v s (OLoadFiltered true false (FPtr F)) = (sI, true) /\
    flag sI = true /\ file sI = file s /\ links sI = rules_of "g" (mem sI) /\
    forall key, is_pg key = true ->
      rules_of key (mem sI) =
      (rules_of key (mem s) ++
       filter (fun r => negb (key_in r (rules_of key (mem s))))
              (filter (spec_match F key) (rules_of key (mem sL))))%list.
Proof. exact incremental_adds. Qed.
Print Assumptions C18_incremental_adds.

(* (4) subset_decisions: every decision after the filtered load is the decision over the rules of
   the full load restricted by the filter (C01 covers rule lists -> decisions in general; decide
   is the matcher of the two harness models, with and without domains) *)
Theorem C18_subset_decisions : forall v s F sL,
  safe_file (file s) = true -> fits F (file s) = true ->
  step v s (OLoad false) = (sL, true) ->
  exists sF, step v s (OLoadFiltered false false (FPtr F)) = (sF, true) /\
    forall dom req,
      decide dom sF req =
      decide_rules dom (filter (spec_match F "p") (rules_of "p" (mem sL)))
                       (filter (spec_match F "g") (rules_of "g" (mem sL))) req.
Proof. exact subset_decisions. Qed.
Print Assumptions C18_subset_decisions.

(* (5) save_guard, for EVERY model, EVERY file (no guard) and EVERY sequence of LoadPolicy
   (succeeding or failing with the file moved away), LoadFilteredPolicy /
   LoadIncrementalFilteredPolicy (any argument: filter, nil, nil pointer, wrong type; succeeding,
   failing on a bad line, or failing on I/O), SavePolicy and AddPolicy calls: in the state reached,
   while the flag is set SavePolicy returns an error and changes nothing; and whenever SavePolicy
   succeeds the flag is clear and the in-memory view is the complete stored policy — every rule
   stored in the file is listed in memory (by its PolicyMap key), or the file is exactly what
   SavePolicy wrote from this memory before the latest AddPolicy calls *)
Theorem C18_save_guard : forall defs text ops,
  let s := run Current (init defs text) ops in
  (flag s = true -> step Current s OSave = (s, false)) /\
  (forall s', step Current s OSave = (s', true) ->
     flag s = false /\ complete (mem s) (file s) /\
     file s' = save_text (mem s) /\ mem s' = mem s /\ links s' = links s /\ flag s' = false).
Proof. exact save_guard. Qed.
Print Assumptions C18_save_guard.

(* (6) the flag is set whenever the last load that completed was a filtered one — indeed after
   any LoadFilteredPolicy / LoadIncrementalFilteredPolicy call with a non-nil argument, completed
   or not — and stays set until a full load (LoadPolicy or a nil filter) completes; SavePolicy
   refuses throughout *)
Theorem C18_flag_after_filtered : forall s0 ops1 incr io a ops2, a <> FNil ->
  let s1 := fst (step Current (run Current s0 ops1) (OLoadFiltered incr io a)) in
  no_full_success s1 ops2 ->
  let s := run Current s0 (ops1 ++ OLoadFiltered incr io a :: ops2) in
  flag s = true /\ step Current s OSave = (s, false).
Proof. exact flag_after_filtered. Qed.
Print Assumptions C18_flag_after_filtered.

(* (7) LoadFilteredPolicy(nil) that completes is a full LoadPolicy: same state, flag clear *)
Theorem C18_nil_filter_is_full_load : forall v s sL,
  step v s (OLoad false) = (sL, true) -> step v s (OLoadFiltered false false FNil) = (sL, true).
Proof. exact nil_filter_is_full_load. Qed.
Print Assumptions C18_nil_filter_is_full_load.

(* (8) what a completed full load lists: per p/g type the file's rules of that type in file
   order, a rule whose key is already listed being skipped *)
Theorem C18_full_load_lists : forall v s sL, step v s (OLoad false) = (sL, true) ->
  forall key, is_pg key = true ->
    rules_of key (mem sL) = firsts [] (items_for (mem s) key (lines_of (file s))).
Proof. exact full_load_lists. Qed.
Print Assumptions C18_full_load_lists.

(* (9) the guard `fits` follows from the reading "no filter has more entries than its policy
   type has fields" whenever the file loads *)
Theorem C18_fits_of_arity : forall v s F sL,
  safe_file (file s) = true -> within_arity F (mem s) ->
  step v s (OLoad false) = (sL, true) -> fits (Some F) (file s) = true.
Proof. exact fits_of_arity. Qed.
Print Assumptions C18_fits_of_arity.

(* (10) F13 (repaired): a rule without a policy type is an error in every model, not a crash —
   the model's functions are total, and this line is rejected *)
Theorem C18_missing_type_is_error : forall st, load_policy_line ",a" st = Err.
Proof. exact load_line_missing_type. Qed.
Print Assumptions C18_missing_type_is_error.

(* ---- refuted: why the guards and the two repairs are needed ---- *)

(* F25 (known finding): without `fits`, (2) is false — four wildcards against a three-field rule
   load nothing *)
Theorem C18_F25_refuted :
  exists defs text F,
    let s := init defs text in
    safe_file text = true /\ fits (Some F) text = false /\
    (forall r, spec_match (Some F) "p" r = true \/ List.length r < 4) /\
    rules_of "p" (mem (fst (step Current s (OLoad false)))) = [["alice"; "data1"; "read"]] /\
    snd (step Current s (OLoadFiltered false false (FPtr (Some F)))) = true /\
    rules_of "p" (mem (fst (step Current s (OLoadFiltered false false (FPtr (Some F)))))) = [].
Proof. exact F25_refuted. Qed.
Print Assumptions C18_F25_refuted.

(* outside safe_line (1) is false: a trailing blank in a field *)
Theorem C18_filter_exact_unsafe_refuted :
  exists F line key r,
    safe_line line = false /\ read_record line = Ok (key :: r) /\
    List.length (filter_for F key) <= List.length r /\
    filter_line line (Some F) <> negb (matchb (filter_for F key) r).
Proof. exact filter_exact_unsafe_refuted. Qed.
Print Assumptions C18_filter_exact_unsafe_refuted.

(* F24 (repaired): with the flag machine before the repair, (5) is false — filtered load, failing
   full load, then SavePolicy succeeds on an incomplete view and empties the file *)
Theorem C18_guard_lost_refuted :
  exists defs text ops,
    let s := run PreF24 (init defs text) ops in
    snd (step PreF24 s OSave) = true /\ ~ complete (mem s) (file s) /\
    file (fst (step PreF24 s OSave)) = "".
Proof. exact guard_lost_refuted. Qed.
Print Assumptions C18_guard_lost_refuted.

(* F32 (repaired): with the flag machine before that repair, (5) is false — full load, then a
   filtered load that fails after the enforcer cleared its model *)
Theorem C18_guard_lost_by_failed_filtered_refuted :
  exists defs text ops,
    let s := run PreF32 (init defs text) ops in
    snd (step PreF32 s OSave) = true /\ ~ complete (mem s) (file s) /\
    file (fst (step PreF32 s OSave)) = "".
Proof. exact guard_lost_by_failed_filtered_refuted. Qed.
Print Assumptions C18_guard_lost_by_failed_filtered_refuted.

(* non-vacuity: a file with a comment, a blank line and a duplicate, a filter with a wildcard;
   the hypotheses of (2)-(5) hold, the full load lists 2 + 2 rules, the filtered load a strict,
   non-empty part of them, decisions differ accordingly, SavePolicy refuses after the filtered
   load and succeeds after the full one *)
Example C18_nonvacuous :
  let F := only ["alice"] [""; "admin"] in
  let s := init flat_defs demo_text in
  let sL := fst (step Current s (OLoad false)) in
  let sF := fst (step Current s (OLoadFiltered false false (FPtr (Some F)))) in
  safe_file demo_text = true /\ fits (Some F) demo_text = true /\ filter_trimmed F = true /\
  snd (step Current s (OLoad false)) = true /\
  rules_of "p" (mem sL) = [["alice"; "data1"; "read"]; ["admin"; "data2"; "write"]] /\
  rules_of "g" (mem sL) = [["alice"; "admin"]; ["bob"; "admin"]] /\
  rules_of "p" (mem sF) = [["alice"; "data1"; "read"]] /\
  rules_of "g" (mem sF) = [["alice"; "admin"]; ["bob"; "admin"]] /\
  decide false sL ["bob"; "data2"; "write"] = true /\ decide false sF ["bob"; "data2"; "write"] = false /\
  decide false sF ["alice"; "data1"; "read"] = true /\
  snd (step Current sF OSave) = false /\ snd (step Current sL OSave) = true.
Proof. vm_compute. repeat split. Qed.
