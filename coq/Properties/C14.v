(* C14 — The decision cache is transparent.
   "CachedEnforcer and SyncedCachedEnforcer return for every request the decision the underlying
    enforcer gave for that same request tuple; two different request tuples never share a cached
    decision. After InvalidateCache, LoadPolicy, ClearPolicy, expiry of the configured lifetime,
    or removal (and, for the synced variant, addition) of the identical rule, no decision cached
    before that point is served."
   Quantifier: all sequences of Enforce calls and invalidating calls over request tuples whose
   fields range over arbitrary strings, including the key separator; cache on/off; string,
   EnforceContext and non-cacheable parameters.

   Only final statements live here; each is closed by `exact` and followed by Print Assumptions.
   Every statement below holds for an ARBITRARY underlying enforcer: a state type U, a decision
   function uenforce (None = error) and a transformer ustep for the forwarded management calls;
   `v` ranges over the two wrappers (Plain = CachedEnforcer, Synced = SyncedCachedEnforcer);
   states are those reachable from NewCachedEnforcer / NewSyncedCachedEnforcer (init u0) by any
   history h of operations (run), each Enforce carrying the clock value `now` of its call. *)
From Coq Require Import List String Ascii Bool ZArith.
Import ListNotations.
From Casbin Require Import Cache CacheProofs.
Open Scope string_scope.

(* (1a) "two different request tuples never share a cached decision": the cache key is
   injective on tuples of strings in which every '$' is followed by another character
   (sep_safe: no "$$" inside, no '$' at the end; weaker than "no '$' at all") *)
Theorem C14_key_injective : forall r1 r2,
  plain_req r1 = true -> plain_req r2 = true -> get_key r1 = get_key r2 -> r1 = r2.
Proof. exact key_injective. Qed.
Print Assumptions C14_key_injective.

(* (1b) for string / EnforceContext / CacheableParam parameters in general the key determines
   the key TEXTS of the parameters *)
Theorem C14_key_injective_texts : forall r1 r2 l1 l2,
  texts r1 = Some l1 -> texts r2 = Some l2 ->
  forallb sep_safe l1 = true -> forallb sep_safe l2 = true ->
  get_key r1 = get_key r2 -> l1 = l2.
Proof. exact key_injective_texts. Qed.
Print Assumptions C14_key_injective_texts.

Theorem C14_dollar_free_is_safe : forall s, dollar_free s = true -> sep_safe s = true.
Proof. exact dollar_free_sep_safe. Qed.
Print Assumptions C14_dollar_free_is_safe.

(* (1c) the same for requests that carry an EnforceContext (a CacheableParam whose key text is
   "EnforceContext{" RType "-" PType "-" EType "-" MType "}"), in any position and mixed with
   strings.  ctx_req: every string is sep_safe and does not itself spell a context key text;
   RType, PType and EType of every context contain no '-' (MType may), and the key text of the
   context is sep_safe.  Inside this guard EVERY component of the request is part of the key:
   two contexts that differ in exactly one of the four names never share a cached decision,
   and a request with a context never shares one with the plain request of the same strings. *)
Theorem C14_key_injective_ctx : forall r1 r2,
  ctx_req r1 = true -> ctx_req r2 = true -> get_key r1 = get_key r2 -> r1 = r2.
Proof. exact key_injective_ctx. Qed.
Print Assumptions C14_key_injective_ctx.

Theorem C14_ctx_key_separates : forall a b c d a' b' c' d' rest,
  ctx_req (PCtx a b c d :: rest) = true -> ctx_req (PCtx a' b' c' d' :: rest) = true ->
  (a, b, c, d) <> (a', b', c', d') ->
  get_key (PCtx a b c d :: rest) <> get_key (PCtx a' b' c' d' :: rest).
Proof. exact ctx_key_separates. Qed.
Print Assumptions C14_ctx_key_separates.

(* the guard is exact in each of its parts (all are variants of F21 for the context text):
   a '-' in one of the first three names (one-sided: the other request is inside the guard),
   a string that spells a context text, a "}" followed by the terminator inside a name *)
Theorem C14_ctx_dash_collision_refuted :
  exists r1 r2, r1 <> r2 /\ get_key r1 = get_key r2 /\
    ctx_req r2 = true /\ (forall p, In p r1 -> match p with PCtx _ _ _ _ | PStr _ => True | _ => False end).
Proof. exact ctx_dash_collision_refuted. Qed.
Print Assumptions C14_ctx_dash_collision_refuted.

Theorem C14_ctx_dash_each_name_refuted :
  get_key [PCtx "a-b" "c" "d" "e"] = get_key [PCtx "a" "b-c" "d" "e"] /\
  get_key [PCtx "a" "b-c" "d" "e"] = get_key [PCtx "a" "b" "c-d" "e"] /\
  get_key [PCtx "a" "b" "c-d" "e"] = get_key [PCtx "a" "b" "c" "d-e"] /\
  ctx_req [PCtx "a" "b" "c" "d-e"] = true.
Proof. exact ctx_dash_each_name_refuted. Qed.
Print Assumptions C14_ctx_dash_each_name_refuted.

Theorem C14_ctx_string_collision_refuted :
  exists r1 r2, r1 <> r2 /\ get_key r1 = get_key r2 /\ ctx_req r2 = true /\ plain_req r1 = true.
Proof. exact ctx_string_collision_refuted. Qed.
Print Assumptions C14_ctx_string_collision_refuted.

Theorem C14_ctx_brace_collision_refuted :
  exists r1 r2, r1 <> r2 /\ get_key r1 = get_key r2 /\ ctx_req r2 = true.
Proof. exact ctx_brace_collision_refuted. Qed.
Print Assumptions C14_ctx_brace_collision_refuted.

(* F21 (known finding): without the guard two different tuples have one key *)
Theorem C14_key_collision_refuted :
  exists r1 r2, r1 <> r2 /\ get_key (map PStr r1) = get_key (map PStr r2).
Proof. exact key_collision_refuted. Qed.
Print Assumptions C14_key_collision_refuted.

(* (2) served_was_given, for EVERY history: a decision b served from the cache for r at time
   `now` (a) is what Enforce returns, without error, (b) was returned by the underlying
   Enforce for a request r' with the key of r at an earlier point h1 of the history, (c) no
   invalidation event for that key (InvalidateCache, LoadPolicy, ClearPolicy, RemovePolicy /
   RemovePolicies of a rule with that key, and on the synced variant AddPolicy / AddPolicies of
   such a rule) happened since, and (d) the lifetime configured at that point is <= 0 (never
   expires) or has not run out *)
Theorem C14_served_was_given :
  forall (U M : Type) (uenforce : U -> list param -> option bool)
         (ustep : U -> ucall M -> U * uret) v u0 (h : list (op M)) now r b,
  hit (run uenforce ustep v (init u0) h) now r b ->
  snd (step uenforce ustep v (run uenforce ustep v (init u0) h) (Enforce now r)) = ODec b false /\
  exists k h1 t r' h2,
    get_key r = Some k /\ get_key r' = Some k /\
    h = (h1 ++ Enforce t r' :: h2)%list /\
    uenforce (ust (run uenforce ustep v (init u0) h1)) r' = Some b /\
    Forall (fun o => invalidates v o k = false) h2 /\
    ((expire (run uenforce ustep v (init u0) h1) <= 0)%Z \/
     (now <= t + expire (run uenforce ustep v (init u0) h1))%Z).
Proof. exact served_was_given. Qed.
Print Assumptions C14_served_was_given.

(* (2') ... and when it is not served from the cache, Enforce returns exactly what the
   underlying enforcer returns now (decision and error) *)
Theorem C14_miss_is_underlying :
  forall (U : Type) (uenforce : U -> list param -> option bool) (s : state U) now r,
  (exists b, hit s now r b /\ snd (enforce_step uenforce s now r) = ODec b false) \/
  ((forall b, ~ hit s now r b) /\
   snd (enforce_step uenforce s now r) = out_of_u (uenforce (ust s) r)).
Proof. exact enforce_cases. Qed.
Print Assumptions C14_miss_is_underlying.

(* (3) transparent: if every operation of the history keeps the non-error decisions for r unless
   it is an invalidation event for the key of r (respects_for: a hypothesis on the underlying
   system), and no other request of the history has the key of r, then at the end of the
   history Enforce(r) = the underlying decision for r at that moment *)
Theorem C14_transparent :
  forall (U M : Type) (uenforce : U -> list param -> option bool)
         (ustep : U -> ucall M -> U * uret) v u0 (h : list (op M)) r now,
  Forall (respects_for uenforce ustep v r) h -> no_collision h r ->
  snd (step uenforce ustep v (run uenforce ustep v (init u0) h) (Enforce now r)) =
  out_of_u (uenforce (ust (run uenforce ustep v (init u0) h)) r).
Proof. exact transparent. Qed.
Print Assumptions C14_transparent.

(* (3') the hypothesis of (3) proved outright for the basic ACL model (request = rule): any
   history of Enforce calls, flag / lifetime changes and LISTED invalidating mutators
   (acl_op_ok: no pass-through mutator, AddPolicy/AddPolicies only on the synced variant and
   with rules of the definition's arity), requests being tuples of sep_safe strings, r not the
   all-empty tuple *)
Theorem C14_transparent_acl : forall v rules (h : list acl_op) r now,
  forallb (acl_op_ok v) h = true -> reqs_plain h = true ->
  plain_req r = true -> all_empty r = false ->
  snd (acl_run_step v (run acl_enforce acl_step v (acl_init rules) h) (Enforce now r)) =
  out_of_u (acl_enforce (ust (run acl_enforce acl_step v (acl_init rules) h)) r).
Proof. exact acl_transparent_plain. Qed.
Print Assumptions C14_transparent_acl.

(* (3'') the same with the exact collision condition instead of the string guard, for requests
   with CacheableParam / non-cacheable parameters as well *)
Theorem C14_transparent_acl_general : forall v rules (h : list acl_op) r now,
  forallb (acl_op_ok v) h = true -> acl_req_ok r = true -> no_collision h r ->
  snd (acl_run_step v (run acl_enforce acl_step v (acl_init rules) h) (Enforce now r)) =
  out_of_u (acl_enforce (ust (run acl_enforce acl_step v (acl_init rules) h)) r).
Proof. exact acl_transparent. Qed.
Print Assumptions C14_transparent_acl_general.

(* (3a) transparent holds from ANY state whose cache is empty, in particular after the last
   InvalidateCache / LoadPolicy / ClearPolicy: only the operations since then matter *)
Theorem C14_transparent_since_invalidation :
  forall (U M : Type) (uenforce : U -> list param -> option bool)
         (ustep : U -> ucall M -> U * uret) v (s0 : state U) (o : op M) (h : list (op M)) r now,
  o = InvalidateCache \/ o = LoadPolicy \/ o = ClearPolicy ->
  Forall (respects_for uenforce ustep v r) h -> no_collision h r ->
  snd (step uenforce ustep v (run uenforce ustep v (fst (step uenforce ustep v s0 o)) h) (Enforce now r)) =
  out_of_u (uenforce (ust (run uenforce ustep v (fst (step uenforce ustep v s0 o)) h)) r).
Proof. exact transparent_since_invalidation. Qed.
Print Assumptions C14_transparent_since_invalidation.

(* (3b) transparent_quiet: with NO hypothesis on the underlying enforcer and for EVERY kind of
   request (strings, EnforceContext, other CacheableParam, non-cacheable values): starting from
   an empty cache (NewCachedEnforcer, or after a full invalidation), while only Enforce,
   InvalidateCache, EnableCache and SetExpireTime are called, Enforce(r) = the underlying
   decision, provided no other request asked in that stretch has the key of r *)
Theorem C14_transparent_quiet :
  forall (U M : Type) (uenforce : U -> list param -> option bool)
         (ustep : U -> ucall M -> U * uret) v (s : state U) (h : list (op M)) r now,
  cache_of s = [] -> forallb quiet h = true -> no_collision h r ->
  snd (step uenforce ustep v (run uenforce ustep v s h) (Enforce now r)) =
  out_of_u (uenforce (ust (run uenforce ustep v s h)) r).
Proof. exact transparent_quiet. Qed.
Print Assumptions C14_transparent_quiet.

(* (3c) transparent_ctx: (3b) with the collision condition discharged by (1c): all requests made
   of strings and EnforceContext values inside ctx_req.  A context is never served the decision
   of a context that differs in RType, PType, EType or MType, nor that of the plain request. *)
Theorem C14_transparent_ctx :
  forall (U M : Type) (uenforce : U -> list param -> option bool)
         (ustep : U -> ucall M -> U * uret) v (s : state U) (h : list (op M)) r now,
  cache_of s = [] -> forallb quiet h = true -> reqs_ctx h = true -> ctx_req r = true ->
  snd (step uenforce ustep v (run uenforce ustep v s h) (Enforce now r)) =
  out_of_u (uenforce (ust (run uenforce ustep v s h)) r).
Proof. exact transparent_ctx. Qed.
Print Assumptions C14_transparent_ctx.

(* (3d) the instance (3'') for the second fixture of the correspondence run (a model with the
   sections r r2 / p p2 / e e2 / m .. m6 selected by a leading EnforceContext): plain requests,
   listed mutators *)
Theorem C14_transparent_cx : forall v rules1 rules2 (h : list cx_op) r now,
  forallb (cx_op_ok v) h = true -> acl_req_ok r = true -> no_collision h r ->
  snd (cx_run_step v (run cx_enforce cx_step v (cx_init rules1 rules2) h) (Enforce now r)) =
  out_of_u (cx_enforce (ust (run cx_enforce cx_step v (cx_init rules1 rules2) h)) r).
Proof. exact cx_transparent. Qed.
Print Assumptions C14_transparent_cx.

(* in that fixture each of the four names of the context changes the embedded enforcer's answer
   for the same strings (so a key that left one of them out would serve a wrong decision) *)
Theorem C14_cx_names_matter :
  (cx_enforce x_st (x_req "r" "p" "e" "m" "alice" "data1" "write") = Some false /\
   cx_enforce x_st (x_req "r" "p" "e" "m3" "alice" "data1" "write") = Some true) /\
  (cx_enforce x_st (x_req "r" "p" "e" "m" "zed" "data1" "write") = Some false /\
   cx_enforce x_st (x_req "r" "p" "e2" "m" "zed" "data1" "write") = Some true) /\
  (cx_enforce x_st (x_req "r" "p" "e" "m" "alice" "data1" "read") = Some true /\
   cx_enforce x_st (x_req "r" "p2" "e" "m" "alice" "data1" "read") = None /\
   cx_enforce x_st (x_req "r" "p2" "e" "m5" "alice" "data1" "read") = Some false) /\
  (cx_enforce x_st (x_req "r" "p" "e" "m" "alice" "data1" "read") = Some true /\
   cx_enforce x_st (x_req "r2" "p" "e" "m" "alice" "data1" "read") = None /\
   cx_enforce x_st (x_req "r2" "p" "e" "m6" "alice" "data1" "read") = Some true /\
   cx_enforce x_st (x_req "r2" "p2" "e" "m4" "alice" "data1" "read") = Some false).
Proof. exact cx_names_matter. Qed.
Print Assumptions C14_cx_names_matter.

(* outside ctx_req (variant of F21), behavioural form: a request whose first string spells the
   key text of a context is served that context's decision instead of an error *)
Theorem C14_ctx_string_stale_refuted : forall v,
  let h := [Enforce 0%Z (x_req "r" "p" "e" "m" "alice" "data1" "read")] in
  forallb quiet h = true /\
  cx_answers v h [PStr "EnforceContext{r-p-e-m}"; PStr "alice"; PStr "data1"; PStr "read"]
  = (ODec true false, ODec false true).
Proof. exact ctx_string_stale_refuted. Qed.
Print Assumptions C14_ctx_string_stale_refuted.

(* a request with a context is outside (3d): RemovePolicy of the rule with the same strings is
   not an invalidation event for its key (the statement speaks of "the identical rule") *)
Theorem C14_cx_ctx_request_stale_refuted : forall v,
  let r := x_req "r" "p" "e" "m" "alice" "data1" "read" in
  let h := [Enforce 0%Z r; RemovePolicy [PStr "alice"; PStr "data1"; PStr "read"]] in
  forallb (cx_op_ok v) h = true /\ cx_answers v h r = (ODec true false, ODec false false).
Proof. exact cx_ctx_request_stale_refuted. Qed.
Print Assumptions C14_cx_ctx_request_stale_refuted.

(* (4) invalidation_complete: after InvalidateCache / LoadPolicy / ClearPolicy the cache is
   empty — both wrappers, from ANY state, in particular for every value of enableCache (F22,
   F30 before the repairs) ... *)
Theorem C14_invalidation_complete :
  forall (U M : Type) (uenforce : U -> list param -> option bool)
         (ustep : U -> ucall M -> U * uret) v (s : state U) (o : op M),
  o = InvalidateCache \/ o = LoadPolicy \/ o = ClearPolicy ->
  cache_of (fst (step uenforce ustep v s o)) = [].
Proof. exact invalidation_complete. Qed.
Print Assumptions C14_invalidation_complete.

(* ... so the next Enforce asks the underlying enforcer *)
Theorem C14_after_invalidation_fresh :
  forall (U M : Type) (uenforce : U -> list param -> option bool)
         (ustep : U -> ucall M -> U * uret) v (s : state U) (o : op M) now r,
  o = InvalidateCache \/ o = LoadPolicy \/ o = ClearPolicy ->
  snd (step uenforce ustep v (fst (step uenforce ustep v s o)) (Enforce now r)) =
  out_of_u (uenforce (ust (fst (step uenforce ustep v s o))) r).
Proof. exact after_invalidation_fresh. Qed.
Print Assumptions C14_after_invalidation_fresh.

(* (5) remove_drops_rule / synced_add_drops_rule: after RemovePolicy (one argument per field OR
   a single []string — F23 before the repair), RemovePolicies (rules of any lengths — F33 before
   the repair), and on the synced variant AddPolicy / AddPolicies, of a rule, the next Enforce
   of the request equal to that rule asks the underlying enforcer; from ANY state *)
Theorem C14_dropped_rule_not_served :
  forall (U M : Type) (uenforce : U -> list param -> option bool)
         (ustep : U -> ucall M -> U * uret) v (s : state U) (o : op M) rule now,
  (exists ps, (ps = map PStr rule \/ ps = [PSlice rule]) /\
              (o = RemovePolicy ps \/ (v = Synced /\ o = AddPolicy ps))) \/
  (exists rules, In rule rules /\
              (o = RemovePolicies rules \/ (v = Synced /\ o = AddPolicies rules))) ->
  snd (step uenforce ustep v (fst (step uenforce ustep v s o)) (Enforce now (map PStr rule))) =
  out_of_u (uenforce (ust (fst (step uenforce ustep v s o))) (map PStr rule)).
Proof. exact dropped_rule_not_served. Qed.
Print Assumptions C14_dropped_rule_not_served.

Theorem C14_remove_drops_rule :
  forall (U M : Type) (uenforce : U -> list param -> option bool)
         (ustep : U -> ucall M -> U * uret) v (s : state U) rule ps,
  ps = map PStr rule \/ ps = [PSlice rule] ->
  lookup (key_of_texts rule) (cache_of (fst (step uenforce ustep v s (RemovePolicy (M:=M) ps)))) = None.
Proof. exact remove_drops_rule. Qed.
Print Assumptions C14_remove_drops_rule.

Theorem C14_remove_policies_drops_rules :
  forall (U M : Type) (uenforce : U -> list param -> option bool)
         (ustep : U -> ucall M -> U * uret) v (s : state U) rules rule,
  In rule rules ->
  lookup (key_of_texts rule) (cache_of (fst (step uenforce ustep v s (RemovePolicies (M:=M) rules)))) = None.
Proof. exact remove_policies_drops_rules. Qed.
Print Assumptions C14_remove_policies_drops_rules.

Theorem C14_synced_add_drops_rule :
  forall (U M : Type) (uenforce : U -> list param -> option bool)
         (ustep : U -> ucall M -> U * uret) (s : state U) rule ps,
  ps = map PStr rule \/ ps = [PSlice rule] ->
  lookup (key_of_texts rule) (cache_of (fst (step uenforce ustep Synced s (AddPolicy (M:=M) ps)))) = None.
Proof. exact synced_add_drops_rule. Qed.
Print Assumptions C14_synced_add_drops_rule.

Theorem C14_synced_add_policies_drops_rules :
  forall (U M : Type) (uenforce : U -> list param -> option bool)
         (ustep : U -> ucall M -> U * uret) (s : state U) rules rule,
  In rule rules ->
  lookup (key_of_texts rule) (cache_of (fst (step uenforce ustep Synced s (AddPolicies (M:=M) rules)))) = None.
Proof. exact synced_add_policies_drops_rules. Qed.
Print Assumptions C14_synced_add_policies_drops_rules.

(* (6) ttl_expiry: an item stored with a positive lifetime is not served once the clock is past
   its expiry instant; Enforce then returns the underlying decision *)
Theorem C14_ttl_expiry :
  forall (U M : Type) (uenforce : U -> list param -> option bool)
         (ustep : U -> ucall M -> U * uret) v (s : state U) now r k e,
  get_key r = Some k -> lookup k (cache_of s) = Some e ->
  (0 < e_ttl e)%Z -> (e_exp e < now)%Z ->
  (forall b, ~ hit s now r b) /\
  snd (step uenforce ustep v s (Enforce (M:=M) now r)) = out_of_u (uenforce (ust s) r).
Proof. exact ttl_expiry. Qed.
Print Assumptions C14_ttl_expiry.

(* (7) disabled_is_passthrough / noncacheable_bypass: with the cache off, or with a parameter
   that is neither a string nor a CacheableParam, Enforce is the underlying Enforce and the
   wrapper state does not change *)
Theorem C14_disabled_is_passthrough :
  forall (U M : Type) (uenforce : U -> list param -> option bool)
         (ustep : U -> ucall M -> U * uret) v (s : state U) now r,
  enabled s = false ->
  step uenforce ustep v s (Enforce (M:=M) now r) = (s, out_of_u (uenforce (ust s) r)).
Proof. exact disabled_is_passthrough. Qed.
Print Assumptions C14_disabled_is_passthrough.

Theorem C14_noncacheable_bypass :
  forall (U M : Type) (uenforce : U -> list param -> option bool)
         (ustep : U -> ucall M -> U * uret) v (s : state U) now r,
  (exists p, In p r /\ ptext p = None) ->
  step uenforce ustep v s (Enforce (M:=M) now r) = (s, out_of_u (uenforce (ust s) r)).
Proof. exact noncacheable_bypass_ex. Qed.
Print Assumptions C14_noncacheable_bypass.

(* F31 (known finding): removal of the identical rule through RemoveNamedPolicy,
   RemoveFilteredPolicy or UpdatePolicy keeps the cached decision (both wrappers) *)
Theorem C14_passthrough_remove_stale_refuted : forall v,
  answers v w_pol [Enforce 0%Z (w_req "alice" "data1" "read");
                   Passthrough (MRemoveNamed ["alice"; "data1"; "read"])]
          (w_req "alice" "data1" "read") = (ODec true false, ODec false false) /\
  answers v w_pol [Enforce 0%Z (w_req "alice" "data1" "read");
                   Passthrough (MRemoveFiltered 0 ["alice"])]
          (w_req "alice" "data1" "read") = (ODec true false, ODec false false) /\
  answers v w_pol [Enforce 0%Z (w_req "alice" "data1" "read");
                   Passthrough (MUpdate ["alice"; "data1"; "read"] ["alice"; "data1"; "write"])]
          (w_req "alice" "data1" "read") = (ODec true false, ODec false false).
Proof. exact passthrough_remove_stale_refuted. Qed.
Print Assumptions C14_passthrough_remove_stale_refuted.

(* F21 (known finding), behavioural form: inside every other guard, a colliding tuple is served
   the decision of the other tuple *)
Theorem C14_collision_stale_refuted : forall v,
  let h := [Enforce 0%Z (w_req "a$$" "b" "c")] in
  forallb (acl_op_ok v) h = true /\ acl_req_ok (w_req "a" "$$b" "c") = true /\
  answers v [["a"; "$$b"; "c"]] h (w_req "a" "$$b" "c") = (ODec false false, ODec true false).
Proof. exact collision_stale_refuted. Qed.
Print Assumptions C14_collision_stale_refuted.

(* non-vacuity: a concrete history inside all guards of (3') with hits, misses after every kind
   of listed invalidation event (slice-form RemovePolicy, ClearPolicy while disabled, LoadPolicy,
   a batch with rules of different lengths, lifetime expiry), on both wrappers *)
Example C14_nonvacuous : forall v,
  forallb (acl_op_ok v) w_history = true /\ reqs_plain w_history = true /\
  map (fun n => snd (acl_run_step v (run acl_enforce acl_step v (acl_init w_pol) (firstn n w_history))
                                  (nth n w_history InvalidateCache))) [0; 1; 3; 7; 10; 12]
  = [ODec true false; ODec true false; ODec false false; ODec false false; ODec true false; ODec false false].
Proof. exact w_history_ok. Qed.

(* non-vacuity of (1c) / (3c): contexts that differ in exactly one name each (MType, EType, PType,
   RType), the plain request with the same strings, a second round of hits; inside every guard,
   on both wrappers *)
Example C14_ctx_nonvacuous : forall v,
  forallb quiet x_history = true /\ reqs_ctx x_history = true /\
  map (fun n => snd (cx_run_step v (run cx_enforce cx_step v (cx_init x_pol1 x_pol2) (firstn n x_history))
                                 (nth n x_history InvalidateCache))) (seq 0 12)
  = [ODec false false; ODec true false; ODec true false; ODec false true; ODec false true;
     ODec false false; ODec true false; ODec true false;
     ODec false false; ODec true false; ODec true false; ODec false true].
Proof. exact x_history_ok. Qed.
