(* C02 — Effect merging is exact for every match/effect vector; explanations truthful.
   Only final statements live here; each is closed by `exact` and followed by
   Print Assumptions. *)
From Coq Require Import List Bool Permutation.
Import ListNotations.
From Casbin Require Import Effect EffectProofs.

(* (1) for each of the five built-in effect expressions and EVERY vector (any length n >= 1,
   any combination of matched/unmatched x allow/deny/other) the streaming loop of enforce
   + MergeEffects returns no error and exactly the declarative decision:
     allow-override: some matched allow;  deny-override: no matched deny;
     allow-and-deny: both;  priority / subjectPriority: effect of the first matched rule
     whose effect is allow or deny, otherwise deny. *)
Theorem C02_merge_exact : forall ef v, supported ef = true -> v <> [] ->
  failed (stream ef v) = false /\ decision (stream ef v) = combine ef v.
Proof. exact stream_correct. Qed.
Print Assumptions C02_merge_exact.

(* (2) the three order-insensitive effects: any permutation of the rules gives the same decision *)
Theorem C02_order_insensitive : forall ef v v',
  order_insensitive_effect ef = true -> v <> [] -> Permutation v v' ->
  decision (stream ef v) = decision (stream ef v').
Proof. exact decision_order_insensitive. Qed.
Print Assumptions C02_order_insensitive.

(* (3) whenever EnforceEx names a rule j: j is in the policy, rule j matched the request, and
   it carries the effect that produced the decision (allow for true, deny for false) *)
Theorem C02_explain_truthful : forall ef v j, v <> [] ->
  explain (stream ef v) = Some j ->
  exists e, nth_error v j = Some (true, e) /\ e = deciding_eft (decision (stream ef v)).
Proof. exact explain_truthful. Qed.
Print Assumptions C02_explain_truthful.

(* (4) any other effect expression is an error and the decision is false (fail closed) *)
Theorem C02_unsupported_is_error : forall v, v <> [] ->
  failed (stream Unsupported v) = true /\ decision (stream Unsupported v) = false.
Proof. exact unsupported_is_error. Qed.
Print Assumptions C02_unsupported_is_error.

(* (5) the policy-free branch (empty policy / matcher without policy fields) *)
Theorem C02_nopolicy : forall ef b, supported ef = true ->
  decision (stream_nopolicy ef b) = match ef with DenyOverride => true | _ => b end.
Proof. exact nopolicy_decision. Qed.
Print Assumptions C02_nopolicy.

(* non-vacuity: a concrete vector where the priority effect is decided by the second rule
   and the explanation names it; and the declarative spec is order-sensitive there *)
Example C02_nonvacuous :
  let v := [(true, Indet); (true, Deny); (true, Allow)] in
  decision (stream Priority v) = false /\ explain (stream Priority v) = Some 1 /\
  decision (stream AllowOverride v) = true /\ explain (stream AllowOverride v) = Some 2.
Proof. cbv. repeat split. Qed.
