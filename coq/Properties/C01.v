(* C01 — Enforce decisions equal the PERM semantics of model, policy and role links.
   Only final statements live here; each is closed by `exact` and followed by
   Print Assumptions.  The model is Casbin.Enforce (enforce() of enforcer.go) over
   Casbin.Expr (matcher evaluation), Casbin.Effect (MergeEffects) and Casbin.Roles (default
   role managers).  All statements hold for EVERY parser table `parse`, EVERY behaviour
   `oracle` of the built-in functions that are not modelled, every model, policy, link set,
   matcher of the grammar and every request (including ill-typed and wrong-arity ones). *)
From Coq Require Import List String Ascii Bool Arith ZArith.
Import ListNotations.
From Casbin Require Import Base Roles RolesProofs Effect EffectProofs Expr Enforce EnforceProofs.
Local Open Scope string_scope.
Local Open Scope list_scope.

(* (1) Error-free runs decide exactly as the PERM specification.
   Whenever enforce gets as far as the policy (`prepare` = enabled, context names resolve, the
   matcher compiles, the request has the right size), the effect expression is one of the
   five supported ones and every rule evaluates without error to a bool or a number
   (`error_free`, a computable guard), then no error is returned and the decision is
     perm_spec = combine effect [ (matcher_true request rule, eft rule) | rule <- policy ]
   in stored order (Effect.combine is C02's declarative combination), respectively the
   documented convention for an empty policy / a matcher that mentions no policy field. *)
Theorem C01_enforce_error_free :
  forall parse oracle M t rq s efs,
    prepare parse M t rq = PReady s -> rd_ef s = Some efs -> supported (effect_of efs) = true ->
    error_free parse oracle s = true ->
    failed (enforce parse oracle M t rq) = false /\
    decision (enforce parse oracle M t rq) = perm_spec parse oracle (effect_of efs) s.
Proof. exact enforce_error_free. Qed.
Print Assumptions C01_enforce_error_free.

(* (2) What is true with the early `break`: a run that returns no error has evaluated a
   non-empty prefix `pre` of the policy (each of its rules evaluated without error, giving
   exactly the specification's (matched, effect) pair); the decision equals the declarative
   combination of that prefix followed by ANY completion of the right length: the rules
   behind the deciding one do not matter, not even whether they can be evaluated at all. *)
Theorem C01_enforce_prefix :
  forall parse oracle M t rq s,
    prepare parse M t rq = PReady s -> policy_branch s = true ->
    failed (enforce parse oracle M t rq) = false ->
    exists efs pre post,
      rd_ef s = Some efs /\ supported (effect_of efs) = true /\
      rd_policy s = pre ++ post /\ pre <> [] /\
      evaluated (slot parse oracle s) pre (map (spec_entry parse oracle s) pre) /\
      forall compl, List.length compl = List.length post ->
        decision (enforce parse oracle M t rq) =
        combine (effect_of efs) (map (spec_entry parse oracle s) pre ++ compl).
Proof. exact enforce_prefix. Qed.
Print Assumptions C01_enforce_prefix.

(* (3) Enforce, EnforceEx, BatchEnforce and EnforceWithMatcher (own matcher) agree. *)
Theorem C01_enforce_ex_agrees :
  forall parse oracle M rq,
    api_enforce parse oracle M rq =
    (fst (fst (api_enforce_ex parse oracle M rq)), snd (api_enforce_ex parse oracle M rq)).
Proof. exact enforce_ex_agrees. Qed.
Print Assumptions C01_enforce_ex_agrees.

Theorem C01_enforce_with_own_matcher :
  forall parse oracle M rq t,
    lookup (c_m (ctx_of rq)) (m_defs M) = Some t -> t <> "" -> prep_matcher t = t ->
    api_enforce_with_matcher parse oracle M t rq = api_enforce parse oracle M rq.
Proof. exact enforce_with_own_matcher. Qed.
Print Assumptions C01_enforce_with_own_matcher.

(* BatchEnforce returns the Enforce decisions of the requests before the first failing one,
   and an error iff some request fails; without error: exactly the list of Enforce decisions *)
Theorem C01_batch_spec :
  forall parse oracle M rqs,
    api_batch_enforce parse oracle M rqs =
    (map (fun rq => fst (api_enforce parse oracle M rq)) (ok_prefix parse oracle M rqs),
     existsb (fun rq => snd (api_enforce parse oracle M rq)) rqs).
Proof. exact batch_spec. Qed.
Print Assumptions C01_batch_spec.

Theorem C01_batch_no_error :
  forall parse oracle M rqs rs,
    api_batch_enforce parse oracle M rqs = (rs, false) ->
    rs = map (fun rq => fst (api_enforce parse oracle M rq)) rqs /\
    Forall (fun rq => snd (api_enforce parse oracle M rq) = false) rqs.
Proof. exact batch_no_error. Qed.
Print Assumptions C01_batch_no_error.

(* (4) Explanations: the explained index always names a rule of the policy; in the policy
   loop that rule matched the request and carries the effect that produced the decision. *)
Theorem C01_explain_in_policy :
  forall parse oracle M t rq j,
    explain (enforce parse oracle M t rq) = Some j ->
    exists s, prepare parse M t rq = PReady s /\ j < List.length (rd_policy s).
Proof. exact explain_in_policy. Qed.
Print Assumptions C01_explain_in_policy.

Theorem C01_explain_truthful :
  forall parse oracle M t rq s j,
    prepare parse M t rq = PReady s -> policy_branch s = true ->
    explain (enforce parse oracle M t rq) = Some j ->
    exists pv e, nth_error (rd_policy s) j = Some pv /\ slot parse oracle s pv = SOk (true, e) /\
                 e = deciding_eft (decision (enforce parse oracle M t rq)).
Proof. exact explain_truthful. Qed.
Print Assumptions C01_explain_truthful.

(* (5) g(a, b) / g(a, b, dom) in a matcher means: b is reachable from a through at most
   max_level = 10 role links (of that domain). *)
Theorem C01_g_is_bounded_reachability :
  forall parse oracle fuel en f count ls ea eb a b,
    (eval_in_scope en && String.eqb f "eval") = false ->
    lookup f (gdefs en) = Some (count, ls) ->
    eval parse oracle fuel en ea = Ok (VStr a) -> eval parse oracle fuel en eb = Ok (VStr b) ->
    exists v, eval parse oracle fuel en (ECall f [ea; eb]) = Ok (VBool v) /\
              (v = true <-> exists k, k <= max_level /\ walk ls "" a b k).
Proof. exact g_is_bounded_reachability. Qed.
Print Assumptions C01_g_is_bounded_reachability.

Theorem C01_g_domain_is_bounded_reachability :
  forall parse oracle fuel en f count ls ea eb ed a b d,
    3 <= count ->
    (eval_in_scope en && String.eqb f "eval") = false ->
    lookup f (gdefs en) = Some (count, ls) ->
    eval parse oracle fuel en ea = Ok (VStr a) -> eval parse oracle fuel en eb = Ok (VStr b) ->
    eval parse oracle fuel en ed = Ok (VStr d) ->
    exists v, eval parse oracle fuel en (ECall f [ea; eb; ed]) = Ok (VBool v) /\
              (v = true <-> exists k, k <= max_level /\ walk ls d a b k).
Proof. exact g_domain_is_bounded_reachability. Qed.
Print Assumptions C01_g_domain_is_bounded_reachability.

(* (6) Every error (returned or recovered panic) is fail-closed; a disabled enforcer allows. *)
Theorem C01_enforce_fail_closed :
  forall parse oracle M t rq,
    failed (enforce parse oracle M t rq) = true ->
    decision (enforce parse oracle M t rq) = false /\ explain (enforce parse oracle M t rq) = None.
Proof. exact enforce_fail_closed. Qed.
Print Assumptions C01_enforce_fail_closed.

Theorem C01_enforce_disabled :
  forall parse oracle M t rq, enabled M = false ->
    enforce parse oracle M t rq = {| decision := true; explain := None; failed := false |}.
Proof. exact enforce_disabled. Qed.
Print Assumptions C01_enforce_disabled.

(* ---------- non-vacuity: RBAC with domains, a request that needs a 2-link walk ---------- *)
Definition ex_text : string :=
  "g(r.sub, p.sub, r.dom) && r.dom == p.dom && r.obj == p.obj && r.act == p.act".
Definition ex_ast : expr :=
  EBin OAnd (EBin OAnd (EBin OAnd
    (ECall "g" [EVar "r_sub"; EVar "p_sub"; EVar "r_dom"])
    (EBin OEq (EVar "r_dom") (EVar "p_dom")))
    (EBin OEq (EVar "r_obj") (EVar "p_obj")))
    (EBin OEq (EVar "r_act") (EVar "p_act")).
Definition ex_parse (s : string) : option expr :=
  if String.eqb s (load_matcher ex_text) then Some ex_ast else None.
Definition ex_oracle (f : string) (args : list string) : res := Err.
Definition ex_links : list link :=
  fst (rebuild 3 [["alice"; "manager"; "d1"]; ["manager"; "admin"; "d1"]; ["bob"; "admin"; "d2"]]).
Definition ex_model : emodel :=
  {| enabled := true;
     r_defs := [("r", load_tokens "r" "sub, dom, obj, act")];
     p_defs := [("p", (load_tokens "p" "sub, dom, obj, act",
                       [["admin"; "d1"; "data1"; "read"]; ["admin"; "d2"; "data2"; "write"]]))];
     e_defs := [("e", load_effect "some(where (p.eft == allow))")];
     m_defs := [("m", load_matcher ex_text)];
     g_defs := [("g", (3, ex_links))] |}.
Definition ex_req (sub dom obj act : string) : request :=
  {| rq_ctx := None; rq_vals := [VStr sub; VStr dom; VStr obj; VStr act] |}.

Ltac conj_vm :=
  repeat match goal with |- _ /\ _ => split | |- exists _, _ => eexists end;
  match goal with |- _ = _ => vm_compute; reflexivity | _ => idtac end.

Example C01_nonvacuous :
  (* alice -> manager -> admin in d1: allowed by rule 0, which EnforceEx names *)
  enforce ex_parse ex_oracle ex_model "" (ex_req "alice" "d1" "data1" "read")
    = {| decision := true; explain := Some 0; failed := false |} /\
  (* the walk really needs two links *)
  has_link_n 1 ex_links "alice" "admin" "d1" = false /\ has_link ex_links "alice" "admin" "d1" = true /\
  (* other domain, other subject: denied without error *)
  enforce ex_parse ex_oracle ex_model "" (ex_req "alice" "d2" "data2" "write")
    = {| decision := false; explain := None; failed := false |} /\
  enforce ex_parse ex_oracle ex_model "" (ex_req "bob" "d1" "data1" "read")
    = {| decision := false; explain := None; failed := false |} /\
  (* the hypotheses of C01_enforce_error_free hold for this model and request *)
  (exists s, prepare ex_parse ex_model "" (ex_req "alice" "d1" "data1" "read") = PReady s /\
             rd_ef s = Some "some(where (p_eft == allow))" /\
             error_free ex_parse ex_oracle s = true /\ policy_branch s = true /\
             perm_spec ex_parse ex_oracle AllowOverride s = true) /\
  (* the stored matcher is what EnforceWithMatcher may be given *)
  prep_matcher (load_matcher ex_text) = load_matcher ex_text /\
  api_enforce_with_matcher ex_parse ex_oracle ex_model ex_text (ex_req "alice" "d1" "data1" "read") = (true, false) /\
  (* wrong request size, non-string subject (g panics, recovered): fail closed *)
  enforce ex_parse ex_oracle ex_model ""
    {| rq_ctx := None; rq_vals := [VStr "alice"; VStr "d1"; VStr "data1"] |} = error_outcome /\
  enforce ex_parse ex_oracle ex_model ""
    {| rq_ctx := None; rq_vals := [VNum 7; VStr "d1"; VStr "data1"; VStr "read"] |} = error_outcome.
Proof.
  conj_vm.
Qed.

(* ---------- the guards are needed ---------- *)
(* without `error_free` the decision is NOT perm_spec: under deny-override a rule whose
   evaluation fails makes Enforce answer (false, error) while the specification, which can
   only count such a rule as unmatched, says true *)
Definition bad_model : emodel :=
  {| enabled := true;
     r_defs := [("r", ["r_sub"])];
     p_defs := [("p", (["p_sub"], [["alice"]]))];
     e_defs := [("e", "!some(where (p_eft == deny))")];
     m_defs := [("m", "r_sub < p_sub")];
     g_defs := [] |}.
Definition bad_parse (s : string) : option expr :=
  if String.eqb s "r_sub < p_sub" then Some (EBin OLt (EVar "r_sub") (EVar "p_sub")) else None.

Lemma C01_error_free_guard_refuted :
  exists rq s, prepare bad_parse bad_model "" rq = PReady s /\
    supported DenyOverride = true /\ rd_ef s = Some "!some(where (p_eft == deny))" /\
    error_free bad_parse ex_oracle s = false /\
    enforce bad_parse ex_oracle bad_model "" rq = error_outcome /\
    perm_spec bad_parse ex_oracle DenyOverride s = true.
Proof.
  exists {| rq_ctx := None; rq_vals := [VNum 1] |}. eexists. conj_vm.
Qed.

(* outside the policy loop (a matcher that mentions no policy field, non-empty policy) an
   allowed request is "explained" by rule 0 although no rule was matched against it *)
Definition pf_model : emodel :=
  {| enabled := true;
     r_defs := [("r", ["r_sub"])];
     p_defs := [("p", (["p_sub"], [["bob"]]))];
     e_defs := [("e", "some(where (p_eft == allow))")];
     m_defs := [("m", "r_sub == ""alice""")];
     g_defs := [] |}.
Definition pf_parse (s : string) : option expr :=
  if String.eqb s "r_sub == ""alice""" then Some (EBin OEq (EVar "r_sub") (EStr "alice")) else None.

Lemma C01_explain_policy_free_refuted :
  exists rq s, prepare pf_parse pf_model "" rq = PReady s /\ policy_branch s = false /\
    enforce pf_parse ex_oracle pf_model "" rq = {| decision := true; explain := Some 0; failed := false |} /\
    nth_error (rd_policy s) 0 = Some ["bob"].
Proof.
  exists {| rq_ctx := None; rq_vals := [VStr "alice"] |}. eexists. conj_vm.
Qed.

(* EnforceWithMatcher re-escapes its argument: for a stored text that is not stable under
   EscapeAssertion (never produced by Model.AddDef) the two calls differ *)
Definition raw_model : emodel :=
  {| enabled := true;
     r_defs := [("r", ["r_sub"])];
     p_defs := [("p", (["p_sub"], [["alice"]]))];
     e_defs := [("e", "some(where (p_eft == allow))")];
     m_defs := [("m", "r.sub == p.sub")];
     g_defs := [] |}.
Definition raw_parse (s : string) : option expr :=
  if String.eqb s "r_sub == p_sub" then Some (EBin OEq (EVar "r_sub") (EVar "p_sub")) else None.

Lemma C01_own_matcher_guard_refuted :
  exists rq t, lookup (c_m (ctx_of rq)) (m_defs raw_model) = Some t /\ t <> "" /\
    api_enforce_with_matcher raw_parse ex_oracle raw_model t rq = (true, false) /\
    api_enforce raw_parse ex_oracle raw_model rq = (false, true).
Proof.
  exists {| rq_ctx := None; rq_vals := [VStr "alice"] |}, "r.sub == p.sub".
  conj_vm. discriminate.
Qed.
