(* C08 — Model text is read faithfully regardless of layout.
   "Two model texts that differ only in layout - blank and comment lines, surrounding
    whitespace, backslash line continuation, line length, CRLF endings, order of sections -
    define the same request, policy, role, effect and matcher definitions and therefore the same
    decisions; no part of a definition is ever silently dropped. Parsing arbitrary text yields a
    model or an error and never panics."

   Only final statements live here; each is closed by `exact` and followed by Print Assumptions.
   Vocabulary (coq/Config.v):
     parse / load_text   the model of config.NewConfigFromText / model.NewModelFromString
                         (physical lines as ReadLine + the long-line fix deliver them, the
                         parseBuffer line machine, AddConfig, loadSection, AddDef)
     ldoc                a document TOGETHER WITH one layout of it: per definition the indentation,
                         the blanks round '=', the trailing blanks (any of space \t \v \f \r, any
                         number: a line may be padded to any length; a pad ending in \r is a CRLF
                         line end), an optional in-line ';' / '#' remark behind it, blank / ';' /
                         '#' lines in front of it, and the continuation
                         points (pad '\' pad newline pad) at single blanks of the value; per
                         section the same round the header; blank/comment lines at the end;
                         final newline or not.
     erase l             the document of l (sections, keys, values), render l its text.
     wf_doc              keys: non-empty, trimmed, no '=' '#' ';' newline, not starting with '[';
                         values: trimmed, no '#' ';' newline, not ending in '\'; names: no newline.
     wf_layout           pads are blanks, continuation parts are non-empty and trimmed (= the
                         split points are single blanks), an in-line remark does not end in '\'
                         or ']', and the LAST continuation line is not of the form [...]
                         (finding F34, see continuation_header_refuted).
     cfg_doc d           the (section, key, value) entries d defines, newest first. *)
From Coq Require Import List Ascii String Bool Permutation.
Import ListNotations.
From Casbin Require Import Config ConfigProofs.
Local Set Warnings "-abstract-large-number".

(* (1) Layout invariance, all documents x all layouts (unbounded sizes, pads of any length):
   the configuration read from the rendered text is exactly the document's definitions. *)
Theorem C08_layout_invariant : forall l, wf_ldoc l = true -> parse (render l) = Ok (cfg_doc (erase l)).
Proof. exact layout_invariant. Qed.
Print Assumptions C08_layout_invariant.

(* (1') the same in the form "for every document d and every layout l of d" *)
Theorem C08_layout_invariant_doc : forall (d : list (list ascii * list (list ascii * list ascii))) l,
  erase l = d -> wf_doc d = true -> wf_layout l = true -> parse (render l) = Ok (cfg_doc d).
Proof. exact layout_invariant_doc. Qed.
Print Assumptions C08_layout_invariant_doc.

(* (1'') and on Coq strings (a text is a byte string) *)
Theorem C08_layout_invariant_string : forall l, wf_ldoc l = true ->
  parse_string (string_of_list_ascii (render l)) = Ok (cfg_doc (erase l)).
Proof. exact layout_invariant_string. Qed.
Print Assumptions C08_layout_invariant_string.

(* (2) every well-formed document has a layout inside the guards, so (1) is about all of them *)
Theorem C08_every_document_has_a_layout : forall d : list (list ascii * list (list ascii * list ascii)),
  wf_doc d = true -> wf_ldoc (canon d) = true /\ erase (canon d) = d.
Proof. exact canonical_layout. Qed.
Print Assumptions C08_every_document_has_a_layout.

(* (3) two layouts of the same document: same configuration, same model (request, policy, role,
   effect and matcher assertions with their tokens) or the same error *)
Theorem C08_two_layouts_same_definitions : forall l1 l2, wf_ldoc l1 = true -> wf_ldoc l2 = true ->
  erase l1 = erase l2 ->
  parse (render l1) = parse (render l2) /\ load_text (render l1) = load_text (render l2).
Proof. exact two_layouts. Qed.
Print Assumptions C08_two_layouts_same_definitions.

(* (4) ... also when the sections come in a different order (names pairwise different as
   AddConfig sees them; duplicate_sections_order_refuted shows the guard is needed) *)
Theorem C08_section_order : forall l1 l2, wf_ldoc l1 = true -> wf_ldoc l2 = true ->
  Permutation (erase l1) (erase l2) -> distinct_sections (erase l1) = true ->
  load_text (render l1) = load_text (render l2).
Proof. exact layout_and_order. Qed.
Print Assumptions C08_section_order.

(* (5) request / policy tokens do not depend on the blanks round the commas of the value *)
Theorem C08_tokens_blank_insensitive : forall (xs : list (list ascii * list ascii * list ascii)) key,
  xs <> [] ->
  Forall (fun x => all_space (fst (fst x)) /\ all_space (snd x) /\
                   trimmedb (snd (fst x)) = true /\ comma_free (snd (fst x))) xs ->
  map (fun t => key ++ "_"%char :: trim t)
      (split_on "," (join_comma (map (fun x => fst (fst x) ++ snd (fst x) ++ snd x) xs)))
  = map (fun x => key ++ "_"%char :: snd (fst x)) xs.
Proof. exact tokens_blank_insensitive. Qed.
Print Assumptions C08_tokens_blank_insensitive.

(* (6) nothing is dropped, ANY accepted text: what the lines contribute (the line up to its
   in-line comment; a continuation backslash with the blanks in front of it counts as one space;
   nothing for blank, comment and header lines), concatenated in text order, IS the
   concatenation of the stored `option=value` texts; each stored text becomes the entry
   (section, TrimSpace(before first '='), TrimSpace(after it)) *)
Theorem C08_nothing_dropped : forall t w, parse_raw t = Ok w ->
  flat_map payload (map trim (phys_lines t)) = flat_map raw_text (rev w)
  /\ parse t = Ok (map entry w).
Proof. intros t w H. split; [exact (nothing_dropped t w H)|exact (parse_entries t w H)]. Qed.
Print Assumptions C08_nothing_dropped.

(* (6a) ... and TrimSpace removes white space only *)
Theorem C08_trim_removes_only_blanks : forall x, exists a b, all_space a /\ all_space b /\ x = a ++ trim x ++ b.
Proof. exact trim_only_blanks. Qed.
Print Assumptions C08_trim_removes_only_blanks.

(* (6') in particular a definition line without comment character and continuation backslash
   is in the stored texts in full *)
Theorem C08_definition_line_kept : forall t w ln, parse_raw t = Ok w ->
  In ln (map trim (phys_lines t)) ->
  is_skip ln = false -> is_header ln = false -> ends_with "\" ln = false -> nocmt ln ->
  exists pre post, flat_map raw_text (rev w) = pre ++ ln ++ post.
Proof. exact def_line_kept. Qed.
Print Assumptions C08_definition_line_kept.

(* (6'') and every definition of a rendered document is in the configuration with its whole value *)
Theorem C08_rendered_definitions_present : forall l s k v, wf_ldoc l = true ->
  In (s, k, v) (flat_map (fun sc => map (fun kv => (fst sc, fst kv, snd kv)) (snd sc)) (erase l)) ->
  exists c, parse (render l) = Ok c /\ In (norm_sec s, k, v) c.
Proof. exact rendered_defs_present. Qed.
Print Assumptions C08_rendered_definitions_present.

(* (7) the line splitter: a text x ++ "\n" ++ rest with x free of "\n" yields x (minus one "\r"
   before the "\n") however long x is, then the lines of rest; a last line without terminator is
   delivered whole; no byte other than "\n" / "\r" is lost *)
Theorem C08_lines_split : forall x rest, no_lf x = true ->
  phys_lines (x ++ LF :: rest) = strip_cr x :: phys_lines rest.
Proof. exact phys_lines_line. Qed.
Print Assumptions C08_lines_split.

Theorem C08_last_line_whole : forall x, no_lf x = true -> x <> [] -> phys_lines x = [x].
Proof. exact phys_lines_last. Qed.
Print Assumptions C08_last_line_whole.

Theorem C08_lines_lossless : forall t, flat_map (filter keep_byte) (phys_lines t) = filter keep_byte t.
Proof. exact lines_lossless. Qed.
Print Assumptions C08_lines_lossless.

(* (8) totality with explicit errors: reading a configuration from ANY text gives a
   configuration or the "parse the content error" of config.go write() (a pending text without
   '='); building a model gives a model, that error, or "missing required sections"; the
   model's own loop bound is never hit *)
Theorem C08_parse_total : forall t,
  (exists c, parse t = Ok c) \/ (exists e, parse t = Err e /\ no_equals_error e).
Proof. exact parse_total. Qed.
Print Assumptions C08_parse_total.

Theorem C08_load_total : forall t,
  match load_text t with
  | Ok _ => exists c, parse t = Ok c
  | Err (ENoEquals b) => parse t = Err (ENoEquals b) /\ no_equals_error (ENoEquals b)
  | Err (EMissing ms) => ms <> [] /\ exists c, parse t = Ok c
  | Err EFuel => False
  end.
Proof. exact load_total_strong. Qed.
Print Assumptions C08_load_total.

(* (9) the three slice expressions of the Go code that could panic stay in bounds:
   line[1:len(line)-1], line[:len(line)-1], Tokens[:len(Tokens)-len(ParamsTokens)] *)
Theorem C08_header_slice_in_bounds : forall ln, is_header ln = true -> 2 <= List.length ln.
Proof. exact header_slice_in_bounds. Qed.
Print Assumptions C08_header_slice_in_bounds.

Theorem C08_continuation_slice_in_bounds : forall ln, ends_with "\" ln = true -> 1 <= List.length ln.
Proof. exact continuation_slice_in_bounds. Qed.
Print Assumptions C08_continuation_slice_in_bounds.

Theorem C08_role_tokens_slice_in_bounds : forall v,
  List.length (params_tokens v) <= List.length (split_on "," v).
Proof. exact g_tokens_slice_in_bounds. Qed.
Print Assumptions C08_role_tokens_slice_in_bounds.

(* ---- the guards are necessary (statements false of the faithful model without them) ---- *)

(* F34 (known finding): a last continuation line of the form [...] is read as a section header;
   the value is cut short and NO error is raised *)
Theorem C08_continuation_header_refuted :
  exists l, wf_doc (erase l) = true /\ wf_layout_g false l = true /\ wf_layout l = false /\
            parse (render l) <> Ok (cfg_doc (erase l)) /\
            parse (render l) = Ok [(L "matchers", L "m", L "r.obj == p.obj || r.obj in")].
Proof. exact continuation_header_refuted. Qed.
Print Assumptions C08_continuation_header_refuted.

(* F35 (interpretation guard): layouts put blank and comment lines BETWEEN definitions; such a
   line between the physical lines of a continued definition ends the definition *)
Theorem C08_line_inside_continuation_refuted :
  exists l k x, wf_ldoc l = true /\ (x = [] \/ x = L "# note") /\
    parse (unlines true (insert_line k x (doc_raws l))) <> parse (render l) /\
    parse (unlines true (insert_line k x (doc_raws l)))
    = Ok [(L "matchers", L "r.obj", L "= p.obj"); (L "matchers", L "m", L "r.sub == p.sub &&")].
Proof. exact line_inside_continuation_refuted. Qed.
Print Assumptions C08_line_inside_continuation_refuted.

Theorem C08_duplicate_sections_order_refuted :
  exists d d' : list (list ascii * list (list ascii * list ascii)),
    Permutation d d' /\ wf_doc d = true /\ distinct_sections d = false /\
    lookup (cfg_doc d) (L "s") (L "k") <> lookup (cfg_doc d') (L "s") (L "k").
Proof. exact duplicate_sections_order_refuted. Qed.
Print Assumptions C08_duplicate_sections_order_refuted.

Theorem C08_comment_char_in_value_refuted :
  exists l, wf_layout l = true /\ wf_doc (erase l) = false /\ parse (render l) <> Ok (cfg_doc (erase l)).
Proof. exact comment_char_in_value_refuted. Qed.
Print Assumptions C08_comment_char_in_value_refuted.

(* F14 (repaired): a reader that hands the 4096-byte chunks of a long line to the line machine
   as lines falsifies (1); with whole lines (the current code) the same layout is read exactly *)
Theorem C08_long_line_chunking_refuted :
  exists l, wf_ldoc l = true /\ parse_chunked (render l) <> Ok (cfg_doc (erase l)) /\
            parse (render l) = Ok (cfg_doc (erase l)).
Proof. exact long_line_chunking_refuted. Qed.
Print Assumptions C08_long_line_chunking_refuted.

(* ---- non-vacuity: a concrete RBAC model under a hostile layout meets the hypotheses ---- *)
Definition C08_sp (n : nat) : list ascii := repeat SP n.
Definition C08_tab : ascii := "009"%char.
Definition C08_example : ldoc :=
  mkLdoc
    [ mkLsec [SComment [] false (L " matchers first, CRLF line ends"); SBlank [CR]] [C08_tab] (L "matchers") [SP; CR]
        [ mkLdef [SBlank []; SComment [SP] true (L " m = wrong \")] (C08_sp 3) (L "m") (C08_sp 2) [C08_tab]
                 (L "g(r.sub, p.sub) &&")
                 [ mkCont (C08_sp 4100) [CR] (C08_sp 8200) (L "r.obj == p.obj &&");   (* lines past 4 KiB and 8 KiB *)
                   mkCont [] [SP; CR] [C08_tab] (L "r.act in [p.act] || r.sub == 'k=v'") ]
                 (C08_sp 5000) (Some (false, L " in-line remark; m = wrong [x] \ ." ++ [CR])) ];
      mkLsec [] [] (L "request_definition") [CR] [ mkLdef [] [] (L "r") [] [] (L "sub, obj, act") [] [CR] None ];
      mkLsec [] [] (L "policy_definition") [CR]
        [ mkLdef [] [] (L "p") [SP] [SP] (L "sub, obj, act") [] [SP] (Some (true, L " Policy definition" ++ [CR]));
          mkLdef [] [] (L "p") [SP] [SP] (L "sub,obj") [mkCont [SP] [] [] (L ", act")] [] None ];   (* a later duplicate wins *)
      mkLsec [] [] (L "role_definition") [] [ mkLdef [] [] (L "g") [SP] [SP] (L "_, _") [] [] None ];
      mkLsec [] [] (L "policy_effect") [] [ mkLdef [] [] (L "e") [SP] [SP] (L "some(where (p.eft == allow))") [] (C08_sp 4096) None ] ]
    [] false.                                                                           (* no final newline *)

Example C08_nonvacuous :
  wf_ldoc C08_example = true
  /\ Nat.leb 17000 (List.length (render C08_example)) = true
  /\ distinct_sections (erase C08_example) = true
  /\ load_text (render C08_example) = load_text (render (canon (erase C08_example)))
  /\ match load_text (render C08_example) with
     | Ok [[r]; [p]; [g]; [e]; [m]] =>
         a_tokens p = [L "p_sub"; L "p_obj"; L "p_act"] /\ a_value p = L "sub,obj , act"
         /\ a_value m = L "g(r_sub, p_sub) && r_obj == p_obj && r_act in (p_act) || r_sub == 'k=v'"
     | _ => False
     end.
Proof. vm_compute. repeat split; reflexivity. Qed.
