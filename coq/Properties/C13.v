(* C13 -- Concurrent SyncedEnforcer histories are linearizable.  (PARTIAL)

   Full statement: "Every concurrent history of SyncedEnforcer calls is equivalent to some
   sequential order of the same calls, consistent with their real-time order, in which each call
   behaves as the single-threaded enforcer would.  A decision never reflects a state that no
   such order could produce, a wrong decision is never retained after the calls have finished,
   and a completed, persisted change is never lost."

   What is PROVED here (Coq, no axioms), for any number of threads, any program, any schedule,
   micro-steps of different threads interleaved arbitrarily:
     (1) if every call is ONE critical section -- a write section, or a read section whose
         steps do not modify the abstract state -- whose body run alone does what the sequential
         specification does, then the history is linearizable in the standard sense and the
         order in which the calls entered their sections is a linearization (the lock is what
         makes the non-atomic read-modify-write bodies atomic; the proof shows the shared state
         is constant while any reader is inside);
     (2) whenever no writer is inside, the shared state equals the state after that sequential
         order: no completed change is lost, no state that no order could produce is visible;
     (3) THE GENERATED OBLIGATION: every wrapper of the current source is such a single section,
         or lock-free control API, or one of the explicitly listed exceptions, each carrying the
         signature of its recorded finding: LoadPolicy = read section then write section (F19),
         read sections that create / remove temporary roles and memoise g() (F20);
     (4) (1)+(3): all histories over the table MINUS the exception list are linearizable, under
         the stated faithfulness of the table (trusted: translator + may-write analysis);
         and conditionally also over the F20-labelled wrappers when their scratch writes are
         assumed neutral (true without a role-matching function; the hypothesis is explicit);
     (5) the two-phase LoadPolicy is refuted in the model by the 2-thread schedule of F19.
   The corollaries "no retained wrong decision" (C04's memo invariant) and "no lost persisted
   update" (C10's adapter = memory) need the full enforcer model as the sequential
   specification; here the specification is a parameter [seq_step], so they are the instances
   of (1)/(2) for that specification and are not restated.
   What is NOT proved: the Go runtime, the translator's analysis, and everything about the
   excepted wrappers -- explored at run time by harness/c13.go (recorded histories checked
   against the real single-threaded enforcer), labelled exploration. *)
From Coq Require Import List String NArith Bool.
Import ListNotations.
From Casbin Require Import Sync SyncProofs.
From Casbin Require Gen.SyncTable.

(* (1) *)
Theorem C13_atomic_calls_linearizable :
  forall (Sec Call St Loc Ret : Type) (mode_of : Sec -> mode) body_of (impl : Call -> list Sec) loc0 ret_of
         (seq_step : St -> Call -> St * Ret) (s_init : St) (prog : tid -> list Call),
    (forall t, Forall (atomic_call Sec Call St Loc Ret mode_of body_of impl loc0 ret_of seq_step) (prog t)) ->
    forall c, reachable Sec Call St Loc Ret mode_of body_of impl loc0 ret_of (init Sec Call St Loc Ret s_init prog) c ->
    linearization Call St Ret seq_step s_init (tr c) (glin c).
Proof. exact atomic_calls_linearizable. Qed.
Print Assumptions C13_atomic_calls_linearizable.

(* (2) *)
Theorem C13_quiescent_state_is_sequential :
  forall (Sec Call St Loc Ret : Type) (mode_of : Sec -> mode) body_of (impl : Call -> list Sec) loc0 ret_of
         (seq_step : St -> Call -> St * Ret) (s_init : St) (prog : tid -> list Call),
    (forall t, Forall (atomic_call Sec Call St Loc Ret mode_of body_of impl loc0 ret_of seq_step) (prog t)) ->
    forall c, reachable Sec Call St Loc Ret mode_of body_of impl loc0 ret_of (init Sec Call St Loc Ret s_init prog) c ->
    wr c = None -> sh c = spec_run Call St Ret seq_step s_init (glin c).
Proof. exact quiescent_state_is_sequential. Qed.
Print Assumptions C13_quiescent_state_is_sequential.

(* (3) THE GENERATED OBLIGATION *)
Theorem C13_single_section_or_exception_current :
  lin_ok Gen.SyncTable.loc_names Gen.SyncTable.exceptions Gen.SyncTable.table = true.
Proof. vm_compute. reflexivity. Qed.
Print Assumptions C13_single_section_or_exception_current.

(* (4) linearizable_except: histories of programs that call only wrappers of the current table
   that are neither in the generated exception list nor lock-free control API *)
Theorem C13_linearizable_except :
  forall (St Loc Ret : Type) body_of loc0 ret_of (seq_step : St -> wrapper -> St * Ret) (s_init : St)
         (prog : tid -> list wrapper),
    faithful St Loc Ret body_of loc0 ret_of seq_step Gen.SyncTable.loc_names Gen.SyncTable.table false ->
    (forall t w, In w (prog t) ->
       In w Gen.SyncTable.table /\
       excepted Gen.SyncTable.exceptions (w_name w) = false /\
       mem_str (w_name w) control_api = false) ->
    forall c, treachable St Loc Ret body_of loc0 ret_of (tinit St Loc Ret s_init prog) c ->
    linearization wrapper St Ret seq_step s_init (tr c) (glin c).
Proof.
  exact (fun St Loc Ret body_of loc0 ret_of seq_step s_init prog =>
           linearizable_except St Loc Ret body_of loc0 ret_of seq_step s_init
             Gen.SyncTable.loc_names Gen.SyncTable.exceptions Gen.SyncTable.table prog
             C13_single_section_or_exception_current).
Qed.
Print Assumptions C13_linearizable_except.

(* (4') the same including the F20-labelled read wrappers (Enforce, GetRolesForUser, ...),
   under the EXPLICIT extra hypothesis that their scratch writes do not change the abstract
   state ([faithful ... true] asks purity of those read sections too).  LoadPolicy (F19) and
   everything else that is not a single section stays excluded. *)
Theorem C13_linearizable_if_scratch_neutral :
  forall (St Loc Ret : Type) body_of loc0 ret_of (seq_step : St -> wrapper -> St * Ret) (s_init : St)
         (prog : tid -> list wrapper),
    faithful St Loc Ret body_of loc0 ret_of seq_step Gen.SyncTable.loc_names Gen.SyncTable.table true ->
    (forall t w, In w (prog t) ->
       In w Gen.SyncTable.table /\ single_section Gen.SyncTable.loc_names true w = true) ->
    forall c, treachable St Loc Ret body_of loc0 ret_of (tinit St Loc Ret s_init prog) c ->
    linearization wrapper St Ret seq_step s_init (tr c) (glin c).
Proof.
  exact (fun St Loc Ret body_of loc0 ret_of seq_step s_init prog F =>
           single_section_linearizable St Loc Ret body_of loc0 ret_of seq_step s_init
             Gen.SyncTable.loc_names Gen.SyncTable.table true prog F).
Qed.
Print Assumptions C13_linearizable_if_scratch_neutral.

(* (5) F19 in the model: two-phase LoadPolicy || AddPolicy: everybody returned, the rule is in
   the adapter and not in memory, and no sequential order of the two calls gives that state *)
Theorem C13_load_two_phase_refuted :
  exists c, reachable xsec xcall xst xloc bool x_mode x_body x_impl x_loc0 x_ret
              (init xsec xcall xst xloc bool (false, false) f19_prog) c /\
            th c 0 = TIdle [] /\ th c 1 = TIdle [] /\ wr c = None /\
            sh c = (false, true) /\
            forall L, (map (call_of xcall) L = [CLoad2; CAdd] \/ map (call_of xcall) L = [CAdd; CLoad2]) ->
                      spec_run xcall xst bool x_seq (false, false) L <> sh c.
Proof. exact load_two_phase_refuted. Qed.
Print Assumptions C13_load_two_phase_refuted.

(* non-vacuity.
   (a) the hypotheses of (1) are met by a concrete object whose write calls are two-step
       read-modify-write bodies, and a 28-step schedule interleaving three threads runs it;
   (b) in the current table the write / getter operations of the property's operation set are
       single sections, Enforce carries the F20 signature, LoadPolicy the F19 signature, and
       the exception list is exactly what lin_ok needs: dropping LoadPolicy from it, or
       splitting RemovePolicy into a read section and a write section, breaks the obligation. *)
Open Scope string_scope.

Definition by_name (n : string) : list wrapper := filter (fun w => String.eqb (w_name w) n) Gen.SyncTable.table.

Definition split_in_two (name : string) (w : wrapper) : wrapper :=
  if String.eqb (w_name w) name then
    {| w_name := w_name w; w_shape := w_shape w;
       w_sections := {| s_mode := R; s_callees := []; s_pr := []; s_pw := []; s_ar := []; s_aw := [] |} :: w_sections w;
       w_escapes := w_escapes w |}
  else w.

Example C13_nonvacuous :
  (forall t, Forall (atomic_call xsec xcall xst xloc bool x_mode x_body x_impl x_loc0 x_ret x_seq) (x_prog t)) /\
  (match run_sched xsec xcall xst xloc bool x_mode x_body x_impl x_loc0 x_ret x_sched
           (init xsec xcall xst xloc bool (false, false) x_prog) with
   | Some c => List.length (tr c) = 10 /\ List.length (glin c) = 5
   | None => False end) /\
  forallb (fun n => match by_name n with [w] => atomic_wrapper Gen.SyncTable.loc_names w | _ => false end)
          ["AddPolicy"; "RemovePolicy"; "AddGroupingPolicy"; "RemoveGroupingPolicy"; "UpdatePolicy";
           "SavePolicy"; "GetPolicy"; "HasPolicy"] = true /\
  (match by_name "Enforce" with [w] => f20_sig Gen.SyncTable.loc_names w && negb (atomic_wrapper Gen.SyncTable.loc_names w) | _ => false end) = true /\
  (match by_name "LoadPolicy" with [w] => f19_sig w | _ => false end) = true /\
  lin_ok Gen.SyncTable.loc_names (filter (fun p => negb (String.eqb (fst p) "LoadPolicy")) Gen.SyncTable.exceptions)
         Gen.SyncTable.table = false /\
  lin_ok Gen.SyncTable.loc_names Gen.SyncTable.exceptions (map (split_in_two "RemovePolicy") Gen.SyncTable.table) = false.
Proof.
  split; [exact x_prog_atomic|].
  split; [pose proof x_example_runs as H; destruct (run_sched _ _ _ _ _ _ _ _ _ _ _ _); tauto|].
  repeat split; vm_compute; reflexivity.
Qed.
