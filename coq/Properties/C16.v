(* C16 — RBAC introspection APIs agree with enforcement.
   "In RBAC models the implicit roles, implicit permissions and implicit users reported for a
    subject, role or permission are exactly those that Enforce honours: a request is allowed iff
    a permission listed by GetImplicitPermissionsForUser grants it, GetImplicitRolesForUser lists
    exactly the other roles for which g() holds, and GetImplicitUsersForPermission lists exactly
    the non-role subjects for which Enforce returns true."
   Quantifier: ALL grouping-rule lists (trees, DAGs, cycles, self links; any size), ALL policies,
   ALL subjects / permissions / domains; hierarchy depth within the role manager's limit
   (`depth_ok`, characterised by C16_depth_ok_meaning).
   Only final statements live here; each is closed by `exact` and followed by Print Assumptions.
   Model: Rbac.v (rbac_api.go, the two RBAC matcher families of enforcer.go with the
   allow-override effect) over Roles.v (default role managers) and Effect.v (MergeEffects). *)
From Coq Require Import List String Bool Arith.
Import ListNotations.
From Casbin Require Import Base Roles RolesProofs Effect Rbac RbacProofs.
Local Open Scope string_scope.

(* (0) Termination.  Go's queue loops are unbounded; the model runs them on fuel = number of
   names in the grouping rules + 2 and NEVER runs out, for any link set (cycles, self links …). *)
Theorem C16_implicit_roles_terminates : forall ls u d, implicit_roles_opt ls u d <> None.
Proof. exact implicit_roles_fuel_ok. Qed.
Print Assumptions C16_implicit_roles_terminates.

Theorem C16_implicit_users_for_role_terminates : forall ls r d, implicit_users_for_role_opt ls r d <> None.
Proof. exact implicit_users_for_role_fuel_ok. Qed.
Print Assumptions C16_implicit_users_for_role_terminates.

(* (1) GetImplicitRolesForUser(u[, d]) lists exactly the OTHER roles for which g(u, r[, d]) holds —
   never u itself (also on cycles), no duplicates. *)
Theorem C16_implicit_roles_exact : forall ls u d r, depth_ok ls d u = true ->
  (In r (implicit_roles ls u d) <-> r <> u /\ has_link ls u r d = true).
Proof. exact implicit_roles_exact. Qed.
Print Assumptions C16_implicit_roles_exact.

Theorem C16_implicit_roles_no_duplicates : forall ls u d, NoDup (implicit_roles ls u d).
Proof. exact implicit_roles_NoDup. Qed.
Print Assumptions C16_implicit_roles_no_duplicates.

(* without the guard the listing is the set of names reachable at ANY depth: a superset of g() *)
Theorem C16_implicit_roles_reachable : forall ls u d r,
  In r (implicit_roles ls u d) <-> r <> u /\ exists k, walk ls d u r k.
Proof. exact implicit_roles_reach. Qed.
Print Assumptions C16_implicit_roles_reachable.

Theorem C16_implicit_roles_superset : forall ls u d r,
  r <> u -> has_link ls u r d = true -> In r (implicit_roles ls u d).
Proof. exact implicit_roles_superset. Qed.
Print Assumptions C16_implicit_roles_superset.

(* the guard means exactly "whatever u reaches in the role graph of the domain, it reaches within
   max_level = 10 edges" (the property's "hierarchy depth within the role manager's limit") *)
Theorem C16_depth_ok_meaning : forall ls d u,
  depth_ok ls d u = true <->
  (forall r k, walk ls d u r k -> exists k', k' <= max_level /\ walk ls d u r k').
Proof. exact depth_ok_iff. Qed.
Print Assumptions C16_depth_ok_meaning.

(* a shape-independent sufficient condition: at most max_level + 1 = 11 distinct names (u included),
   whatever the graph (cycles, self links, DAGs): the whole bounded-exhaustive universe of the
   correspondence run lies inside the guard *)
Theorem C16_small_graph_depth_ok : forall ls d u,
  List.length (dedup (u :: nodes ls)) <= S max_level -> depth_ok ls d u = true.
Proof. exact small_graph_depth_ok. Qed.
Print Assumptions C16_small_graph_depth_ok.

(* beyond the guard the statement is false of the faithful model: chain of 12 edges *)
Theorem C16_depth_superset_refuted : exists ls u d r,
  depth_ok ls d u = false /\ In r (implicit_roles ls u d) /\ r <> u /\ has_link ls u r d = false.
Proof. exact depth_superset_refuted. Qed.
Print Assumptions C16_depth_superset_refuted.

(* (2) A request is allowed iff a permission listed by GetImplicitPermissionsForUser grants it
   (p = sub :: perm grants the request fields perm).  `vacuous_grant = false` excludes only the
   policy-free branch: EMPTY policy and a request that matches the all-empty rule (F37). *)
Theorem C16_permissions_decide : forall ls policy u o a,
  depth_ok ls "" u = true -> vacuous_grant Plain ls policy [u; o; a] = false ->
  (enforce_rbac Plain ls policy [u; o; a] = true <->
   exists p, In p (implicit_permissions ls policy u) /\ grants p [o; a] = true).
Proof. exact permissions_decide. Qed.
Print Assumptions C16_permissions_decide.

Theorem C16_permissions_decide_domains : forall ls policy u d o a,
  depth_ok ls d u = true -> vacuous_grant WithDomains ls policy [u; d; o; a] = false ->
  (enforce_rbac WithDomains ls policy [u; d; o; a] = true <->
   exists p, In p (implicit_permissions_dom ls policy u d) /\ grants p [d; o; a] = true).
Proof. exact permissions_decide_dom. Qed.
Print Assumptions C16_permissions_decide_domains.

(* what the listing is: the listed rules (of the domain) whose subject is u or an implicit role *)
Theorem C16_implicit_permissions_listed : forall ls policy u p,
  In p (implicit_permissions ls policy u) <-> In p policy /\ In (rule_sub p) (policy_roles ls u "").
Proof. exact implicit_permissions_In. Qed.
Print Assumptions C16_implicit_permissions_listed.

Theorem C16_implicit_permissions_listed_domains : forall ls policy u d p,
  In p (implicit_permissions_dom ls policy u d) <->
  In p policy /\ nth 1 p "" = d /\ In (rule_sub p) (policy_roles ls u d).
Proof. exact implicit_permissions_dom_In. Qed.
Print Assumptions C16_implicit_permissions_listed_domains.

(* g() inside the model's matcher (HasLink with its frontier kept as a set, as in Go) is the
   HasLink of C05 (Roles.has_link = reachability within 10 edges) *)
Theorem C16_g_is_has_link : forall ls u r d, g_link ls u r d = has_link ls u r d.
Proof. exact g_link_eq. Qed.
Print Assumptions C16_g_is_has_link.

(* the decision used above IS the streaming enforce loop + MergeEffects of C02 *)
Theorem C16_enforce_is_effect_stream : forall k ls policy req,
  enforce_rbac k ls policy req = enforce_spec k ls policy req.
Proof. exact enforce_rbac_spec. Qed.
Print Assumptions C16_enforce_is_effect_stream.

(* the guards are met by every non-empty policy and by every request with a non-empty object *)
Theorem C16_guard_nonempty_policy : forall k ls p t req, vacuous_grant k ls (p :: t) req = false.
Proof. exact vacuous_grant_nonempty. Qed.
Print Assumptions C16_guard_nonempty_policy.
Theorem C16_guard_nonempty_object : forall ls policy u o a, o <> "" -> vacuous_grant Plain ls policy [u; o; a] = false.
Proof. exact vacuous_grant_plain_obj. Qed.
Print Assumptions C16_guard_nonempty_object.

(* outside them the statement is false of the faithful model (and of the code: probe F37) *)
Theorem C16_nopolicy_refuted : exists ls u,
  depth_ok ls "" u = true /\ enforce_rbac Plain ls [] [u; ""; ""] = true /\
  implicit_permissions ls [] u = [] /\ implicit_users_for_permission Plain ls [] [""; ""] = [u].
Proof. exact nopolicy_refuted. Qed.
Print Assumptions C16_nopolicy_refuted.

Theorem C16_permissions_depth_refuted : exists ls policy u o a,
  depth_ok ls "" u = false /\ enforce_rbac Plain ls policy [u; o; a] = false /\
  exists p, In p (implicit_permissions ls policy u) /\ grants p [o; a] = true.
Proof. exact permissions_depth_refuted. Qed.
Print Assumptions C16_permissions_depth_refuted.

(* (3) GetImplicitUsersForPermission(perm...) lists exactly the non-role subjects (a p subject or
   the user of a grouping rule, never the role of a grouping rule) for which Enforce(u, perm...)
   returns true.  No guard; both families; no duplicates. *)
Theorem C16_users_for_permission_exact : forall k ls policy perm u,
  In u (implicit_users_for_permission k ls policy perm) <->
  non_role_subject ls policy u /\ enforce_rbac k ls policy (u :: perm) = true.
Proof. exact users_for_permission_exact. Qed.
Print Assumptions C16_users_for_permission_exact.

Theorem C16_users_for_permission_no_duplicates : forall k ls policy perm,
  NoDup (implicit_users_for_permission k ls policy perm).
Proof. exact users_for_permission_NoDup. Qed.
Print Assumptions C16_users_for_permission_no_duplicates.

(* (4) GetImplicitUsersForRole(r[, d]): exactly the other names u with g(u, r[, d]) *)
Theorem C16_implicit_users_for_role_exact : forall ls r d u, depth_ok ls d u = true ->
  (In u (implicit_users_for_role ls r d) <-> u <> r /\ has_link ls u r d = true).
Proof. exact implicit_users_for_role_exact. Qed.
Print Assumptions C16_implicit_users_for_role_exact.

Theorem C16_implicit_users_for_role_reachable : forall ls r d u,
  In u (implicit_users_for_role ls r d) <-> u <> r /\ exists k, walk ls d u r k.
Proof. exact implicit_users_for_role_reach. Qed.
Print Assumptions C16_implicit_users_for_role_reachable.

(* (5) the direct listings: GetRolesForUser / GetUsersForRole are the grouping rules themselves,
   GetPermissionsForUser the rules whose subject is the user (the empty name is a wildcard of
   GetFilteredPolicy); direct ⊆ implicit *)
Theorem C16_get_roles_for_user : forall ls u d x, In x (get_roles_for_user ls u d) <-> In (u, x, d) ls.
Proof. exact get_roles_spec. Qed.
Print Assumptions C16_get_roles_for_user.

Theorem C16_get_users_for_role : forall ls r d x, In x (get_users_for_role ls r d) <-> In (x, r, d) ls.
Proof. exact get_users_spec. Qed.
Print Assumptions C16_get_users_for_role.

Theorem C16_get_permissions_for_user : forall k policy u p, wf_policy k policy = true ->
  (In p (get_permissions_for_user k policy u None) <-> In p policy /\ (u = "" \/ rule_sub p = u)).
Proof. exact get_permissions_for_user_spec. Qed.
Print Assumptions C16_get_permissions_for_user.

Theorem C16_get_permissions_for_user_domains : forall policy u d p, wf_policy WithDomains policy = true ->
  (In p (get_permissions_for_user WithDomains policy u (Some d)) <->
   In p policy /\ (u = "" \/ rule_sub p = u) /\ (d = "" \/ nth 1 p "" = d)).
Proof. exact get_permissions_for_user_dom_spec. Qed.
Print Assumptions C16_get_permissions_for_user_domains.

Theorem C16_direct_roles_in_implicit : forall ls u d r,
  In r (get_roles_for_user ls u d) -> r <> u -> In r (implicit_roles ls u d).
Proof. exact direct_roles_in_implicit. Qed.
Print Assumptions C16_direct_roles_in_implicit.

Theorem C16_direct_permissions_in_implicit : forall ls policy u p, wf_policy Plain policy = true -> u <> "" ->
  In p (get_permissions_for_user Plain policy u None) -> In p (implicit_permissions ls policy u).
Proof. exact direct_permissions_in_implicit. Qed.
Print Assumptions C16_direct_permissions_in_implicit.

(* non-vacuity: a cyclic role graph with a self link and a diamond meets the guard; alice is
   allowed through a 3-edge walk, the listings are non-trivial, and the role bob (a p subject
   that is also somebody's role) is not reported as a user *)
Example C16_nonvacuous :
  let ls := [("alice","admin",""); ("admin","alice",""); ("admin","admin",""); ("admin","ops","");
             ("admin","dev",""); ("ops","root",""); ("dev","root",""); ("carol","bob","")] in
  let policy := [["root"; "data1"; "read"]; ["bob"; "data2"; "write"]; ["dave"; "data1"; "read"]] in
  depth_ok ls "" "alice" = true /\ vacuous_grant Plain ls policy ["alice"; "data1"; "read"] = false /\
  implicit_roles ls "alice" "" = ["admin"; "ops"; "dev"; "root"] /\
  implicit_permissions ls policy "alice" = [["root"; "data1"; "read"]] /\
  enforce_rbac Plain ls policy ["alice"; "data1"; "read"] = true /\
  enforce_rbac Plain ls policy ["alice"; "data2"; "write"] = false /\
  implicit_users_for_permission Plain ls policy ["data1"; "read"] = ["dave"] /\
  implicit_users_for_permission Plain ls policy ["data2"; "write"] = ["carol"] /\
  implicit_users_for_role ls "root" "" = ["ops"; "dev"; "admin"; "alice"].
Proof. vm_compute. repeat split. Qed.

Example C16_nonvacuous_domains :
  let ls := [("alice","admin","d1"); ("admin","root","d1"); ("root","alice","d1"); ("alice","root","d2")] in
  let policy := [["root"; "d1"; "data1"; "read"]; ["root"; "d2"; "data2"; "read"]; ["admin"; "d2"; "data1"; "write"]] in
  depth_ok ls "d1" "alice" = true /\ depth_ok ls "d2" "alice" = true /\
  implicit_roles ls "alice" "d1" = ["admin"; "root"] /\ implicit_roles ls "alice" "d2" = ["root"] /\
  implicit_permissions_dom ls policy "alice" "d1" = [["root"; "d1"; "data1"; "read"]] /\
  implicit_permissions_dom ls policy "alice" "d2" = [["root"; "d2"; "data2"; "read"]] /\
  enforce_rbac WithDomains ls policy ["alice"; "d1"; "data1"; "read"] = true /\
  enforce_rbac WithDomains ls policy ["alice"; "d2"; "data1"; "write"] = false.
Proof. vm_compute. repeat split. Qed.
