(* C10 — What is persisted is what is enforced.
   Only final statements; each closed by `exact` and followed by Print Assumptions.
   Model: Machine.v with a set-semantics adapter implementing every optional adapter interface
   (add idempotent, remove of an absent rule a no-op, filtered removal with the store's field
   filter, UpdatePolicy a no-op when the old rule is absent, UpdatePolicies atomic); Csv.v for
   the text of the file / string adapters.
   Sync cfg s : the adapter stores exactly the listed rules of every policy type (as sets). *)
From Coq Require Import List String Bool Arith.
Import ListNotations.
From Casbin Require Import Base Store StoreProofs Roles Machine MachineProofs MachineSync.

(* (1) With auto-save on, after EVERY history of management calls (single, batch, Ex, filtered,
   update, batch update, Self* variants, LoadPolicy, SavePolicy, flag changes) — including calls
   whose adapter call is made to fail — the adapter holds exactly the listed rules.  Guards:
   those of C05/C06, old rules of a batch update pairwise distinct, no UpdateFilteredPolicies
   (F09), no ClearPolicy (memory-only by design: it ends the synchronisation until the next
   SavePolicy or LoadPolicy). *)
Theorem C10_adapter_in_sync_after_every_history : forall cfg ops s,
  NoDup (map fst cfg) -> MInv cfg s -> Sync cfg s -> sguards cfg s ops ->
  MInv cfg (fst (run cfg s ops)) /\ Sync cfg (fst (run cfg s ops)).
Proof. exact run_Sync. Qed.
Print Assumptions C10_adapter_in_sync_after_every_history.

(* (2) SavePolicy establishes it from any state; a completed LoadPolicy too. *)
Theorem C10_save_establishes_sync : forall cfg s,
  snd (save_policy cfg s) = ROk true -> Sync cfg (fst (save_policy cfg s)).
Proof. exact save_establishes_Sync. Qed.
Print Assumptions C10_save_establishes_sync.

Theorem C10_load_establishes_sync : forall cfg s, NoDup (map fst cfg) -> content_ok cfg (content (ad s)) ->
  snd (load_policy cfg s) = ROk true -> Sync cfg (fst (load_policy cfg s)).
Proof. exact load_policy_Sync. Qed.
Print Assumptions C10_load_establishes_sync.

(* (3) Hence an enforcer freshly loaded from the adapter lists, per policy type, exactly the
   originator's rules (and so makes the same decisions: C01 for equal rule lists, C17 for the
   order). *)
Theorem C10_fresh_load_reaches_same_rules : forall cfg s p, NoDup (map fst cfg) -> Sync cfg s ->
  content (ad p) = content (ad s) -> content_ok cfg (content (ad p)) ->
  snd (load_policy cfg p) = ROk true ->
  forall pt d r, def_of cfg pt = Some d ->
    (In r (pol (get_store (fst (load_policy cfg p)) pt)) <-> In r (pol (get_store s pt))).
Proof. exact peer_converges. Qed.
Print Assumptions C10_fresh_load_reaches_same_rules.

(* (4) With auto-save off the adapter is untouched (content, call log, everything) by every
   management call, until SavePolicy. *)
Theorem C10_autosave_off_adapter_untouched : forall cfg op s nt, autosave s = false ->
  match op with MSave | MLoad | MFailNext _ | MSetAutoSave _ | MSelf _ | MUpdateFiltered _ _ _ _ => False | _ => True end ->
  ad (fst (step_wo cfg s op nt)) = ad s.
Proof. exact autosave_off_untouched. Qed.
Print Assumptions C10_autosave_off_adapter_untouched.

(* (5) SavePolicy followed by LoadPolicy reproduces the same rules in the same per-type order,
   for every policy that could itself have been loaded (no priority column: a load sorts). *)
Theorem C10_save_load_roundtrip : forall cfg s, NoDup (map fst cfg) ->
  (forall pt d, def_of cfg pt = Some d -> a_prio d = None) ->
  (forall pt, Inv (get_store s pt)) ->
  (forall pt d r, def_of cfg pt = Some d -> In r (pol (get_store s pt)) -> loadable d r) ->
  snd (save_policy cfg s) = ROk true ->
  let s1 := fst (save_policy cfg s) in
  forall pt, In pt (map fst cfg) -> pol (get_store (fst (load_policy cfg s1)) pt) = pol (get_store s pt).
Proof. exact save_load_roundtrip. Qed.
Print Assumptions C10_save_load_roundtrip.

(* non-vacuity *)
Example C10_nonvacuous :
  let cfg := [("g", {| a_is_g := true; a_arity := 2; a_prio := None |});
              ("p", {| a_is_g := false; a_arity := 3; a_prio := None |})]%string in
  let s0 := init_state cfg true false WNone [] in
  let ops := [MAdd "p" ["alice"; "data1"; "read"]; MAddManyEx "g" [["alice"; "admin"]; ["bob"; "admin"]];
              MRemove "g" ["bob"; "admin"]; MUpdate "p" ["alice"; "data1"; "read"] ["admin"; "data1"; "read"]]%string in
  content (ad (fst (run cfg s0 ops))) = [("p", ["admin"; "data1"; "read"]); ("g", ["alice"; "admin"])]%string.
Proof. reflexivity. Qed.
