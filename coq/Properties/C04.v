(* C04 — Decisions never go stale: they depend on current state, not call history.
   Only final statements; each closed by `exact` and followed by Print Assumptions.
   Model: Memo.v = Machine.v (every management call, ClearPolicy, LoadPolicy, with the exact
   points where invalidateMatcherMap() runs) + the g() memo inside the compiled matcher
   (GenerateGFunction: keyed by the NUL-joined arguments, one map per role definition) + Enforce
   for the RBAC and RBAC-with-domains matcher families.
   Guard: names contain no NUL byte (F26: the memo key is not injective otherwise). *)
From Coq Require Import List String Ascii Bool Arith.
Import ListNotations.
From Casbin Require Import Base Store Roles RolesProofs Machine MachineProofs Memo MemoProofs.

(* (1) In EVERY operation of the machine a role link changes only if the matcher cache (and with
   it every memoised g() result) was invalidated during the same call. *)
Theorem C04_links_change_only_with_invalidation : forall cfg op s nt, inval_frame s (fst (step_wo cfg s op nt)).
Proof. exact step_wo_inval_frame. Qed.
Print Assumptions C04_links_change_only_with_invalidation.

(* (2) After ANY interleaving of Enforce calls with management calls (single, batch, Ex,
   filtered, update, batch update, Self*, ClearPolicy, LoadPolicy, SavePolicy, flag changes,
   failing adapter calls) the memo holds only answers of the CURRENT role graph. *)
Theorem C04_memo_truthful_after_every_history : forall cfg f ops c,
  MemoOk c -> cguards cfg f c ops -> MemoOk (fst (crun cfg f c ops)).
Proof. exact crun_MemoOk. Qed.
Print Assumptions C04_memo_truthful_after_every_history.

(* (3) Hence every Enforce, after any history (whatever was asked or changed before), returns the
   decision of the memo-free evaluation of the currently listed rules and current links ... *)
Theorem C04_no_stale_decision : forall cfg f ops c req, MemoOk c -> cguards cfg f c (ops ++ [CEnforce req]) ->
  let c' := fst (crun cfg f c ops) in
  snd (cstep cfg f c' (CEnforce req)) = CDec (enforce_pure f (pol (get_store (ms c') "p")) (get_links (ms c') "g") req).
Proof. exact no_stale_decision. Qed.
Print Assumptions C04_no_stale_decision.

(* (4) ... which is the decision of a freshly constructed enforcer: the same rules and the role
   graph REBUILT from the listed grouping rules alone (C05's invariant). *)
Theorem C04_equals_fresh_enforcer : forall cfg f s d req,
  MInv cfg s -> def_of cfg "g"%string = Some d -> a_is_g d = true ->
  enforce_pure f (pol (get_store s "p")) (get_links s "g") req =
  enforce_pure f (pol (get_store s "p")) (fst (rebuild (a_arity d) (pol (get_store s "g")))) req.
Proof. exact decision_of_fresh_enforcer. Qed.
Print Assumptions C04_equals_fresh_enforcer.

(* (5) The memo key is injective on NUL-free arguments. *)
Theorem C04_memo_key_injective : forall a b, forallb nul_free a = true -> forallb nul_free b = true ->
  gkey a = gkey b -> a = b.
Proof. exact gkey_injective. Qed.
Print Assumptions C04_memo_key_injective.

(* the guard is necessary — F26 *)
Example C04_memo_key_collision_refuted :
  gkey [String nul "b"; "c"]%string = gkey [""; "b"; "c"]%string /\ [String nul "b"; "c"]%string <> [""; "b"; "c"]%string.
Proof. exact gkey_collision_refuted. Qed.

(* non-vacuity: the classic stale scenario — ask, add the role link, ask again, remove it, ask *)
Example C04_nonvacuous :
  let cfg := [("g", {| a_is_g := true; a_arity := 2; a_prio := None |});
              ("p", {| a_is_g := false; a_arity := 3; a_prio := None |})]%string in
  let ops := [CMach (MAdd "p" ["admin"; "data1"; "read"]); CEnforce ["alice"; "data1"; "read"];
              CMach (MAdd "g" ["alice"; "admin"]); CEnforce ["alice"; "data1"; "read"];
              CMach (MRemove "g" ["alice"; "admin"]); CEnforce ["alice"; "data1"; "read"]]%string in
  snd (crun cfg FRbac (cinit cfg false []) ops) =
    [CRes (ROk true); CDec (EDec false); CRes (ROk true); CDec (EDec true); CRes (ROk true); CDec (EDec false)].
Proof. reflexivity. Qed.
