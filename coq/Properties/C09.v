(* C09 — Built-in path and address matchers implement their documented semantics.

   "For well-formed patterns, keyMatch/2/3/4/5 accept exactly the paths whose segments equal the
    pattern's literals, fill its :name or {name} placeholders with one non-empty segment each
    (equal for repeated names in keyMatch4) and are covered by its trailing /* wildcard (ignoring
    the query string in keyMatch5); keyGet/2/3 return the captured part exactly when the
    corresponding match succeeds; ipMatch agrees with CIDR arithmetic.  All are pure functions of
    their arguments, also under concurrent use."

   Only final statements live here; each is closed by `exact` and followed by Print Assumptions.

   Vocabulary (KeyMatch.v):
     pattern            = list of segments (Lit text | Par name) + trailing-wildcard flag, ANY length
     print sy p         = its text: "/" before every segment, ":name" (SColon) or "{name}" (SBrace),
                          "/*" at the end when the flag is set
     wf_pattern sy p    = literal segments contain no '/', no regexp metacharacter (\.+*?()|[]{}^$),
                          only 7-bit bytes, no ':' under SColon (for KeyMatch, sy = SPlain: just no
                          '/' and no '*', and no placeholders); names are non-empty, '/'-free
                          ('}'-free under SBrace)
     seg_fill p path    = the segment-level specification: Some values iff the segments of the path
                          (text between '/'s) equal the literals one by one, every placeholder
                          takes one NON-EMPTY segment (its value), and then nothing is left (no
                          wildcard) or at least one more segment is left (wildcard)
     seg_match p path   = seg_fill p path is Some _
     keyMatchN etc.     = the model of the Go functions: the same textual rewrites, a regexp
                          parser, a derivative matcher / backtracking submatcher; None = panic
     nl_free path       = the path contains no line feed (guard: Go's `.` does not match '\n';
                          see C09_newline_refuted) *)
From Coq Require Import List Bool Ascii String NArith.
Import ListNotations.
From Casbin Require Import Regex KeyMatch KeyMatchProofs IpMatch IpMatchProofs.

(* ------------------------------------------------------------------ *)
(* keyMatch: literal segments + trailing wildcard, no regexp *)
Theorem C09_keyMatch : forall p path, wf_pattern SPlain p = true ->
  keyMatch path (print SPlain p) = seg_match p path.
Proof. exact keyMatch_spec. Qed.
Print Assumptions C09_keyMatch.

(* keyMatch2 (":name"), every path without line feed; never panics on a well-formed pattern *)
Theorem C09_keyMatch2 : forall p path, wf_pattern SColon p = true -> nl_free path = true ->
  keyMatch2 path (print SColon p) = Some (seg_match p path).
Proof. exact keyMatch2_spec. Qed.
Print Assumptions C09_keyMatch2.

(* keyMatch3 ("{name}") *)
Theorem C09_keyMatch3 : forall p path, wf_pattern SBrace p = true -> nl_free path = true ->
  keyMatch3 path (print SBrace p) = Some (seg_match p path).
Proof. exact keyMatch3_spec. Qed.
Print Assumptions C09_keyMatch3.

(* keyMatch4: as keyMatch3, and placeholders with equal names carry equal values *)
Theorem C09_keyMatch4 : forall p path, wf_pattern SBrace p = true -> nl_free path = true ->
  keyMatch4 path (print SBrace p) =
  Some (match seg_fill p path with
        | Some vs => consistent (names_of (segs p)) vs
        | None => false
        end).
Proof. exact keyMatch4_spec. Qed.
Print Assumptions C09_keyMatch4.

(* what `consistent` means: the i-th and j-th placeholder have the same name => same value *)
Theorem C09_consistent_meaning : forall ns vs, consistent ns vs = true ->
  forall i j n v v', nth_error ns i = Some n -> nth_error ns j = Some n ->
                     nth_error vs i = Some v -> nth_error vs j = Some v' -> v = v'.
Proof. exact consistent_spec. Qed.
Print Assumptions C09_consistent_meaning.

(* keyMatch5: as keyMatch3 on the path cut at its first '?' *)
Theorem C09_keyMatch5 : forall p path, wf_pattern SBrace p = true -> nl_free path = true ->
  keyMatch5 path (print SBrace p) = Some (seg_match p (strip_query path)).
Proof. exact keyMatch5_spec. Qed.
Print Assumptions C09_keyMatch5.

(* the specification, read declaratively: a path matches iff it is the pattern text with every
   placeholder replaced by a non-empty '/'-free value, followed — under a trailing wildcard — by
   "/" and any text at all *)
Theorem C09_match_declarative : forall sy p path, wf_pattern sy p = true ->
  (seg_match p path = true <->
   exists vs tail,
     List.length vs = List.length (names_of (segs p)) /\ forallb good_val vs = true /\
     path = inst (segs p) vs ++ (if star p then "/"%char :: tail else [])).
Proof. exact seg_match_iff. Qed.
Print Assumptions C09_match_declarative.

(* ------------------------------------------------------------------ *)
(* keyGet: the text covered by the wildcard when keyMatch holds, "" otherwise *)
Theorem C09_keyGet : forall p path, wf_pattern SPlain p = true ->
  keyGet path (print SPlain p) =
  if star p && seg_match p path
  then skipn (List.length (print_segs SPlain (segs p)) + 1) path else [].
Proof. exact keyGet_spec. Qed.
Print Assumptions C09_keyGet.

Theorem C09_keyGet_covers : forall p path, wf_pattern SPlain p = true ->
  star p = true -> seg_match p path = true ->
  path = print_segs SPlain (segs p) ++ "/"%char :: keyGet path (print SPlain p).
Proof. exact keyGet_covers. Qed.
Print Assumptions C09_keyGet_covers.

(* keyGet2 / keyGet3: the value of the first placeholder with that name when the pattern
   matches, "" when it does not match or has no such placeholder *)
Theorem C09_keyGet2 : forall p path name, wf_pattern SColon p = true -> nl_free path = true ->
  keyGet2 path (print SColon p) name =
  Some (match seg_fill p path with
        | Some vs => first_binding name (names_of (segs p)) vs
        | None => []
        end).
Proof. exact keyGet2_spec. Qed.
Print Assumptions C09_keyGet2.

Theorem C09_keyGet3 : forall p path name, wf_pattern SBrace p = true -> nl_free path = true ->
  keyGet3 path (print SBrace p) name =
  Some (match seg_fill p path with
        | Some vs => first_binding name (names_of (segs p)) vs
        | None => []
        end).
Proof. exact keyGet3_spec. Qed.
Print Assumptions C09_keyGet3.

(* "exactly when the corresponding match succeeds": for a name the pattern has, keyGetN is
   non-empty iff keyMatchN is true *)
Theorem C09_keyGet2_iff_match : forall p path name,
  wf_pattern SColon p = true -> nl_free path = true ->
  existsb (str_eqb name) (names_of (segs p)) = true ->
  (keyGet2 path (print SColon p) name <> Some [] <-> keyMatch2 path (print SColon p) = Some true).
Proof. exact keyGet2_iff_match. Qed.
Print Assumptions C09_keyGet2_iff_match.

Theorem C09_keyGet3_iff_match : forall p path name,
  wf_pattern SBrace p = true -> nl_free path = true ->
  existsb (str_eqb name) (names_of (segs p)) = true ->
  (keyGet3 path (print SBrace p) name <> Some [] <-> keyMatch3 path (print SBrace p) = Some true).
Proof. exact keyGet3_iff_match. Qed.
Print Assumptions C09_keyGet3_iff_match.

(* ------------------------------------------------------------------ *)
(* the regexp engine of the model is the textbook semantics: the derivative matcher decides the
   denotational `matches`; the backtracking submatcher returns the captures of a genuine
   decomposition and succeeds iff the matcher does (so leftmost-first priorities cannot change
   the yes/no answer) *)
Theorem C09_regex_matcher : forall s r, rmatch r s = true <-> matches r s.
Proof. exact rmatch_correct. Qed.
Print Assumptions C09_regex_matcher.

Theorem C09_submatch_sound : forall its s cs, bt its s = Some cs -> caps its s cs.
Proof. exact bt_sound. Qed.
Print Assumptions C09_submatch_sound.

Theorem C09_submatch_iff_match : forall its s, is_some (bt its s) = rmatch (re_of_items its) s.
Proof. exact bt_rmatch. Qed.
Print Assumptions C09_submatch_iff_match.

(* ------------------------------------------------------------------ *)
(* purity: whatever the shared regexp cache holds after any history of calls, every call
   returns the value of the pure function (reCache is transparent) *)
Theorem C09_cache_transparent : forall cls, run_calls [] cls = map pure_call cls.
Proof. exact cache_transparent_from_empty. Qed.
Print Assumptions C09_cache_transparent.

Theorem C09_cache_transparent_any : forall cls c, cache_ok c -> run_calls c cls = map pure_call cls.
Proof. exact cache_transparent. Qed.
Print Assumptions C09_cache_transparent_any.

(* the govaluate wrappers: anything but exactly n string arguments is an error, never a panic *)
Theorem C09_wrapper2_rejects : forall (A : Type) (f : list ascii -> list ascii -> fres A) args,
  (Nat.eqb (List.length args) 2 && all_str args) = false -> func2 f args = FErr.
Proof. exact func2_err. Qed.
Print Assumptions C09_wrapper2_rejects.

Theorem C09_wrapper3_rejects :
  forall (A : Type) (f : list ascii -> list ascii -> list ascii -> fres A) args,
  (Nat.eqb (List.length args) 3 && all_str args) = false -> func3 f args = FErr.
Proof. exact func3_err. Qed.
Print Assumptions C09_wrapper3_rejects.

(* ------------------------------------------------------------------ *)
(* ipMatch.  cidr_spec a n ip = Go's family rule (an address is IPv4 when its 16-byte form is
   ::ffff:a.b.c.d, IPv6 otherwise; the families must agree) and then PREFIX ARITHMETIC:
   value(ip) / 2^(bits-n) = value(network) / 2^(bits-n), bits = 32 or 128; a network written
   ::ffff:a.b.c.d/n with n >= 96 is the IPv4 network a.b.c.d/(n-96). *)
Theorem C09_contains_cidr : forall a ones ip,
  addr_ok a = true -> (ones <= bitlen a)%N ->
  List.length ip = 16%nat -> bytes_ok ip = true ->
  exists nip nmask, mk_net a ones = Some (nip, nmask) /\
                    contains nip nmask ip = cidr_spec a ones ip.
Proof. exact contains_cidr. Qed.
Print Assumptions C09_contains_cidr.

(* on texts: whenever ip1 parses and ip2 is "address/prefix" with prefix <= bit length *)
Theorem C09_ipMatch_cidr : forall s1 s2 ip1 atxt mtxt ad n,
  parse_ip s1 = Some ip1 ->
  cut_slash s2 = Some (atxt, mtxt) -> parse_addr atxt = Some ad -> parse_dec mtxt = Some n ->
  (n <= bitlen ad)%N ->
  ipMatch s1 s2 = Some (cidr_spec ad n ip1).
Proof. exact ipMatch_cidr. Qed.
Print Assumptions C09_ipMatch_cidr.

(* ip2 a single address: equality of the 16-byte forms *)
Theorem C09_ipMatch_single : forall s1 s2 ip1 ip2,
  parse_ip s1 = Some ip1 -> parse_cidr s2 = None -> parse_ip s2 = Some ip2 ->
  exists b, ipMatch s1 s2 = Some b /\ (b = true <-> ip1 = ip2).
Proof. exact ipMatch_single. Qed.
Print Assumptions C09_ipMatch_single.

(* IPMatch panics exactly when ip1 is malformed, or ip2 is neither a CIDR nor an address *)
Theorem C09_ipMatch_panics : forall s1 s2,
  ipMatch s1 s2 = None <->
  parse_ip s1 = None \/ (parse_cidr s2 = None /\ parse_ip s2 = None).
Proof. exact ipMatch_panics. Qed.
Print Assumptions C09_ipMatch_panics.

(* ------------------------------------------------------------------ *)
(* guards: what happens outside them (all four are facts about the faithful model, replayed on
   the real code by the harness' "outside" stream) *)

(* nl_free is needed: "/a/*" does not accept "/a/b<LF>c" under KeyMatch2..5 (KeyMatch does) *)
Theorem C09_newline_refuted : exists p path,
  wf_pattern SColon p = true /\ nl_free path = false /\
  keyMatch2 path (print SColon p) <> Some (seg_match p path).
Proof. exact keyMatch2_newline_refuted. Qed.
Print Assumptions C09_newline_refuted.

(* wf_pattern is needed: a regexp metacharacter in a literal is interpreted by regexp *)
Theorem C09_meta_refuted : exists p path,
  wf_pattern SColon p = false /\ nl_free path = true /\
  keyMatch2 path (print SColon p) <> Some (seg_match p path).
Proof. exact keyMatch2_meta_refuted. Qed.
Print Assumptions C09_meta_refuted.

(* ... and a "*" segment that is not last spans segments *)
Theorem C09_inner_star_refuted : exists p path,
  wf_pattern SColon p = false /\ nl_free path = true /\
  keyMatch2 path (print SColon p) <> Some (seg_match p path).
Proof. exact keyMatch2_inner_star_refuted. Qed.
Print Assumptions C09_inner_star_refuted.

Theorem C09_keyMatch_inner_star_refuted : exists p path,
  wf_pattern SPlain p = false /\ keyMatch path (print SPlain p) <> seg_match p path.
Proof. exact keyMatch_inner_star_refuted. Qed.
Print Assumptions C09_keyMatch_inner_star_refuted.

(* ------------------------------------------------------------------ *)
(* non-vacuity *)
Local Open Scope string_scope.

Definition T := list_ascii_of_string.
Definition P2 := {| segs := [Lit (T "api"); Par (T "id"); Lit (T "items"); Par (T "item")]; star := true |}.

Example C09_nonvacuous_keyMatch2 :
  wf_pattern SColon P2 = true /\
  print SColon P2 = T "/api/:id/items/:item/*" /\
  keyMatch2 (T "/api/42/items/7/x/y") (print SColon P2) = Some true /\
  keyMatch2 (T "/api/42/items/7") (print SColon P2) = Some false /\
  keyMatch2 (T "/api//items/7/x") (print SColon P2) = Some false /\
  keyGet2 (T "/api/42/items/7/x/y") (print SColon P2) (T "item") = Some (T "7") /\
  keyGet2 (T "/api/42/items/7") (print SColon P2) (T "item") = Some (T "").
Proof. vm_compute. repeat split. Qed.

Definition P4 := {| segs := [Lit (T "parent"); Par (T "id"); Lit (T "child"); Par (T "id")]; star := false |}.

Example C09_nonvacuous_keyMatch4 :
  wf_pattern SBrace P4 = true /\
  print SBrace P4 = T "/parent/{id}/child/{id}" /\
  keyMatch4 (T "/parent/123/child/123") (print SBrace P4) = Some true /\
  keyMatch4 (T "/parent/123/child/456") (print SBrace P4) = Some false /\
  keyMatch3 (T "/parent/123/child/456") (print SBrace P4) = Some true /\
  keyMatch5 (T "/parent/123/child/456?x=/1") (print SBrace P4) = Some true /\
  keyGet3 (T "/parent/123/child/456") (print SBrace P4) (T "id") = Some (T "123").
Proof. vm_compute. repeat split. Qed.

Example C09_nonvacuous_keyMatch :
  let p := {| segs := [Lit (T "foo")]; star := true |} in
  wf_pattern SPlain p = true /\ print SPlain p = T "/foo/*" /\
  keyMatch (T "/foo/bar/baz") (print SPlain p) = true /\
  keyGet (T "/foo/bar/baz") (print SPlain p) = T "bar/baz" /\
  keyMatch (T "/foo") (print SPlain p) = false /\ keyMatch (T "/foo/") (print SPlain p) = true.
Proof. vm_compute. repeat split. Qed.

Example C09_nonvacuous_ipMatch :
  ipMatch (T "192.168.2.123") (T "192.168.2.0/24") = Some true /\
  ipMatch (T "192.168.3.123") (T "192.168.2.0/24") = Some false /\
  ipMatch (T "2001:db8::1") (T "2001:db8::/32") = Some true /\
  ipMatch (T "2001:db9::1") (T "2001:db8::/32") = Some false /\
  ipMatch (T "::ffff:192.168.2.123") (T "192.168.2.0/24") = Some true /\
  ipMatch (T "192.168.2.123") (T "::/0") = Some false /\       (* families differ *)
  ipMatch (T "192.168.2.123") (T "192.168.2.0/33") = None /\   (* panic *)
  exists ad ip1, parse_addr (T "192.168.2.0") = Some ad /\ parse_ip (T "192.168.2.123") = Some ip1 /\
                 cidr_spec ad 24 ip1 = true.
Proof.
  vm_compute. repeat split. eexists. eexists. repeat split.
Qed.
