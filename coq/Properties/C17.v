(* C17 — Decisions respond monotonically and order-insensitively to policy changes.
   Only final statements live here; each is closed by `exact` and followed by
   Print Assumptions.

   Setting (Meta.v).  `decide mt eftcol blank uses_p has_eval ef policy req` is the enforce loop
   of enforcer.go (lazy evaluation rule by rule, MergeEffects after every rule, break at the
   first decisive effect, policy-free else-branch on an empty policy) over the per-rule vector
   (mt req rule_i, eftcol rule_i).  `mt : request -> rule -> option bool` is an ARBITRARY
   per-rule match function (None = the evaluation on that rule fails), so every statement
   covers keyMatch*, regexMatch, ipMatch, globMatch, user functions and any mixture, with or
   without negation.  `ok o d` = the run returned no error and decided d; `granted o` = the
   caller sees (true, nil).  All statements hold for ALL request/rule types, match functions,
   effect columns, policies of any length and requests. *)
From Coq Require Import List Bool Permutation.
Import ListNotations.
From Casbin Require Import Effect EffectProofs Meta MetaProofs.

(* (0) the model of the loop is exact: for each of the five effects and EVERY vector of lazily
   evaluated slots, the run fails iff an erroring slot comes before the first slot that stops
   the loop; otherwise it decides like the declarative combination of Effect.v. *)
Theorem C17_lazy_loop_exact : forall ef ov, supported ef = true -> ov <> [] ->
  failed (erun ef ov) = reaches_error ef ov /\
  (reaches_error ef ov = false -> decision (erun ef ov) = combine ef (forced ov)) /\
  (reaches_error ef ov = true -> decision (erun ef ov) = false).
Proof. exact erun_spec. Qed.
Print Assumptions C17_lazy_loop_exact.

(* (1) allow-override, arbitrary matcher (negation allowed: a rule's match does not depend on
   the other rules): adding a rule ANYWHERE in the list never turns an allowed request into
   a denied one, provided the new run returns no error.
   Guard nonempty_guard: the old policy is not empty, or the policy-free branch does not
   answer "true" for this request (see C17_add_to_empty_refuted). *)
Theorem C17_allow_monotone_add_rule :
  forall (request rule : Type) (eftcol : rule -> eft) (blank_rule : rule) (uses_p has_eval : bool)
         (mt : request -> rule -> option bool) (p1 p2 : list rule) (r : rule) (req : request),
  nonempty_guard request rule mt blank_rule uses_p (p1 ++ p2) req = true ->
  ok (decide request rule mt eftcol blank_rule uses_p has_eval AllowOverride (p1 ++ p2) req) true ->
  forall d, ok (decide request rule mt eftcol blank_rule uses_p has_eval AllowOverride (p1 ++ r :: p2) req) d ->
  d = true.
Proof. exact allow_monotone_add_rule. Qed.
Print Assumptions C17_allow_monotone_add_rule.

(* (1') AddPolicy appends (no priority column): then no proviso at all — an allowed request stays
   allowed WITHOUT error after appending any number of rules, even rules that fail to
   evaluate, because the deciding rule is reached first. *)
Theorem C17_allow_monotone_append :
  forall (request rule : Type) (eftcol : rule -> eft) (blank_rule : rule) (uses_p has_eval : bool)
         (mt : request -> rule -> option bool) (p q : list rule) (req : request),
  nonempty_guard request rule mt blank_rule uses_p p req = true ->
  ok (decide request rule mt eftcol blank_rule uses_p has_eval AllowOverride p req) true ->
  ok (decide request rule mt eftcol blank_rule uses_p has_eval AllowOverride (p ++ q) req) true.
Proof. exact allow_monotone_append. Qed.
Print Assumptions C17_allow_monotone_append.

(* (1'') the general form: under allow-override the error-free decision is monotone in the SET
   of rules (covers several additions, removals read backwards, and reordering at once). *)
Theorem C17_allow_monotone_incl :
  forall (request rule : Type) (eftcol : rule -> eft) (blank_rule : rule) (uses_p has_eval : bool)
         (mt : request -> rule -> option bool) (small big : list rule) (req : request),
  incl small big ->
  nonempty_guard request rule mt blank_rule uses_p small req = true ->
  ok (decide request rule mt eftcol blank_rule uses_p has_eval AllowOverride small req) true ->
  forall d, ok (decide request rule mt eftcol blank_rule uses_p has_eval AllowOverride big req) d -> d = true.
Proof. exact allow_monotone_incl. Qed.
Print Assumptions C17_allow_monotone_incl.

(* (2) allow-override: removing a rule never grants: a request denied without error is not
   granted after the removal (whether the new run fails or not). Same guard, on the policy
   after the removal. *)
Theorem C17_allow_antitone_remove_rule :
  forall (request rule : Type) (eftcol : rule -> eft) (blank_rule : rule) (uses_p has_eval : bool)
         (mt : request -> rule -> option bool) (p1 p2 : list rule) (r : rule) (req : request),
  nonempty_guard request rule mt blank_rule uses_p (p1 ++ p2) req = true ->
  ok (decide request rule mt eftcol blank_rule uses_p has_eval AllowOverride (p1 ++ r :: p2) req) false ->
  granted (decide request rule mt eftcol blank_rule uses_p has_eval AllowOverride (p1 ++ p2) req) = false.
Proof. exact allow_antitone_remove_rule. Qed.
Print Assumptions C17_allow_antitone_remove_rule.

(* (3) deny-override `!some(where (p.eft == deny))` and allow-and-deny
   `some(where (p.eft == allow)) && !some(where (p.eft == deny))`: adding a rule whose effect is
   deny, anywhere, never grants a request that was denied without error (no guard needed). *)
Theorem C17_deny_override_add_deny :
  forall (request rule : Type) (eftcol : rule -> eft) (blank_rule : rule) (uses_p has_eval : bool)
         (mt : request -> rule -> option bool) (ef : effect_expr) (p1 p2 : list rule) (r : rule) (req : request),
  ef = DenyOverride \/ ef = AllowAndDeny -> eftcol r = Deny ->
  ok (decide request rule mt eftcol blank_rule uses_p has_eval ef (p1 ++ p2) req) false ->
  granted (decide request rule mt eftcol blank_rule uses_p has_eval ef (p1 ++ r :: p2) req) = false.
Proof. exact deny_add_never_grants. Qed.
Print Assumptions C17_deny_override_add_deny.

(* (4) role links.  The matcher is an expression over &&, ||, !, calls g(...) and arbitrary atoms
   (Meta.mexpr; evaluation with govaluate's left-to-right short circuit and error propagation);
   `positive e` = no g() call below a negation; g : linkset -> garg -> bool is ANY link
   relation that is monotone for the order `sub` on link sets.  Then under allow-override
   adding links never revokes (provided the new run returns no error) ... *)
Theorem C17_link_monotone :
  forall (request rule : Type) (eftcol : rule -> eft) (blank_rule : rule) (uses_p has_eval : bool)
         (garg linkset : Type) (g : linkset -> garg -> bool) (sub : linkset -> linkset -> Prop),
  (forall L L' a, sub L L' -> g L a = true -> g L' a = true) ->
  forall (e : mexpr request rule garg) (L L' : linkset) (p : list rule) (req : request),
  positive request rule garg e = true -> sub L L' ->
  ok (decide request rule (meval request rule garg linkset g L e) eftcol blank_rule uses_p has_eval AllowOverride p req) true ->
  forall d, ok (decide request rule (meval request rule garg linkset g L' e) eftcol blank_rule uses_p has_eval AllowOverride p req) d ->
  d = true.
Proof. exact link_monotone. Qed.
Print Assumptions C17_link_monotone.

(* ... and removing links never grants. *)
Theorem C17_link_antitone :
  forall (request rule : Type) (eftcol : rule -> eft) (blank_rule : rule) (uses_p has_eval : bool)
         (garg linkset : Type) (g : linkset -> garg -> bool) (sub : linkset -> linkset -> Prop),
  (forall L L' a, sub L L' -> g L a = true -> g L' a = true) ->
  forall (e : mexpr request rule garg) (L L' : linkset) (p : list rule) (req : request),
  positive request rule garg e = true -> sub L L' ->
  ok (decide request rule (meval request rule garg linkset g L' e) eftcol blank_rule uses_p has_eval AllowOverride p req) false ->
  granted (decide request rule (meval request rule garg linkset g L e) eftcol blank_rule uses_p has_eval AllowOverride p req) = false.
Proof. exact link_antitone. Qed.
Print Assumptions C17_link_antitone.

(* (4') the monotonicity hypothesis is discharged for the default role manager without patterns:
   HasLink = bounded frontier search (maxHierarchyLevel = 10) over the listed links is monotone
   for set inclusion of link lists, with and without domains.  For pattern-matching role
   managers monotonicity of HasLink is an assumption of (4), exercised on the code by the
   metamorphic runs of the harness. *)
Theorem C17_has_link_monotone :
  forall (name : Type) (name_eqb : name -> name -> bool) (L L' : list (name * name)) (a : name * name),
  incl L L' -> has_link name name_eqb L a = true -> has_link name name_eqb L' a = true.
Proof. exact has_link_monotone. Qed.
Print Assumptions C17_has_link_monotone.

Theorem C17_has_link_dom_monotone :
  forall (name : Type) (name_eqb : name -> name -> bool) (dom : Type) (dom_eqb : dom -> dom -> bool)
         (L L' : list (name * name * dom)) (a : name * name * dom),
  incl L L' -> has_link_dom name name_eqb dom dom_eqb L a = true ->
  has_link_dom name name_eqb dom dom_eqb L' a = true.
Proof. exact has_link_dom_monotone. Qed.
Print Assumptions C17_has_link_dom_monotone.

Theorem C17_link_monotone_default_rm :
  forall (request rule : Type) (eftcol : rule -> eft) (blank_rule : rule) (uses_p has_eval : bool)
         (name : Type) (name_eqb : name -> name -> bool)
         (e : mexpr request rule (name * name)) (L L' : list (name * name)) (p : list rule) (req : request),
  positive request rule (name * name) e = true -> incl L L' ->
  ok (decide request rule (meval request rule (name * name) (list (name * name)) (has_link name name_eqb) L e)
             eftcol blank_rule uses_p has_eval AllowOverride p req) true ->
  forall d,
  ok (decide request rule (meval request rule (name * name) (list (name * name)) (has_link name name_eqb) L' e)
             eftcol blank_rule uses_p has_eval AllowOverride p req) d -> d = true.
Proof. exact link_monotone_default. Qed.
Print Assumptions C17_link_monotone_default_rm.

Theorem C17_link_monotone_default_rm_domains :
  forall (request rule : Type) (eftcol : rule -> eft) (blank_rule : rule) (uses_p has_eval : bool)
         (name : Type) (name_eqb : name -> name -> bool) (dom : Type) (dom_eqb : dom -> dom -> bool)
         (e : mexpr request rule (name * name * dom)) (L L' : list (name * name * dom)) (p : list rule) (req : request),
  positive request rule (name * name * dom) e = true -> incl L L' ->
  ok (decide request rule (meval request rule (name * name * dom) (list (name * name * dom))
                                 (has_link_dom name name_eqb dom dom_eqb) L e)
             eftcol blank_rule uses_p has_eval AllowOverride p req) true ->
  forall d,
  ok (decide request rule (meval request rule (name * name * dom) (list (name * name * dom))
                                 (has_link_dom name name_eqb dom dom_eqb) L' e)
             eftcol blank_rule uses_p has_eval AllowOverride p req) d -> d = true.
Proof. exact link_monotone_default_dom. Qed.
Print Assumptions C17_link_monotone_default_rm_domains.

(* (5) the three non-priority effects, arbitrary matcher: permuting the rules leaves every
   error-free decision unchanged.  "Error-free" is about the two ACTUAL runs: because the loop
   stops at the deciding rule, a rule that fails to evaluate may be reached in one order and
   not in the other (C17_perm_error_refuted), so the statement compares the runs that return
   no error; it does not require that every rule evaluates. *)
Theorem C17_perm_invariant :
  forall (request rule : Type) (eftcol : rule -> eft) (blank_rule : rule) (uses_p has_eval : bool)
         (mt : request -> rule -> option bool) (ef : effect_expr) (p p' : list rule) (req : request) (d d' : bool),
  order_insensitive_effect ef = true -> Permutation p p' ->
  ok (decide request rule mt eftcol blank_rule uses_p has_eval ef p req) d ->
  ok (decide request rule mt eftcol blank_rule uses_p has_eval ef p' req) d' -> d = d'.
Proof. exact perm_invariant. Qed.
Print Assumptions C17_perm_invariant.

(* (5') when every rule evaluates for the request, every order returns no error and the same
   decision. *)
Theorem C17_perm_invariant_total :
  forall (request rule : Type) (eftcol : rule -> eft) (blank_rule : rule) (uses_p has_eval : bool)
         (mt : request -> rule -> option bool) (ef : effect_expr) (p p' : list rule) (req : request),
  order_insensitive_effect ef = true -> Permutation p p' ->
  forallb evaluated (vec request rule mt eftcol p req) = true ->
  failed (decide request rule mt eftcol blank_rule uses_p has_eval ef p' req) =
  failed (decide request rule mt eftcol blank_rule uses_p has_eval ef p req) /\
  decision (decide request rule mt eftcol blank_rule uses_p has_eval ef p' req) =
  decision (decide request rule mt eftcol blank_rule uses_p has_eval ef p req).
Proof. exact perm_invariant_total. Qed.
Print Assumptions C17_perm_invariant_total.

(* (6) duplicates, on the ordered-set semantics of the store (AddPolicy refuses a listed rule and
   otherwise appends; RemovePolicy cuts the rule out): adding a listed rule changes nothing;
   adding a new rule and removing it restores the list, hence every outcome under EVERY
   effect; removing a listed rule and adding it back moves it to the end, which the error-free
   decisions of the non-priority effects do not notice. *)
Theorem C17_dup_add_neutral :
  forall (request rule : Type) (rule_eq_dec : forall a b : rule, {a = b} + {a <> b})
         (mt : request -> rule -> option bool) (eftcol : rule -> eft) (blank_rule : rule) (uses_p has_eval : bool)
         (ef : effect_expr) (r : rule) (p : list rule) (req : request),
  In r p ->
  store_add rule rule_eq_dec r p = p /\
  decide request rule mt eftcol blank_rule uses_p has_eval ef (store_add rule rule_eq_dec r p) req =
  decide request rule mt eftcol blank_rule uses_p has_eval ef p req.
Proof. exact dup_add_neutral. Qed.
Print Assumptions C17_dup_add_neutral.

Theorem C17_dup_add_remove_neutral :
  forall (request rule : Type) (rule_eq_dec : forall a b : rule, {a = b} + {a <> b})
         (mt : request -> rule -> option bool) (eftcol : rule -> eft) (blank_rule : rule) (uses_p has_eval : bool)
         (ef : effect_expr) (r : rule) (p : list rule) (req : request),
  ~ In r p ->
  store_remove rule rule_eq_dec r (store_add rule rule_eq_dec r p) = p /\
  decide request rule mt eftcol blank_rule uses_p has_eval ef
         (store_remove rule rule_eq_dec r (store_add rule rule_eq_dec r p)) req =
  decide request rule mt eftcol blank_rule uses_p has_eval ef p req.
Proof. exact add_remove_neutral. Qed.
Print Assumptions C17_dup_add_remove_neutral.

Theorem C17_remove_readd_neutral :
  forall (request rule : Type) (rule_eq_dec : forall a b : rule, {a = b} + {a <> b})
         (mt : request -> rule -> option bool) (eftcol : rule -> eft) (blank_rule : rule) (uses_p has_eval : bool)
         (ef : effect_expr) (r : rule) (p : list rule) (req : request) (d d' : bool),
  order_insensitive_effect ef = true -> NoDup p -> In r p ->
  ok (decide request rule mt eftcol blank_rule uses_p has_eval ef p req) d ->
  ok (decide request rule mt eftcol blank_rule uses_p has_eval ef
             (store_add rule rule_eq_dec r (store_remove rule rule_eq_dec r p)) req) d' -> d = d'.
Proof. exact remove_readd_neutral. Qed.
Print Assumptions C17_remove_readd_neutral.

(* (7) reloading the same rules and the same links in another order: with a link relation that
   is monotone for list inclusion (hence a function of the SET of links), an arbitrary matcher
   (negation allowed) and a non-priority effect, every error-free decision is unchanged;
   instantiated for the default role manager with and without domains. *)
Theorem C17_reload_other_order :
  forall (request rule : Type) (eftcol : rule -> eft) (blank_rule : rule) (uses_p has_eval : bool)
         (garg link : Type) (g : list link -> garg -> bool) (e : mexpr request rule garg) (ef : effect_expr)
         (L L' : list link) (p p' : list rule) (req : request) (d d' : bool),
  (forall K K' a, incl K K' -> g K a = true -> g K' a = true) ->
  order_insensitive_effect ef = true ->
  Permutation p p' -> (forall x, In x L <-> In x L') ->
  ok (decide request rule (meval request rule garg (list link) g L e) eftcol blank_rule uses_p has_eval ef p req) d ->
  ok (decide request rule (meval request rule garg (list link) g L' e) eftcol blank_rule uses_p has_eval ef p' req) d' ->
  d = d'.
Proof. exact reload_other_order. Qed.
Print Assumptions C17_reload_other_order.

Theorem C17_reload_other_order_default_rm :
  forall (request rule : Type) (eftcol : rule -> eft) (blank_rule : rule) (uses_p has_eval : bool)
         (name : Type) (name_eqb : name -> name -> bool)
         (e : mexpr request rule (name * name)) (ef : effect_expr)
         (L L' : list (name * name)) (p p' : list rule) (req : request) (d d' : bool),
  order_insensitive_effect ef = true -> Permutation p p' -> Permutation L L' ->
  ok (decide request rule (meval request rule (name * name) (list (name * name)) (has_link name name_eqb) L e)
             eftcol blank_rule uses_p has_eval ef p req) d ->
  ok (decide request rule (meval request rule (name * name) (list (name * name)) (has_link name name_eqb) L' e)
             eftcol blank_rule uses_p has_eval ef p' req) d' -> d = d'.
Proof. exact reload_other_order_default. Qed.
Print Assumptions C17_reload_other_order_default_rm.

Theorem C17_reload_other_order_default_rm_domains :
  forall (request rule : Type) (eftcol : rule -> eft) (blank_rule : rule) (uses_p has_eval : bool)
         (name : Type) (name_eqb : name -> name -> bool) (dom : Type) (dom_eqb : dom -> dom -> bool)
         (e : mexpr request rule (name * name * dom)) (ef : effect_expr)
         (L L' : list (name * name * dom)) (p p' : list rule) (req : request) (d d' : bool),
  order_insensitive_effect ef = true -> Permutation p p' -> Permutation L L' ->
  ok (decide request rule (meval request rule (name * name * dom) (list (name * name * dom))
                                 (has_link_dom name name_eqb dom dom_eqb) L e)
             eftcol blank_rule uses_p has_eval ef p req) d ->
  ok (decide request rule (meval request rule (name * name * dom) (list (name * name * dom))
                                 (has_link_dom name name_eqb dom dom_eqb) L' e)
             eftcol blank_rule uses_p has_eval ef p' req) d' -> d = d'.
Proof. exact reload_other_order_default_dom. Qed.
Print Assumptions C17_reload_other_order_default_rm_domains.

(* (8) the decision function depends only on the SET of listed rules and links, not on the order
   nor on the way they were added and removed.  `hrun` (Meta.v) is the listing after a history of
   Add / Remove calls on the ordered-set store, from the empty store.
   (8a) same listed rules in the same order, link lists with the same members (whatever the two
   histories of AddGroupingPolicy / RemoveGroupingPolicy calls that produced them, redundant or
   transitive links added and removed on the way): the WHOLE outcome (decision, error,
   explanation) is the same under EVERY effect, priority effects included. *)
Theorem C17_links_only_set :
  forall (request rule : Type) (eftcol : rule -> eft) (blank_rule : rule) (uses_p has_eval : bool)
         (garg link : Type) (g : list link -> garg -> bool),
  (forall K K' a, incl K K' -> g K a = true -> g K' a = true) ->
  forall (e : mexpr request rule garg) (ef : effect_expr) (L L' : list link) (p : list rule) (req : request),
  (forall x, In x L <-> In x L') ->
  decide request rule (meval request rule garg (list link) g L e) eftcol blank_rule uses_p has_eval ef p req =
  decide request rule (meval request rule garg (list link) g L' e) eftcol blank_rule uses_p has_eval ef p req.
Proof. exact links_only_set. Qed.
Print Assumptions C17_links_only_set.

(* the default role managers ARE functions of the link set *)
Theorem C17_has_link_set :
  forall (name : Type) (name_eqb : name -> name -> bool) (L L' : list (name * name)) (a : name * name),
  (forall x, In x L <-> In x L') -> has_link name name_eqb L a = has_link name name_eqb L' a.
Proof. exact has_link_set. Qed.
Print Assumptions C17_has_link_set.

Theorem C17_has_link_dom_set :
  forall (name : Type) (name_eqb : name -> name -> bool) (dom : Type) (dom_eqb : dom -> dom -> bool)
         (L L' : list (name * name * dom)) (a : name * name * dom),
  (forall x, In x L <-> In x L') ->
  has_link_dom name name_eqb dom dom_eqb L a = has_link_dom name name_eqb dom dom_eqb L' a.
Proof. exact has_link_dom_set. Qed.
Print Assumptions C17_has_link_dom_set.

(* (8b) ANY two histories of add / remove calls for rules and for links that end with the same
   sets of listed rules and of listed links: under a non-priority effect every error-free
   decision is the same (arbitrary matcher, negation allowed). *)
Theorem C17_history_independent :
  forall (request rule : Type) (rule_eq_dec : forall a b : rule, {a = b} + {a <> b})
         (eftcol : rule -> eft) (blank_rule : rule) (uses_p has_eval : bool)
         (garg link : Type) (link_eq_dec : forall a b : link, {a = b} + {a <> b})
         (g : list link -> garg -> bool),
  (forall K K' a, incl K K' -> g K a = true -> g K' a = true) ->
  forall (e : mexpr request rule garg) (ef : effect_expr)
         (hp hp' : list (hop rule)) (hg hg' : list (hop link)) (req : request) (d d' : bool),
  order_insensitive_effect ef = true ->
  (forall x, In x (hrun rule rule_eq_dec hp []) <-> In x (hrun rule rule_eq_dec hp' [])) ->
  (forall x, In x (hrun link link_eq_dec hg []) <-> In x (hrun link link_eq_dec hg' [])) ->
  ok (decide request rule (meval request rule garg (list link) g (hrun link link_eq_dec hg []) e)
             eftcol blank_rule uses_p has_eval ef (hrun rule rule_eq_dec hp []) req) d ->
  ok (decide request rule (meval request rule garg (list link) g (hrun link link_eq_dec hg' []) e)
             eftcol blank_rule uses_p has_eval ef (hrun rule rule_eq_dec hp' []) req) d' ->
  d = d'.
Proof. exact history_independent. Qed.
Print Assumptions C17_history_independent.

Theorem C17_history_independent_default_rm :
  forall (request rule : Type) (rule_eq_dec : forall a b : rule, {a = b} + {a <> b})
         (eftcol : rule -> eft) (blank_rule : rule) (uses_p has_eval : bool)
         (name : Type) (name_eqb : name -> name -> bool)
         (link_eq_dec : forall a b : name * name, {a = b} + {a <> b})
         (e : mexpr request rule (name * name)) (ef : effect_expr)
         (hp hp' : list (hop rule)) (hg hg' : list (hop (name * name))) (req : request) (d d' : bool),
  order_insensitive_effect ef = true ->
  (forall x, In x (hrun rule rule_eq_dec hp []) <-> In x (hrun rule rule_eq_dec hp' [])) ->
  (forall x, In x (hrun (name * name) link_eq_dec hg []) <-> In x (hrun (name * name) link_eq_dec hg' [])) ->
  ok (decide request rule (meval request rule (name * name) (list (name * name)) (has_link name name_eqb)
                                 (hrun (name * name) link_eq_dec hg []) e)
             eftcol blank_rule uses_p has_eval ef (hrun rule rule_eq_dec hp []) req) d ->
  ok (decide request rule (meval request rule (name * name) (list (name * name)) (has_link name name_eqb)
                                 (hrun (name * name) link_eq_dec hg' []) e)
             eftcol blank_rule uses_p has_eval ef (hrun rule rule_eq_dec hp' []) req) d' ->
  d = d'.
Proof. exact history_independent_default. Qed.
Print Assumptions C17_history_independent_default_rm.

Theorem C17_history_independent_default_rm_domains :
  forall (request rule : Type) (rule_eq_dec : forall a b : rule, {a = b} + {a <> b})
         (eftcol : rule -> eft) (blank_rule : rule) (uses_p has_eval : bool)
         (name : Type) (name_eqb : name -> name -> bool) (dom : Type) (dom_eqb : dom -> dom -> bool)
         (dlink_eq_dec : forall a b : name * name * dom, {a = b} + {a <> b})
         (e : mexpr request rule (name * name * dom)) (ef : effect_expr)
         (hp hp' : list (hop rule)) (hg hg' : list (hop (name * name * dom))) (req : request) (d d' : bool),
  order_insensitive_effect ef = true ->
  (forall x, In x (hrun rule rule_eq_dec hp []) <-> In x (hrun rule rule_eq_dec hp' [])) ->
  (forall x, In x (hrun (name * name * dom) dlink_eq_dec hg []) <-> In x (hrun (name * name * dom) dlink_eq_dec hg' [])) ->
  ok (decide request rule (meval request rule (name * name * dom) (list (name * name * dom))
                                 (has_link_dom name name_eqb dom dom_eqb) (hrun (name * name * dom) dlink_eq_dec hg []) e)
             eftcol blank_rule uses_p has_eval ef (hrun rule rule_eq_dec hp []) req) d ->
  ok (decide request rule (meval request rule (name * name * dom) (list (name * name * dom))
                                 (has_link_dom name name_eqb dom dom_eqb) (hrun (name * name * dom) dlink_eq_dec hg' []) e)
             eftcol blank_rule uses_p has_eval ef (hrun rule rule_eq_dec hp' []) req) d' ->
  d = d'.
Proof. exact history_independent_default_dom. Qed.
Print Assumptions C17_history_independent_default_rm_domains.

(* ---------- the hypotheses matter (refuted counterparts, by computation) ---------- *)

(* negation above g(): with m = !g(r.sub, p.sub) adding a link revokes *)
Theorem C17_negation_refuted :
  exists (L L' : list (nat * nat)) (p : list nat) (req : nat), incl L L' /\
    positive nat nat (nat * nat) ex_neg = false /\
    ok (ex_ldec ex_neg L AllowOverride p req) true /\
    ok (ex_ldec ex_neg L' AllowOverride p req) false.
Proof. exact negation_refuted. Qed.
Print Assumptions C17_negation_refuted.

(* the priority effect: a permutation changes an error-free decision *)
Theorem C17_priority_perm_refuted :
  exists (p p' : list nat) (req : nat), Permutation p p' /\
    ok (decide nat nat ex_any ex_eft 0 true false Priority p req) true /\
    ok (decide nat nat ex_any ex_eft 0 true false Priority p' req) false.
Proof. exact priority_perm_refuted. Qed.
Print Assumptions C17_priority_perm_refuted.

(* early break: a permutation turns an error-free allowed run into a failing one *)
Theorem C17_perm_error_refuted :
  exists (p p' : list nat) (req : nat), Permutation p p' /\
    ok (ex_dec AllowOverride p req) true /\ failed (ex_dec AllowOverride p' req) = true.
Proof. exact perm_error_refuted. Qed.
Print Assumptions C17_perm_error_refuted.

(* without the proviso of (1): inserting a rule that fails to evaluate in front of the deciding
   rule turns allowed into an error *)
Theorem C17_insert_error_refuted :
  exists (p1 p2 : list nat) (r req : nat),
    ok (ex_dec AllowOverride (p1 ++ p2) req) true /\
    failed (ex_dec AllowOverride (p1 ++ r :: p2) req) = true /\
    granted (ex_dec AllowOverride (p1 ++ r :: p2) req) = false.
Proof. exact insert_error_refuted. Qed.
Print Assumptions C17_insert_error_refuted.

(* without the guard of (1)/(2): the empty policy grants the request whose fields equal the empty
   policy fields; adding a rule revokes it, removing the only rule grants it *)
Theorem C17_add_to_empty_refuted :
  exists (r req : nat),
    nonempty_guard nat nat ex_mt 0 true [] req = false /\
    granted (ex_dec AllowOverride [] req) = true /\
    ok (ex_dec AllowOverride [r] req) false.
Proof. exact add_to_empty_refuted. Qed.
Print Assumptions C17_add_to_empty_refuted.

(* ---------- non-vacuity ---------- *)
(* a negation-free matcher g(r.sub, p.sub) && <atom> over a two-step role chain: request 1 is
   granted through 1 -> 2 -> 3 by the rule for 3, not granted with the second link missing,
   and still granted after adding an unrelated link: hypotheses of (4) met non-trivially *)
Example C17_nonvacuous_links :
  let L := [(1, 2); (2, 3)] in let L' := (4, 5) :: L in
  positive nat nat (nat * nat) ex_pos = true /\ incl L L' /\
  ok (ex_ldec ex_pos L AllowOverride [5; 3] 1) true /\
  ok (ex_ldec ex_pos [(1, 2)] AllowOverride [5; 3] 1) false /\
  ok (ex_ldec ex_pos L' AllowOverride [5; 3] 1) true.
Proof. exact link_monotone_nonvacuous. Qed.

(* rules: a policy with a failing rule BEHIND the deciding one is error-free and allowed, the
   guard holds, and appending / inserting keeps it allowed: hypotheses of (1), (1') met *)
Example C17_nonvacuous_rules :
  nonempty_guard nat nat ex_mt 0 true [3; 1; 9] 1 = true /\
  ok (ex_dec AllowOverride [3; 1; 9] 1) true /\
  ok (ex_dec AllowOverride ([3; 1; 9] ++ [9; 4]) 1) true /\
  ok (ex_dec AllowOverride [3; 1] 2) false /\
  ok (ex_dec AllowOverride [3; 2; 1] 2) true.
Proof. vm_compute. repeat split. Qed.

(* histories: "alice -> editor, editor -> admin, alice -> admin (redundant when added), editor ->
   admin removed" and "alice -> admin, alice -> editor" list the same link set (in different
   orders); the request is granted after both and would not be with the direct link missing *)
Example C17_nonvacuous_histories :
  hrun _ ex_link_dec ex_hist_a [] = [(1, 2); (1, 3)] /\
  hrun _ ex_link_dec ex_hist_b [] = [(1, 3); (1, 2)] /\
  ok (ex_ldec ex_pos (hrun _ ex_link_dec ex_hist_a []) AllowOverride [5; 3] 1) true /\
  ok (ex_ldec ex_pos (hrun _ ex_link_dec ex_hist_b []) AllowOverride [3; 5] 1) true /\
  ok (ex_ldec ex_pos [(1, 2)] AllowOverride [5; 3] 1) false.
Proof. exact history_nonvacuous. Qed.
