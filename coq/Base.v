(* Base.v — strings, rules, the index key (strings.Join(rule, ",")), association maps,
   strconv.Atoi.  Definitions only; proofs are in BaseProofs.v. *)
From Coq Require Import List String Ascii Bool Arith ZArith.
Import ListNotations.
Local Open Scope string_scope.

Notation rule := (list string) (only parsing).

Definition comma : ascii := ","%char.

(* strings.Join(l, ",") *)
Fixpoint join (l : list string) : string :=
  match l with
  | [] => ""
  | [x] => x
  | x :: xs => x ++ String comma (join xs)
  end.

Definition key (r : rule) : string := join r.

Fixpoint has_comma (s : string) : bool :=
  match s with
  | EmptyString => false
  | String c t => Ascii.eqb c comma || has_comma t
  end.

(* the guard under which two distinct rules are never confused: non-empty, no field contains ',' *)
Definition wf_rule (r : rule) : bool :=
  match r with [] => false | _ => forallb (fun f => negb (has_comma f)) r end.

(* strings.Split(s, ","): always a non-empty list *)
Fixpoint split_comma (s : string) : list string :=
  match s with
  | EmptyString => [""]
  | String c t =>
      if Ascii.eqb c comma then "" :: split_comma t
      else match split_comma t with
           | [] => [String c ""]
           | h :: r => String c h :: r
           end
  end.

Fixpoint list_eqb {A} (eqb : A -> A -> bool) (a b : list A) : bool :=
  match a, b with
  | [], [] => true
  | x :: a', y :: b' => eqb x y && list_eqb eqb a' b'
  | _, _ => false
  end.
Definition rule_eqb (a b : rule) : bool := list_eqb String.eqb a b.
Definition mem_str (x : string) (l : list string) : bool := existsb (String.eqb x) l.
Definition mem_rule (x : rule) (l : list rule) : bool := existsb (rule_eqb x) l.

(* ---------- string-keyed association maps (Go map[string]T) ---------- *)
Notation smap A := (list (string * A)) (only parsing).

Fixpoint lookup {A} (k : string) (m : smap A) : option A :=
  match m with
  | [] => None
  | (k', v) :: t => if String.eqb k k' then Some v else lookup k t
  end.
Definition set {A} (k : string) (v : A) (m : smap A) : smap A := (k, v) :: m.
Definition del {A} (k : string) (m : smap A) : smap A :=
  filter (fun p => negb (String.eqb k (fst p))) m.

(* ---------- strconv.Atoi (base 10, optional sign, int64 range) ---------- *)
Definition digit_of (c : ascii) : option Z :=
  let n := Z.of_nat (nat_of_ascii c) in
  if (48 <=? n)%Z && (n <=? 57)%Z then Some (n - 48)%Z else None.

Fixpoint digits_val (s : string) (acc : Z) : option Z :=
  match s with
  | EmptyString => Some acc
  | String c t => match digit_of c with
                  | Some d => digits_val t (acc * 10 + d)%Z
                  | None => None
                  end
  end.

Definition max_int64 : Z := 9223372036854775807%Z.

Definition atoi (s : string) : option Z :=
  let body (neg : bool) (t : string) :=
    match t with
    | EmptyString => None
    | _ => match digits_val t 0%Z with
           | Some v => if neg then (if (v <=? max_int64 + 1)%Z then Some (- v)%Z else None)
                       else (if (v <=? max_int64)%Z then Some v else None)
           | None => None
           end
    end in
  match s with
  | EmptyString => None
  | String c t =>
      if Ascii.eqb c "-"%char then body true t
      else if Ascii.eqb c "+"%char then body false t
      else body false s
  end.

(* replace the element at index i *)
Fixpoint set_nth {A} (i : nat) (x : A) (l : list A) : list A :=
  match l, i with
  | [], _ => []
  | _ :: t, 0 => x :: t
  | h :: t, S j => h :: set_nth j x t
  end.
