(* MachineProofs.v — invariants of the management-API state machine over every operation:
   frame lemmas, store invariants, role links mirror the listed grouping rules (C05). *)
From Coq Require Import List String Bool Arith ZArith Lia Permutation.
Import ListNotations.
From Casbin Require Import Base BaseProofs Store StoreProofs Roles RolesProofs Priority Machine.

(* ---------- projections through the state updates ---------- *)
Lemma lookup_set_del {A} k k' (v : A) m : lookup k' (set k v (del k m)) = if String.eqb k' k then Some v else lookup k' m.
Proof. rewrite lookup_set. destruct (String.eqb k' k) eqn:E; [reflexivity|]. rewrite lookup_del, E. reflexivity. Qed.

Lemma get_store_with_store s pt st pt' :
  get_store (with_store s pt st) pt' = if String.eqb pt' pt then st else get_store s pt'.
Proof. unfold get_store, with_store. cbn [stores]. rewrite lookup_set_del. destruct (String.eqb pt' pt); reflexivity. Qed.
Lemma get_links_with_store s pt st pt' : get_links (with_store s pt st) pt' = get_links s pt'.
Proof. reflexivity. Qed.
Lemma get_store_with_links s pt l pt' : get_store (with_links s pt l) pt' = get_store s pt'.
Proof. reflexivity. Qed.
Lemma get_links_with_links s pt l pt' :
  get_links (with_links s pt l) pt' = if String.eqb pt' pt then l else get_links s pt'.
Proof. unfold get_links, with_links. cbn [rlinks]. rewrite lookup_set_del. destruct (String.eqb pt' pt); reflexivity. Qed.
Lemma get_store_with_ad s a pt : get_store (with_ad s a) pt = get_store s pt. Proof. reflexivity. Qed.
Lemma get_links_with_ad s a pt : get_links (with_ad s a) pt = get_links s pt. Proof. reflexivity. Qed.
Lemma get_store_invalidate s pt : get_store (invalidate s) pt = get_store s pt. Proof. reflexivity. Qed.
Lemma get_links_invalidate s pt : get_links (invalidate s) pt = get_links s pt. Proof. reflexivity. Qed.

(* what an operation may do to memory is described on the pair (stores, links) *)
Definition same_mem (s s' : mstate) : Prop :=
  (forall pt, get_store s' pt = get_store s pt) /\ (forall pt, get_links s' pt = get_links s pt).
Lemma same_mem_refl s : same_mem s s. Proof. split; reflexivity. Qed.

Lemma persist_mem s call : same_mem s (fst (fst (persist s call))).
Proof.
  unfold persist. destruct (autosave s); [|apply same_mem_refl].
  destruct (adapter_call (ad s) call) as [[a ok] old]. cbn [fst]. split; reflexivity.
Qed.
Lemma persist_flags s call :
  let s' := fst (fst (persist s call)) in
  autosave s' = autosave s /\ autonotify s' = autonotify s /\ watcher s' = watcher s /\ wlog s' = wlog s.
Proof.
  unfold persist. destruct (autosave s) eqn:E; [|cbn [fst]; rewrite E; auto].
  destruct (adapter_call (ad s) call) as [[a ok] old]. cbn [fst with_ad autosave autonotify watcher wlog]. auto.
Qed.

(* ---------- links_update ---------- *)
Definition links_of (count : nat) (rs : list rule) : list link :=
  flat_map (fun r => match link_of_rule count r with Some l => [l] | None => [] end) rs.

Definition exact_arity (count : nat) (rs : list rule) : Prop := forall r, In r rs -> List.length r = count.

Lemma link_of_rule_exact count r : (count = 2 \/ count = 3) -> List.length r = count ->
  exists l, link_of_rule count r = Some l.
Proof.
  intros [->| ->] H; unfold link_of_rule; rewrite H; cbn [Nat.ltb Nat.leb].
  - destruct r as [|u [|ro [|x t]]]; try discriminate. eauto.
  - destruct r as [|u [|ro [|d [|x t]]]]; try discriminate. eauto.
Qed.

Lemma link_of_rule_inj count r1 r2 l : (count = 2 \/ count = 3) ->
  List.length r1 = count -> List.length r2 = count ->
  link_of_rule count r1 = Some l -> link_of_rule count r2 = Some l -> r1 = r2.
Proof.
  intros [->| ->] H1 H2; unfold link_of_rule; rewrite H1, H2; cbn [Nat.ltb Nat.leb].
  - destruct r1 as [|u1 [|o1 [|x1 t1]]]; try discriminate. destruct r2 as [|u2 [|o2 [|x2 t2]]]; try discriminate. congruence.
  - destruct r1 as [|u1 [|o1 [|d1 [|x1 t1]]]]; try discriminate. destruct r2 as [|u2 [|o2 [|d2 [|x2 t2]]]]; try discriminate. congruence.
Qed.

Lemma links_of_In count rs l : In l (links_of count rs) <-> exists r, In r rs /\ link_of_rule count r = Some l.
Proof.
  unfold links_of. rewrite in_flat_map. split.
  - intros [r [Hr Hl]]. exists r. split; [exact Hr|]. destruct (link_of_rule count r); [destruct Hl as [->|[]]; reflexivity|contradiction].
  - intros [r [Hr E]]. exists r. split; [exact Hr|]. rewrite E. left. reflexivity.
Qed.

Lemma build_incremental_add count rs : forall ls, (count = 2 \/ count = 3) -> exact_arity count rs ->
  exists ls', build_incremental count true rs ls = (ls', true) /\
    forall l, In l ls' <-> In l ls \/ In l (links_of count rs).
Proof.
  induction rs as [|r t IH]; intros ls Hc Ha; cbn [build_incremental].
  - exists ls. split; [reflexivity|]. intros l. cbn. tauto.
  - destruct (link_of_rule_exact count r Hc (Ha r (or_introl eq_refl))) as [lk E]. rewrite E.
    destruct (IH (add_link lk ls) Hc (fun x Hx => Ha x (or_intror Hx))) as [ls' [B H]].
    exists ls'. split; [exact B|]. intros l. rewrite H, add_link_In. unfold links_of. cbn [flat_map]. rewrite E.
    cbn [app In]. fold (links_of count t). intuition.
Qed.

Lemma build_incremental_del count rs : forall ls, (count = 2 \/ count = 3) -> exact_arity count rs ->
  exists ls', build_incremental count false rs ls = (ls', true) /\
    forall l, In l ls' <-> In l ls /\ ~ In l (links_of count rs).
Proof.
  induction rs as [|r t IH]; intros ls Hc Ha; cbn [build_incremental].
  - exists ls. split; [reflexivity|]. intros l. cbn. tauto.
  - destruct (link_of_rule_exact count r Hc (Ha r (or_introl eq_refl))) as [lk E]. rewrite E.
    destruct (IH (del_link lk ls) Hc (fun x Hx => Ha x (or_intror Hx))) as [ls' [B H]].
    exists ls'. split; [exact B|]. intros l. rewrite H, del_link_In. unfold links_of. cbn [flat_map]. rewrite E.
    cbn [app In]. fold (links_of count t). intuition.
Qed.

(* ---------- memory effect of the building blocks ---------- *)
Definition mem_change (s s' : mstate) (pt : string) (st' : store) (ls' : list link) : Prop :=
  (forall pt', get_store s' pt' = if String.eqb pt' pt then st' else get_store s pt') /\
  (forall pt', get_links s' pt' = if String.eqb pt' pt then ls' else get_links s pt').

Lemma same_mem_trans a b c : same_mem a b -> same_mem b c -> same_mem a c.
Proof. intros [S1 L1] [S2 L2]. split; intros pt; [rewrite S2; apply S1|rewrite L2; apply L1]. Qed.

Lemma mem_change_pre a b c pt st ls : same_mem a b -> mem_change b c pt st ls -> mem_change a c pt st ls.
Proof.
  intros [S1 L1] [S2 L2]. split; intros pt'; [rewrite S2|rewrite L2]; destruct (String.eqb pt' pt); auto.
Qed.
Lemma mem_change_post a b c pt st ls : mem_change a b pt st ls -> same_mem b c -> mem_change a c pt st ls.
Proof. intros [S1 L1] [S2 L2]. split; intros pt'; [rewrite S2; apply S1|rewrite L2; apply L1]. Qed.

Lemma mem_change_store s pt st : mem_change s (with_store s pt st) pt st (get_links s pt).
Proof.
  split; intros pt'; [apply get_store_with_store|]. rewrite get_links_with_store.
  destruct (String.eqb pt' pt) eqn:E; [apply String.eqb_eq in E; subst; reflexivity|reflexivity].
Qed.

Lemma mem_change_seq a b c pt st1 ls1 st2 ls2 :
  mem_change a b pt st1 ls1 -> mem_change b c pt st2 ls2 -> mem_change a c pt st2 ls2.
Proof.
  intros [S1 L1] [S2 L2]. split; intros pt'; [rewrite S2|rewrite L2]; destruct (String.eqb pt' pt) eqn:E; auto.
  - rewrite S1, E. reflexivity.
  - rewrite L1, E. reflexivity.
Qed.

Lemma links_update_mem d s pt adding rs :
  mem_change s (fst (links_update d s pt adding rs)) pt (get_store s pt)
             (fst (build_incremental (a_arity d) adding rs (get_links s pt))) /\
  snd (links_update d s pt adding rs) = snd (build_incremental (a_arity d) adding rs (get_links s pt)).
Proof.
  unfold links_update. rewrite get_links_invalidate.
  destruct (build_incremental (a_arity d) adding rs (get_links s pt)) as [l ok]. cbn [fst snd]. split; [|reflexivity].
  split; intros pt'.
  - rewrite get_store_with_links, get_store_invalidate. destruct (String.eqb pt' pt) eqn:E; [apply String.eqb_eq in E; subst|]; reflexivity.
  - rewrite get_links_with_links, get_links_invalidate. reflexivity.
Qed.

Lemma notify_mem cfg s res ex upd : same_mem s (notify cfg s res ex upd).
Proof.
  unfold notify. destruct res as [[|]| | |]; try apply same_mem_refl.
  destruct (autonotify s); [|apply same_mem_refl]. destruct (watcher s); split; reflexivity.
Qed.

(* ---------- the machine invariant ---------- *)
Definition good_g (d : adef) : Prop := a_arity d = 2 \/ a_arity d = 3.

Definition MInv (cfg : mconf) (s : mstate) : Prop :=
  (forall pt, Inv (get_store s pt)) /\
  (forall pt d, def_of cfg pt = Some d -> a_is_g d = true ->
     good_g d /\ exact_arity (a_arity d) (pol (get_store s pt)) /\
     links_equiv (get_links s pt) (links_of (a_arity d) (pol (get_store s pt)))).

Lemma MInv_same_mem cfg s s' : same_mem s s' -> MInv cfg s -> MInv cfg s'.
Proof.
  intros [S L] [I G]. split; [intros pt; rewrite S; apply I|].
  intros pt d Hd Hg. rewrite S, L. apply G; assumption.
Qed.

Lemma MInv_change cfg s s' pt d st' ls' :
  MInv cfg s -> def_of cfg pt = Some d -> mem_change s s' pt st' ls' -> Inv st' ->
  (a_is_g d = true -> exact_arity (a_arity d) (pol st') /\ links_equiv ls' (links_of (a_arity d) (pol st'))) ->
  MInv cfg s'.
Proof.
  intros [I G] Hd [S L] Ist Hl. split.
  - intros pt'. rewrite S. destruct (String.eqb pt' pt); [exact Ist|apply I].
  - intros pt' d' Hd' Hg'. rewrite S, L. destruct (String.eqb pt' pt) eqn:E.
    + apply String.eqb_eq in E. subst pt'. rewrite Hd in Hd'. inversion Hd'; subst d'.
      destruct (G pt d Hd Hg') as [Gg _]. destruct (Hl Hg') as [H1 H2]. auto.
    + apply G; assumption.
Qed.

(* ---------- set-level facts about the listed rules after each store operation ---------- *)
Lemma spec_add_many_In prio rs : forall l x, In x (fst (spec_add_many prio l rs)) <-> In x l \/ In x rs.
Proof.
  induction rs as [|r t IH]; intros l x; cbn [spec_add_many fst In]; [tauto|].
  destruct (mem_rule r l) eqn:M.
  - rewrite IH. apply mem_rule_In in M. split; [tauto|]. intros [H|[<-|H]]; auto.
  - specialize (IH (spec_insert prio l r) x). destruct (spec_add_many prio (spec_insert prio l r) t) as [l' aff].
    cbn [fst] in *. rewrite IH, spec_insert_In. tauto.
Qed.

Lemma remove_first_In r l x : NoDup l -> (In x (remove_first r l) <-> In x l /\ x <> r).
Proof.
  intros ND. rewrite (remove_first_filter r l ND), filter_In, negb_true_iff, rule_eqb_neq. intuition.
Qed.

Lemma remove_first_NoDup r l : NoDup l -> NoDup (remove_first r l).
Proof. intros ND. rewrite (remove_first_filter r l ND). apply NoDup_filter. exact ND. Qed.

Lemma spec_remove_many_In rs : forall l x, NoDup l ->
  (In x (fst (spec_remove_many l rs)) <-> In x l /\ ~ In x rs).
Proof.
  induction rs as [|r t IH]; intros l x ND; cbn [spec_remove_many fst In]; [tauto|].
  specialize (IH (remove_first r l) x (remove_first_NoDup r l ND)).
  destruct (spec_remove_many (remove_first r l) t) as [l' aff]. cbn [fst] in *.
  rewrite IH, (remove_first_In r l x ND). intuition.
Qed.

Lemma replace_first_In_iff o n l x : NoDup l -> In o l -> ~ In n l ->
  (In x (replace_first o n l) <-> (In x l /\ x <> o) \/ x = n).
Proof.
  intros ND Ho Nn. rewrite (replace_first_map o n l ND), in_map_iff. split.
  - intros [y [E Hy]]. destruct (rule_eqb o y) eqn:Eo.
    + right. auto.
    + left. subst y. split; [exact Hy|]. apply rule_eqb_neq in Eo. congruence.
  - intros [[Hx Hne]| ->].
    + exists x. split; [|exact Hx]. destruct (rule_eqb o x) eqn:Eo; [apply rule_eqb_eq in Eo; congruence|reflexivity].
    + exists o. split; [rewrite rule_eqb_refl; reflexivity|exact Ho].
Qed.

Lemma replace_first_NoDup o n l : NoDup l -> ~ In n l -> NoDup (replace_first o n l).
Proof.
  intros ND Nn. induction l as [|x t IH]; cbn [replace_first]; [constructor|]. inversion ND; subst.
  destruct (rule_eqb o x) eqn:E.
  - constructor; [|assumption]. intros H. apply Nn. right. exact H.
  - constructor; [|apply IH; [assumption|intros H; apply Nn; right; exact H]].
    intros H. apply replace_first_In in H as [->|H]; [apply Nn; left; reflexivity|contradiction].
Qed.

Lemma spec_update_many_In os : forall ns l l' x, NoDup l ->
  NoDup ns -> (forall n, In n ns -> ~ In n l) -> (forall n, In n ns -> ~ In n os) ->
  spec_update_many l os ns = Some l' -> List.length os = List.length ns ->
  NoDup l' /\ (In x l' <-> (In x l /\ ~ In x os) \/ In x ns).
Proof.
  induction os as [|o os' IH]; intros ns l l' x ND NDn Hf Hd Hs Hlen; destruct ns as [|n ns']; cbn [List.length] in Hlen; try discriminate.
  - cbn [spec_update_many] in Hs. inversion Hs; subst. split; [exact ND|]. cbn [In]. tauto.
  - cbn [spec_update_many] in Hs. destruct (mem_rule o l) eqn:M; [|discriminate]. apply mem_rule_In in M.
    inversion NDn as [|? ? Nn NDn']; subst.
    assert (Nl : ~ In n l) by (apply Hf; left; reflexivity).
    assert (ND1 : NoDup (replace_first o n l)) by (apply replace_first_NoDup; assumption).
    destruct (IH ns' (replace_first o n l) l' x ND1 NDn') as [NDl' Hx]; try assumption.
    + intros y Hy Hin. apply (replace_first_In_iff o n l y ND M Nl) in Hin as [[Hin _]| ->]; [apply (Hf y (or_intror Hy)); exact Hin|contradiction].
    + intros y Hy Hin. apply (Hd y (or_intror Hy)). right. exact Hin.
    + lia.
    + split; [exact NDl'|]. rewrite Hx, (replace_first_In_iff o n l x ND M Nl). cbn [In].
      assert (Hno : ~ In n os') by (intros H; apply (Hd n (or_introl eq_refl)); right; exact H).
      split.
      * intros [[[[H1 H2]| ->] H3]|H]; [left; split; [exact H1|intros [E|E]; [congruence|contradiction]]|right; left; reflexivity|right; right; exact H].
      * intros [[H1 H2]|[<-|H]].
        -- left. split; [left; split; [exact H1|intros ->; apply H2; left; reflexivity]|intros H; apply H2; right; exact H].
        -- left. split; [right; reflexivity|exact Hno].
        -- right. exact H.
Qed.
