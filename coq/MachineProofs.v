(* MachineProofs.v — invariants of the management-API state machine over every operation:
   frame lemmas, store invariants, role links mirror the listed grouping rules (C05). *)
From Coq Require Import List String Bool Arith ZArith Lia Permutation.
Import ListNotations.
From Casbin Require Import Base BaseProofs Store StoreProofs Roles RolesProofs Priority PriorityProofs Machine.

(* ---------- projections through the state updates ---------- *)
Lemma lookup_set_del {A} k k' (v : A) m : lookup k' (set k v (del k m)) = if String.eqb k' k then Some v else lookup k' m.
Proof. rewrite lookup_set. destruct (String.eqb k' k) eqn:E; [reflexivity|]. rewrite lookup_del, E. reflexivity. Qed.

Lemma get_store_with_store s pt st pt' :
  get_store (with_store s pt st) pt' = if String.eqb pt' pt then st else get_store s pt'.
Proof. unfold get_store, with_store. cbn [stores]. rewrite lookup_set_del. destruct (String.eqb pt' pt); reflexivity. Qed.
Lemma get_links_with_store s pt st pt' : get_links (with_store s pt st) pt' = get_links s pt'.
Proof. reflexivity. Qed.
Lemma get_store_with_links s pt l pt' : get_store (with_links s pt l) pt' = get_store s pt'.
Proof. reflexivity. Qed.
Lemma get_links_with_links s pt l pt' :
  get_links (with_links s pt l) pt' = if String.eqb pt' pt then l else get_links s pt'.
Proof. unfold get_links, with_links. cbn [rlinks]. rewrite lookup_set_del. destruct (String.eqb pt' pt); reflexivity. Qed.
Lemma get_store_with_ad s a pt : get_store (with_ad s a) pt = get_store s pt. Proof. reflexivity. Qed.
Lemma get_links_with_ad s a pt : get_links (with_ad s a) pt = get_links s pt. Proof. reflexivity. Qed.
Lemma get_store_invalidate s pt : get_store (invalidate s) pt = get_store s pt. Proof. reflexivity. Qed.
Lemma get_links_invalidate s pt : get_links (invalidate s) pt = get_links s pt. Proof. reflexivity. Qed.

(* what an operation may do to memory is described on the pair (stores, links) *)
Definition same_mem (s s' : mstate) : Prop :=
  (forall pt, get_store s' pt = get_store s pt) /\ (forall pt, get_links s' pt = get_links s pt).
Lemma same_mem_refl s : same_mem s s. Proof. split; reflexivity. Qed.

Lemma persist_mem s call : same_mem s (fst (fst (persist s call))).
Proof.
  unfold persist. destruct (autosave s); [|apply same_mem_refl].
  destruct (adapter_call (ad s) call) as [[a ok] old]. cbn [fst]. split; reflexivity.
Qed.
Lemma persist_flags s call :
  let s' := fst (fst (persist s call)) in
  autosave s' = autosave s /\ autonotify s' = autonotify s /\ watcher s' = watcher s /\ wlog s' = wlog s.
Proof.
  unfold persist. destruct (autosave s) eqn:E; [|cbn [fst]; rewrite E; auto].
  destruct (adapter_call (ad s) call) as [[a ok] old]. cbn [fst with_ad autosave autonotify watcher wlog]. auto.
Qed.

(* ---------- links_update ---------- *)
Definition links_of (count : nat) (rs : list rule) : list link :=
  flat_map (fun r => match link_of_rule count r with Some l => [l] | None => [] end) rs.

Definition exact_arity (count : nat) (rs : list rule) : Prop := forall r, In r rs -> List.length r = count.

Lemma link_of_rule_exact count r : (count = 2 \/ count = 3) -> List.length r = count ->
  exists l, link_of_rule count r = Some l.
Proof.
  intros [->| ->] H; unfold link_of_rule; rewrite H; cbn [Nat.ltb Nat.leb].
  - destruct r as [|u [|ro [|x t]]]; try discriminate. eauto.
  - destruct r as [|u [|ro [|d [|x t]]]]; try discriminate. eauto.
Qed.

Lemma link_of_rule_inj count r1 r2 l : (count = 2 \/ count = 3) ->
  List.length r1 = count -> List.length r2 = count ->
  link_of_rule count r1 = Some l -> link_of_rule count r2 = Some l -> r1 = r2.
Proof.
  intros [->| ->] H1 H2; unfold link_of_rule; rewrite H1, H2; cbn [Nat.ltb Nat.leb].
  - destruct r1 as [|u1 [|o1 [|x1 t1]]]; try discriminate. destruct r2 as [|u2 [|o2 [|x2 t2]]]; try discriminate. congruence.
  - destruct r1 as [|u1 [|o1 [|d1 [|x1 t1]]]]; try discriminate. destruct r2 as [|u2 [|o2 [|d2 [|x2 t2]]]]; try discriminate. congruence.
Qed.

Lemma links_of_In count rs l : In l (links_of count rs) <-> exists r, In r rs /\ link_of_rule count r = Some l.
Proof.
  unfold links_of. rewrite in_flat_map. split.
  - intros [r [Hr Hl]]. exists r. split; [exact Hr|]. destruct (link_of_rule count r); [destruct Hl as [->|[]]; reflexivity|contradiction].
  - intros [r [Hr E]]. exists r. split; [exact Hr|]. rewrite E. left. reflexivity.
Qed.

Lemma build_incremental_add count rs : forall ls, (count = 2 \/ count = 3) -> exact_arity count rs ->
  exists ls', build_incremental count true rs ls = (ls', true) /\
    forall l, In l ls' <-> In l ls \/ In l (links_of count rs).
Proof.
  induction rs as [|r t IH]; intros ls Hc Ha; cbn [build_incremental].
  - exists ls. split; [reflexivity|]. intros l. cbn. tauto.
  - destruct (link_of_rule_exact count r Hc (Ha r (or_introl eq_refl))) as [lk E]. rewrite E.
    destruct (IH (add_link lk ls) Hc (fun x Hx => Ha x (or_intror Hx))) as [ls' [B H]].
    exists ls'. split; [exact B|]. intros l. rewrite H, add_link_In. unfold links_of. cbn [flat_map]. rewrite E.
    cbn [app In]. fold (links_of count t). intuition.
Qed.

Lemma build_incremental_del count rs : forall ls, (count = 2 \/ count = 3) -> exact_arity count rs ->
  exists ls', build_incremental count false rs ls = (ls', true) /\
    forall l, In l ls' <-> In l ls /\ ~ In l (links_of count rs).
Proof.
  induction rs as [|r t IH]; intros ls Hc Ha; cbn [build_incremental].
  - exists ls. split; [reflexivity|]. intros l. cbn. tauto.
  - destruct (link_of_rule_exact count r Hc (Ha r (or_introl eq_refl))) as [lk E]. rewrite E.
    destruct (IH (del_link lk ls) Hc (fun x Hx => Ha x (or_intror Hx))) as [ls' [B H]].
    exists ls'. split; [exact B|]. intros l. rewrite H, del_link_In. unfold links_of. cbn [flat_map]. rewrite E.
    cbn [app In]. fold (links_of count t). intuition.
Qed.

(* ---------- memory effect of the building blocks ---------- *)
Definition mem_change (s s' : mstate) (pt : string) (st' : store) (ls' : list link) : Prop :=
  (forall pt', get_store s' pt' = if String.eqb pt' pt then st' else get_store s pt') /\
  (forall pt', get_links s' pt' = if String.eqb pt' pt then ls' else get_links s pt').

Lemma same_mem_trans a b c : same_mem a b -> same_mem b c -> same_mem a c.
Proof. intros [S1 L1] [S2 L2]. split; intros pt; [rewrite S2; apply S1|rewrite L2; apply L1]. Qed.

Lemma mem_change_pre a b c pt st ls : same_mem a b -> mem_change b c pt st ls -> mem_change a c pt st ls.
Proof.
  intros [S1 L1] [S2 L2]. split; intros pt'; [rewrite S2|rewrite L2]; destruct (String.eqb pt' pt); auto.
Qed.
Lemma mem_change_post a b c pt st ls : mem_change a b pt st ls -> same_mem b c -> mem_change a c pt st ls.
Proof. intros [S1 L1] [S2 L2]. split; intros pt'; [rewrite S2; apply S1|rewrite L2; apply L1]. Qed.

Lemma mem_change_store s pt st : mem_change s (with_store s pt st) pt st (get_links s pt).
Proof.
  split; intros pt'; [apply get_store_with_store|]. rewrite get_links_with_store.
  destruct (String.eqb pt' pt) eqn:E; [apply String.eqb_eq in E; subst; reflexivity|reflexivity].
Qed.

Lemma mem_change_seq a b c pt st1 ls1 st2 ls2 :
  mem_change a b pt st1 ls1 -> mem_change b c pt st2 ls2 -> mem_change a c pt st2 ls2.
Proof.
  intros [S1 L1] [S2 L2]. split; intros pt'; [rewrite S2|rewrite L2]; destruct (String.eqb pt' pt) eqn:E; auto.
  - rewrite S1, E. reflexivity.
  - rewrite L1, E. reflexivity.
Qed.

Lemma links_update_mem d s pt adding rs :
  mem_change s (fst (links_update d s pt adding rs)) pt (get_store s pt)
             (fst (build_incremental (a_arity d) adding rs (get_links s pt))) /\
  snd (links_update d s pt adding rs) = snd (build_incremental (a_arity d) adding rs (get_links s pt)).
Proof.
  unfold links_update. rewrite get_links_invalidate.
  destruct (build_incremental (a_arity d) adding rs (get_links s pt)) as [l ok]. cbn [fst snd]. split; [|reflexivity].
  split; intros pt'.
  - rewrite get_store_with_links, get_store_invalidate. destruct (String.eqb pt' pt) eqn:E; [apply String.eqb_eq in E; subst|]; reflexivity.
  - rewrite get_links_with_links, get_links_invalidate. reflexivity.
Qed.

Lemma notify_mem cfg s res ex upd : same_mem s (notify cfg s res ex upd).
Proof.
  unfold notify. destruct res as [[|]| | |]; try apply same_mem_refl.
  destruct (autonotify s); [|apply same_mem_refl]. destruct (watcher s); split; reflexivity.
Qed.

(* ---------- the machine invariant ---------- *)
Definition good_g (d : adef) : Prop := a_arity d = 2 \/ a_arity d = 3.

Definition MInv (cfg : mconf) (s : mstate) : Prop :=
  (forall pt, Inv (get_store s pt)) /\
  (forall pt d, def_of cfg pt = Some d -> a_is_g d = true ->
     good_g d /\ exact_arity (a_arity d) (pol (get_store s pt)) /\
     links_equiv (get_links s pt) (links_of (a_arity d) (pol (get_store s pt)))).

Lemma MInv_same_mem cfg s s' : same_mem s s' -> MInv cfg s -> MInv cfg s'.
Proof.
  intros [S L] [I G]. split; [intros pt; rewrite S; apply I|].
  intros pt d Hd Hg. rewrite S, L. apply G; assumption.
Qed.

Lemma MInv_change cfg s s' pt d st' ls' :
  MInv cfg s -> def_of cfg pt = Some d -> mem_change s s' pt st' ls' -> Inv st' ->
  (a_is_g d = true -> exact_arity (a_arity d) (pol st') /\ links_equiv ls' (links_of (a_arity d) (pol st'))) ->
  MInv cfg s'.
Proof.
  intros [I G] Hd [S L] Ist Hl. split.
  - intros pt'. rewrite S. destruct (String.eqb pt' pt); [exact Ist|apply I].
  - intros pt' d' Hd' Hg'. rewrite S, L. destruct (String.eqb pt' pt) eqn:E.
    + apply String.eqb_eq in E. subst pt'. rewrite Hd in Hd'. inversion Hd'; subst d'.
      destruct (G pt d Hd Hg') as [Gg _]. destruct (Hl Hg') as [H1 H2]. auto.
    + apply G; assumption.
Qed.

(* ---------- set-level facts about the listed rules after each store operation ---------- *)
Lemma spec_add_many_In prio rs : forall l x, In x (fst (spec_add_many prio l rs)) <-> In x l \/ In x rs.
Proof.
  induction rs as [|r t IH]; intros l x; cbn [spec_add_many fst In]; [tauto|].
  destruct (mem_rule r l) eqn:M.
  - rewrite IH. apply mem_rule_In in M. split; [tauto|]. intros [H|[<-|H]]; auto.
  - specialize (IH (spec_insert prio l r) x). destruct (spec_add_many prio (spec_insert prio l r) t) as [l' aff].
    cbn [fst] in *. rewrite IH, spec_insert_In. intuition (subst; auto).
Qed.

Lemma remove_first_In r l x : NoDup l -> (In x (remove_first r l) <-> In x l /\ x <> r).
Proof.
  intros ND. rewrite (remove_first_filter r l ND), filter_In, negb_true_iff, rule_eqb_neq. intuition.
Qed.

Lemma remove_first_NoDup r l : NoDup l -> NoDup (remove_first r l).
Proof. intros ND. rewrite (remove_first_filter r l ND). apply NoDup_filter. exact ND. Qed.

Lemma spec_remove_many_In rs : forall l x, NoDup l ->
  (In x (fst (spec_remove_many l rs)) <-> In x l /\ ~ In x rs).
Proof.
  induction rs as [|r t IH]; intros l x ND; cbn [spec_remove_many fst In]; [tauto|].
  specialize (IH (remove_first r l) x (remove_first_NoDup r l ND)).
  destruct (spec_remove_many (remove_first r l) t) as [l' aff]. cbn [fst] in *.
  rewrite IH, (remove_first_In r l x ND). intuition.
Qed.

Lemma replace_first_In_iff o n l x : NoDup l -> In o l -> ~ In n l ->
  (In x (replace_first o n l) <-> (In x l /\ x <> o) \/ x = n).
Proof.
  intros ND Ho Nn. rewrite (replace_first_map o n l ND), in_map_iff. split.
  - intros [y [E Hy]]. destruct (rule_eqb o y) eqn:Eo.
    + right. auto.
    + left. subst y. split; [exact Hy|]. apply rule_eqb_neq in Eo. congruence.
  - intros [[Hx Hne]| ->].
    + exists x. split; [|exact Hx]. destruct (rule_eqb o x) eqn:Eo; [apply rule_eqb_eq in Eo; congruence|reflexivity].
    + exists o. split; [rewrite rule_eqb_refl; reflexivity|exact Ho].
Qed.

Lemma replace_first_NoDup o n l : NoDup l -> ~ In n l -> NoDup (replace_first o n l).
Proof.
  intros ND Nn. induction l as [|x t IH]; cbn [replace_first]; [constructor|]. inversion ND; subst.
  destruct (rule_eqb o x) eqn:E.
  - constructor; [|assumption]. intros H. apply Nn. right. exact H.
  - constructor; [|apply IH; [assumption|intros H; apply Nn; right; exact H]].
    intros H. apply replace_first_In in H as [->|H]; [apply Nn; left; reflexivity|contradiction].
Qed.

Lemma spec_update_many_In os : forall ns l l' x, NoDup l ->
  NoDup ns -> (forall n, In n ns -> ~ In n l) -> (forall n, In n ns -> ~ In n os) ->
  spec_update_many l os ns = Some l' -> List.length os = List.length ns ->
  NoDup l' /\ (In x l' <-> (In x l /\ ~ In x os) \/ In x ns).
Proof.
  induction os as [|o os' IH]; intros ns l l' x ND NDn Hf Hd Hs Hlen; destruct ns as [|n ns']; cbn [List.length] in Hlen; try discriminate.
  - cbn [spec_update_many] in Hs. inversion Hs; subst. split; [exact ND|]. cbn [In]. tauto.
  - cbn [spec_update_many] in Hs. destruct (mem_rule o l) eqn:M; [|discriminate]. apply mem_rule_In in M.
    inversion NDn as [|? ? Nn NDn']; subst.
    assert (Nl : ~ In n l) by (apply Hf; left; reflexivity).
    assert (ND1 : NoDup (replace_first o n l)) by (apply replace_first_NoDup; assumption).
    destruct (IH ns' (replace_first o n l) l' x ND1 NDn') as [NDl' Hx]; try assumption.
    + intros y Hy Hin. apply (replace_first_In_iff o n l y ND M Nl) in Hin as [[Hin _]| ->]; [apply (Hf y (or_intror Hy)); exact Hin|contradiction].
    + intros y Hy Hin. apply (Hd y (or_intror Hy)). right. exact Hin.
    + lia.
    + split; [exact NDl'|]. rewrite Hx, (replace_first_In_iff o n l x ND M Nl). cbn [In].
      assert (Hno : ~ In n os') by (intros H; apply (Hd n (or_introl eq_refl)); right; exact H).
      split.
      * intros [[[[H1 H2]| ->] H3]|H]; [left; split; [exact H1|intros [E|E]; [congruence|contradiction]]|right; left; reflexivity|right; right; exact H].
      * intros [[H1 H2]|[<-|H]].
        -- left. split; [left; split; [exact H1|intros ->; apply H2; left; reflexivity]|intros H; apply H2; right; exact H].
        -- left. split; [right; reflexivity|exact Hno].
        -- right. exact H.
Qed.

(* ---------- guards of the machine operations ---------- *)
Definition rules_ok (d : adef) (rs : list rule) : Prop :=
  WF rs /\ (a_is_g d = true -> exact_arity (a_arity d) rs).

Definition content_ok (cfg : mconf) (c : list prule) : Prop :=
  forall pt r, In (pt, r) c -> wf_rule r = true /\
    forall d, def_of cfg pt = Some d -> a_is_g d = true -> List.length r = a_arity d.

Fixpoint mop_ok (cfg : mconf) (s : mstate) (op : mop) : Prop :=
  match op with
  | MAdd pt r | MRemove pt r => forall d, def_of cfg pt = Some d -> rules_ok d [r]
  | MAddMany pt rs | MAddManyEx pt rs | MRemoveMany pt rs => forall d, def_of cfg pt = Some d -> rules_ok d rs
  | MUpdate pt o n => forall d, def_of cfg pt = Some d -> rules_ok d [o; n] /\ ~ In n (pol (get_store s pt))
  | MUpdateMany pt os ns => forall d, def_of cfg pt = Some d ->
      rules_ok d os /\ rules_ok d ns /\ NoDup ns /\
      (forall n, In n ns -> ~ In n (pol (get_store s pt))) /\ (forall n, In n ns -> ~ In n os)
  | MRemoveFiltered pt fi fvs => in_range fi fvs (pol (get_store s pt))
  | MUpdateFiltered _ _ _ _ => False
  | MSelf op' => mop_ok cfg s op'
  | MLoad => content_ok cfg (content (ad s)) /\ (forall pt d, def_of cfg pt = Some d -> a_is_g d = true -> good_g d)
  | MClear | MSave | MSetAutoSave _ | MSetAutoNotify _ | MFailNext _ => True
  end.

(* ---------- helper: links of the listed rules after set-level changes ---------- *)
Lemma links_of_equiv count a b : (forall x, In x a <-> In x b) -> links_equiv (links_of count a) (links_of count b).
Proof.
  intros H l. rewrite !links_of_In. split; intros [r [Hr E]]; exists r; (split; [apply H; exact Hr|exact E]).
Qed.

Lemma exact_arity_In count a b : (forall x, In x b -> In x a \/ False) -> exact_arity count a -> exact_arity count b.
Proof. intros H Ha r Hr. destruct (H r Hr) as [Hx|[]]. apply Ha. exact Hx. Qed.

(* after removing the rules rs from the listed NoDup rules l (all of exact arity): the links
   of what remains are the links of l minus the links of rs *)
Lemma links_after_removal count l l' rs : good_g {| a_is_g := true; a_arity := count; a_prio := None |} ->
  exact_arity count l -> exact_arity count rs ->
  (forall x, In x l' <-> In x l /\ ~ In x rs) ->
  forall lk, In lk (links_of count l') <-> In lk (links_of count l) /\ ~ In lk (links_of count rs).
Proof.
  intros Hc Hl Hr Hset lk. cbn [good_g a_arity] in Hc. rewrite !links_of_In. split.
  - intros [r [Hin E]]. apply Hset in Hin as [Hin Hn]. split; [eauto|].
    intros [r2 [Hin2 E2]]. apply Hn.
    rewrite (link_of_rule_inj count r r2 lk Hc (Hl r Hin) (Hr r2 Hin2) E E2). exact Hin2.
  - intros [[r [Hin E]] Hn]. exists r. split; [|exact E]. apply Hset. split; [exact Hin|].
    intros Hin2. apply Hn. exists r. auto.
Qed.

Lemma links_of_app_In count a lk rs : In lk (links_of count a) \/ In lk (links_of count rs) <->
  exists r, (In r a \/ In r rs) /\ link_of_rule count r = Some lk.
Proof.
  rewrite !links_of_In. split.
  - intros [[r [H E]]|[r [H E]]]; exists r; auto.
  - intros [r [[H|H] E]]; [left|right]; exists r; auto.
Qed.

(* ---------- MInv is preserved by every guarded operation ---------- *)
Ltac split_persist s call s1 ok old E :=
  let P := fresh "Pm" in
  pose proof (persist_mem s call) as P;
  destruct (persist s call) as [[s1 ok] old] eqn:E; cbn [fst] in P.

Lemma gdef_good cfg s pt d : MInv cfg s -> def_of cfg pt = Some d -> a_is_g d = true -> good_g d.
Proof. intros [_ G] Hd Hg. apply (G pt d Hd Hg). Qed.

Lemma add_wo_MInv cfg s pt d r : MInv cfg s -> def_of cfg pt = Some d -> rules_ok d [r] ->
  MInv cfg (fst (add_wo d s pt r)).
Proof.
  intros M Hd [W Ha]. unfold add_wo. destruct (has (get_store s pt) r) eqn:H; [exact M|].
  split_persist s (AAdd pt r) s1 ok old E. destruct ok; cbn [negb]; [|apply (MInv_same_mem cfg s s1 Pm M)].
  inversion W as [|? ? Wr _]; subst.
  pose proof (proj1 M pt) as Ist.
  assert (Ist' : Inv (add (a_prio d) (get_store s pt) r)) by (apply add_Inv; assumption).
  assert (Hset : forall x, In x (pol (add (a_prio d) (get_store s pt) r)) <-> x = r \/ In x (pol (get_store s pt))).
  { intros x. rewrite add_pol. apply spec_insert_In. }
  destruct (a_is_g d) eqn:Hg.
  - destruct (proj2 M pt d Hd Hg) as [Gg [Ex Le]].
    pose proof (links_update_mem d (with_store s1 pt (add (a_prio d) (get_store s pt) r)) pt true [r]) as [Mc _].
    destruct (links_update d (with_store s1 pt (add (a_prio d) (get_store s pt) r)) pt true [r]) as [s3 lok]. cbn [fst] in *.
    eapply (MInv_change cfg s s3 pt d); [exact M|exact Hd| |exact Ist'|].
    + eapply mem_change_pre; [exact Pm|]. eapply mem_change_seq; [apply mem_change_store|].
      rewrite get_store_with_store, String.eqb_refl in Mc. exact Mc.
    + intros _. split.
      * intros x Hx. apply Hset in Hx as [->|Hx]; [apply (Ha eq_refl); left; reflexivity|apply Ex; exact Hx].
      * rewrite get_links_with_store. destruct Pm as [_ PL]. rewrite PL.
        destruct (build_incremental_add (a_arity d) [r] (get_links s pt) Gg (Ha eq_refl)) as [ls' [B Hl]].
        rewrite B. cbn [fst]. intros lk. rewrite Hl, (Le lk), links_of_app_In, links_of_In.
        split; intros [x [Hx Ex']]; exists x; (split; [|exact Ex']).
        -- apply Hset. destruct Hx as [Hx|[<-|[]]]; auto.
        -- apply Hset in Hx as [->|Hx]; [right; left; reflexivity|left; exact Hx].
  - eapply (MInv_change cfg s _ pt d); [exact M|exact Hd| |exact Ist'|intros Hf; congruence].
    eapply mem_change_pre; [exact Pm|]. destruct Pm as [PS PL].
    pose proof (mem_change_store s1 pt (add (a_prio d) (get_store s pt) r)) as Mc. rewrite PL in Mc. exact Mc.
Qed.

(* ---------- the general shape: remove the links of R, then add the links of A ---------- *)
Lemma links_rm_add count ls l l' R A :
  (count = 2 \/ count = 3) -> exact_arity count l -> exact_arity count R -> exact_arity count A ->
  links_equiv ls (links_of count l) ->
  (forall x, In x l' <-> (In x l /\ ~ In x R) \/ In x A) ->
  links_equiv (fst (build_incremental count true A (fst (build_incremental count false R ls)))) (links_of count l').
Proof.
  intros Hc Hl HR HA Le Hset.
  destruct (build_incremental_del count R ls Hc HR) as [ls1 [B1 H1]]. rewrite B1. cbn [fst].
  destruct (build_incremental_add count A ls1 Hc HA) as [ls2 [B2 H2]]. rewrite B2. cbn [fst].
  intros lk. rewrite H2, H1, (Le lk), !links_of_In. split.
  - intros [[[r [Hin E]] Hn]|[r [Hin E]]].
    + exists r. split; [|exact E]. apply Hset. left. split; [exact Hin|].
      intros HinR. apply Hn. exists r. auto.
    + exists r. split; [|exact E]. apply Hset. right. exact Hin.
  - intros [r [Hin E]]. apply Hset in Hin as [[Hin Hn]|Hin].
    + left. split; [eauto|]. intros [r2 [Hin2 E2]]. apply Hn.
      rewrite (link_of_rule_inj count r r2 lk Hc (Hl r Hin) (HR r2 Hin2) E E2). exact Hin2.
    + right. eauto.
Qed.

Lemma g_finish cfg s s' pt d st' R A :
  MInv cfg s -> def_of cfg pt = Some d -> a_is_g d = true -> Inv st' ->
  exact_arity (a_arity d) R -> exact_arity (a_arity d) A ->
  (forall x, In x (pol st') <-> (In x (pol (get_store s pt)) /\ ~ In x R) \/ In x A) ->
  mem_change s s' pt st'
    (fst (build_incremental (a_arity d) true A (fst (build_incremental (a_arity d) false R (get_links s pt))))) ->
  MInv cfg s'.
Proof.
  intros M Hd Hg Ist HR HA Hset Mc. destruct (proj2 M pt d Hd Hg) as [Gg [Ex Le]].
  eapply (MInv_change cfg s s' pt d); [exact M|exact Hd|exact Mc|exact Ist|]. intros _. split.
  - intros x Hx. apply Hset in Hx as [[Hx _]|Hx]; [apply Ex; exact Hx|apply HA; exact Hx].
  - apply (links_rm_add (a_arity d) (get_links s pt) (pol (get_store s pt)) (pol st') R A Gg Ex HR HA Le Hset).
Qed.

Lemma p_finish cfg s s' pt d st' :
  MInv cfg s -> def_of cfg pt = Some d -> a_is_g d = false -> Inv st' ->
  mem_change s s' pt st' (get_links s pt) -> MInv cfg s'.
Proof.
  intros M Hd Hg Ist Mc. eapply (MInv_change cfg s s' pt d); [exact M|exact Hd|exact Mc|exact Ist|].
  intros Hf. congruence.
Qed.

(* memory effect of "store the new assertion, then update the links" *)
Lemma store_then_links d s s1 pt st' adding rs :
  same_mem s s1 ->
  mem_change s (fst (links_update d (with_store s1 pt st') pt adding rs)) pt st'
             (fst (build_incremental (a_arity d) adding rs (get_links s pt))).
Proof.
  intros Pm. pose proof (links_update_mem d (with_store s1 pt st') pt adding rs) as [Mc _].
  rewrite get_store_with_store, String.eqb_refl, get_links_with_store in Mc. destruct Pm as [PS PL].
  rewrite PL in Mc. eapply mem_change_pre; [split; [exact PS|exact PL]|].
  eapply mem_change_seq; [apply mem_change_store|exact Mc].
Qed.

Lemma store_only s s1 pt st' : same_mem s s1 -> mem_change s (with_store s1 pt st') pt st' (get_links s pt).
Proof.
  intros [PS PL]. eapply mem_change_pre; [split; [exact PS|exact PL]|].
  pose proof (mem_change_store s1 pt st') as Mc. rewrite PL in Mc. exact Mc.
Qed.

Lemma exact_nil count : exact_arity count []. Proof. intros r []. Qed.

Lemma add_many_wo_MInv cfg s pt d rs arr : MInv cfg s -> def_of cfg pt = Some d -> rules_ok d rs ->
  MInv cfg (fst (add_many_wo d s pt rs arr)).
Proof.
  intros M Hd [W Ha]. unfold add_many_wo.
  destruct (negb arr && has_any (get_store s pt) rs); [exact M|].
  split_persist s (AAddMany pt rs) s1 ok old E. destruct ok; cbn [negb]; [|apply (MInv_same_mem cfg s s1 Pm M)].
  pose proof (proj1 M pt) as Ist.
  destruct (add_many_spec (a_prio d) rs (get_store s pt) Ist W) as [Ist' [Pp _]].
  assert (Hset : forall x, In x (pol (fst (add_many (a_prio d) (get_store s pt) rs))) <->
                 (In x (pol (get_store s pt)) /\ ~ In x []) \/ In x rs).
  { intros x. rewrite Pp, spec_add_many_In. cbn [In]. tauto. }
  destruct (a_is_g d) eqn:Hg.
  - pose proof (store_then_links d s s1 pt (fst (add_many (a_prio d) (get_store s pt) rs)) true rs Pm) as Mc.
    destruct (links_update d _ pt true rs) as [s3 lok]. cbn [fst] in *.
    apply (g_finish cfg s s3 pt d _ [] rs M Hd Hg Ist' (exact_nil _) (Ha eq_refl) Hset Mc).
  - apply (p_finish cfg s _ pt d _ M Hd Hg Ist'). apply store_only. exact Pm.
Qed.

Lemma remove_wo_MInv cfg s pt d r : MInv cfg s -> def_of cfg pt = Some d -> rules_ok d [r] ->
  MInv cfg (fst (remove_wo d s pt r)).
Proof.
  intros M Hd [W Ha]. unfold remove_wo.
  split_persist s (ARemove pt r) s1 ok old E. destruct ok; cbn [negb]; [|apply (MInv_same_mem cfg s s1 Pm M)].
  inversion W as [|? ? Wr _]; subst.
  assert (Es : get_store s1 pt = get_store s pt) by (apply Pm).
  rewrite Es. pose proof (proj1 M pt) as Ist.
  destruct (remove_spec (get_store s pt) r Ist Wr) as [Ist' [Pp Pb]].
  destruct (remove (get_store s pt) r) as [st' removed]. cbn [fst snd] in *.
  destruct removed; cbn [negb]; [|apply (MInv_same_mem cfg s s1 Pm M)].
  assert (Hset : forall x, In x (pol st') <-> (In x (pol (get_store s pt)) /\ ~ In x [r]) \/ In x []).
  { intros x. rewrite Pp, (remove_first_In r _ x (Inv_NoDup _ Ist)). cbn [In]. intuition. }
  destruct (a_is_g d) eqn:Hg.
  - pose proof (store_then_links d s s1 pt st' false [r] Pm) as Mc.
    destruct (links_update d _ pt false [r]) as [s3 lok]. cbn [fst] in *.
    apply (g_finish cfg s s3 pt d _ [r] [] M Hd Hg Ist' (Ha eq_refl) (exact_nil _) Hset Mc).
  - apply (p_finish cfg s _ pt d _ M Hd Hg Ist'). apply store_only. exact Pm.
Qed.

Lemma remove_many_wo_MInv cfg s pt d rs : MInv cfg s -> def_of cfg pt = Some d -> rules_ok d rs ->
  MInv cfg (fst (remove_many_wo d s pt rs)).
Proof.
  intros M Hd [W Ha]. unfold remove_many_wo.
  destruct (negb (has_any (get_store s pt) rs)); [exact M|].
  split_persist s (ARemoveMany pt rs) s1 ok old E. destruct ok; cbn [negb]; [|apply (MInv_same_mem cfg s s1 Pm M)].
  pose proof (proj1 M pt) as Ist.
  destruct (remove_many_spec rs (get_store s pt) Ist W) as [Ist' [Pp _]].
  destruct (remove_many (get_store s pt) rs) as [st' aff]. cbn [fst] in *.
  destruct aff as [|a0 aff']; [apply (MInv_same_mem cfg s s1 Pm M)|].
  assert (Hset : forall x, In x (pol st') <-> (In x (pol (get_store s pt)) /\ ~ In x rs) \/ In x []).
  { intros x. rewrite Pp, (spec_remove_many_In rs _ x (Inv_NoDup _ Ist)). cbn [In]. tauto. }
  destruct (a_is_g d) eqn:Hg.
  - pose proof (store_then_links d s s1 pt st' false rs Pm) as Mc.
    destruct (links_update d _ pt false rs) as [s3 lok]. cbn [fst] in *.
    apply (g_finish cfg s s3 pt d _ rs [] M Hd Hg Ist' (Ha eq_refl) (exact_nil _) Hset Mc).
  - apply (p_finish cfg s _ pt d _ M Hd Hg Ist'). apply store_only. exact Pm.
Qed.

Lemma store_then_two_links d s s1 pt st' R A :
  same_mem s s1 ->
  mem_change s (fst (links_update d (fst (links_update d (with_store s1 pt st') pt false R)) pt true A)) pt st'
    (fst (build_incremental (a_arity d) true A (fst (build_incremental (a_arity d) false R (get_links s pt))))).
Proof.
  intros Pm. pose proof (store_then_links d s s1 pt st' false R Pm) as Mc1.
  set (s3 := fst (links_update d (with_store s1 pt st') pt false R)) in *.
  pose proof (links_update_mem d s3 pt true A) as [Mc2 _].
  destruct Mc1 as [S1 L1]. rewrite (S1 pt), (L1 pt), String.eqb_refl in Mc2.
  eapply mem_change_seq; [split; [exact S1|exact L1]|exact Mc2].
Qed.

Lemma update_wo_MInv cfg s pt d o n : MInv cfg s -> def_of cfg pt = Some d -> rules_ok d [o; n] ->
  ~ In n (pol (get_store s pt)) -> MInv cfg (fst (update_wo d s pt o n)).
Proof.
  intros M Hd [W Ha] Nn. unfold update_wo.
  split_persist s (AUpdate pt o n) s1 ok old E. destruct ok; cbn [negb]; [|apply (MInv_same_mem cfg s s1 Pm M)].
  inversion W as [|? ? Wo W']; subst. inversion W' as [|? ? Wn _]; subst.
  assert (Es : get_store s1 pt = get_store s pt) by (apply Pm). rewrite Es.
  pose proof (proj1 M pt) as Ist.
  destruct (update_spec (get_store s pt) o n Ist Wo Wn Nn) as [Ist' [Pp Pb]].
  destruct (update (get_store s pt) o n) as [st' updated]. cbn [fst snd] in *.
  destruct updated; cbn [negb]; [|apply (MInv_same_mem cfg s s1 Pm M)].
  symmetry in Pb. apply mem_rule_In in Pb.
  assert (Hset : forall x, In x (pol st') <-> (In x (pol (get_store s pt)) /\ ~ In x [o]) \/ In x [n]).
  { intros x. rewrite Pp, (replace_first_In_iff o n _ x (Inv_NoDup _ Ist) Pb Nn). cbn [In]. intuition. }
  destruct (a_is_g d) eqn:Hg.
  - pose proof (store_then_two_links d s s1 pt st' [o] [n] Pm) as Mc.
    assert (HR : exact_arity (a_arity d) [o]) by (intros x [<-|[]]; apply (Ha eq_refl); left; reflexivity).
    assert (HA : exact_arity (a_arity d) [n]) by (intros x [<-|[]]; apply (Ha eq_refl); right; left; reflexivity).
    destruct (links_update d (with_store s1 pt st') pt false [o]) as [s3 lok1] eqn:E1. cbn [fst] in Mc.
    destruct lok1; cbn [negb].
    + destruct (links_update d s3 pt true [n]) as [s4 lok2]. cbn [fst] in *.
      apply (g_finish cfg s s4 pt d _ [o] [n] M Hd Hg Ist' HR HA Hset Mc).
    + (* the first link update cannot fail on a rule of the definition's arity *)
      exfalso. pose proof (links_update_mem d (with_store s1 pt st') pt false [o]) as [_ Hok]. rewrite E1 in Hok. cbn [snd] in Hok.
      destruct (build_incremental_del (a_arity d) [o] (get_links (with_store s1 pt st') pt) (gdef_good cfg s pt d M Hd Hg) HR) as [ls' [B _]].
      rewrite B in Hok. discriminate.
  - apply (p_finish cfg s _ pt d _ M Hd Hg Ist'). apply store_only. exact Pm.
Qed.

Lemma update_many_wo_MInv cfg s pt d os ns : MInv cfg s -> def_of cfg pt = Some d ->
  rules_ok d os -> rules_ok d ns -> NoDup ns ->
  (forall n, In n ns -> ~ In n (pol (get_store s pt))) -> (forall n, In n ns -> ~ In n os) ->
  MInv cfg (fst (update_many_wo d s pt os ns)).
Proof.
  intros M Hd [Wo Hao] [Wn Han] NDn Hf Hdj. unfold update_many_wo.
  destruct (Nat.eqb (List.length os) (List.length ns)) eqn:El; cbn [negb]; [|exact M]. apply Nat.eqb_eq in El.
  split_persist s (AUpdateMany pt os ns) s1 ok old E. destruct ok; cbn [negb]; [|apply (MInv_same_mem cfg s s1 Pm M)].
  assert (Es : get_store s1 pt = get_store s pt) by (apply Pm). rewrite Es.
  pose proof (proj1 M pt) as Ist.
  destruct (update_many_spec (get_store s pt) os ns Ist Wo Wn NDn Hf Hdj) as [Ist' Hs].
  destruct (update_many (get_store s pt) os ns) as [st' updated]. cbn [fst snd] in *.
  destruct (spec_update_many (pol (get_store s pt)) os ns) as [l'|] eqn:Esp; destruct Hs as [Hb Hp]; subst updated; cbn [negb].
  - destruct (spec_update_many_In os ns _ l' [] (Inv_NoDup _ Ist) NDn Hf Hdj Esp El) as [_ _].
    assert (Hset : forall x, In x (pol st') <-> (In x (pol (get_store s pt)) /\ ~ In x os) \/ In x ns).
    { intros x. rewrite Hp. apply (spec_update_many_In os ns _ l' x (Inv_NoDup _ Ist) NDn Hf Hdj Esp El). }
    destruct (a_is_g d) eqn:Hg.
    + pose proof (store_then_two_links d s s1 pt st' os ns Pm) as Mc.
      destruct (links_update d (with_store s1 pt st') pt false os) as [s3 lok1] eqn:E1. cbn [fst] in Mc.
      destruct lok1; cbn [negb].
      * destruct (links_update d s3 pt true ns) as [s4 lok2]. cbn [fst] in *.
        apply (g_finish cfg s s4 pt d _ os ns M Hd Hg Ist' (Hao eq_refl) (Han eq_refl) Hset Mc).
      * exfalso. pose proof (links_update_mem d (with_store s1 pt st') pt false os) as [_ Hok]. rewrite E1 in Hok. cbn [snd] in Hok.
        destruct (build_incremental_del (a_arity d) os (get_links (with_store s1 pt st') pt) (gdef_good cfg s pt d M Hd Hg) (Hao eq_refl)) as [ls' [B _]].
        rewrite B in Hok. discriminate.
    + apply (p_finish cfg s _ pt d _ M Hd Hg Ist'). apply store_only. exact Pm.
  - (* refused batch: the store was rolled back; same rules, an equivalent index *)
    eapply (MInv_change cfg s _ pt d); [exact M|exact Hd|apply store_only; exact Pm|exact Ist'|].
    intros Hg. destruct (proj2 M pt d Hd Hg) as [_ [Ex Le]]. rewrite Hp. split; assumption.
Qed.

Lemma remove_filtered_wo_MInv cfg s pt d fi fvs : MInv cfg s -> def_of cfg pt = Some d ->
  in_range fi fvs (pol (get_store s pt)) -> MInv cfg (fst (remove_filtered_wo d s pt fi fvs)).
Proof.
  intros M Hd Hr. unfold remove_filtered_wo. destruct fvs as [|fv fvs']; [exact M|].
  split_persist s (ARemoveFiltered pt fi (fv :: fvs')) s1 ok old E. destruct ok; cbn [negb]; [|apply (MInv_same_mem cfg s s1 Pm M)].
  assert (Es : get_store s1 pt = get_store s pt) by (apply Pm). rewrite Es.
  pose proof (proj1 M pt) as Ist.
  destruct (remove_filtered_spec (get_store s pt) fi (fv :: fvs') Ist Hr) as (st' & res & eff & Er & Ist' & Pp & Pe & Pr).
  rewrite Er.
  assert (Hset : forall x, In x (pol st') <-> (In x (pol (get_store s pt)) /\ ~ In x eff) \/ In x []).
  { intros x. rewrite Pp, Pe, !filter_In. cbn [In]. split.
    - intros [Hx Hm]. left. split; [exact Hx|]. intros [_ Hm2]. rewrite Hm2 in Hm. discriminate.
    - intros [[Hx Hn]|[]]. split; [exact Hx|]. destruct (matches_spec fi (fv :: fvs') x) eqn:Em; [exfalso; apply Hn; auto|reflexivity]. }
  destruct res; cbn [negb].
  - destruct (a_is_g d) eqn:Hg.
    + pose proof (store_then_links d s s1 pt st' false eff Pm) as Mc.
      destruct (links_update d _ pt false eff) as [s3 lok]. cbn [fst] in *.
      destruct (proj2 M pt d Hd Hg) as [_ [Ex _]].
      assert (He : exact_arity (a_arity d) eff) by (intros x Hx; rewrite Pe in Hx; apply filter_In in Hx as [Hx _]; apply Ex; exact Hx).
      apply (g_finish cfg s s3 pt d _ eff [] M Hd Hg Ist' He (exact_nil _) Hset Mc).
    + apply (p_finish cfg s _ pt d _ M Hd Hg Ist'). apply store_only. exact Pm.
  - (* nothing matched: same rules, index rebuilt *)
    eapply (MInv_change cfg s _ pt d); [exact M|exact Hd|apply store_only; exact Pm|exact Ist'|].
    intros Hg. destruct (proj2 M pt d Hd Hg) as [_ [Ex Le]].
    assert (Hp : pol st' = pol (get_store s pt)).
    { rewrite Pp. apply filter_all. apply forallb_forall. intros x Hx. apply negb_true_iff.
      destruct (matches_spec fi (fv :: fvs') x) eqn:Em; [|reflexivity].
      assert (existsb (matches_spec fi (fv :: fvs')) (pol (get_store s pt)) = true) by (apply existsb_exists; eauto). congruence. }
    rewrite Hp. split; assumption.
Qed.

(* ---------- ClearPolicy ---------- *)
Lemma clear_policy_MInv cfg s : MInv cfg s -> MInv cfg (fst (clear_policy cfg s)).
Proof.
  intros M. unfold clear_policy. cbn [fst]. split.
  - intros pt. unfold get_store. cbn [stores lookup]. apply empty_Inv.
  - intros pt d Hd Hg. destruct (proj2 M pt d Hd Hg) as [Gg _]. split; [exact Gg|].
    unfold get_store, get_links. cbn [stores rlinks lookup pol empty_store].
    split; [intros r []|].
    assert (L : forall m : smap (list link), match lookup pt (map (fun e => (fst e, @nil link)) m) with Some l => l | None => [] end = []).
    { induction m as [|[k v] t IH]; cbn [map lookup fst]; [reflexivity|]. destruct (String.eqb pt k); [reflexivity|exact IH]. }
    rewrite L. intros l. cbn. tauto.
Qed.

(* ---------- LoadPolicy ---------- *)
Definition mget (m : smap store) (pt : string) : store :=
  match lookup pt m with Some st => st | None => empty_store end.

Definition LInv (cfg : mconf) (m : smap store) : Prop :=
  (forall pt, Inv (mget m pt)) /\
  (forall pt d, def_of cfg pt = Some d -> a_is_g d = true -> exact_arity (a_arity d) (pol (mget m pt))).

Lemma mget_set_del m pt st pt' : mget (set pt st (del pt m)) pt' = if String.eqb pt' pt then st else mget m pt'.
Proof. unfold mget. rewrite lookup_set_del. destruct (String.eqb pt' pt); reflexivity. Qed.

Lemma load_one_LInv cfg m x m' : LInv cfg m -> content_ok cfg [x] -> load_one cfg m x = Some m' -> LInv cfg m'.
Proof.
  intros [I A] Hc H. destruct x as [pt r]. cbn [load_one] in H.
  destruct (Hc pt r (or_introl eq_refl)) as [Wr Har].
  destruct (def_of cfg pt) as [d|] eqn:Hd; [|discriminate].
  destruct (if a_is_g d then _ else _); [discriminate|].
  fold (mget m pt) in H. destruct (has (mget m pt) r) eqn:Hh; inversion H; subst; [split; assumption|].
  split.
  - intros pt'. rewrite mget_set_del. destruct (String.eqb pt' pt); [apply add_Inv; [apply I|exact Wr|exact Hh]|apply I].
  - intros pt' d' Hd' Hg'. rewrite mget_set_del. destruct (String.eqb pt' pt) eqn:E; [|apply A; assumption].
    apply String.eqb_eq in E. subst pt'. rewrite Hd in Hd'. inversion Hd'; subst d'.
    intros x Hx. rewrite add_pol in Hx. apply spec_insert_In in Hx as [->|Hx]; [apply (Har d eq_refl Hg')|apply (A pt d Hd Hg'); exact Hx].
Qed.

Lemma load_all_LInv cfg c : forall m m', LInv cfg m -> content_ok cfg c -> load_all cfg m c = Some m' -> LInv cfg m'.
Proof.
  induction c as [|x t IH]; intros m m' L Hc H; cbn [load_all] in H; [inversion H; subst; exact L|].
  destruct (load_one cfg m x) as [m1|] eqn:E; [|discriminate].
  apply (IH m1 m'); [|intros pt r Hin; apply Hc; right; exact Hin|exact H].
  apply (load_one_LInv cfg m x m1 L); [|exact E]. intros pt r [Hx|[]]. apply Hc. left. exact Hx.
Qed.

Lemma LInv_nil cfg : LInv cfg [].
Proof. split; [intros pt; apply empty_Inv|intros pt d _ _ r []]. Qed.

Lemma reindex_all_Inv st l : Inv st -> Permutation l (pol st) -> Inv {| pol := l; idx := reindex_all l (idx st) |}.
Proof.
  intros [[ND C] W] P.
  assert (NDl : NoDup (map key l)) by (eapply Permutation_NoDup; [apply Permutation_sym, Permutation_map; exact P|exact ND]).
  split; [split; [exact NDl|]|].
  - intros k. cbn [pol idx]. unfold reindex_all. rewrite lookup_reindex by exact NDl.
    destruct (find_key k l 0) eqn:E; [reflexivity|]. rewrite C. apply (find_key_None k (pol st) 0).
    apply (find_key_None k l 0) in E. intros Hin. apply E.
    apply (Permutation_in _ (Permutation_sym (Permutation_map key P))). exact Hin.
  - cbn [pol]. apply Forall_forall. intros x Hx. apply (Permutation_in _ P) in Hx. eapply Forall_forall in W; eassumption.
Qed.

Lemma mget_sort_stores cfg m pt :
  mget (sort_stores cfg m) pt = mget m pt \/
  (exists c, Permutation (pol (mget (sort_stores cfg m) pt)) (pol (mget m pt)) /\
     mget (sort_stores cfg m) pt = {| pol := sort_by_priority c (pol (mget m pt)); idx := reindex_all (sort_by_priority c (pol (mget m pt))) (idx (mget m pt)) |}
     /\ exists d, def_of cfg pt = Some d /\ a_is_g d = false).
Proof.
  unfold mget, sort_stores. induction m as [|[k st] t IH]; cbn [map lookup]; [left; reflexivity|].
  destruct (def_of cfg k) as [d|] eqn:Hd.
  - destruct (a_prio d) as [c|].
    + destruct (a_is_g d) eqn:Hg; cbn [lookup].
      * destruct (String.eqb pt k); [left; reflexivity|exact IH].
      * destruct (String.eqb pt k) eqn:E; [|exact IH]. apply String.eqb_eq in E. subst k.
        right. exists c. cbn [pol]. split; [unfold sort_by_priority; apply insertion_sort_perm|]. split; [reflexivity|]. exists d. auto.
    + cbn [lookup]. destruct (String.eqb pt k); [left; reflexivity|exact IH].
  - cbn [lookup]. destruct (String.eqb pt k); [left; reflexivity|exact IH].
Qed.

Lemma rebuild_links_spec cfg m defs :
  (forall pt d, In (pt, d) defs -> a_is_g d = true -> good_g d /\ exact_arity (a_arity d) (pol (mget m pt))) ->
  snd (rebuild_links cfg m defs) = true /\
  forall pt d, lookup pt defs = Some d -> a_is_g d = true ->
    lookup pt (fst (rebuild_links cfg m defs)) = Some (fst (rebuild (a_arity d) (pol (mget m pt)))).
Proof.
  induction defs as [|[k dk] t IH]; intros H; cbn [rebuild_links].
  - split; [reflexivity|]. intros pt d Hd. discriminate.
  - assert (Ht : forall pt d, In (pt, d) t -> a_is_g d = true -> good_g d /\ exact_arity (a_arity d) (pol (mget m pt)))
      by (intros pt d Hin; apply H; right; exact Hin).
    destruct (IH Ht) as [Ok L]. destruct (a_is_g dk) eqn:Hg.
    + destruct (H k dk (or_introl eq_refl) Hg) as [Gg Ex]. fold (mget m k).
      unfold rebuild in *. destruct (build_incremental_add (a_arity dk) (pol (mget m k)) [] Gg Ex) as [ls' [B _]].
      rewrite !B. destruct (rebuild_links cfg m t) as [rest ok']. cbn [fst snd] in *. split; [exact Ok|].
      intros pt d Hd Hgd. cbn [lookup] in Hd. cbn [fst lookup]. destruct (String.eqb pt k) eqn:E.
      * inversion Hd; subst d. apply String.eqb_eq in E. subst k. rewrite B. reflexivity.
      * apply L; assumption.
    + split; [exact Ok|]. intros pt d Hd Hgd. cbn [lookup] in Hd. destruct (String.eqb pt k) eqn:E.
      * inversion Hd; subst d. congruence.
      * apply L; assumption.
Qed.

Lemma lookup_In {A} k (v : A) m : lookup k m = Some v -> In (k, v) m.
Proof.
  induction m as [|[k' v'] t IH]; cbn [lookup]; [discriminate|]. destruct (String.eqb k k') eqn:E.
  - intros H. inversion H; subst. apply String.eqb_eq in E. subst. left. reflexivity.
  - intros H. right. apply IH. exact H.
Qed.

Lemma In_lookup {A} k (v : A) m : NoDup (map fst m) -> In (k, v) m -> lookup k m = Some v.
Proof.
  induction m as [|[k' v'] t IH]; cbn [map fst lookup In]; intros ND H; [contradiction|]. inversion ND; subst.
  destruct H as [H|H].
  - inversion H; subst. rewrite String.eqb_refl. reflexivity.
  - destruct (String.eqb k k') eqn:E; [|apply IH; assumption].
    apply String.eqb_eq in E. subst k'. exfalso. apply H2. apply in_map_iff. exists (k, v). auto.
Qed.

Lemma load_policy_MInv cfg s : NoDup (map fst cfg) -> MInv cfg s -> content_ok cfg (content (ad s)) ->
  (forall pt d, def_of cfg pt = Some d -> a_is_g d = true -> good_g d) ->
  MInv cfg (fst (load_policy cfg s)).
Proof.
  intros NDc M Hc Hgood. unfold load_policy.
  destruct (adapter_call (ad s) ALoad) as [[a ok] old] eqn:Ea.
  assert (Sm : same_mem s (with_ad s a)) by (split; reflexivity).
  assert (Eca : ok = true -> content a = content (ad s)).
  { unfold adapter_call in Ea. destruct (fail_in (ad s)) as [[|k]|]; inversion Ea; subst; cbn [content]; auto; discriminate. }
  destruct ok; cbn [negb]; [|apply (MInv_same_mem _ _ _ Sm M)].
  rewrite (Eca eq_refl).
  destruct (load_all cfg [] (content (ad s))) as [m|] eqn:El; [|apply (MInv_same_mem _ _ _ Sm M)].
  pose proof (load_all_LInv cfg _ [] m (LInv_nil cfg) Hc El) as [LI LA].
  assert (SI : forall pt, Inv (mget (sort_stores cfg m) pt)).
  { intros pt. destruct (mget_sort_stores cfg m pt) as [E|[c [P [E _]]]]; [rewrite E; apply LI|].
    rewrite E. apply reindex_all_Inv; [apply LI|]. unfold sort_by_priority. apply insertion_sort_perm. }
  assert (SA : forall pt d, def_of cfg pt = Some d -> a_is_g d = true ->
             mget (sort_stores cfg m) pt = mget m pt).
  { intros pt d Hd Hg. destruct (mget_sort_stores cfg m pt) as [E|[c [_ [_ [d' [Hd' Hg']]]]]]; [exact E|]. congruence. }
  destruct (rebuild_links_spec cfg (sort_stores cfg m) cfg) as [Ok L].
  { intros pt d Hin Hg. pose proof (In_lookup pt d cfg NDc Hin) as Hd. split; [apply (Hgood pt d Hd Hg)|].
    rewrite (SA pt d Hd Hg). apply (LA pt d Hd Hg). }
  destruct (rebuild_links cfg (sort_stores cfg m) cfg) as [ls lok]. cbn [fst snd] in *. subst lok. cbn [negb fst].
  split.
  - intros pt. unfold get_store. cbn [stores]. apply SI.
  - intros pt d Hd Hg. split; [apply (Hgood pt d Hd Hg)|].
    unfold get_store, get_links. cbn [stores rlinks]. fold (mget (sort_stores cfg m) pt).
    rewrite (SA pt d Hd Hg), (L pt d Hd Hg), (SA pt d Hd Hg). split; [apply (LA pt d Hd Hg)|].
    unfold rebuild. destruct (build_incremental_add (a_arity d) (pol (mget m pt)) [] (Hgood pt d Hd Hg) (LA pt d Hd Hg)) as [ls' [B Hl]].
    rewrite B. cbn [fst]. intros lk. rewrite Hl. cbn [In]. tauto.
Qed.

(* ---------- every operation ---------- *)
Lemma save_policy_mem cfg s : same_mem s (fst (save_policy cfg s)).
Proof.
  unfold save_policy. destruct (adapter_call (ad s) (ASave (all_prules cfg s))) as [[a ok] old].
  destruct ok; cbn [negb]; [|split; reflexivity]. cbn [with_ad watcher]. destruct (watcher s); split; reflexivity.
Qed.

Theorem step_wo_MInv cfg op : forall s nt, NoDup (map fst cfg) -> MInv cfg s -> mop_ok cfg s op ->
  MInv cfg (fst (step_wo cfg s op nt)).
Proof.
  induction op; intros s nt NDc M G; cbn [step_wo mop_ok] in *;
    try (destruct (def_of cfg pt) as [d|] eqn:Hd; [|exact M]).
  - specialize (G d eq_refl). destruct nt; cbn [fst snd];
      [eapply MInv_same_mem; [apply notify_mem|]|]; apply add_wo_MInv; assumption.
  - specialize (G d eq_refl). destruct nt; cbn [fst snd];
      [eapply MInv_same_mem; [apply notify_mem|]|]; apply add_many_wo_MInv; assumption.
  - specialize (G d eq_refl). destruct nt; cbn [fst snd];
      [eapply MInv_same_mem; [apply notify_mem|]|]; apply add_many_wo_MInv; assumption.
  - specialize (G d eq_refl). destruct nt; cbn [fst snd];
      [eapply MInv_same_mem; [apply notify_mem|]|]; apply remove_wo_MInv; assumption.
  - specialize (G d eq_refl). destruct nt; cbn [fst snd];
      [eapply MInv_same_mem; [apply notify_mem|]|]; apply remove_many_wo_MInv; assumption.
  - destruct (G d eq_refl) as [G1 G2]. destruct nt; cbn [fst snd];
      [eapply MInv_same_mem; [apply notify_mem|]|]; apply update_wo_MInv; assumption.
  - destruct (G d eq_refl) as [G1 [G2 [G3 [G4 G5]]]]. destruct nt; cbn [fst snd];
      [eapply MInv_same_mem; [apply notify_mem|]|]; apply update_many_wo_MInv; assumption.
  - destruct nt; cbn [fst snd];
      [eapply MInv_same_mem; [apply notify_mem|]|]; apply remove_filtered_wo_MInv; assumption.
  - contradiction.
  - apply IHop; assumption.
  - apply clear_policy_MInv. exact M.
  - destruct G as [G1 G2]. apply load_policy_MInv; assumption.
  - eapply MInv_same_mem; [apply save_policy_mem|exact M].
  - cbn [fst]. eapply MInv_same_mem; [|exact M]. split; reflexivity.
  - cbn [fst]. eapply MInv_same_mem; [|exact M]. split; reflexivity.
  - cbn [fst]. eapply MInv_same_mem; [|exact M]. split; reflexivity.
Qed.

Fixpoint mguards (cfg : mconf) (s : mstate) (ops : list mop) : Prop :=
  match ops with
  | [] => True
  | op :: t => mop_ok cfg s op /\ mguards cfg (fst (step cfg s op)) t
  end.

Theorem run_MInv cfg ops : forall s, NoDup (map fst cfg) -> MInv cfg s -> mguards cfg s ops ->
  MInv cfg (fst (run cfg s ops)).
Proof.
  induction ops as [|op t IH]; intros s NDc M G; cbn [run fst]; [exact M|]. destruct G as [G1 G2].
  pose proof (step_wo_MInv cfg op s true NDc M G1) as M1. fold (step cfg s op) in M1.
  destruct (step cfg s op) as [s1 r1]. cbn [fst] in *. specialize (IH s1 NDc M1 G2).
  destruct (run cfg s1 t). exact IH.
Qed.

Lemma init_MInv cfg sv nt w c : (forall pt d, def_of cfg pt = Some d -> a_is_g d = true -> good_g d) ->
  MInv cfg (init_state cfg sv nt w c).
Proof.
  intros Hg. split.
  - intros pt. apply empty_Inv.
  - intros pt d Hd Hgd. split; [apply (Hg pt d Hd Hgd)|]. unfold get_store, get_links. cbn [init_state stores rlinks lookup pol empty_store].
    split; [intros r []|intros l; cbn; tauto].
Qed.

(* ---------- C05: the role graph answers like one rebuilt from the listed rules ---------- *)
Theorem links_mirror_listed cfg s pt d : MInv cfg s -> def_of cfg pt = Some d -> a_is_g d = true ->
  links_equiv (get_links s pt) (fst (rebuild (a_arity d) (pol (get_store s pt)))).
Proof.
  intros M Hd Hg. destruct (proj2 M pt d Hd Hg) as [Gg [Ex Le]].
  unfold rebuild. destruct (build_incremental_add (a_arity d) (pol (get_store s pt)) [] Gg Ex) as [ls' [B Hl]].
  rewrite B. cbn [fst]. intros lk. rewrite (Le lk), Hl. cbn [In]. tauto.
Qed.

Theorem incremental_eq_rebuilt cfg s pt d (u r dom : string) : MInv cfg s -> def_of cfg pt = Some d -> a_is_g d = true ->
  has_link (get_links s pt) u r dom = has_link (fst (rebuild (a_arity d) (pol (get_store s pt)))) u r dom /\
  (forall x, In x (get_roles (get_links s pt) u dom) <-> In x (get_roles (fst (rebuild (a_arity d) (pol (get_store s pt)))) u dom)) /\
  (forall x, In x (get_users (get_links s pt) u dom) <-> In x (get_users (fst (rebuild (a_arity d) (pol (get_store s pt)))) u dom)).
Proof.
  intros M Hd Hg. pose proof (links_mirror_listed cfg s pt d M Hd Hg) as E.
  split; [apply has_link_equiv; exact E|]. split; intros x; [apply get_roles_equiv|apply get_users_equiv]; exact E.
Qed.

(* ---------- isolation: a call on one policy type / role definition touches no other ---------- *)
Definition touches_only (s s' : mstate) (pt : string) : Prop :=
  forall pt', pt' <> pt -> get_store s' pt' = get_store s pt' /\ get_links s' pt' = get_links s pt'.

Lemma same_mem_touches s s' pt : same_mem s s' -> touches_only s s' pt.
Proof. intros [S L] pt' _. auto. Qed.
Lemma mem_change_touches s s' pt st ls : mem_change s s' pt st ls -> touches_only s s' pt.
Proof. intros [S L] pt' H. apply String.eqb_neq in H. rewrite S, L, H. auto. Qed.
Lemma touches_trans a b c pt : touches_only a b pt -> touches_only b c pt -> touches_only a c pt.
Proof. intros H1 H2 pt' H. destruct (H1 pt' H) as [A1 A2]. destruct (H2 pt' H) as [B1 B2]. split; congruence. Qed.

Lemma with_store_touches s pt st : touches_only s (with_store s pt st) pt.
Proof. eapply mem_change_touches. apply mem_change_store. Qed.
Lemma links_update_touches d s pt a rs : touches_only s (fst (links_update d s pt a rs)) pt.
Proof. eapply mem_change_touches. apply (proj1 (links_update_mem d s pt a rs)). Qed.
Lemma persist_touches s c pt : touches_only s (fst (fst (persist s c))) pt.
Proof. apply same_mem_touches. apply persist_mem. Qed.

Ltac touch_step :=
  cbn [fst];
  match goal with
  | |- touches_only ?s ?s _ => apply same_mem_touches, same_mem_refl
  | |- touches_only ?s (fst (links_update ?d ?s1 ?pt ?a ?rs)) ?pt =>
      apply (touches_trans s s1 _ pt); [|apply links_update_touches]
  | |- touches_only ?s (with_store ?s1 ?pt ?st) ?pt =>
      apply (touches_trans s s1 _ pt); [|apply with_store_touches]
  end.

Lemma add_wo_touches d s pt r : touches_only s (fst (add_wo d s pt r)) pt.
Proof.
  unfold add_wo. destruct (has _ r); [touch_step|].
  pose proof (persist_touches s (AAdd pt r) pt) as P. destruct (persist s (AAdd pt r)) as [[s1 ok] old]. cbn [fst] in P.
  destruct ok; cbn [negb]; [|exact P]. destruct (a_is_g d).
  - destruct (links_update d _ pt true [r]) as [s3 lok] eqn:E. cbn [fst].
    replace s3 with (fst (links_update d (with_store s1 pt (add (a_prio d) (get_store s pt) r)) pt true [r])) by (rewrite E; reflexivity).
    repeat touch_step. exact P.
  - cbn [fst]. touch_step. exact P.
Qed.

Lemma add_many_wo_touches d s pt rs arr : touches_only s (fst (add_many_wo d s pt rs arr)) pt.
Proof.
  unfold add_many_wo. destruct (negb arr && has_any _ rs); [touch_step|].
  pose proof (persist_touches s (AAddMany pt rs) pt) as P. destruct (persist s (AAddMany pt rs)) as [[s1 ok] old]. cbn [fst] in P.
  destruct ok; cbn [negb]; [|exact P]. destruct (a_is_g d).
  - destruct (links_update d _ pt true rs) as [s3 lok] eqn:E. cbn [fst].
    replace s3 with (fst (links_update d (with_store s1 pt (fst (add_many (a_prio d) (get_store s pt) rs))) pt true rs)) by (rewrite E; reflexivity).
    repeat touch_step. exact P.
  - cbn [fst]. touch_step. exact P.
Qed.

Lemma remove_wo_touches d s pt r : touches_only s (fst (remove_wo d s pt r)) pt.
Proof.
  unfold remove_wo.
  pose proof (persist_touches s (ARemove pt r) pt) as P. destruct (persist s (ARemove pt r)) as [[s1 ok] old]. cbn [fst] in P.
  destruct ok; cbn [negb]; [|exact P]. destruct (remove (get_store s1 pt) r) as [st' removed].
  destruct removed; cbn [negb]; [|exact P]. destruct (a_is_g d).
  - destruct (links_update d _ pt false [r]) as [s3 lok] eqn:E. cbn [fst].
    replace s3 with (fst (links_update d (with_store s1 pt st') pt false [r])) by (rewrite E; reflexivity).
    repeat touch_step. exact P.
  - cbn [fst]. touch_step. exact P.
Qed.

Lemma remove_many_wo_touches d s pt rs : touches_only s (fst (remove_many_wo d s pt rs)) pt.
Proof.
  unfold remove_many_wo. destruct (negb (has_any _ rs)); [touch_step|].
  pose proof (persist_touches s (ARemoveMany pt rs) pt) as P. destruct (persist s (ARemoveMany pt rs)) as [[s1 ok] old]. cbn [fst] in P.
  destruct ok; cbn [negb]; [|exact P]. destruct (remove_many (get_store s pt) rs) as [st' aff].
  destruct aff; [exact P|]. destruct (a_is_g d).
  - destruct (links_update d _ pt false rs) as [s3 lok] eqn:E. cbn [fst].
    replace s3 with (fst (links_update d (with_store s1 pt st') pt false rs)) by (rewrite E; reflexivity).
    repeat touch_step. exact P.
  - cbn [fst]. touch_step. exact P.
Qed.

Lemma update_wo_touches d s pt o n : touches_only s (fst (update_wo d s pt o n)) pt.
Proof.
  unfold update_wo.
  pose proof (persist_touches s (AUpdate pt o n) pt) as P. destruct (persist s (AUpdate pt o n)) as [[s1 ok] old]. cbn [fst] in P.
  destruct ok; cbn [negb]; [|exact P]. destruct (update (get_store s1 pt) o n) as [st' updated].
  destruct updated; cbn [negb]; [|exact P]. destruct (a_is_g d).
  - destruct (links_update d (with_store s1 pt st') pt false [o]) as [s3 lok1] eqn:E1.
    assert (T3 : touches_only s s3 pt).
    { replace s3 with (fst (links_update d (with_store s1 pt st') pt false [o])) by (rewrite E1; reflexivity). repeat touch_step. exact P. }
    destruct lok1; cbn [negb fst]; [|exact T3].
    destruct (links_update d s3 pt true [n]) as [s4 lok2] eqn:E2. cbn [fst].
    replace s4 with (fst (links_update d s3 pt true [n])) by (rewrite E2; reflexivity). touch_step. exact T3.
  - cbn [fst]. touch_step. exact P.
Qed.

Lemma update_many_wo_touches d s pt os ns : touches_only s (fst (update_many_wo d s pt os ns)) pt.
Proof.
  unfold update_many_wo. destruct (negb (Nat.eqb _ _)); [touch_step|].
  pose proof (persist_touches s (AUpdateMany pt os ns) pt) as P. destruct (persist s (AUpdateMany pt os ns)) as [[s1 ok] old]. cbn [fst] in P.
  destruct ok; cbn [negb]; [|exact P]. destruct (update_many (get_store s1 pt) os ns) as [st' updated].
  destruct updated; cbn [negb fst]; [|touch_step; exact P]. destruct (a_is_g d).
  - destruct (links_update d (with_store s1 pt st') pt false os) as [s3 lok1] eqn:E1.
    assert (T3 : touches_only s s3 pt).
    { replace s3 with (fst (links_update d (with_store s1 pt st') pt false os)) by (rewrite E1; reflexivity). repeat touch_step. exact P. }
    destruct lok1; cbn [negb fst]; [|exact T3].
    destruct (links_update d s3 pt true ns) as [s4 lok2] eqn:E2. cbn [fst].
    replace s4 with (fst (links_update d s3 pt true ns)) by (rewrite E2; reflexivity). touch_step. exact T3.
  - cbn [fst]. touch_step. exact P.
Qed.

Lemma remove_filtered_wo_touches d s pt fi fvs : touches_only s (fst (remove_filtered_wo d s pt fi fvs)) pt.
Proof.
  unfold remove_filtered_wo. destruct fvs as [|fv t]; [touch_step|].
  pose proof (persist_touches s (ARemoveFiltered pt fi (fv :: t)) pt) as P.
  destruct (persist s (ARemoveFiltered pt fi (fv :: t))) as [[s1 ok] old]. cbn [fst] in P.
  destruct ok; cbn [negb]; [|exact P].
  destruct (remove_filtered (get_store s1 pt) fi (fv :: t)) as [[[st' removed] eff]|]; [|exact P].
  destruct removed; cbn [negb fst]; [|touch_step; exact P]. destruct (a_is_g d).
  - destruct (links_update d _ pt false eff) as [s3 lok] eqn:E. cbn [fst].
    replace s3 with (fst (links_update d (with_store s1 pt st') pt false eff)) by (rewrite E; reflexivity).
    repeat touch_step. exact P.
  - cbn [fst]. touch_step. exact P.
Qed.

(* the policy type / role definition a management call addresses *)
Fixpoint op_pt (op : mop) : option string :=
  match op with
  | MAdd pt _ | MAddMany pt _ | MAddManyEx pt _ | MRemove pt _ | MRemoveMany pt _ | MUpdate pt _ _
  | MUpdateMany pt _ _ | MRemoveFiltered pt _ _ => Some pt
  | MSelf op' => op_pt op'
  | _ => None
  end.

Theorem definitions_isolated cfg op : forall s nt pt, op_pt op = Some pt ->
  touches_only s (fst (step_wo cfg s op nt)) pt.
Proof.
  induction op; intros s nt pt0 H; cbn [op_pt] in H; try discriminate; try (inversion H; subst pt0);
    cbn [step_wo]; try (destruct (def_of cfg pt) as [d|]; [|apply same_mem_touches, same_mem_refl]);
    try (destruct nt; cbn [fst snd]; [eapply touches_trans; [|apply same_mem_touches, notify_mem]|]).
  all: try apply add_wo_touches; try apply add_many_wo_touches; try apply remove_wo_touches;
       try apply remove_many_wo_touches; try apply update_wo_touches; try apply update_many_wo_touches;
       try apply remove_filtered_wo_touches.
  apply IHop. exact H.
Qed.
