(* RoleGraph.v — STRUCTURAL executable model of rbac/default-role-manager/role_manager.go:
   RoleManagerImpl as the pointer structure it is (allRoles : name -> *Role, every Role with its
   roles / users / matched / matchedBy maps), and DomainManager (rmMap : domain -> *RoleManagerImpl).
   The model follows the Go code function by function.

   Object identity.  A *Role is an object id (nat) into an explicit heap; every map that holds
   *Role values in Go holds ids here.  An object that is dropped from allRoles stays in the heap,
   so a map that still holds its id keeps seeing the OLD object (stale-pointer behaviour is
   representable: see RoleGraphProofs.stale_pointer_shape).  Clear replaces allRoles by a fresh
   map; nothing reachable from the manager points into the old objects afterwards, so the heap is
   reset as well (rebuild reads the links of the old map first, as the Go code does).

   Go maps (sync.Map and map[string]*Role) are insertion-ordered association lists: Store on a
   present key replaces the value in place, Store on an absent key appends, Delete filters.
   Every result compared with the implementation is order-insensitive or sorted by the driver.

   The role matching function and the domain matching function are Section variables (boolean
   functions on strings); whether one is registered is a flag of the state (m_mf, d_mf, d_dmf).
   NOT modelled: ConditionalRoleManager / ConditionalDomainManager (link condition functions),
   logging, the matchingFuncCache field (never read).  Definitions only. *)
From Coq Require Import List String Bool Arith.
Import ListNotations.
From Casbin Require Import Base Roles.

(* ---------- maps ---------- *)
(* m.Store(k, v) *)
Fixpoint mput {A} (k : string) (v : A) (m : list (string * A)) : list (string * A) :=
  match m with
  | [] => [(k, v)]
  | (k', v') :: t => if String.eqb k k' then (k, v) :: t else (k', v') :: mput k v t
  end.

(* ---------- Role objects and the heap ---------- *)
Record robj := mkRobj {
  o_name : string;
  o_roles : list (string * nat);        (* roles     *sync.Map  name -> *Role *)
  o_users : list (string * nat);        (* users     *)
  o_matched : list (string * nat);      (* matched   *)
  o_matchedBy : list (string * nat) }.  (* matchedBy *)

(* newRole(name) *)
Definition new_obj (name : string) : robj := mkRobj name [] [] [] [].

Definition set_roles (o : robj) v := mkRobj (o_name o) v (o_users o) (o_matched o) (o_matchedBy o).
Definition set_users (o : robj) v := mkRobj (o_name o) (o_roles o) v (o_matched o) (o_matchedBy o).
Definition set_matched (o : robj) v := mkRobj (o_name o) (o_roles o) (o_users o) v (o_matchedBy o).
Definition set_matchedBy (o : robj) v := mkRobj (o_name o) (o_roles o) (o_users o) (o_matched o) v.

Fixpoint hget (i : nat) (h : list (nat * robj)) : option robj :=
  match h with
  | [] => None
  | (j, o) :: t => if Nat.eqb i j then Some o else hget i t
  end.
(* *p = f( *p ) *)
Definition hupd (i : nat) (f : robj -> robj) (h : list (nat * robj)) : list (nat * robj) :=
  map (fun p => if Nat.eqb i (fst p) then (fst p, f (snd p)) else p) h.

Definition name_of (h : list (nat * robj)) (i : nat) : string :=
  match hget i h with Some o => o_name o | None => EmptyString end.
Definition obj_of (h : list (nat * robj)) (i : nat) : robj :=
  match hget i h with Some o => o | None => new_obj EmptyString end.

(* func (r *Role) addRole(role *Role): r.roles.Store(role.name, role); role.users.Store(r.name, r) *)
Definition role_add_role (h : list (nat * robj)) (r role : nat) : list (nat * robj) :=
  let rn := name_of h role in
  let un := name_of h r in
  hupd role (fun o => set_users o (mput un r (o_users o)))
       (hupd r (fun o => set_roles o (mput rn role (o_roles o))) h).

(* func (r *Role) removeRole(role *Role): r.roles.Delete(role.name); role.users.Delete(r.name) *)
Definition role_remove_role (h : list (nat * robj)) (r role : nat) : list (nat * robj) :=
  let rn := name_of h role in
  let un := name_of h r in
  hupd role (fun o => set_users o (del un (o_users o)))
       (hupd r (fun o => set_roles o (del rn (o_roles o))) h).

(* func (r *Role) addMatch(role *Role): r.matched.Store(role.name, role); role.matchedBy.Store(r.name, r) *)
Definition role_add_match (h : list (nat * robj)) (r role : nat) : list (nat * robj) :=
  let rn := name_of h role in
  let pn := name_of h r in
  hupd role (fun o => set_matchedBy o (mput pn r (o_matchedBy o)))
       (hupd r (fun o => set_matched o (mput rn role (o_matched o))) h).

(* func (r *Role) removeMatch(role *Role) *)
Definition role_remove_match (h : list (nat * robj)) (r role : nat) : list (nat * robj) :=
  let rn := name_of h role in
  let pn := name_of h r in
  hupd role (fun o => set_matchedBy o (del pn (o_matchedBy o)))
       (hupd r (fun o => set_matched o (del rn (o_matched o))) h).

(* func (r *Role) removeMatches(): the two Range loops visit the entries present when they start *)
Definition role_remove_matches (h : list (nat * robj)) (r : nat) : list (nat * robj) :=
  let h1 := fold_left (fun hh p => role_remove_match hh r (snd p)) (o_matched (obj_of h r)) h in
  fold_left (fun hh p => role_remove_match hh (snd p) r) (o_matchedBy (obj_of h1 r)) h1.

(* func (r *Role) rangeRoles(fn): the (key, value) pairs handed to fn, in the order of the three loops *)
Definition range_roles (h : list (nat * robj)) (o : robj) : list (string * nat) :=
  o_roles o
  ++ flat_map (fun p => o_matched (obj_of h (snd p))) (o_roles o)
  ++ flat_map (fun p => o_roles (obj_of h (snd p))) (o_matchedBy o).

(* func (r *Role) rangeUsers(fn) *)
Definition range_users (h : list (nat * robj)) (o : robj) : list (string * nat) :=
  o_users o
  ++ flat_map (fun p => o_matched (obj_of h (snd p))) (o_users o)
  ++ flat_map (fun p => o_users (obj_of h (snd p))) (o_matchedBy o).

(* util.RemoveDuplicateElement: keeps first occurrences *)
Fixpoint nub_acc (seen l : list string) : list string :=
  match l with
  | [] => []
  | x :: t => if mem_str x seen then nub_acc seen t else x :: nub_acc (x :: seen) t
  end.
Definition nub (l : list string) : list string := nub_acc [] l.

(* func (r *Role) getRoles() / getUsers(): getUsers does NOT remove duplicates *)
Definition role_get_roles (h : list (nat * robj)) (o : robj) : list string := nub (map fst (range_roles h o)).
Definition role_get_users (h : list (nat * robj)) (o : robj) : list string := map fst (range_users h o).

(* ---------- RoleManagerImpl ---------- *)
Record rmgr := mkRm {
  m_heap : list (nat * robj);
  m_next : nat;                      (* next fresh object id *)
  m_all : list (string * nat);       (* allRoles *)
  m_mf : bool }.                     (* matchingFunc != nil *)

Definition set_heap (s : rmgr) h := mkRm h (m_next s) (m_all s) (m_mf s).

(* NewRoleManagerImpl / newRoleManagerWithMatchingFunc *)
Definition new_rm (mfset : bool) : rmgr := mkRm [] 0 [] mfset.

(* the links rangeLinks enumerates: for every registered object, (user.name, key) for every key of
   its roles map *)
Definition links_of (s : rmgr) : list (string * string) :=
  flat_map (fun p => match hget (snd p) (m_heap s) with
                     | Some o => map (fun q => (o_name o, fst q)) (o_roles o)
                     | None => []
                     end) (m_all s).

(* Clear: allRoles = &sync.Map{}; the matching function stays *)
Definition rm_clear (s : rmgr) : rmgr := mkRm [] 0 [] (m_mf s).

Section WithMatching.
(* rbac.MatchingFunc for role names and for domain names *)
Variable mf : string -> string -> bool.
Variable dmf : string -> string -> bool.

(* func (rm *RoleManagerImpl) Match(str, pattern) *)
Definition rm_match (mfset : bool) (str pattern : string) : bool :=
  String.eqb str pattern || (mfset && mf str pattern).

(* getRole: loads or creates a role; a created role is matched against every registered name *)
Definition get_role (s : rmgr) (name : string) : rmgr * nat * bool :=
  match lookup name (m_all s) with
  | Some i => (s, i, false)
  | None =>
      let i := m_next s in
      let h0 := m_heap s ++ [(i, new_obj name)] in
      let all := mput name i (m_all s) in
      let h2 :=
        if m_mf s then
          (* rangeMatchingRoles(name, false, r => r.addMatch(role)) *)
          let h1 := fold_left (fun hh p =>
                      if negb (String.eqb name (fst p)) && rm_match (m_mf s) name (fst p)
                      then role_add_match hh (snd p) i else hh) all h0 in
          (* rangeMatchingRoles(name, true, r => role.addMatch(r)) *)
          fold_left (fun hh p =>
                      if negb (String.eqb name (fst p)) && rm_match (m_mf s) (fst p) name
                      then role_add_match hh i (snd p) else hh) all h1
        else h0 in
      (mkRm h2 (S i) all (m_mf s), i, true)
  end.

(* removeRole(name): loadAndDelete + removeMatches *)
Definition remove_role (s : rmgr) (name : string) : rmgr :=
  match lookup name (m_all s) with
  | Some i => mkRm (role_remove_matches (m_heap s) i) (m_next s) (del name (m_all s)) (m_mf s)
  | None => s
  end.

(* AddLink *)
Definition add_link (s : rmgr) (n1 n2 : string) : rmgr :=
  let '(s1, u, _) := get_role s n1 in
  let '(s2, r, _) := get_role s1 n2 in
  set_heap s2 (role_add_role (m_heap s2) u r).

(* DeleteLink (never an error in the current source: both names are created on demand) *)
Definition delete_link (s : rmgr) (n1 n2 : string) : rmgr :=
  let '(s1, u, _) := get_role s n1 in
  let '(s2, r, _) := get_role s1 n2 in
  set_heap s2 (role_remove_role (m_heap s2) u r).

(* the body of `for _, role := range roles` in hasLinkHelper: None = return true, Some next = nextRoles *)
Fixpoint hl_scan (h : list (nat * robj)) (mfset : bool) (target : string)
                 (frontier next : list (string * nat)) : option (list (string * nat)) :=
  match frontier with
  | [] => Some next
  | p :: t =>
      let o := obj_of h (snd p) in
      if String.eqb target (o_name o) || (mfset && rm_match mfset (o_name o) target) then None
      else hl_scan h mfset target t
             (fold_left (fun acc q => mput (fst q) (snd q) acc) (range_roles h o) next)
  end.

(* hasLinkHelper(targetName, roles, level): fuel = level + 1 *)
Fixpoint hl_helper (h : list (nat * robj)) (mfset : bool) (fuel : nat) (target : string)
                   (frontier : list (string * nat)) : bool :=
  match fuel with
  | 0 => false
  | S f =>
      match frontier with
      | [] => false
      | _ => match hl_scan h mfset target frontier [] with
             | None => true
             | Some next => hl_helper h mfset f target next
             end
      end
  end.

(* HasLink with maxHierarchyLevel = n; temporary roles are removed in the order of the defers *)
Definition has_link (n : nat) (s : rmgr) (n1 n2 : string) : rmgr * bool :=
  if String.eqb n1 n2 || (m_mf s && rm_match (m_mf s) n1 n2) then (s, true)
  else
    let '(s1, u, uc) := get_role s n1 in
    let '(s2, r, rc) := get_role s1 n2 in
    let res := hl_helper (m_heap s2) (m_mf s2) (S n) (name_of (m_heap s2) r)
                         [(name_of (m_heap s2) u, u)] in
    let s3 := if rc then remove_role s2 (name_of (m_heap s2) r) else s2 in
    let s4 := if uc then remove_role s3 (name_of (m_heap s3) u) else s3 in
    (s4, res).

(* GetRoles / GetUsers *)
Definition get_roles (s : rmgr) (name : string) : rmgr * list string :=
  let '(s1, u, c) := get_role s name in
  let res := role_get_roles (m_heap s1) (obj_of (m_heap s1) u) in
  ((if c then remove_role s1 (name_of (m_heap s1) u) else s1), res).
Definition get_users (s : rmgr) (name : string) : rmgr * list string :=
  let '(s1, u, c) := get_role s name in
  let res := role_get_users (m_heap s1) (obj_of (m_heap s1) u) in
  ((if c then remove_role s1 (name_of (m_heap s1) u) else s1), res).

(* rebuild: roles := rm.allRoles; Clear; rangeLinks(roles, AddLink) *)
Definition add_links (s : rmgr) (ls : list (string * string)) : rmgr :=
  fold_left (fun acc l => add_link acc (fst l) (snd l)) ls s.
Definition rm_rebuild (s : rmgr) : rmgr := add_links (rm_clear s) (links_of s).
(* AddMatchingFunc *)
Definition rm_add_matching_func (s : rmgr) : rmgr :=
  rm_rebuild (mkRm (m_heap s) (m_next s) (m_all s) true).
(* copyFrom *)
Definition copy_from (s other : rmgr) : rmgr := add_links s (links_of other).

(* ---------- operations and histories of one RoleManagerImpl ---------- *)
Inductive rop :=
| RAdd (u r : string) | RDel (u r : string) | RHas (u r : string)
| RRoles (u : string) | RUsers (u : string) | RClear | RAddMF.
Inductive rres := ResUnit | ResBool (b : bool) | ResList (l : list string).

Definition rstep (n : nat) (s : rmgr) (op : rop) : rmgr * rres :=
  match op with
  | RAdd u r => (add_link s u r, ResUnit)
  | RDel u r => (delete_link s u r, ResUnit)
  | RHas u r => let '(s', b) := has_link n s u r in (s', ResBool b)
  | RRoles u => let '(s', l) := get_roles s u in (s', ResList l)
  | RUsers u => let '(s', l) := get_users s u in (s', ResList l)
  | RClear => (rm_clear s, ResUnit)
  | RAddMF => (rm_add_matching_func s, ResUnit)
  end.
Definition rrun (n : nat) (s : rmgr) (ops : list rop) : rmgr :=
  fold_left (fun acc op => fst (rstep n acc op)) ops s.

(* ---------- DomainManager ---------- *)
Record dmgr := mkDm {
  d_rms : list (string * rmgr);   (* rmMap *)
  d_mf : bool;                    (* matchingFunc != nil *)
  d_dmf : bool }.                 (* domainMatchingFunc != nil *)

Definition new_dm : dmgr := mkDm [] false false.
Definition set_rms (dm : dmgr) v := mkDm v (d_mf dm) (d_dmf dm).
(* Clear: rmMap = &sync.Map{}; both functions stay *)
Definition dm_clear (dm : dmgr) : dmgr := set_rms dm [].

(* func (dm *DomainManager) Match(str, pattern) *)
Definition dm_match (dm : dmgr) (str pattern : string) : bool :=
  String.eqb str pattern || (d_dmf dm && dmf str pattern).

(* getRoleManager(domain, store): a new manager is stored first (when asked), then the links of
   every registered manager whose domain pattern matches `domain` are copied into it *)
Definition get_rm (dm : dmgr) (domain : string) (store : bool) : dmgr * rmgr :=
  match lookup domain (d_rms dm) with
  | Some rm => (dm, rm)
  | None =>
      let rm0 := new_rm (d_mf dm) in
      let rms1 := if store then mput domain rm0 (d_rms dm) else d_rms dm in
      let rm1 :=
        if d_dmf dm then
          fold_left (fun acc p =>
                       if negb (String.eqb domain (fst p)) && dm_match dm domain (fst p)
                       then copy_from acc (snd p) else acc) rms1 rm0
        else rm0 in
      ((if store then set_rms dm (mput domain rm1 rms1) else dm), rm1)
  end.

(* rangeAffectedRoleManagers(domain, fn) as a map over rmMap *)
Definition range_affected (dm : dmgr) (domain : string) (fn : rmgr -> rmgr) : dmgr :=
  if d_dmf dm then
    set_rms dm (map (fun p => if negb (String.eqb domain (fst p)) && dm_match dm (fst p) domain
                              then (fst p, fn (snd p)) else p) (d_rms dm))
  else dm.

Definition dm_add_link (dm : dmgr) (n1 n2 domain : string) : dmgr :=
  let '(dm1, rm) := get_rm dm domain true in
  let dm2 := set_rms dm1 (mput domain (add_link rm n1 n2) (d_rms dm1)) in
  range_affected dm2 domain (fun rm2 => add_link rm2 n1 n2).

Definition dm_delete_link (dm : dmgr) (n1 n2 domain : string) : dmgr :=
  let '(dm1, rm) := get_rm dm domain true in
  let dm2 := set_rms dm1 (mput domain (delete_link rm n1 n2) (d_rms dm1)) in
  range_affected dm2 domain (fun rm2 => delete_link rm2 n1 n2).

(* a query runs on the stored manager (whose temporary roles come and go) or on a manager
   assembled for the occasion, which is dropped afterwards *)
Definition dm_query {A} (dm : dmgr) (domain : string) (q : rmgr -> rmgr * A) : dmgr * A :=
  let '(dm1, rm) := get_rm dm domain false in
  let '(rm', a) := q rm in
  (match lookup domain (d_rms dm1) with
   | Some _ => set_rms dm1 (mput domain rm' (d_rms dm1))
   | None => dm1
   end, a).

Definition dm_has_link (n : nat) (dm : dmgr) (n1 n2 domain : string) : dmgr * bool :=
  dm_query dm domain (fun rm => has_link n rm n1 n2).
Definition dm_get_roles (dm : dmgr) (name domain : string) : dmgr * list string :=
  dm_query dm domain (fun rm => get_roles rm name).
Definition dm_get_users (dm : dmgr) (name domain : string) : dmgr * list string :=
  dm_query dm domain (fun rm => get_users rm name).

(* GetDomains(name): the domains in which name has users or roles (map order; compared sorted) *)
Definition dm_get_domains (dm : dmgr) (name : string) : list string :=
  flat_map (fun p =>
              let '(s1, u, _) := get_role (snd p) name in
              let o := obj_of (m_heap s1) u in
              match role_get_users (m_heap s1) o, role_get_roles (m_heap s1) o with
              | [], [] => []
              | _, _ => [fst p]
              end) (d_rms dm).
Definition dm_get_all_domains (dm : dmgr) : list string := map fst (d_rms dm).

(* DomainManager.AddMatchingFunc: every registered manager gets the function and is rebuilt *)
Definition dm_add_matching_func (dm : dmgr) : dmgr :=
  mkDm (map (fun p => (fst p, rm_add_matching_func (snd p))) (d_rms dm)) true (d_dmf dm).

(* DomainManager.rebuild: rmMap := dm.rmMap; Clear; every link of every old manager is added again
   through DomainManager.AddLink *)
Definition dm_rebuild (dm : dmgr) : dmgr :=
  fold_left (fun acc p =>
               fold_left (fun acc2 l => dm_add_link acc2 (fst l) (snd l) (fst p)) (links_of (snd p)) acc)
            (d_rms dm) (dm_clear dm).
(* DomainManager.AddDomainMatchingFunc *)
Definition dm_add_domain_matching_func (dm : dmgr) : dmgr :=
  dm_rebuild (mkDm (d_rms dm) (d_mf dm) true).

Inductive dop :=
| DAdd (u r d : string) | DDel (u r d : string) | DHas (u r d : string)
| DRoles (u d : string) | DUsers (u d : string) | DClear | DAddMF | DAddDMF.

Definition dstep (n : nat) (dm : dmgr) (op : dop) : dmgr * rres :=
  match op with
  | DAdd u r d => (dm_add_link dm u r d, ResUnit)
  | DDel u r d => (dm_delete_link dm u r d, ResUnit)
  | DHas u r d => let '(dm', b) := dm_has_link n dm u r d in (dm', ResBool b)
  | DRoles u d => let '(dm', l) := dm_get_roles dm u d in (dm', ResList l)
  | DUsers u d => let '(dm', l) := dm_get_users dm u d in (dm', ResList l)
  | DClear => (dm_clear dm, ResUnit)
  | DAddMF => (dm_add_matching_func dm, ResUnit)
  | DAddDMF => (dm_add_domain_matching_func dm, ResUnit)
  end.
Definition drun (n : nat) (dm : dmgr) (ops : list dop) : dmgr :=
  fold_left (fun acc op => fst (dstep n acc op)) ops dm.

End WithMatching.

(* ---------- abstraction to the link set of Roles.v ---------- *)
Definition abs_rm (d : string) (s : rmgr) : list link :=
  map (fun l => (fst l, snd l, d)) (links_of s).
Definition abs_dm (dm : dmgr) : list link :=
  flat_map (fun p => abs_rm (fst p) (snd p)) (d_rms dm).

(* no matching function: the Section variables are never consulted *)
Definition no_mf (_ _ : string) : bool := false.

(* ---------- the abstract counterpart of a history (Roles.v) and when two answers agree ---------- *)
Definition astep (n : nat) (d : string) (ls : list link) (op : rop) : list link * rres :=
  match op with
  | RAdd u r => (Roles.add_link (u, r, d) ls, ResUnit)
  | RDel u r => (Roles.del_link (u, r, d) ls, ResUnit)
  | RHas u r => (ls, ResBool (Roles.has_link_n n ls u r d))
  | RRoles u => (ls, ResList (Roles.get_roles ls u d))
  | RUsers u => (ls, ResList (Roles.get_users ls u d))
  | RClear => ([], ResUnit)
  | RAddMF => (ls, ResUnit)          (* outside the guard of the refinement theorem *)
  end.
Definition arun (n : nat) (d : string) (ls : list link) (ops : list rop) : list link :=
  fold_left (fun acc op => fst (astep n d acc op)) ops ls.

Definition adstep (n : nat) (ls : list link) (op : dop) : list link * rres :=
  match op with
  | DAdd u r d => (Roles.add_link (u, r, d) ls, ResUnit)
  | DDel u r d => (Roles.del_link (u, r, d) ls, ResUnit)
  | DHas u r d => (ls, ResBool (Roles.has_link_n n ls u r d))
  | DRoles u d => (ls, ResList (Roles.get_roles ls u d))
  | DUsers u d => (ls, ResList (Roles.get_users ls u d))
  | DClear => ([], ResUnit)
  | DAddMF => (ls, ResUnit)          (* outside the guard *)
  | DAddDMF => (ls, ResUnit)         (* outside the guard *)
  end.
Definition adrun (n : nat) (ls : list link) (ops : list dop) : list link :=
  fold_left (fun acc op => fst (adstep n acc op)) ops ls.

(* listings are compared as duplicate-free sets (Go returns them in map order) *)
Definition res_agree (a b : rres) : Prop :=
  match a, b with
  | ResUnit, ResUnit => True
  | ResBool x, ResBool y => x = y
  | ResList l, ResList l' => NoDup l /\ NoDup l' /\ forall x, In x l <-> In x l'
  | _, _ => False
  end.
Definition plain_rop (op : rop) : Prop := match op with RAddMF => False | _ => True end.
Definition plain_dop (op : dop) : Prop := match op with DAddMF => False | DAddDMF => False | _ => True end.
