(* Meta.v — model for the relational (metamorphic) property C17.
   Definitions only; proofs are in MetaProofs.v.

   The decision of Enforce is modelled as the enforce loop of enforcer.go applied to the
   per-rule vector.  Slot i of the vector is (mt req rule_i, eftcol rule_i) where
     mt : request -> rule -> option bool     is an ARBITRARY per-rule match function
                                             (None = evaluating the matcher on that rule
                                             returns an error / wrong arity / wrong result type)
     eftcol : rule -> eft                    is the p_eft column (Allow when there is none).
   The loop evaluates rule i only when it is reached: it stops at the first rule whose
   merged effect is not Indeterminate, so an evaluation error behind the deciding rule is
   never seen.  `eloop` below is Effect.loop with that lazy evaluation added; it calls the
   very same Effect.merge (model of MergeEffects) on the very same zero-padded arrays. *)
From Coq Require Import List Bool Arith.
Import ListNotations.
From Casbin Require Import Effect.

(* one slot before evaluation: (result of the matcher on rule i, effect column of rule i) *)
Notation oentry := (option bool * eft)%type (only parsing).

(* what the two Go arrays hold for a slot: an erroring slot is never written (the call
   returns first), an unevaluated one keeps matcherResults[i] = 0 *)
Definition force (x : oentry) : entry :=
  (match fst x with Some b => b | None => false end, snd x).
Definition forced (ov : list oentry) : list entry := map force ov.

(* for policyIndex, pvals := range policy {
     result, err := expression.Eval(parameters); if err != nil { return false, err }
     ... matcherResults[i], policyEffects[i] = ...
     effect, explainIndex, err = MergeEffects(expr, policyEffects, matcherResults, i, n)
     if err != nil { return false, err }
     if effect != Indeterminate { break } }
   None = an error was returned *)
Fixpoint eloop (ef : effect_expr) (ov : list oentry) (n fuel i : nat) : option (eft * option nat) :=
  match fuel with
  | 0 => Some (Indet, None)
  | S fuel' =>
      match nth_error ov i with
      | None => None
      | Some (None, _) => None
      | Some (Some _, _) =>
          match merge ef (arr (forced ov) i n) i n with
          | None => None
          | Some r =>
              match fst r with
              | Indet => if Nat.eqb (S i) n then Some r else eloop ef ov n fuel' (S i)
              | _ => Some r
              end
          end
      end
  end.

Definition error_outcome : outcome := {| decision := false; explain := None; failed := true |}.

(* the `policyLen != 0 && strings.Contains(expString, "p_")` branch *)
Definition erun (ef : effect_expr) (ov : list oentry) : outcome :=
  match eloop ef ov (length ov) (length ov) 0 with
  | None => error_outcome
  | Some (e, x) => {| decision := eft_eqb e Allow; explain := x; failed := false |}
  end.

(* the else-branch: one evaluation of the matcher on all-empty policy fields.
   blank = None: that evaluation failed (error, panic of a built-in such as ipMatch on "",
   or a non-boolean result: `result.(bool)` panics and enforce recovers into an error) *)
Definition nopolicy (ef : effect_expr) (blank : option bool) : outcome :=
  match blank with
  | None => error_outcome
  | Some b => stream_nopolicy ef b
  end.

(* enforce on an evaluated-on-demand vector:
     uses_p   = the matcher text contains "p_"
     has_eval = the matcher text contains an eval() call (then an empty policy is an error)
     blank    = result of the matcher on the empty policy fields *)
Definition decide_vec (ef : effect_expr) (uses_p has_eval : bool) (blank : option bool)
           (ov : list oentry) : outcome :=
  match ov with
  | [] => if has_eval then error_outcome else nopolicy ef blank
  | _ :: _ => if uses_p then erun ef ov else nopolicy ef blank
  end.

(* an error-free decision *)
Definition ok (o : outcome) (d : bool) : Prop := failed o = false /\ decision o = d.
(* what the caller of Enforce sees as "allowed": (true, nil) *)
Definition granted (o : outcome) : bool := negb (failed o) && decision o.

(* ---------- closed form of the lazy loop ---------- *)
(* the slot at which the loop of the given effect stops *)
Definition breaker (ef : effect_expr) (x : entry) : bool :=
  match ef with
  | AllowOverride => matched_with Allow x
  | DenyOverride | AllowAndDeny => matched_with Deny x
  | Priority | SubjectPriority => det x
  | Unsupported => false
  end.

(* the run returns an error iff an erroring slot comes before the first stopping slot *)
Fixpoint reaches_error (ef : effect_expr) (ov : list oentry) : bool :=
  match ov with
  | [] => false
  | (None, _) :: _ => true
  | (Some m, e) :: t => if breaker ef (m, e) then false else reaches_error ef t
  end.

Definition evaluated (x : oentry) : bool := match fst x with Some _ => true | None => false end.

(* ---------- decisions over a policy ---------- *)
Section Decide.
  Variables request rule : Type.
  Variable mt : request -> rule -> option bool.
  Variable eftcol : rule -> eft.
  Variable blank_rule : rule.            (* the rule whose fields are all "" *)
  Variables uses_p has_eval : bool.

  Definition vec (policy : list rule) (req : request) : list oentry :=
    map (fun rl => (mt req rl, eftcol rl)) policy.

  Definition decide (ef : effect_expr) (policy : list rule) (req : request) : outcome :=
    decide_vec ef uses_p has_eval (mt req blank_rule) (vec policy req).

  (* guard of the add/remove theorems: the smaller policy is not the empty one, or the
     policy-free branch does not say "true" (or the matcher does not look at the policy) *)
  Definition nonempty_guard (small : list rule) (req : request) : bool :=
    match small with
    | [] => negb uses_p || match mt req blank_rule with Some true => false | _ => true end
    | _ :: _ => true
    end.
End Decide.

(* ---------- the policy store as an ordered set (model/policy.go without priority column) ---------- *)
Section Store.
  Variable rule : Type.
  Variable rule_eq_dec : forall a b : rule, {a = b} + {a <> b}.

  Definition has_rule (r : rule) (p : list rule) : bool :=
    existsb (fun x => if rule_eq_dec r x then true else false) p.
  (* AddPolicy: refused when listed, otherwise appended *)
  Definition store_add (r : rule) (p : list rule) : list rule :=
    if has_rule r p then p else p ++ [r].
  (* RemovePolicy: the (unique) listed occurrence is cut out, order of the rest kept *)
  Fixpoint store_remove (r : rule) (p : list rule) : list rule :=
    match p with
    | [] => []
    | x :: t => if rule_eq_dec r x then t else x :: store_remove r t
    end.
End Store.

(* ---------- histories of store operations ---------- *)
(* The listed rules of one policy type / role definition after a history of AddPolicy /
   RemovePolicy (AddGroupingPolicy / RemoveGroupingPolicy) calls, on the ordered-set semantics
   above.  Two histories can reach the same SET of listed rules in different orders and through
   different detours (rules added and removed again, links that were redundant when added). *)
Section History.
  Variable A : Type.
  Variable A_eq_dec : forall a b : A, {a = b} + {a <> b}.

  Inductive hop := HAdd (x : A) | HRemove (x : A).

  Definition hstep (l : list A) (o : hop) : list A :=
    match o with
    | HAdd x => store_add A A_eq_dec x l
    | HRemove x => store_remove A A_eq_dec x l
    end.

  (* the list after the history h, starting from l *)
  Definition hrun (h : list hop) (l : list A) : list A := fold_left hstep h l.
End History.

(* ---------- matchers with role links ---------- *)
Section Matcher.
  Variables request rule garg linkset : Type.

  (* matcher syntax as far as role links are concerned: conjunction, disjunction, negation,
     calls g(...) of a role-link function, and atoms = any sub-expression without g
     (comparisons, keyMatch*, regexMatch, ipMatch, globMatch, user functions, `in`, ...) *)
  Inductive mexpr :=
  | MAnd (a b : mexpr)
  | MOr (a b : mexpr)
  | MNot (a : mexpr)
  | MG (sel : request -> rule -> option garg)
  | MAtom (f : request -> rule -> option bool).

  (* g : does the link set derive the queried relation?  (HasLink of the role manager) *)
  Variable g : linkset -> garg -> bool.

  (* govaluate: && and || short-circuit from the left; an error anywhere that is evaluated
     aborts the evaluation; casbin's g() itself never returns an error *)
  Fixpoint meval (L : linkset) (e : mexpr) (req : request) (rl : rule) : option bool :=
    match e with
    | MAnd a b => match meval L a req rl with
                  | None => None
                  | Some false => Some false
                  | Some true => meval L b req rl
                  end
    | MOr a b => match meval L a req rl with
                 | None => None
                 | Some true => Some true
                 | Some false => meval L b req rl
                 end
    | MNot a => option_map negb (meval L a req rl)
    | MG sel => option_map (g L) (sel req rl)
    | MAtom f => f req rl
    end.

  Fixpoint gfree (e : mexpr) : bool :=
    match e with
    | MAnd a b | MOr a b => gfree a && gfree b
    | MNot a => gfree a
    | MG _ => false
    | MAtom _ => true
    end.

  (* negation-free as far as links are concerned: no g() call below a negation *)
  Fixpoint positive (e : mexpr) : bool :=
    match e with
    | MAnd a b | MOr a b => positive a && positive b
    | MNot a => gfree a
    | MG _ | MAtom _ => true
    end.
End Matcher.

(* ---------- the default role manager without patterns: bounded frontier search ---------- *)
Section Links.
  Variable name : Type.
  Variable name_eqb : name -> name -> bool.

  (* role.roles of the node x, read off the listed links *)
  Definition succs (L : list (name * name)) (x : name) : list name :=
    map snd (filter (fun l => name_eqb (fst l) x) L).

  (* hasLinkHelper(target, frontier, level): level+1 frontiers are inspected *)
  Fixpoint reach (L : list (name * name)) (level : nat) (frontier : list name) (target : name) : bool :=
    existsb (name_eqb target) frontier ||
    match level with
    | 0 => false
    | S k => reach L k (flat_map (succs L) frontier) target
    end.

  Definition max_hierarchy_level := 10.

  (* RoleManagerImpl.HasLink without matching function *)
  Definition has_link (L : list (name * name)) (a : name * name) : bool :=
    name_eqb (fst a) (snd a) || reach L max_hierarchy_level [fst a] (snd a).

  (* DomainManager.HasLink without domain matching function: one RoleManagerImpl per domain *)
  Variable dom : Type.
  Variable dom_eqb : dom -> dom -> bool.
  Definition links_of (L : list (name * name * dom)) (d : dom) : list (name * name) :=
    map fst (filter (fun l => dom_eqb (snd l) d) L).
  Definition has_link_dom (L : list (name * name * dom)) (a : name * name * dom) : bool :=
    has_link (links_of L (snd a)) (fst a).
End Links.
